"""C20 - images fit their box, keep their aspect and reproduce their pixels."""
import concurrent.futures as cf
import copy
import json
import os

import vcheck

SELFTEST = {"multi": [
    {"Kind": "fit", "Proto": "half", "Cols": 10, "Rows": 4, "CW": 8, "CH": 16,
     "Fits": [{"IW": 6, "IH": 8, "BW": 3, "BH": 4}]},
    {"Kind": "block", "Proto": "half", "Cols": 10, "Rows": 4, "CW": 8, "CH": 16,
     "Blocks": [{"Chain": [{"M": "new", "C": 1, "R": 1, "W": 4, "H": 2}], "W": 2, "H": 2,
                 "Px": [0xC80A0AFF, 0x5AB42DFF, 0x010203FF, 0xFFFFFF00]}]},
    {"Kind": "hist", "Proto": "kitty", "Cols": 10, "Rows": 5, "CW": 8, "CH": 16, "Imgs": [[32, 32]], "Frames": [
        {"Ops": [{"K": "resize", "I": 0, "BW": 4, "BH": 2}], "End": "render"},
        {"Ops": [{"K": "clear"}, {"K": "draw", "I": 0, "Chain": [{"M": "new", "C": 1, "R": 1, "W": 6, "H": 3}]}], "End": "render"},
        {"Ops": [{"K": "clear"}, {"K": "draw", "I": 0, "Chain": [{"M": "new", "C": 1, "R": 1, "W": 6, "H": 3}]}], "End": "render"}]},
]}


def sig_of(rej, scn=None):
    det = rej.get("det") or ""
    return "C20:%s:%s:%s%s" % (rej.get("kind"), rej.get("proto"), rej.get("why"), (":" + det) if det else "")


def reduce_record(scn, rej):
    """fit and block records are independent: replay only the rejected one."""
    s = dict(scn)
    d = copy.deepcopy(scn["desc"])
    n = rej.get("n", -1)
    if d.get("Kind") == "fit" and 0 <= n < len(d.get("Fits") or []):
        d["Fits"] = [d["Fits"][n]]
        s["nev"] = 1
    elif d.get("Kind") == "block" and 0 <= n < len(d.get("Blocks") or []):
        d["Blocks"] = [d["Blocks"][n]]
        s["nev"] = 1
    elif d.get("Kind") == "hist" and 0 <= n < len(d.get("Frames") or []):
        d["Frames"] = d["Frames"][:n + 1]
        s["nev"] = n + 1
    s["desc"] = d
    return s


def binding_selftest(c, drv, specs):
    """Vacuity guard: known-good records are accepted, and each of them with ONE recorded field
    changed is rejected."""
    rp = os.path.join(c.scratch, "selftest.json")
    json.dump(SELFTEST, open(rp, "w"))
    td = c.drive(drv, "c20", sub="selftest", replay=rp, shards=1)
    lines = [json.loads(x) for x in open(os.path.join(td, "shard00.ndjson"))]

    def m_fit(evs):
        e = [x for x in evs if x["ev"] == "fit"][0]
        e["ow"] += 1                       # the logged cell width is one more than reported

    def m_pixel(evs):
        e = [x for x in evs if x["ev"] == "bcheck"][0]
        e["px"][0][1] += 257               # the logged source pixel is one green level brighter

    def m_want(evs):
        e = [x for x in evs if x["ev"] == "gframe"][-1]
        e["want"][0]["chain"][0]["c"] += 1  # the logged window is one column further right

    def m_epoch(evs):
        # a second put of the unchanged placement appears in the last frame's output
        put = [x for x in evs if x["ev"] == "kgfx" and x["a"] == "p"][0]
        cup = [x for x in evs if x["ev"] == "cup"][0]
        k = max(i for i, x in enumerate(evs) if x["ev"] == "gframe")
        evs[k:k] = [dict(cup, r=2, c=2), dict(put)]

    variants = [("good", None), ("fit-size", m_fit), ("pixel", m_pixel), ("window", m_want), ("retransmit", m_epoch)]
    d = os.path.join(c.scratch, "selftest-variants")
    os.makedirs(d, exist_ok=True)
    for i, (name, mutate) in enumerate(variants):
        evs = copy.deepcopy(lines)
        if mutate:
            mutate(evs)
        with open(os.path.join(d, "shard%02d.ndjson" % i), "w") as f:
            for e in evs:
                e["scn"] = i
                f.write(json.dumps(e) + "\n")
    json.dump({"scenarios": len(variants), "events": len(lines) * len(variants), "shards": len(variants),
               "lines": [len(lines) + 2] * len(variants)}, open(os.path.join(d, "meta.json"), "w"))
    cov = copy.deepcopy(c.cov)
    rej, _ = c.validate_traces(specs, "Gfx_Trace.tla", "Gfx_Trace.cfg", d, label="selftest")
    c.cov = cov
    hit = {r["scn"] for r in rej}
    if 0 in hit:
        # the library misbehaves on the reference scenario itself: the main run below reports that;
        # it is a tool failure only if the main run then rejects nothing
        c.notes.append("binding self-test skipped: the reference scenario is rejected on this tree")
        return False
    for i, (name, _) in enumerate(variants[1:], 1):
        if i not in hit:
            raise vcheck.Inconclusive("binding self-test: corrupted field '%s' was accepted (vacuous trace spec)" % name)
    c.notes.append("binding self-test: reference trace accepted; 4/4 single-field corruptions (reported cell width, source "
                   "pixel, window offset, an extra put of an unchanged placement) rejected")
    return True


def heap(mb):
    """Cap the JVM heap of the TLC runs that follow (many run side by side on a shared machine)."""
    os.environ["JAVA_TOOL_OPTIONS"] = "-Xmx%dm" % mb


def main(c):
    drv = c.build()
    specs = c.stage_specs("term", "clip", "gfx")
    c.assumptions += [
        "trusted base: harness lexer, TLC, RefTerm/GfxTerm reference terminals, Go's image/png header decoder, "
        "x/image nearest-neighbour resampling and the PNG/sixel encoders (pixel content of scaled images is not judged)",
        "block-image colours are judged on images that fit their box (unscaled), on an RGB-capable terminal; the source "
        "pixels are what the source image (NRGBA, RGBA, 64-bit, paletted, gray, CMYK, YCbCr, a foreign image type; at (0,0) "
        "or a crop that kept its coordinates) reports through At().RGBA() inside its bounds, counted from Bounds().Min",
        "image size = Bounds().Dx() x Bounds().Dy()",
        "two Resize calls in a row: the image of the second call is the one to show: CellSize() is a fit of the second "
        "box (kitty, sixel) and the transmitted PNG has that size (kitty; a sixel transmission does not tell its size)",
        "sufficiently transparent = 8-bit alpha below 50 (the library's documented threshold)",
        "the colour of a pixel is its straight colour: a pixel whose channels are the premultiplied form of 8-bit straight "
        "values (any 8-bit straight-alpha source, every alpha level) is shown with exactly those values; for other pixels "
        "either 8-bit neighbour of c*255/a is accepted",
        "a full-block cell covering one sufficiently transparent and one visible pixel shows the default colour or exactly "
        "the visible pixel's colour (which of the two is left open)",
        "a Resize that leaves the image less than one pixel high or wide may or may not produce a drawable image and a "
        "Redraw: only what is displayed afterwards is judged (it is what CellSize() reports, inside the window)",
        "a change of the cell pixel size alone (same columns and rows) is reported in band like any size change; images "
        "resized afterwards are measured in the new cells (kitty: the transmitted PNG; sixel sizes are not visible)",
        "a sixel image occupies the cells the library reports for it; kitty images occupy the cells of the PNG they transmit",
        "aspect kept to within one cell: some scale s has |ow - s*iw/cw| <= 1 and |oh - s*ih/ch| <= 1",
    ]
    selftest_ok = True
    heap(4096)
    if not c.replay:
        runs = [("MC_Gfx.tla", "MC_Fit.cfg"), ("MC_Gfx.tla", "MC_Place.cfg"), ("MC_Enc.tla", "MC_Enc.cfg"),
                ("MC_Chan.tla", "MC_Chan.cfg")]
        if c.tier != "quick":
            runs += [("MC_Gfx.tla", "MC_Fit_deep.cfg"), ("MC_Gfx.tla", "MC_Place_deep.cfg")]
        with cf.ThreadPoolExecutor(max_workers=4) as ex:
            list(ex.map(lambda r: c.model_check(specs, r[0], r[1], workers=4), runs))
        for m in c.cov["models"]:
            if not m["ok"]:
                c.notes.append("MODEL-DRIFT candidate: %s/%s reports an invariant violation (not a verdict)" % (m["model"], m["cfg"]))
        heap(1536)
        selftest_ok = binding_selftest(c, drv, specs)
    heap(1536)
    td = c.drive(drv, "c20", replay=c.replay, shards=16 if c.tier == "quick" else 48)
    rejects, _ = c.validate_traces(specs, "Gfx_Trace.tla", "Gfx_Trace.cfg", td)
    idx = c.load_index(td)
    n = {"fit": 0, "block": 0, "hist_frames": 0}
    per = {}
    seen = set()
    aborted = 0
    for s in idx.values():
        d = s["desc"]
        n["fit"] += len(d.get("Fits") or [])
        n["block"] += len(d.get("Blocks") or [])
        n["hist_frames"] += len(d.get("Frames") or [])
        k = "%s:%s" % (d["Kind"], d["Proto"])
        per[k] = per.get(k, 0) + len(d.get("Fits") or []) + len(d.get("Blocks") or []) + len(d.get("Frames") or [])
        for f in d.get("Fits") or []:
            seen.add(("fit", d["Proto"], d["CW"], d["CH"], json.dumps(f, sort_keys=True)))
        for b in d.get("Blocks") or []:
            seen.add(("block", d["Proto"], json.dumps(b, sort_keys=True)))
        if d["Kind"] == "hist":
            seen.add(("hist", json.dumps(d, sort_keys=True)))
        if (s.get("note") or "").startswith("abort"):
            aborted += 1
    c.cov["evaluations"] = n["fit"] + n["block"] + n["hist_frames"]
    c.cov["distinct_nontrivial"] = len(seen)
    c.cov["records"] = n
    c.cov["records_by_kind_and_protocol"] = per
    if aborted:
        c.notes.append("%d history scenario(s) abandoned by the driver (no completion event in time); not judged" % aborted)
    vals = list(idx.values())
    for kind in ("fit", "block", "hist"):
        for s in vals:
            if s["desc"]["Kind"] == kind:
                d = dict(s["desc"])
                for f in ("Fits", "Blocks", "Frames"):
                    if d.get(f):
                        d[f] = d[f][:2]
                c.sample({"scenario_head": d})
                break
    cands = [(sig_of(r), r, reduce_record(idx[r["scn"]], r)) for r in rejects]
    c.confirm(drv, "c20", specs, "Gfx_Trace.tla", "Gfx_Trace.cfg", cands, sig_of)
    if not selftest_ok and not c.violations and not c.known_seen:
        raise vcheck.Inconclusive("binding self-test: the reference scenario is rejected but the main run rejects nothing")
    return c.finish(
        rule="evaluation = one fit record (protocol x cell geometry x image size x box), one block-image draw (pixels x "
             "window) or one frame of a placement history; fit: block protocols enumerate every image 1..12 x 1..24 px and "
             "box 1..12 x 1..12 (thorough: all 2 x 41472, quick: seeded 5%), kitty/sixel sample image sizes 1..12 cells x 3 "
             "cell geometries; block: every alpha level 0..255 (quick: boundary levels + seeded) x colour sample x "
             "top/bottom position x 11 kinds of source image x origin; histories: seeded add/keep/move/resize/drop over <= 3 "
             "images with Render/Refresh/terminal resize for kitty and sixel, kitty histories with two Resize calls in a row "
             "(long then short encoding and the reverse); one record in four uses an image whose bounds do not start at "
             "(0,0); follow-up families: semi-transparent pixels of known straight colour in 7 kinds of source and cells "
             "over one transparent and one visible pixel; fits of images 100:1 / 1:100 and beyond into boxes one cell high "
             "or wide; histories whose image is resized into a box that leaves it less than one pixel thick; histories in "
             "which the cell pixel size changes (same columns and rows) and the images are resized again; "
             "distinct = distinct records / history descriptors")
