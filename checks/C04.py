"""C04 - terminal state is restored on every exit path."""
import vselftest
from checks import selfmut
import json
import os
from concurrent.futures import ThreadPoolExecutor


def model_checks(c, specs, jobs):
    """jobs: (tla, cfg, workers, expect_violation). The TLC runs go side by side (a JVM start costs seconds);
    model_check's bookkeeping is then done one after the other on their outputs. Returns {cfg: ok}."""
    real = c._tlc

    def one(j):
        return real(specs, j[0], j[1], {}, j[2], os.path.join(c.scratch, "mcp-" + os.path.splitext(j[1])[0]), 3000,
                    ("-noGenerateSpecTE",))
    with ThreadPoolExecutor(len(jobs)) as ex:
        outs = dict(zip([(j[0], j[1]) for j in jobs], ex.map(one, jobs)))
    c._tlc = lambda specdir, tla, cfg, *a, **k: outs[(tla, cfg)]
    try:
        return {j[1]: c.model_check(specs, j[0], j[1], workers=j[2], expect_violation=j[3])[0] for j in jobs}
    finally:
        del c._tlc


def desc_env(scn):
    """names of the environment options the session ran under"""
    return ",".join(sorted(e.split("=", 1)[0] for e in (scn["desc"].get("Env") or [])))


def sig_of(rej, scn):
    steps = scn["desc"].get("Steps") or []
    # the older signal steps share the path "kill"; the later ones (a signal beside a frame, beside a cursor
    # change, during Suspend, ...) are named: a different schedule is a different way to go wrong
    old_kill = ("kill", "kill3", "killrender", "killclose")
    named = [s.rstrip("0123456789") for s in steps if s.startswith("kill") and s not in old_kill]
    path = "panic" if any(s.startswith("panic") for s in steps) else named[0] if named else "kill" if any(s.startswith("kill") for s in steps) else "close"
    env = desc_env(scn)
    if env:
        path += "+env:" + env
    flood = "+pending-input" if any(s in ("panic3", "kill3") for s in steps) else ""
    det = "+".join(sorted(rej.get("detail") or []))
    if rej.get("why") == "hang":
        return "C04:hang:%s:%s%s" % (rej.get("at"), path, flood)
    return "C04:%s:%s:%s%s" % (rej.get("why"), rej.get("at"), path, flood)


def main(c):
    drv = c.build()
    specs = c.stage_specs("term", "life")
    c.assumptions += [
        "the terminal's initial pointer shape is 'text' (xterm default); the initial pen is the default pen",
        "a terminal that does not answer the cursor-style query starts with the default cursor style",
        "kill = SIGTERM delivered to a child process running the session; panic = fault injected at the verif hook before an input sequence is handled",
        "the signal path's Close has returned once the console is closed; a closed console receives nothing",
        "the library's environment options (VAXIS_FORCE_*) count as configuration: the statement speaks of every mode Vaxis changes when it starts",
    ]
    if not c.replay:
        # the repaired shape under every configuration and under the environment options; the four as-found
        # shapes (modes pre-set at start reset on exit; environment options applied after the modes were
        # enabled; a signal's Close between the halves of a frame; a signal's Close inside Suspend) must violate
        oks = model_checks(c, specs, [
            ("Lifecycle.tla", "MC_Lifecycle.cfg", 8, False),
            ("Lifecycle.tla", "MC_Lifecycle_quirks.cfg", 4, False),
            ("Lifecycle.tla", "MC_Lifecycle_prefix.cfg", 2, True),
            ("Lifecycle.tla", "MC_Lifecycle_quirkslate.cfg", 2, True),
            ("Lifecycle.tla", "MC_Lifecycle_sigframe.cfg", 2, True),
            ("Lifecycle.tla", "MC_Lifecycle_sigsuspend.cfg", 2, True),
        ])
        for k in ("MC_Lifecycle.cfg", "MC_Lifecycle_quirks.cfg"):
            if not oks[k]:
                c.notes.append("the Lifecycle model (repaired shape) violates an invariant under %s: a spec bug or a candidate to replay" % k)
        c.cov["prefix_model_violated_as_expected"] = not oks["MC_Lifecycle_prefix.cfg"]
        c.cov["asfound_models_violated_as_expected"] = {
            k: not oks["MC_Lifecycle_%s.cfg" % k] for k in ("prefix", "quirkslate", "sigframe", "sigsuspend")}
        if not all(c.cov["asfound_models_violated_as_expected"].values()):
            c.notes.append("an as-found shape of the Lifecycle model no longer violates: %s" % c.cov["asfound_models_violated_as_expected"])
    td = c.drive(drv, "c04", replay=c.replay)
    rejects, _ = c.validate_traces(specs, "Modes_Trace.tla", "Modes_Trace.cfg", td)
    if not c.replay:
        c.cov["binding_selftest"] = vselftest.run(c, specs, "Modes_Trace.tla", "Modes_Trace.cfg", td, {r["scn"] for r in rejects}, [
            ("alternate screen not left", selfmut.altscreen_left_on),
            ("cursor left hidden", selfmut.cursor_left_hidden),
            ("kitty keyboard flags not popped", selfmut.kitty_not_popped),
            ("hyperlink left open", selfmut.hyperlink_left_open),
            ("mode 2027 left set", selfmut.unicode_core_left_set),
        ])
    idx = c.load_index(td)
    c.count_distinct(idx)
    for s in list(idx.values())[:3]:
        c.sample({"scenario": s["desc"]})
    cands = [(sig_of(r, idx[r["scn"]]), r, idx[r["scn"]]) for r in rejects]
    # the steps that put a signal beside a frame depend on the goroutine schedule: up to three of the
    # rejected scenarios of a signature are re-run
    c.confirm(drv, "c04", specs, "Modes_Trace.tla", "Modes_Trace.cfg", cands, sig_of, tries=3)
    return c.finish(
        rule="scenario = capability set (8 mode-relevant bits) x DisableMouse x DisableKittyKeyboard x start table "
             "(kitty stack, cursor style, pre-set 2027/2031) x session template (frames, cursor/pointer changes, "
             "Suspend/Resume cycles, Close, second Close, SIGTERM, injected panic, each also with pending input; SIGTERM "
             "beside a frame on a slow terminal, at the start of and beside a large frame with hyperlinks, beside a "
             "cursor change, before a late frame, inside Suspend), and capability set x environment option "
             "(VAXIS_FORCE_WCWIDTH / _NOZWJ / _UNICODE, set for the child process of that session only) x session; "
             "quick: 48+10+10 configurations, thorough: all 1024 (+256 under the environment options); "
             "distinct = distinct descriptor",
        exhaustive=(c.tier == "thorough"))
