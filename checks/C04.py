"""C04 - terminal state is restored on every exit path."""
import vselftest
from checks import selfmut
import json


def sig_of(rej, scn):
    steps = scn["desc"].get("Steps") or []
    path = "panic" if any(s.startswith("panic") for s in steps) else "kill" if any(s.startswith("kill") for s in steps) else "close"
    flood = "+pending-input" if any(s in ("panic3", "kill3") for s in steps) else ""
    det = "+".join(sorted(rej.get("detail") or []))
    if rej.get("why") == "hang":
        return "C04:hang:%s:%s%s" % (rej.get("at"), path, flood)
    return "C04:%s:%s:%s%s" % (rej.get("why"), rej.get("at"), path, flood)


def main(c):
    drv = c.build()
    specs = c.stage_specs("term", "life")
    c.assumptions += [
        "the terminal's initial pointer shape is 'text' (xterm default); the initial pen is the default pen",
        "a terminal that does not answer the cursor-style query starts with the default cursor style",
        "kill = SIGTERM delivered to a child process running the session; panic = fault injected at the verif hook before an input sequence is handled",
    ]
    if not c.replay:
        c.model_check(specs, "Lifecycle.tla", "MC_Lifecycle.cfg", workers=16)
        ok, _ = c.model_check(specs, "Lifecycle.tla", "MC_Lifecycle_prefix.cfg", workers=4, expect_violation=True)
        c.cov["prefix_model_violated_as_expected"] = not ok
    td = c.drive(drv, "c04", replay=c.replay)
    rejects, _ = c.validate_traces(specs, "Modes_Trace.tla", "Modes_Trace.cfg", td)
    if not c.replay:
        c.cov["binding_selftest"] = vselftest.run(c, specs, "Modes_Trace.tla", "Modes_Trace.cfg", td, {r["scn"] for r in rejects}, [
            ("alternate screen not left", selfmut.altscreen_left_on),
            ("cursor left hidden", selfmut.cursor_left_hidden),
            ("kitty keyboard flags not popped", selfmut.kitty_not_popped),
        ])
    idx = c.load_index(td)
    c.count_distinct(idx)
    for s in list(idx.values())[:3]:
        c.sample({"scenario": s["desc"]})
    cands = [(sig_of(r, idx[r["scn"]]), r, idx[r["scn"]]) for r in rejects]
    c.confirm(drv, "c04", specs, "Modes_Trace.tla", "Modes_Trace.cfg", cands, sig_of)
    return c.finish(
        rule="scenario = capability set (8 mode-relevant bits) x DisableMouse x DisableKittyKeyboard x start table "
             "(kitty stack, cursor style, pre-set 2027/2031) x session template (frames, cursor/pointer changes, "
             "Suspend/Resume cycles, Close, second Close, SIGTERM, injected panic, each also with pending input); "
             "quick: 48+10 configurations, thorough: all 1024; distinct = distinct descriptor",
        exhaustive=(c.tier == "thorough"))
