"""C07 - only advertised terminal features are used; fallbacks are faithful."""
import vselftest
from checks import selfmut
import json


def sig_of(rej, scn):
    why = rej.get("why")
    det = rej.get("detail")
    if why == "not-advertised":
        return "C07:not-advertised:%s:%s" % (det.get("cmd"), "+".join(sorted(det.get("need") or [])))
    if why == "accessors":
        if ";" in ((scn or {}).get("desc") or {}).get("AppID", ""):
            return "C07:accessors:%s:reply-id-with-semicolon" % "+".join(sorted(det or []))
        return "C07:accessors:%s" % "+".join(sorted(det or []))
    if why and why.startswith("frame-text-"):
        # a row drawn by a widget of the library: which cell fails first says nothing (a wrongly measured row
        # shifts and wraps); name the widgets of the session instead
        ks = {op["K"] for f in ((scn or {}).get("desc") or {}).get("Frames", []) for op in f.get("Ops") or []}
        return "C07:%s:%s" % (why, "+".join(sorted(ks & {"pager", "input"})))
    if why == "unknown-vocabulary":
        return "C07:unknown-vocabulary:%s" % str(det)[:40]
    if why and why.startswith("frame-"):
        fields = sorted(det[3]) if isinstance(det, list) and len(det) == 4 else []
        return "C07:%s:%s" % (why, "+".join(fields))
    if why == "not-nearest":
        return "C07:palette:not-nearest"
    return "C07:%s" % why


def text_cluster_width(evs):
    """the first cluster of a widget row is logged one column wider than the terminal made it"""
    for e in reversed(evs):
        if e.get("ev") == "frame" and e.get("texts"):
            e["texts"][0]["cells"][0][8] += 1
            return evs
    return None


def main(c):
    drv = c.build()
    specs = c.stage_specs("term", "life")
    c.assumptions += [
        "baseline vocabulary = xterm: CUP, SGR 4/8-bit colours, DECSET 1/25/1002-1006/1049/2004, DECKPAM/DECKPNM, DECSCUSR, OSC 8, OSC 22, DA1, DSR 6",
        "start-up probes (queries, the blind DECSET 2048, the OSC 66 width probe) are allowed before the handshake ends",
        "palette distance in exact integers (900,3481,121); any entry at minimal distance is accepted",
        "what the replies establish depends neither on the size of the application's event queue (Options.EventQueueSize) "
        "nor on the letter case of hexadecimal strings in replies (xterm ctlseqs: 'hexadecimal', no case prescribed)",
        "text handed to a widget of the library (widgets/pager, widgets/textinput) is laid out by the library: every cluster must be "
        "displayed directly behind the one before it, each as wide as the advertised terminal makes it (texts far narrower than the "
        "window: wrapping, truncation and scrolling are not judged); the text input's cursor belongs in the column behind its content",
        "an application id reported in the OSC 176 reply may be any string (foot ctlseqs: no character is excluded)",
        "the name in the XTVERSION reply is a reply to a start-up query: 'tmux 3.4' counts as advertising Unicode core; whether "
        "mode 2027 is then set by New (it is not) and reset on Close is not judged: used-only-when-advertised is all the text demands",
    ]
    if not c.replay:
        # the palette theorem and the start-up handshake models (repaired shape: exact for every queue capacity; the two
        # shapes as found - report awaited before the queue is read, OSC 176 reply posted without blocking - are refuted)
        from concurrent.futures import ThreadPoolExecutor
        models = [("MC_Palette.tla", "MC_Palette.cfg" if c.tier == "quick" else "MC_Palette_deep.cfg", 8, False),
                  ("MC_CapsHandshake.tla", "MC_CapsHandshake.cfg", 4, False),
                  ("MC_CapsHandshake.tla", "MC_CapsHandshake_asfound.cfg", 1, True),
                  ("MC_CapsHandshake.tla", "MC_CapsHandshake_lossy.cfg", 1, True)]
        with ThreadPoolExecutor(len(models)) as ex:
            res = list(ex.map(lambda m: c.model_check(specs, m[0], m[1], workers=m[2], expect_violation=m[3])[0], models))
        c.cov["models"].sort(key=lambda st: (st["model"], st["cfg"]))
        c.cov["states"] = sum(st.get("states", 0) for st in c.cov["models"])
        c.cov["transitions"] = sum(st.get("transitions", 0) for st in c.cov["models"])
        c.cov["handshake_model_exact_for_every_queue_size"] = bool(res[1])
        c.cov["handshake_as_found_shapes_refuted"] = int(not res[2]) + int(not res[3])
        if not res[1]:
            c.notes.append("MODEL: MC_CapsHandshake (repaired shape) violates an invariant")
    replay_kind = None
    if c.replay:
        d = json.load(open(c.replay))
        first = (d.get("multi") or [d])[0]
        replay_kind = "pal" if "Bs" in first else "session"
    total_rej = []
    if replay_kind in (None, "session"):
        td = c.drive(drv, "c07", replay=c.replay, sub="sessions")
        rejects, _ = c.validate_traces(specs, "Caps_Trace.tla", "Caps_Trace.cfg", td)
        if not c.replay:
            c.cov["binding_selftest"] = vselftest.run(c, specs, "Caps_Trace.tla", "Caps_Trace.cfg", td, {r["scn"] for r in rejects}, [
                ("same session, nothing advertised", selfmut.nothing_advertised),
                ("capability accessor flipped", selfmut.accessor_flipped),
                ("frame: glyph of cell (0,0)", selfmut.frame_glyph()),
                ("widget row: logged width of its first cluster", text_cluster_width),
            ])
        idx = c.load_index(td)
        c.count_distinct(idx)
        for s in list(idx.values())[:2]:
            c.sample({"session": s["desc"]})
        cands = [(sig_of(r, idx[r["scn"]]), r, idx[r["scn"]]) for r in rejects]
        c.confirm(drv, "c07", specs, "Caps_Trace.tla", "Caps_Trace.cfg", cands, sig_of)
    if replay_kind in (None, "pal"):
        tp = c.drive(drv, "c07pal", replay=c.replay, sub="palette")
        rejects, _ = c.validate_traces(specs, "Palette_Trace.tla", "Palette_Trace.cfg", tp)
        idxp = c.load_index(tp)
        c.count_distinct(idxp, nontrivial=lambda s: True)
        meta = json.load(open(tp + "/meta.json"))
        c.cov["palette_colours_checked"] = sum(len(s["desc"]["Bs"]) for s in idxp.values())
        c.sample({"palette_row": list(idxp.values())[0]["desc"]})
        cands = [(sig_of(r, idxp[r["scn"]]), r, idxp[r["scn"]]) for r in rejects]
        c.confirm(drv, "c07pal", specs, "Palette_Trace.tla", "Palette_Trace.cfg", cands, sig_of)
    return c.finish(
        rule="session = advertised feature subset (15 features; quick: every single feature with both ways of advertising it, "
             "every pair, empty/full, 150 random subsets; thorough: all 2^15) x start-up, three frames exercising RGB/underline/"
             "width fallbacks, Close; plus terminal-name / DA1-class sessions, sessions with event queues of 1..16 entries and "
             "sessions whose XTGETTCAP / tertiary-DA replies use lower- or mixed-case hex digits, sessions drawing method-dependent clusters through "
             "the pager / text input widgets (each also as the second Vaxis of its process, after one on a terminal measuring the other way), sessions whose OSC 176 reply carries ids with semicolons; palette = RGB->index fallback for a boundary-rich grid (quick) or all 2^24 colours (thorough), "
             "256 colours per event; distinct = distinct descriptor",
        exhaustive=(c.tier == "thorough"))
