"""C05 - the embedded terminal never crashes or hangs on child output."""
from checks import emu_common

SAFE = ("EmuSafe_Trace.tla", "EmuSafe_Trace.cfg")
DRAW = ("EmuDraw_Trace.tla", "EmuDraw_Trace.cfg")


# few JVMs for small families: a TLC start costs more than validating a few thousand events
SHARDS = {"quick": {"state": 8, "draw": 6, "stall": 1}, "thorough": {"state": 16, "draw": 16, "stall": 2}}


def sig_of(rej, scn):
    return "C05:%s:%s" % (rej.get("why"), rej.get("k"))


def spec_for(fam):
    return DRAW if fam == "draw" else SAFE


def main(c):
    drv = c.build()
    specs = c.stage_specs("term", "emu")
    c.assumptions += [
        "bytes reach the emulator through the library's own parser (ansi.Parser); a parse in which its 10 ms ESC timer fired is repeated",
        "state clauses are observed through the verif-tagged feed/snapshot hooks after every parsed sequence; the event-stall clause on the "
        "real StartWithSize goroutine with a real PTY child (bound 8 s per run, repeated once before it counts)",
        "resizes concurrent with child output: the exported Resize called from the host goroutine while a real PTY child writes without "
        "pause (the scheduler interleaves them); the stream counts as processed when a marker printed after the last resize reaches the "
        "screen (bound 6 s, repeated once before it counts; run in a child process because the race can kill the process)",
        "Draw clause: host = real Vaxis on the fake console, output judged by the RefTerm reference terminal (C01); window sizes from 1x1",
        "a sequence that makes no progress for 15 s counts as blocking; sixel strings (device control strings with final q): 5 s per "
        "sequence, in child processes that are replaced after a hang. Generated sixel numbers are boundary values up to 65536 and "
        "values from 10^14 upward; the range between (an emulator without bounds would really allocate gigabytes) is not generated",
        "replies to the child: a child in raw mode writes 20000 (thorough: up to 200000) requests for a report without reading the "
        "answers, prints a marker and stays alive; the stream counts as processed when the marker reaches the screen (bound 8 s, "
        "repeated once before it counts). That replies which the child never reads may be lost is not judged",
    ]
    if not c.replay:
        c.model_check(specs, "MC_EmuImpl.tla", "MC_EmuImpl.cfg" if c.tier == "quick" else "MC_EmuImpl_deep.cfg", workers=8)
        if c.tier != "quick":
            c.model_check(specs, "MC_EmuImpl.tla", "MC_EmuImpl_full.cfg", workers=8)
        # the small models of the PTY goroutine run side by side (each is a JVM start and a few thousand states):
        # (model, configuration, a violation is expected)
        small = [
            ("MC_EmuEvents.tla", "MC_EmuEvents.cfg", False),
            ("MC_EmuEvents.tla", "MC_EmuEvents_nodrain.cfg", True),
            # a host's Resize interleaved with update() on the PTY goroutine: safe with the mutex, an out-of-range index without
            ("MC_EmuEventsResize.tla", "MC_EmuEventsResize.cfg", False),
            ("MC_EmuEventsResize.tla", "MC_EmuEventsResize_nolock.cfg", True),
            # replies to a child that does not read them: queued and written by a goroutine of their own, or written by
            # the PTY goroutine itself (which then blocks with the child's output unread)
            ("MC_EmuEventsReplies.tla", "MC_EmuEventsReplies.cfg", False),
            ("MC_EmuEventsReplies.tla", "MC_EmuEventsReplies_sync.cfg", True),
        ]
        from concurrent.futures import ThreadPoolExecutor
        with ThreadPoolExecutor(len(small)) as ex:
            res = list(ex.map(lambda m: c.model_check(specs, m[0], m[1], workers=2, expect_violation=m[2])[0], small))
        c.cov["models"].sort(key=lambda st: (st["model"], st["cfg"]))
        # the counters were added to from several threads: recompute them from the per-model records
        c.cov["states"] = sum(st.get("states", 0) for st in c.cov["models"])
        c.cov["transitions"] = sum(st.get("transitions", 0) for st in c.cov["models"])
        c.notes.append("EmuEvents without the drain step (the code before the fix): TLC %s a stall" % ("does not find" if res[1] else "finds"))
        c.notes.append("EmuEventsResize with Resize taking no lock (the code before the fix): TLC %s an out-of-range index"
                       % ("does not find" if res[3] else "finds"))
        c.notes.append("EmuEventsReplies with replies written by the PTY goroutine itself (the code before the fix): TLC %s the block"
                       % ("does not find" if res[5] else "finds"))
    if not c.replay:
        emu_common.binding_selftest(c, drv, "c05", specs, SAFE[0], SAFE[1])
    if c.replay:
        import json
        d = json.load(open(c.replay))
        one = (d.get("multi") or [d])[0]
        fams = ["draw" if one.get("draw") else "stall" if (one.get("stall") or one.get("conc")) else "state"]
    else:
        fams = ["state", "draw", "stall"]
    for fam in fams:
        spec, cfg = spec_for(fam)
        batches = [fam]
        if fam == "state" and not c.replay:
            # grammar + fuzz + fixed, and the bounded-exhaustive enumeration (one batch in the quick tier)
            batches = ["state+ex"] if c.tier == "quick" else ["state:1", "state:2", "ex"]
        got = emu_common.run_batches(c, drv, "c05", specs, spec, cfg, batches, sig_of,
                                     conformance=("EmuImpl_Trace.tla", "EmuImpl_Trace.cfg") if fam == "state" else None,
                                     shards=SHARDS[c.tier][fam])
        # confirm per family (each family has its own trace specification)
        # stalls on a real PTY depend on how the PTY goroutine's select falls: up to 5 rejected scenarios are re-run
        c.confirm(drv, "c05", specs, spec, cfg, got, sig_of, tries=5)
    return c.finish(
        rule="state family: scenario = initial size x steps (one grammar-generated control sequence / text run with boundary and huge "
             "parameters, or a chunk of raw fuzzed bytes, or a resize), plus ALL sequences of length 1 (and 2 on the tier's sizes) over "
             "the emulator's whole function x boundary-parameter x resize alphabet on every screen up to 3x3 from prepared start "
             "states; EmuSafe is evaluated after EVERY parsed sequence and resize; "
             "draw family: emulator history x host size x window geometry, sentinel outside the window checked after every Draw; "
             "state family also: sixel strings - every boundary, huge and overflowing number in each place where sixel data holds a "
             "number (picture width, picture height, repeat count, colour number and components), one per scenario, and random "
             "pictures (raster attributes, repeats, colour definitions, long payloads, characters outside the alphabet, control-string "
             "parameters and terminators) between ordinary output and resizes; "
             "stall family: event kind x count x consumer on the real PTY goroutine, request-for-report kind x count with a child that "
             "never reads the answers, and N host Resize calls over a cycle of sizes racing "
             "with a child that writes without pause; state family also: resize histories on the alternate screen (saved cursor low "
             "on the primary screen, several shrink/grow steps; all sequences of 2 and 3 resizes over the sizes up to 3x3); "
             "distinct = distinct scenario descriptor")
