"""C16 - soft-wrapping preserves the text and respects the width."""
import json
import os
import time


def sig_of(rej, scn):
    return "C16:%s:%s" % (scn["desc"]["kind"], rej.get("why"))


def selftest(c, specs, td):
    """Binding self-test: corrupt one recorded field of a good scenario (drop the last grapheme of the
    first emitted line; move a drawn cell) and demand that the trace spec rejects it."""
    import os
    evs = []
    with open(os.path.join(td, "shard00.ndjson")) as f:
        cur = []
        for line in f:
            e = json.loads(line)
            if e["ev"] == "reset":
                if any(x["ev"] == "scan" and x["w"] >= 2 and x["lines"] and len(x["lines"][0]) >= 2
                       and x["lines"][0][-1][2] == 0 for x in cur):
                    evs = cur
                    break
                cur = []
            cur.append(e)
    if not evs:
        c.notes.append("binding self-test skipped: no suitable scenario in shard 0")
        return
    # a giant (run-length encoded) scenario of the same shard: one copy more in the first item of the first line
    giant, cur = [], []
    with open(os.path.join(td, "shard00.ndjson")) as f:
        for line in f:
            e = json.loads(line)
            if e["ev"] == "reset":
                if any(x["ev"] == "rscan" and x["lines"] and x["lines"][0] and x["lines"][0][0][2] == 0 for x in cur):
                    giant = cur
                    break
                cur = []
            cur.append(e)
    out = []
    done = False
    for e in giant:
        e = json.loads(json.dumps(e))
        e["scn"] = 900003
        if not done and e["ev"] == "rscan" and e["lines"] and e["lines"][0] and e["lines"][0][0][2] == 0:
            e["lines"][0][0][4] += 1
            done = True
        out.append(e)
    for tag, scn in (("scan", 900001), ("draw", 900002)):
        done = False
        for e in evs:
            e = json.loads(json.dumps(e))
            e["scn"] = scn
            if not done and e["ev"] == tag and e["w"] >= 2 and (e.get("lines") or e.get("rows")):
                if tag == "scan" and len(e["lines"][0]) >= 2 and e["lines"][0][-1][2] == 0:
                    e["lines"][0] = e["lines"][0][:-1]
                    done = True
                elif tag == "draw" and e["sw"] >= 2 and e["rows"][0][0][0] != e["rows"][0][1][0]:
                    e["rows"][0][0], e["rows"][0][1] = e["rows"][0][1], e["rows"][0][0]
                    done = True
            out.append(e)
    d = os.path.join(c.scratch, "selftest")
    os.makedirs(d, exist_ok=True)
    with open(os.path.join(d, "shard00.ndjson"), "w") as f:
        for e in out:
            f.write(json.dumps(e) + "\n")
    json.dump({"scenarios": 3 if giant else 2, "events": len(out), "shards": 1, "lines": [len(out)]}, open(os.path.join(d, "meta.json"), "w"))
    before = dict(c.cov)
    rej, _ = c.validate_traces(specs, "Wrap_Trace.tla", "Wrap_Trace.cfg", d, label="binding self-test (corrupted copy)")
    c.cov["traces_validated_against_impl"] = before["traces_validated_against_impl"]
    c.cov["evaluations"] = before["evaluations"]
    got = sorted({(r["scn"], r["why"]) for r in rej})
    c.cov["binding_selftest"] = {"corrupted": ["scan: last grapheme of first line dropped", "draw: first two cells swapped"] +
                                 (["rscan (giant text): one more copy in the first item of the first line"] if giant else []),
                                 "rejected": [list(x) for x in got]}
    import sys
    sys.path.insert(0, os.path.dirname(os.path.dirname(os.path.abspath(__file__))) + "/lib")
    import vcheck
    if not any(s == 900001 for s, _ in got):
        raise vcheck.Inconclusive("binding self-test: a scan event with a dropped grapheme was not rejected")
    if giant and not any(s == 900003 for s, _ in got):
        raise vcheck.Inconclusive("binding self-test: a giant scan event with one grapheme too many was not rejected")
    if not giant:
        c.notes.append("binding self-test: no giant scenario in shard 0")
    if not any(s == 900002 and w == "draw" for s, w in got):
        c.notes.append("binding self-test: no draw corruption applicable/rejected in the sampled scenario")


def main(c):
    ph, t = {}, time.time()

    def lap(name):
        nonlocal t
        ph[name] = round(time.time() - t, 1)
        t = time.time()
    c.cov["phase_s"] = ph
    # 16 trace-validation JVMs run in parallel: without a bound each sizes its heap (and TLC its
    # fingerprint table) from the machine's memory
    os.environ.setdefault("JAVA_TOOL_OPTIONS", "-Xmx3g")
    drv = c.build()
    lap("build")
    specs = c.stage_specs("text")
    c.assumptions += [
        "Unicode facts (grapheme clusters, widths, White_Space, line terminators, UAX #14 break opportunities) are "
        "logged by the driver from uniseg's Graphemes iterator and Go's unicode tables (trusted base)",
        "letter = alphabetic code point outside Han/Hiragana/Katakana/Hangul; a run of letters = consecutive letters "
        "without a UAX #14 break opportunity between them",
        "a grapheme is whitespace iff all its code points are White_Space; alphabet of generated texts: letters, "
        "letters with combining marks, space, hyphen, LF, CRLF, ideographs, fullwidth punctuation (closing, and opening: "
        "glued to what follows), no-break space (white space glued on both sides), emoji with modifier, digits (not letters)",
        "UAX #14 LB4/LB5: the logged facts give a break opportunity after every line terminator whatever follows (uniseg v0.4.4 "
        "reports none in front of a hyphen followed by a digit; the fact is only used between letters)",
        "giant texts (tens of thousands of graphemes, gen giant) are recorded run-length encoded and judged by WrapRelRL, "
        "which MC_Wrap_rl checks against WrapRel on every small text; only the scanners are run for them (10 of them, lines "
        "that keep more than 65535 columns of trailing white space at widths 3..10, are drawn as well: the surface is recorded "
        "cell by cell when it has at most 4096 cells and judged by WrapRelRL!DrawOK), at most 200 lines "
        "per width are judged, and a scanner gets 120 s per width",
        "Draw is called with unbounded height (and, for the hard-wrap widget, a width larger than the longest line); "
        "zero-width graphemes are not required to be visible in a drawn row",
        "termination: a scanner must report the end within graphemes+2 Scan calls and each call/Draw within 10 s",
    ]
    if not c.replay:
        # the bounded models are independent of each other: run them side by side
        import concurrent.futures as cf
        quick = c.tier == "quick"
        jobs = [("MC_Wrap.cfg" if quick else "MC_Wrap_deep.cfg", 8, False),
                # the oracle is not vacuous: the scanner as found (long word broken on a partly filled line, wide
                # grapheme put in the last column) must be refuted by the same model
                ("MC_Wrap_orig.cfg", 2, True),
                # nor is the letter-run demand vacuous on glued prefixes: a scanner that cuts an over-long segment
                # wherever the line is full (no-break space + two letters at width 2) must be refuted as well
                ("MC_Wrap_runcut.cfg", 2, True),
                # nor is the hard-break demand on a scanner that leaves the detection of line terminators to a line
                # segmenter which glues a terminator to a hyphen followed by a digit (newline, hyphen, digit: one line)
                ("MC_Wrap_termtrust.cfg", 2, True),
                # the run-length oracle that judges the giant texts gives the verdict of the oracle on every small
                # text (on the scanner's lines and on damaged copies, packed maximally and one item per grapheme)
                ("MC_Wrap_rl.cfg" if quick else "MC_Wrap_rl_deep.cfg", 4, False)]
        if not quick:
            jobs.append(("MC_Wrap_deep_glue.cfg", 8, False))
        with cf.ThreadPoolExecutor(max_workers=len(jobs)) as ex:
            res = list(ex.map(lambda j: c.model_check(specs, "MC_Wrap.tla", j[0], workers=j[1], expect_violation=j[2],
                                                      extra=("-noGenerateSpecTE",)), jobs))
        for (cfg, _, expect), (ok, _) in zip(jobs, res):
            for m in c.cov["models"]:
                if m["cfg"] == cfg and expect:
                    m["expected_violation"] = True
            if expect and ok:
                c.notes.append(cfg + " unexpectedly passed: the oracle no longer refutes that scanner")
            if not expect and not ok and "_rl" in cfg:
                import sys
                sys.path.insert(0, os.path.dirname(os.path.dirname(os.path.abspath(__file__))) + "/lib")
                import vcheck
                raise vcheck.Inconclusive(cfg + ": the run-length oracle (WrapRelRL) disagrees with WrapRel")
    lap("model_check")
    td = c.drive(drv, "c16", replay=c.replay, shards=8 if c.tier == "quick" else 16)
    lap("drive")
    rejects, _ = c.validate_traces(specs, "Wrap_Trace.tla", "Wrap_Trace.cfg", td)
    lap("validate")
    if not c.replay:
        selftest(c, specs, td)
        lap("selftest")
    idx = c.load_index(td)
    c.count_distinct(idx)
    tables = json.load(open(td + "/tables.json"))
    c.cov["graphemes_interned"] = len(tables["graphemes"])
    c.cov["unstable_skipped"] = tables["unstable"]
    per = {}
    for s in idx.values():
        k = s["desc"]["kind"] + ":" + s["desc"]["gen"]
        per[k] = per.get(k, 0) + 1
    c.cov["scenarios_by_kind_generator"] = per
    c.cov["scan_draw_pairs"] = sum(len(s["desc"]["widths"]) for s in idx.values())
    for k in ("plain:exh", "rich:rand", "hard:corner"):
        for s in idx.values():
            if s["desc"]["kind"] + ":" + s["desc"]["gen"] == k and len(s["desc"]["text"] or []) >= 3:
                c.sample({"scenario": s["desc"]})
                break
    cands = [(sig_of(r, idx[r["scn"]]), r, idx[r["scn"]]) for r in rejects]
    by = {}
    for sg, r, s in cands:
        by[sg] = by.get(sg, 0) + 1
    c.cov["rejections_by_signature"] = by
    c.confirm(drv, "c16", specs, "Wrap_Trace.tla", "Wrap_Trace.cfg", cands, sig_of)
    lap("confirm")
    return c.finish(
        rule="scenario = (scanner kind plain|rich|hard, text as grapheme sequence with styles, list of widths); "
             "bounded-exhaustive: every text of length 0..4 (quick) / 0..5 (thorough) over the 7 grapheme classes "
             "{letter, letter+mark, space, hyphen, LF, ideograph, wide punctuation} x widths 1..8 (width 0 too up to "
             "length 3), thorough also every plain and rich text of length 6 over 6 classes x widths 1..6; plus seeded random "
             "texts of 6..40 graphemes and hand-written corner texts x widths 0..12; every text of length 1..4 over {letter, space, "
             "wide opening punctuation, no-break space} x widths 0..6 (thorough 1..5 over 6 classes x widths ..7); every text of length "
             "1..4 over {letter, space, hyphen, LF, digit} x widths 0..4 for all three scanners (thorough 1..5 with ideographs, widths ..6); "
             "22 fixed giant "
             "texts (up to 65546 graphemes) x 1..3 widths up to 65535, scanners only but for 10 that are drawn too; every (text,width) is one scan "
             "event judged by WrapRel!Why and one draw event judged by WrapRel!DrawOK; distinct = distinct descriptor")
