"""C19 - lists and pagers: selection always valid and visible, content complete."""
import json
import os
import re

import vcheck


def sig_of(rej, scn):
    op = rej.get("op") or ""
    why = rej.get("why")
    extra = ""
    if why == "index-out-of-range":
        extra = ":" + op          # which operation left the index invalid
    elif why == "panic":
        # the class of the panic message (numbers abstracted)
        extra = ":" + re.sub(r"[^A-Za-z#]+", "-", re.sub(r"[0-9]+", "#", rej.get("pan") or ""))[:48].strip("-")
    return "C19:%s:%s%s" % (rej.get("who"), why, extra)


def blank_line_at(cur):
    """Index (in the pg-init text) of a terminator that stands directly after another one and before a character."""
    t = [x for x in cur if x["ev"] == "pg-init"][0]["text"]
    for i in range(1, len(t) - 1):
        if t[i]["nl"] and t[i - 1]["nl"] and not t[i + 1]["nl"]:
            return i
    return None


def binding_selftest(c, specs, td, rejected):
    """Corrupt one recorded field of accepted scenarios: TLC must reject each copy (guards against a vacuous trace
    spec)."""
    import concurrent.futures as cf
    import vcheck
    want = {"dyn": None, "dyn2": None, "dynstale": None, "lst": None, "pg": None, "pgblank": None}
    cur = []
    with open(os.path.join(td, "shard00.ndjson")) as f:
        for line in f:
            e = json.loads(line)
            if e["ev"] == "reset":
                cur = []
            cur.append(e)
            if cur[0]["scn"] in rejected:
                continue
            if e["ev"] == "dyn-draw" and want["dyn"] is None and len(e["kids"]) >= 2 and e["pan"] == "":
                want["dyn"] = list(cur)
            if (e["ev"] == "dyn-draw" and want["dyn2"] is None and len(cur) >= 3 and cur[-2]["ev"] == "dyn-draw" and cur[-2]["sel"]
                    and e["n"] > 0 and e["H"] > 0 and (e["W"], e["H"]) == (cur[-2]["W"], cur[-2]["H"]) and e["kids"]):
                want["dyn2"] = list(cur)     # the same viewport drawn again directly after the draw that followed a selection change
            if (e["ev"] == "dyn-draw" and want["dynstale"] is None and len(cur) >= 3 and cur[-2]["ev"] == "dyn-op"
                    and cur[-2]["op"] in ("replace", "setcursorabs") and cur[-2]["idx"] >= cur[-2]["n"] > 0
                    and (cur[-3]["ev"] != "dyn-op" or cur[-3]["n"] == 0 or cur[-3]["idx"] < cur[-3]["n"])):
                want["dynstale"] = list(cur)  # index beyond the items (tolerated until this draw), then the draw
            elif (e["ev"] == "lst-draw" and want["lst"] is None and e["n"] >= 2 and e["h"] >= 2 and e["w"] >= 1 and e["pan"] == ""
                  and not any(x["ev"] in ("lst-op", "lst-draw") for x in cur[:-1])):
                want["lst"] = list(cur)
            elif e["ev"] == "pg-full" and want["pg"] is None and e["pan"] == "" and len(cur) > 40:
                want["pg"] = list(cur)
            elif e["ev"] == "pg-full" and want["pgblank"] is None and e["pan"] == "" and blank_line_at(cur) is not None:
                want["pgblank"] = list(cur)   # the text has an empty line between two lines and the screen shows it
            if all(v is not None for v in want.values()):
                break
    variants = []

    def mutate(kind, expect, fn):
        if want[kind] is None:
            return
        v = json.loads(json.dumps(want[kind]))
        fn(v)
        variants.append((expect, v, "%s#%d" % (kind, len(variants))))

    for kind in want:
        mutate(kind, "", lambda v: None)
    mutate("dyn", "not-contiguous", lambda v: v[-1]["kids"][-1].__setitem__(1, v[-1]["kids"][-1][1] + 1))
    mutate("dyn", "order", lambda v: v[-1]["kids"][0].__setitem__(0, v[-1]["kids"][0][0] + 1))
    mutate("dyn", "index-out-of-range", lambda v: v[-1].__setitem__("idx", v[-1]["n"]))
    mutate("dyn2", "selected-lost-on-redraw", lambda v: [kk.__setitem__(1, kk[1] + 100) for kk in v[-1]["kids"]])
    mutate("dynstale", "index-out-of-range", lambda v: v[-1].__setitem__("idx", v[-2]["idx"]))   # the draw did not repair it
    mutate("dynstale", "index-out-of-range", lambda v: v[-2].__setitem__("op", "next"))          # only those two operations are tolerated
    mutate("lst", "index-out-of-range", lambda v: v[-1].__setitem__("idx", -1))
    mutate("lst", "*", lambda v: v[-1]["items"].reverse())          # the screen no longer shows the items in this order
    mutate("pg", "offset-not-clamped", lambda v: [x for x in v if x["ev"] == "pg-draw"][-1].__setitem__("off", 40))
    mutate("pg", "*", lambda v: [x for x in v if x["ev"] == "pg-init"][0]["text"].append({"g": 1, "w": 1, "nl": False}))   # a character the screen never showed
    # the text says there is no empty line there: the screen shows a row that no line of the text occupies
    mutate("pgblank", "empty-row-not-in-text", lambda v: [x for x in v if x["ev"] == "pg-init"][0]["text"].pop(blank_line_at(v)))
    d = os.path.join(c.scratch, "selftest")
    os.makedirs(d, exist_ok=True)

    def one(arg):
        i, (expect, v, label) = arg
        fn = os.path.join(d, "t%d.ndjson" % i)
        with open(fn, "w") as f:
            for x in v:
                f.write(json.dumps(x) + "\n")
        rc, out = c._tlc(specs, "List_Trace.tla", "List_Trace.cfg", {"TRACE": fn}, 1, os.path.join(d, "md%d" % i), 300)
        return expect, out, label

    with cf.ThreadPoolExecutor(max_workers=6) as ex:
        results = list(ex.map(one, enumerate(variants)))
    for expect, out, label in results:
        rej = [json.loads(json.loads(x.strip())[7:]) for x in out.splitlines() if x.strip().startswith('"REJECT ')]
        if "No error has been found" not in out:
            raise vcheck.Inconclusive("binding self-test: TLC failed")
        if expect == "" and rej:
            raise vcheck.Inconclusive("binding self-test: an untouched accepted scenario is rejected")
        if expect and not rej:
            raise vcheck.Inconclusive("binding self-test: corrupted field (%s, %s) was accepted - trace spec is vacuous" % (expect, label))
        if expect not in ("", "*") and rej[0]["why"] != expect:
            raise vcheck.Inconclusive("binding self-test: corrupted %s reported as %s" % (expect, rej[0]["why"]))
    c.cov["binding_selftest"] = "%d corrupted copies of accepted scenarios all rejected" % len([v for v in variants if v[0]])


def drive_retry(c, drv, **kw):
    """Every Vaxis the driver starts runs the library's input parser, which arms a 10 ms wall-clock timer after every
    ESC of the start-up replies; on a badly overloaded machine it can fire after Close and kill the driver process
    (send on closed channel, C08's subject). Scenarios are deterministic, so simply run the driver again."""
    import vcheck
    for attempt in range(3):
        try:
            return c.drive(drv, "c19", **kw)
        except vcheck.Inconclusive as e:
            c.notes.append("driver attempt %d failed: %s" % (attempt + 1, str(e)[:80]))
            if attempt == 2:
                raise


def main(c):
    os.environ.setdefault("JAVA_TOOL_OPTIONS", "-XX:ParallelGCThreads=2 -XX:CICompilerCount=2")
    drv = c.build()
    specs = c.stage_specs("term", "list")
    c.assumptions += [
        "harness lexer + RefTerm reference terminal (C01's oracle) turn the rendered bytes into the screen a user sees; "
        "the renderer itself is C01's subject",
        "applications clear the window before drawing a widget (as the library's examples do)",
        "builder-driven list: the widget learns which items exist only by asking its builder, so an index left beyond the "
        "items by an item replacement or by a set-cursor beyond the end is tolerated until the next draw and must be in "
        "range from that draw on; item heights 1..65535 (the framework's 16-bit height), also when the items drawn span "
        "more than 65535 rows together",
        "selected-item visibility is demanded for viewports with at least one row (and one column for the classic list), at "
        "the draw that follows a selection change and at every further draw of the same viewport with no operation in "
        "between; not when the user scrolled or the items were replaced after selecting, nor at a draw that itself had to "
        "move the selection; 'inside the viewport' = at least one row of the item is a viewport row",
        "pager: windows at least as wide as the widest grapheme and graphemes that occupy at least one cell; the rows are "
        "the lines of the text wrapped greedily (a line k window widths wide occupies k rows, its terminator none); only "
        "whether a terminator at the very end of the text opens a last empty row is left to the pager",
    ]
    deep = c.tier != "quick"
    if not c.replay:
        cfg = "MC_Lists_deep.cfg" if deep else "MC_Lists.cfg"
        ok, _ = c.model_check(specs, "MC_Lists.tla", cfg, workers=8)
        if not ok:
            c.notes.append("MODEL: %s reports a violation in an implementation-shaped model (ListImpl/DynList/PagerImpl): "
                           "a candidate to replay, not a verdict" % cfg)
    td = drive_retry(c, drv, replay=c.replay, shards=32 if deep else 8)
    rejects, _ = c.validate_traces(specs, "List_Trace.tla", "List_Trace.cfg", td)
    idx = c.load_index(td)
    c.count_distinct(idx)
    cov = os.path.join(td, "coverage.json")
    if os.path.exists(cov):
        c.cov["c19"] = json.load(open(cov))
    seen = set()
    for s in idx.values():
        k = s["desc"]["Kind"]
        if k not in seen and len(json.dumps(s["desc"])) < 1500:
            seen.add(k)
            c.sample({"scenario": s["desc"]})
    cands = [(sig_of(r, idx[r["scn"]]), r, idx[r["scn"]]) for r in rejects]
    c.confirm(drv, "c19", specs, "List_Trace.tla", "List_Trace.cfg", cands, sig_of)
    if not c.replay:
        try:
            binding_selftest(c, specs, td, {r["scn"] for r in rejects})
        except vcheck.Inconclusive as e:
            if not c.violations:
                raise
            c.notes.append("%s (not decisive: the run reports violations)" % e)
    return c.finish(
        rule="scenario = one widget (vxfw/list.Dynamic | widgets/list | widgets/pager | widgets/scrollbar) x initial items "
             "(count incl. 0 and nil, heights, gap, gutter) x operation history (incl. set-cursor beyond the items and "
             "replacements that remove the selected item) interleaved with draws at varying viewport sizes and repeated "
             "draws; bounded-exhaustive histories over the operation alphabet plus seeded random long histories; pager: all "
             "texts over {a, b, wide, newline} up to a length x widths x scroll histories, lines one short of / exactly / one over "
             "one and two window widths with narrow and wide characters at the edge x {no terminator, LF, CRLF} x what "
             "follows; every operation and every draw "
             "is judged by ListRel / Pager; distinct = distinct scenario descriptor")
