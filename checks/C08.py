"""C08 - parser lifecycle: always terminates cleanly; Escape key timing is exact."""
import vselftest
from checks import selfmut
import json
import os
import re
import subprocess


def cex_to_sched(path):
    d = json.load(open(path))["counterexample"]["action"]
    first = d[0][0][1]
    acts = []
    for step in d:
        name = step[1]["name"]
        before, after = step[0][1], step[2][1]
        if name in ("TFire", "TSend", "TLock", "TSet", "FLock", "FSet"):
            ks = [i + 1 for i, (a, b) in enumerate(zip(before["tm"], after["tm"])) if a != b]
            name = "%s:%d" % (name, ks[0] if ks else 1)
        acts.append(name)
    return {"inp": first["inp"], "eofGap": first["eofGap"], "acts": acts}


def delayed_past_end(desc):
    return False


def sig_of(rej, scn):
    why = rej.get("why")
    d = scn["desc"]
    kind = "sched" if d.get("Sched") else "plain"
    if why == "timing":
        at = rej.get("at") or ["?", "?"]
        def t(x):
            if isinstance(x, dict):
                return "Escape" if x.get("t") == "c0" and x.get("v") == 27 else x.get("t")
            return str(x)
        return "C08:timing:%s:want=%s:got=%s" % (kind, t(at[0]), t(at[1]))
    if why == "panic":
        return "C08:panic:%s" % re.sub(r"[^a-z ]", "", (rej.get("detail") or "").lower())[:40].strip().replace(" ", "-")
    return "C08:%s:%s" % (why, kind)


def main(c):
    drv = c.build()
    specs = c.stage_specs("parser")
    c.assumptions += [
        "real-time constants: a long gap lasts until the ESC timer has actually expired (observed through the verif hook), a short gap is kept under 4 ms or the scenario's timing is not judged",
        "gate hooks (build tag verif) in ansi/parser.go are the linearisation points of ParserLife.tla",
        "a panic in a parser goroutine is observed as the death of the child process executing the scenario",
    ]
    sched_file = os.path.join(c.scratch, "sched.ndjson")
    nsched = 0
    with open(sched_file, "w") as out:
        if not c.replay:
            # 1. the model of the repaired code must satisfy the four properties exhaustively
            ok, _ = c.model_check(specs, "MC_ParserLife.tla", "MC_ParserLife_fixed.cfg", workers=16)
            if not ok:
                c.notes.append("MODEL: ParserLife (repaired shape) violates a property in the bounded model - candidate, see TLC output")
            # 2. the pre-repair shape: every property has a counterexample; each is a regression schedule
            for inv in ("NoPanic", "NoStateClobber", "ExactlyOneEOFLast", "TimingExact"):
                dump = os.path.join(c.scratch, "cex_%s.json" % inv)
                ok, _ = c.model_check(specs, "MC_ParserLife.tla", "MC_ParserLife_code_%s.cfg" % inv, workers=1,
                                      extra=("-dumpTrace", "json", dump), expect_violation=True)
                if not ok and os.path.exists(dump):
                    out.write(json.dumps(cex_to_sched(dump)) + "\n")
                    nsched += 1
            # 2a'. negative control of the repair's design: a callback that releases the mutex while it sends
            #      (EmitUnlocked) is refuted; its counterexample is replayed as a schedule too
            dump = os.path.join(c.scratch, "cex_emitunlocked.json")
            ok, _ = c.model_check(specs, "MC_ParserLife.tla", "MC_ParserLife_emitunlocked.cfg", workers=1,
                                  extra=("-dumpTrace", "json", dump), expect_violation=True)
            c.cov["emit_unlocked_shape_refuted"] = not ok
            if not ok and os.path.exists(dump):
                out.write(json.dumps(cex_to_sched(dump)) + "\n")
                nsched += 1
            # 2b. the state-clobber interleaving made visible (needs four symbols): the callback of the first ESC
            #     resets the state between "[" and "A" of the following sequence
            out.write(json.dumps({
                "inp": [{"c": 27, "gap": "short"}, {"c": 27, "gap": "long"}, {"c": 91, "gap": "short"}, {"c": 65, "gap": "short"}],
                "eofGap": "short",
                "acts": ["Deliver", "RTop", "RRead", "RLock", "RTop", "TFire:1", "Deliver", "RRead", "RLock", "RTop", "Deliver",
                         "RRead", "RLock", "TSend:1", "TLock:1", "TSet:1", "RTop", "Deliver", "RRead", "RLock"]}) + "\n")
            nsched += 1
            # 2c. goal-directed schedules from the model of the repaired code with stalls (StallFire): shortest behaviours
            #     in which a fired timer callback is still parked when the channel has been closed, after Close and after
            #     end of input; on the real parser the callback is released last and must find nothing left to do
            ok, _ = c.model_check(specs, "MC_ParserLife.tla", "MC_ParserLife_fixed_stall.cfg", workers=16)
            if not ok:
                c.notes.append("MODEL: ParserLife (repaired shape, stalls) violates a property in the bounded model - candidate")
            for goal in ("GoalLateAfterClose", "GoalLateAfterEOF"):
                dump = os.path.join(c.scratch, "goal_%s.json" % goal)
                ok, _ = c.model_check(specs, "MC_ParserLife_Gen.tla", "MC_ParserLife_%s.cfg" % goal, workers=1,
                                      extra=("-dumpTrace", "json", dump), expect_violation=True)
                if not ok and os.path.exists(dump):
                    last = json.load(open(dump))["counterexample"]["state"][-1][1]
                    acts = list(last["hist"])
                    for k, t in enumerate(last["tm"]):
                        if t == "fired":
                            acts += ["FLock:%d" % (k + 1), "FSet:%d" % (k + 1)]
                    out.write(json.dumps({"inp": last["inp"], "eofGap": last["eofGap"], "acts": acts}) + "\n")
                    nsched += 1
            # 3. random behaviours of both shapes
            walks = 150 if c.tier == "quick" else 2500
            for cfg in ("MC_ParserLife_GenFixed.cfg", "MC_ParserLife_GenFixedStall.cfg", "MC_ParserLife_Gen.cfg"):
                md = os.path.join(c.scratch, "sim-" + cfg)
                p = subprocess.run(["tlc", "-workers", "1", "-simulate", "num=%d" % walks, "-depth", "90", "-seed", str(c.seed),
                                    "-metadir", md, "-config", cfg, "MC_ParserLife_Gen.tla"],
                                   cwd=specs, capture_output=True, text=True, timeout=1500)
                for line in p.stdout.splitlines():
                    if line.startswith('"SCHED '):
                        out.write(json.loads(line)[6:] + "\n")
                        nsched += 1
    c.cov["schedules_from_tlc"] = nsched
    td = c.drive(drv, "c08", replay=c.replay, extra=() if c.replay else ("-x", sched_file))
    rejects, _ = c.validate_traces(specs, "ParserLife_Trace.tla", "ParserLife_Trace.cfg", td)
    if not c.replay:
        c.cov["binding_selftest"] = vselftest.run(c, specs, "ParserLife_Trace.tla", "ParserLife_Trace.cfg", td, {r["scn"] for r in rejects}, [
            ("end marker missing", selfmut.eof_dropped),
            ("sequence after the end marker", selfmut.eof_not_last),
            ("first delivered sequence missing", selfmut.item_dropped),
            ("parser panicked", selfmut.parser_panicked),
        ])
    idx = c.load_index(td)
    c.count_distinct(idx, nontrivial=lambda s: True)
    drift = sum(1 for s in idx.values() if "did not" in (s.get("note") or "") or "no parked" in (s.get("note") or ""))
    c.cov["model_drift_scenarios"] = drift
    for s in list(idx.values())[:2] + [s for s in idx.values() if s["desc"].get("Sched")][:2]:
        c.sample({"scenario": s["desc"]})
    cands = [(sig_of(r, idx[r["scn"]]), r, idx[r["scn"]]) for r in rejects]
    c.confirm(drv, "c08", specs, "ParserLife_Trace.tla", "ParserLife_Trace.cfg", cands, sig_of)
    return c.finish(
        rule="scenario = chunked input with short/long gaps x end (eof/read error, prompt or after silence) x consumer speed "
             "(eager/slow/lazy, retaining or not) x Close point, or a gate schedule = one TLC behaviour of ParserLife "
             "(counterexamples of the pre-repair shape + random walks of both shapes) replayed on the real parser; "
             "distinct = distinct descriptor")
