"""C08 - parser lifecycle: always terminates cleanly; Escape key timing is exact."""
import vselftest
from checks import selfmut
import concurrent.futures as cf
import json
import os
import re
import subprocess


def cex_to_sched(path):
    d = json.load(open(path))["counterexample"]["action"]
    first = d[0][0][1]
    acts = []
    for step in d:
        name = step[1]["name"]
        before, after = step[0][1], step[2][1]
        if name in ("TFire", "TSend", "TLock", "TSet", "FLock", "FSet"):
            ks = [i + 1 for i, (a, b) in enumerate(zip(before["tm"], after["tm"])) if a != b]
            name = "%s:%d" % (name, ks[0] if ks else 1)
        acts.append(name)
    return {"inp": first["inp"], "eofGap": first["eofGap"], "acts": acts}


def delayed_past_end(desc):
    return False


def cuts_scalar(chunks):
    """A chunk of the scenario ends with the beginning of a multi-byte UTF-8 scalar (lead byte and fewer
    continuation bytes than it announces): whoever reads whole scalars has to wait for the next chunk there."""
    data, o = b"", 0
    bounds = []
    for ch in chunks:
        data += bytes.fromhex(ch["Hex"])
        bounds.append(len(data))
    for x in bounds:
        for j in range(max(0, x - 3), x):
            b = data[j]
            n = 2 if 0xC2 <= b <= 0xDF else 3 if 0xE0 <= b <= 0xEF else 4 if 0xF0 <= b <= 0xF4 else 1
            if n > x - j and all(0x80 <= c <= 0xBF for c in data[j + 1:x]):
                return True
    return False


def second_return_needed(evs):
    """Close was requested, the reader returned, and the parser read on: it took a second return to stop it"""
    for e in evs:
        if e.get("ev") == "run" and e.get("stopRets") in (0, 1):
            e["stopRets"] = 2
            return evs
    return None


def sig_of(rej, scn):
    why = rej.get("why")
    d = scn["desc"]
    # backpressure: arrival times on the wire that do not wait for the parser + a consumer that takes its time
    kind = "backpressure" if d.get("Wire") else "sched" if d.get("Sched") else "plain"
    if cuts_scalar(d.get("Chunks") or []):
        kind += "-cutscalar"
    if why == "timing" and rej.get("known"):
        # the oracle's own diagnosis: the run matches once C02's recorded finding is tolerated
        return "C08:items:" + rej["known"]
    if why == "timing":
        at = rej.get("at") or ["?", "?"]
        def t(x):
            if isinstance(x, dict):
                return "Escape" if x.get("t") == "c0" and x.get("v") == 27 else x.get("t")
            return str(x)
        return "C08:timing:%s:want=%s:got=%s" % (kind, t(at[0]), t(at[1]))
    if why == "panic":
        return "C08:panic:%s" % re.sub(r"[^a-z ]", "", (rej.get("detail") or "").lower())[:40].strip().replace(" ", "-")
    return "C08:%s:%s" % (why, kind)


def main(c):
    drv = c.build()
    specs = c.stage_specs("parser")
    c.assumptions += [
        "a silence that begins after some but not all bytes of a scalar have arrived is not a silence after a lone ESC (bytes did follow promptly)",
        "real-time constants: a long gap lasts until the ESC timer has actually expired (observed through the verif hook), a short gap is kept under 4 ms or the scenario's timing is not judged",
        "gate hooks (build tag verif) in ansi/parser.go are the linearisation points of ParserLife.tla",
        "a panic in a parser goroutine is observed as the death of the child process executing the scenario",
        "Close-then-return scenarios: 'the parser has not stopped' is the observation that it waits in a further Read after Close and a reader return (no time-out involved)",
    ]
    sched_file = os.path.join(c.scratch, "sched.ndjson")
    lines = []
    if not c.replay:
        # The TLC runs are independent of each other: a few run side by side, their results are used in a fixed order.
        walks = 150 if c.tier == "quick" else 2500
        jobs = {}

        def mc(key, tla, cfg, **kw):
            jobs[key] = lambda: c.model_check(specs, tla, cfg, **kw)

        def dumped(key, tla, cfg):
            dump = os.path.join(c.scratch, "dump_%s.json" % key)
            jobs[key] = lambda: (c.model_check(specs, tla, cfg, workers=1, extra=("-dumpTrace", "json", dump),
                                               expect_violation=True)[0], dump)

        def sim(cfg):
            def run():
                md = os.path.join(c.scratch, "sim-" + cfg)
                p = subprocess.run(["tlc", "-workers", "1", "-simulate", "num=%d" % walks, "-depth", "90", "-seed", str(c.seed),
                                    "-metadir", md, "-config", cfg, "MC_ParserLife_Gen.tla"],
                                   cwd=specs, capture_output=True, text=True, timeout=1500)
                return [json.loads(l)[6:] for l in p.stdout.splitlines() if l.startswith('"SCHED ')]
            jobs["sim:" + cfg] = run

        # 1. the model of the repaired code (callback under the mutex, timer stopped by the first byte that arrives) must
        #    satisfy the four properties and CloseStops exhaustively, inputs with a two-byte scalar cut by a gap included
        mc("fixed", "MC_ParserLife.tla", "MC_ParserLife_fixed.cfg", workers=8)
        # 2. the pre-repair shape: every property has a counterexample; each is a regression schedule
        invs = ("NoPanic", "NoStateClobber", "ExactlyOneEOFLast", "TimingExact")
        for inv in invs:
            dumped("code_" + inv, "MC_ParserLife.tla", "MC_ParserLife_code_%s.cfg" % inv)
        # 2a'. negative control of the repair's design: a callback that releases the mutex while it sends
        #      (EmitUnlocked) is refuted; its counterexample is replayed as a schedule too
        dumped("emitunlocked", "MC_ParserLife.tla", "MC_ParserLife_emitunlocked.cfg")
        # 2d. the shape in which the timer is stopped only once a whole scalar has been read (PeekStop = FALSE): an ESC
        #     promptly followed by the first byte of a scalar whose rest arrives after a silence is reported as the key;
        #     the counterexample is replayed (a code that stops the timer at the first byte does not let it fire: tolerated)
        dumped("nopeek", "MC_ParserLife.tla", "MC_ParserLife_nopeek_TimingExact.cfg")
        # 2f. the shape that waits for the rest of a scalar whatever happens (CutStop = FALSE): Close while the run loop waits
        #     in its read, then a reader return with the lead byte alone, and it waits in a further read (CloseStops refuted);
        #     the counterexample is replayed: on the real parser the returns of the reader after Close are counted
        dumped("nocut", "MC_ParserLife.tla", "MC_ParserLife_nocut_CloseStops.cfg")
        # 2e. the recorded finding as a shape: silence on the wire while the consumer holds the run loop up (WireGaps)
        mc("wire", "MC_ParserLife.tla", "MC_ParserLife_wire_TimingExact.cfg", workers=4, expect_violation=True)
        # 2c. goal-directed schedules from the model of the repaired code with stalls (StallFire): shortest behaviours
        #     in which a fired timer callback is still parked when the channel has been closed, after Close and after
        #     end of input; on the real parser the callback is released last and must find nothing left to do
        mc("fixed_stall", "MC_ParserLife.tla", "MC_ParserLife_fixed_stall.cfg", workers=8)
        goals = ("GoalLateAfterClose", "GoalLateAfterEOF", "GoalExpiredByte")
        for goal in goals:
            dumped(goal, "MC_ParserLife_Gen.tla", "MC_ParserLife_%s.cfg" % goal)
        # 3. random behaviours of both shapes
        sims = ("MC_ParserLife_GenFixed.cfg", "MC_ParserLife_GenFixedStall.cfg", "MC_ParserLife_Gen.cfg")
        for cfg in sims:
            sim(cfg)
        res = {}
        with cf.ThreadPoolExecutor(max_workers=5) as ex:
            futs = {k: ex.submit(f) for k, f in jobs.items()}
            for k, f in futs.items():
                res[k] = f.result()
        c.cov["models"].sort(key=lambda m: m["cfg"])

        if not res["fixed"][0]:
            c.notes.append("MODEL: ParserLife (repaired shape) violates a property in the bounded model - candidate, see TLC output")
        for key in ["code_" + i for i in invs] + ["emitunlocked", "nopeek", "nocut"]:
            ok, dump = res[key]
            if key == "emitunlocked":
                c.cov["emit_unlocked_shape_refuted"] = not ok
            if key == "nopeek":
                c.cov["late_timer_stop_shape_refuted"] = not ok
            if key == "nocut":
                c.cov["wait_after_close_shape_refuted"] = not ok
            if not ok and os.path.exists(dump):
                d = cex_to_sched(dump)
                if key == "nopeek":
                    d["tolerant"] = True
                lines.append(json.dumps(d))
        c.cov["wire_gaps_shape_refuted"] = not res["wire"][0]
        # 2b. the state-clobber interleaving made visible (needs four symbols): the callback of the first ESC
        #     resets the state between "[" and "A" of the following sequence
        lines.append(json.dumps({
            "inp": [{"c": 27, "gap": "short"}, {"c": 27, "gap": "long"}, {"c": 91, "gap": "short"}, {"c": 65, "gap": "short"}],
            "eofGap": "short",
            "acts": ["Deliver", "RTop", "RRead", "RLock", "RTop", "TFire:1", "Deliver", "RRead", "RLock", "RTop", "Deliver",
                     "RRead", "RLock", "TSend:1", "TLock:1", "TSet:1", "RTop", "Deliver", "RRead", "RLock"]}))
        if not res["fixed_stall"][0]:
            c.notes.append("MODEL: ParserLife (repaired shape, stalls) violates a property in the bounded model - candidate")
        for goal in goals:
            ok, dump = res[goal]
            if not ok and os.path.exists(dump):
                last = json.load(open(dump))["counterexample"]["state"][-1][1]
                acts = list(last["hist"])
                if goal == "GoalExpiredByte":
                    # the run loop handles the character (after its own report of the key press) before the
                    # parked callback is let go: the callback must then find nothing to do
                    acts += ["RLock", "RSent"]
                for k, t in enumerate(last["tm"]):
                    if t == "fired":
                        acts += ["FLock:%d" % (k + 1), "FSet:%d" % (k + 1)]
                lines.append(json.dumps({"inp": last["inp"], "eofGap": last["eofGap"], "acts": acts}))
        for cfg in sims:
            lines += res["sim:" + cfg]
    with open(sched_file, "w") as out:
        for l in lines:
            out.write(l + "\n")
    nsched = len(lines)
    c.cov["schedules_from_tlc"] = nsched
    td = c.drive(drv, "c08", replay=c.replay, extra=() if c.replay else ("-x", sched_file))
    rejects, _ = c.validate_traces(specs, "ParserLife_Trace.tla", "ParserLife_Trace.cfg", td)
    if not c.replay:
        c.cov["binding_selftest"] = vselftest.run(c, specs, "ParserLife_Trace.tla", "ParserLife_Trace.cfg", td, {r["scn"] for r in rejects}, [
            ("end marker missing", selfmut.eof_dropped),
            ("sequence after the end marker", selfmut.eof_not_last),
            ("first delivered sequence missing", selfmut.item_dropped),
            ("parser panicked", selfmut.parser_panicked),
            ("second reader return needed after Close", second_return_needed),
        ])
    idx = c.load_index(td)
    c.count_distinct(idx, nontrivial=lambda s: True)
    drift = sum(1 for s in idx.values() if "did not" in (s.get("note") or "") or "no parked" in (s.get("note") or ""))
    c.cov["model_drift_scenarios"] = drift
    for s in list(idx.values())[:2] + [s for s in idx.values() if s["desc"].get("Sched")][:2]:
        c.sample({"scenario": s["desc"]})
    cands = [(sig_of(r, idx[r["scn"]]), r, idx[r["scn"]]) for r in rejects]
    c.confirm(drv, "c08", specs, "ParserLife_Trace.tla", "ParserLife_Trace.cfg", cands, sig_of)
    return c.finish(
        rule="scenario = chunked input with short/long gaps x end (eof/read error, prompt or after silence) x consumer speed "
             "(eager/slow/lazy/stalled, retaining or not; paced beside wall-clock arrival times) x Close point (also: Close while the "
             "parser waits in Read, then one reader return at a time, counted until the channel is closed), chunk boundaries "
             "also inside multi-byte scalars, or a gate schedule = one TLC behaviour of ParserLife "
             "(counterexamples of the pre-repair shape + random walks of both shapes) replayed on the real parser; "
             "distinct = distinct descriptor")
