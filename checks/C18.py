"""C18 - styled-text codecs round-trip and all SGR producers and consumers agree."""
import json
import os

import vcheck


def sig_of(rej, scn):
    d = scn["desc"]
    who = rej.get("who") or ""
    if rej.get("why") == "panic":
        who = who.split(":")[0]
    fld = rej.get("fld") or []
    linked = "link" not in fld and any((x.get("S") or {}).get("L") for x in d.get("Cells") or [])
    # :stalled = the scenario ran ParseStyledString with its parser held up after an ESC (descriptor field Stall)
    # (one signature whatever field differs first: the schedule is the condition class)
    if d.get("Stall") and who == "parse" and rej.get("why") == "consumer":
        return "C18:consumer:parse:stalled"
    return "C18:%s:%s:%s%s%s%s" % (rej.get("why"), who, "+".join(fld), ":hyperlinked" if linked else "",
                                   ":legacy" if d.get("Legacy") else "",
                                   ":joining-neighbours" if d.get("Kind") == "joining-neighbours" else "")


def binding_selftest(c, specs, td, rejected):
    """Corrupt one recorded field of an accepted scenario: TLC must reject it (guards against a vacuous trace spec)."""
    import vcheck
    src = os.path.join(td, "shard00.ndjson")

    def first_accepted(linked):
        """first accepted producer scenario of shard 0 without (with) hyperlink control strings; with: the last
        control string closes the link and the producer is a codec"""
        def fits(ls):
            if not any(x["ev"] == "end" and x["in"] for x in ls) or ls[0]["scn"] in rejected:
                return False
            o = [i for i, x in enumerate(ls) if x["ev"] == "osc8"]
            if not linked:
                return not o
            return bool(o) and ls[o[-1]]["ln"] == 0 and ls[-1]["prod"] in ("cells", "ss")
        lines = []
        with open(src) as f:
            for line in f:
                e = json.loads(line)
                if e["ev"] == "reset" and lines:
                    if fits(lines):
                        return lines
                    lines = []
                lines.append(e)
        return lines if fits(lines) else None

    lines = first_accepted(False)
    if not lines:
        c.notes.append("binding self-test skipped: no accepted scenario in shard 0")
        return
    variants = []
    for who, fld in (("parse", 5), ("emu", 3)):
        v = json.loads(json.dumps(lines))
        e = [x for x in v if x["ev"] == "end"][0]
        e["dec"][who][-1][fld] += 1
        variants.append(("consumer", v))
    v = json.loads(json.dumps(lines))
    [x for x in v if x["ev"] == "end"][0]["in"][0][5] ^= 1
    variants.append(("roundtrip", v))
    v = json.loads(json.dumps(lines))
    k = max(i for i, x in enumerate(v) if x["ev"] == "end")
    v.insert(k, {"ev": "sgr", "seqs": [[[1]]], "scn": v[0]["scn"]})
    variants.append(("any", v))
    ll = first_accepted(True)
    if ll:
        # hyperlinks: the closing control string removed (link left open); the producer's own parser misreads
        v = json.loads(json.dumps(ll))
        k = max(i for i, x in enumerate(v) if x["ev"] == "osc8")
        del v[k]
        variants.append(("noreset", v))
        v = json.loads(json.dumps(ll))
        e = [x for x in v if x["ev"] == "end"][0]
        e["dec"]["parse" if e["prod"] == "cells" else "nss"][-1][0] += 1
        variants.append(("consumer", v))
    d = os.path.join(c.scratch, "selftest")
    os.makedirs(d, exist_ok=True)
    def one(arg):
        i, (why, v) = arg
        fn = os.path.join(d, "t%d.ndjson" % i)
        with open(fn, "w") as f:
            for x in v:
                f.write(json.dumps(x) + "\n")
        rc, out = c._tlc(specs, "Codec_Trace.tla", "Codec_Trace.cfg", {"TRACE": fn}, 1, os.path.join(d, "md%d" % i), 300)
        return why, out

    import concurrent.futures as cf
    with cf.ThreadPoolExecutor(max_workers=8) as ex:
        results = list(ex.map(one, enumerate([("", lines)] + variants)))
    for why, out in results:
        rej = [json.loads(json.loads(l.strip())[7:]) for l in out.splitlines() if l.strip().startswith('"REJECT ')]
        if "No error has been found" not in out:
            raise vcheck.Inconclusive("binding self-test: TLC failed")
        if why == "" and rej:
            raise vcheck.Inconclusive("binding self-test: the untouched trace is rejected")
        if why and not rej:
            raise vcheck.Inconclusive("binding self-test: corrupted field (%s) was accepted - trace spec is vacuous" % why)
        if why not in ("", "any") and rej[0]["why"] != why:
            raise vcheck.Inconclusive("binding self-test: corrupted %s reported as %s" % (why, rej[0]["why"]))
    c.cov["binding_selftest"] = "%d corrupted copies of an accepted scenario all rejected" % len(variants)


def drive_retry(c, drv, **kw):
    """The library's input parser arms a 10 ms wall-clock timer after every ESC; on a badly overloaded machine it can
    fire inside a string and (before C08's repairs) kill the driver process (send on closed channel). Scenarios are
    deterministic, so simply run the driver again. (That timer firing inside ParseStyledString is itself a C18
    defect - family stalled-parse provokes it deterministically; until notes/proposed-fixes/c18b-1.diff is in the
    repository a loaded machine can also produce it in any other scenario, as C18:consumer:parse:*, which
    confirm() then reports only if it happens again in the re-run.)"""
    import vcheck
    for attempt in range(3):
        try:
            return c.drive(drv, "c18", **kw)
        except vcheck.Inconclusive as e:
            c.notes.append("driver attempt %d failed: %s" % (attempt + 1, str(e)[:80]))
            if attempt == 2:
                raise


def main(c):
    # many short TLC runs: keep each JVM's helper threads few (the machine is shared)
    os.environ.setdefault("JAVA_TOOL_OPTIONS", "-XX:ParallelGCThreads=2 -XX:CICompilerCount=2")
    drv = c.build()
    specs = c.stage_specs("term", "codec")
    c.assumptions += [
        "harness lexer (ECMA-48 tokenizer) and uniseg grapheme segmentation are trusted base",
        "domain: cells whose graphemes are single printable clusters (a cell with an empty grapheme has no "
        "representation in a string); widths are not part of the property. Neighbouring cells whose texts would join "
        "into one cluster when written back to back are judged for the two codecs (family joining-neighbours: a "
        "control sequence between two texts is a cluster boundary, UAX #29 GB4/GB5); the random families draw "
        "sequences that segment back from their concatenation",
        "what a string means does not depend on how the goroutines the library starts to parse it are scheduled: "
        "family stalled-parse holds the parser of ParseStyledString up after an ESC (library hook points of the "
        "parser loop, build tag verif) for longer than the library's Escape-key delay",
        "hyperlinked cells (codecs only): graphemes, colours, attributes and underline must come back through the "
        "producer's own parser and the string must not leave a hyperlink open; whether the link itself comes back, and "
        "what the other consumers make of a hyperlink control string, is not demanded",
        "the renderer is lossless (round trip demanded) only when the terminal advertises direct colour and styled "
        "underlines; under a fallback only 'every consumer reads what it wrote alike' and 'ends reset' are demanded",
        "arbitrary parameter lists: only absence of panics is demanded (the property demands agreement for sequences "
        "the library produces)",
    ]
    deep = c.tier != "quick"
    if not c.replay:
        cfg = "MC_Codec_deep.cfg" if deep else "MC_Codec.cfg"
        ok, _ = c.model_check(specs, "MC_Codec.tla", cfg, workers=12 if deep else 8)
        if not ok:
            c.notes.append("MODEL: %s reports an invariant violation of the implementation-shaped delta encoder "
                           "(candidate only; verdicts come from trace validation)" % cfg)
    td = drive_retry(c, drv, replay=c.replay, shards=16 if deep else 8)
    rejects, _ = c.validate_traces(specs, "Codec_Trace.tla", "Codec_Trace.cfg", td)
    idx = c.load_index(td)
    c.count_distinct(idx)
    cov = os.path.join(td, "coverage.json")
    if os.path.exists(cov):
        c.cov["c18"] = json.load(open(cov))
    seen = set()
    for s in idx.values():
        k = (s["desc"]["Kind"], s["desc"].get("Prod"))
        if k not in seen and len(json.dumps(s["desc"])) < 1500:
            seen.add(k)
            c.sample({"scenario": s["desc"]})
    cands = [(sig_of(r, idx[r["scn"]]), r, idx[r["scn"]]) for r in rejects]
    c.confirm(drv, "c18", specs, "Codec_Trace.tla", "Codec_Trace.cfg", cands, sig_of)
    if not c.replay:
        try:
            binding_selftest(c, specs, td, {r["scn"] for r in rejects})
        except vcheck.Inconclusive as e:
            if not c.violations:
                raise
            c.notes.append("%s (not decisive: the run reports violations)" % e)
    return c.finish(
        rule="scenario = one producer (EncodeCells | StyledString.Encode | renderer of a real Vaxis) x one cell sequence "
             "(style chains covering every ordered attribute-mask pair, every ordered pair of colour-class triples, "
             "underline style x colour pairs, the whole palette; hyperlink-state pairs beside style changes (codecs); "
             "random Unicode sequences incl. empty and multi-buffer ones; neighbours whose texts would join into one cluster; "
             "ParseStyledString with its parser held up after an ESC; colon and legacy-semicolon spelling; capability fallbacks), or 50 arbitrary parameter lists for the "
             "three consumers; the producer's lexed output is interpreted by SGR!Apply and must equal the input cells, "
             "end at the default pen with no hyperlink open and be read identically by ParseStyledString, NewStyledString and the emulator; "
             "distinct = distinct scenario descriptor; pair coverage is measured by the driver (coverage.c18)")
