"""C17 - line editors behave like an ideal grapheme line editor."""
import json
import os
import time


def sig_of(rej, scn):
    why = rej.get("why")
    sig = "C17:%s:%s" % (scn["desc"]["widget"], why)
    m = rej.get("more") or {}
    if why == "col" and isinstance(m, dict):
        # room left in the window beyond prompt + text (the text fits, so >= 1), and whether
        # the window width changed since the previous draw
        slack = m["w"] - m["pw"] - m["tw"]
        sig += ":slack%s" % (slack if slack <= 4 else "5+")
        if m.get("col", 0) < 0:
            sig += ":nocursor"
        if m.get("prevw") != m.get("w"):
            sig += ":resized"
        # the TextField's cursor is visible only through the drawn column: name the new two-stage inputs
        if rej.get("k") in ("insjoin", "pastejoin", "pastectl"):
            sig += ":after-" + rej["k"]
    elif why in ("text", "cursor", "change", "submit"):
        sig += ":" + str(rej.get("k"))
    # what the history up to the rejected command contains (since the content was last replaced as a whole)
    for tag in ("setval", "deljoin"):
        if tag in (rej.get("ctx") or []):
            sig += ":after-" + tag
    return sig


def selftest(c, specs, td):
    """Binding self-test: corrupt one recorded field of a good scenario (the observed text of one
    command; the cursor column of another copy) and demand that the trace spec rejects both."""
    import os
    evs = []
    with open(os.path.join(td, "shard00.ndjson")) as f:
        cur = []
        for line in f:
            e = json.loads(line)
            if e["ev"] == "reset":
                if len(cur) >= 4 and any(x["ev"] == "op" and len(x["text"]) >= 2 and x["w"] >= 20 for x in cur):
                    evs = cur
                    break
                cur = []
            cur.append(e)
    if not evs:
        c.notes.append("binding self-test skipped: no suitable scenario in shard 0")
        return
    out = []
    for tag, scn in (("text", 900001), ("col", 900002)):
        done = False
        for e in evs:
            e = json.loads(json.dumps(e))
            e["scn"] = scn
            if not done and e["ev"] == "op" and len(e["text"]) >= 2 and e["w"] >= 20:
                if tag == "text":
                    e["text"] = e["text"][1:]
                else:
                    e["col"] = e["col"] + 1
                done = True
            out.append(e)
    d = os.path.join(c.scratch, "selftest")
    os.makedirs(d, exist_ok=True)
    with open(os.path.join(d, "shard00.ndjson"), "w") as f:
        for e in out:
            f.write(json.dumps(e) + "\n")
    json.dump({"scenarios": 2, "events": len(out), "shards": 1, "lines": [len(out)]}, open(os.path.join(d, "meta.json"), "w"))
    before = dict(c.cov)
    rej, _ = c.validate_traces(specs, "LineEdit_Trace.tla", "LineEdit_Trace.cfg", d, label="binding self-test (corrupted copy)")
    c.cov["traces_validated_against_impl"] = before["traces_validated_against_impl"]
    c.cov["evaluations"] = before["evaluations"]
    got = sorted({(r["scn"], r["why"]) for r in rej})
    c.cov["binding_selftest"] = {"corrupted": ["text: first grapheme of the observed text dropped", "col: drawn cursor column + 1"],
                                 "rejected": [list(x) for x in got]}
    import sys
    sys.path.insert(0, os.path.dirname(os.path.dirname(os.path.abspath(__file__))) + "/lib")
    import vcheck
    if (900001, "text") not in got or (900002, "col") not in got:
        raise vcheck.Inconclusive("binding self-test: corrupted text/column not rejected: %s" % got)


def main(c):
    ph, t = {}, time.time()

    def lap(name):
        nonlocal t
        ph[name] = round(time.time() - t, 1)
        t = time.time()
    c.cov["phase_s"] = ph
    # 16 trace-validation JVMs run in parallel: without a bound each sizes its heap (and TLC its
    # fingerprint table) from the machine's memory
    os.environ.setdefault("JAVA_TOOL_OPTIONS", "-Xmx3g")
    drv = c.build()
    lap("build")
    specs = c.stage_specs("text")
    c.assumptions += [
        "grapheme segmentation/widths of the observed text come from uniseg's Graphemes iterator; word class = base "
        "code point is a letter or digit (Go unicode tables); trusted base",
        "alphabet {a, b, 7, ideograph, decomposed e-acute, space, hyphen, emoji+modifier, flag}: no inserted cluster "
        "merges with a neighbour, except the joining characters (combining mark, emoji modifier, voiced sound mark) "
        "typed or pasted directly behind their base (insjoin/pastejoin: the resulting cluster is a logged fact), and the "
        "halves of four clusters (two regional indicators, Hangul L+V, Hangul syllable+T, emoji ZWJ + emoji) typed at the end "
        "of the line with one grapheme between them, which is then deleted (the pair and the cluster it forms are a logged "
        "fact; the cursor may then be on either side of the joined cluster)",
        "a TextField is given content by assigning its exported Value (setval): the cursor keeps its index, kept within "
        "the text; its private cursor index is read again only after the next command the widget acts on; two "
        "assignments with no such command between them are not generated",
        "keys are the vaxis.Key values the legacy decoder delivers (press events; one key event per typed/pasted grapheme; "
        "a pasted C0 byte/DEL arrives as the key it encodes - Enter, Ctrl+a, BackSpace ... - with EventType paste and no text)",
        "a pasted character that cannot be displayed (C0, DEL) may be kept or dropped, nothing else may happen; a text "
        "holding one has no display width (cursor column not judged); TAB and LF are not generated",
        "TextField exports no cursor accessor: its private cursor index (the field the property names) is read "
        "through reflection by the driver, next to the drawn cursor column; if no such field exists only the column is judged",
        "'the text fits the widget' = prompt width + text width + the cursor cell <= window width",
        "Enter: TextField submits and clears (change callback unconstrained for that event); textinput does not bind Enter",
        "textinput's drawn cursor is read through the verif hook Vaxis.VerifRequestedCursor",
    ]
    if not c.replay:
        # the repaired transcription against the oracle, and the three transcriptions as found, which TLC must
        # refute (stale count after a deletion; pasted control characters executed; count and cursor not
        # refreshed after the value was assigned); side by side
        from concurrent.futures import ThreadPoolExecutor
        models = [("MC_LineEdit.cfg" if c.tier == "quick" else "MC_LineEdit_deep.cfg", 8, False, None),
                  ("MC_LineEdit_orig.cfg", 2, True, "the stale-count transcription is no longer refuted"),
                  ("MC_LineEdit_pasteexec.cfg", 2, True, "executing pasted control characters is no longer refuted"),
                  ("MC_LineEdit_valstale.cfg", 2, True,
                   "a count and cursor not refreshed after the value was assigned are no longer refuted")]
        with ThreadPoolExecutor(len(models)) as ex:
            res = list(ex.map(lambda m: c.model_check(specs, "MC_LineEdit.tla", m[0], workers=m[1], expect_violation=m[2])[0], models))
        order = {m[0]: k for k, m in enumerate(models)}
        c.cov["models"].sort(key=lambda st: order.get(st["cfg"], 99))
        for st in c.cov["models"]:
            if st["cfg"] != models[0][0]:
                st["expected_violation"] = True
        for m, ok in zip(models, res):
            if m[2] and ok:
                c.notes.append("%s unexpectedly passed: %s" % (m[0], m[3]))
    lap("model_check")
    td = c.drive(drv, "c17", replay=c.replay)
    lap("drive")
    rejects, _ = c.validate_traces(specs, "LineEdit_Trace.tla", "LineEdit_Trace.cfg", td)
    lap("validate")
    if not c.replay:
        selftest(c, specs, td)
        lap("selftest")
    idx = c.load_index(td)
    c.count_distinct(idx)
    c.cov["driver"] = json.load(open(td + "/tables.json"))
    per, nops = {}, 0
    for s in idx.values():
        k = s["desc"]["widget"] + ":" + s["desc"]["gen"]
        per[k] = per.get(k, 0) + 1
        nops += len(s["desc"]["ops"] or [])
    c.cov["scenarios_by_widget_generator"] = per
    c.cov["operations_checked"] = nops
    for k in ("textfield:exh", "textinput:exh", "textinput:corner"):
        for s in idx.values():
            if s["desc"]["widget"] + ":" + s["desc"]["gen"] == k and len(s["desc"]["ops"] or []) >= 3:
                c.sample({"scenario": s["desc"]})
                break
    cands = [(sig_of(r, idx[r["scn"]]), r, idx[r["scn"]]) for r in rejects]
    by = {}
    for sg, r, s in cands:
        by[sg] = by.get(sg, 0) + 1
    c.cov["rejections_by_signature"] = by
    c.confirm(drv, "c17", specs, "LineEdit_Trace.tla", "LineEdit_Trace.cfg", cands, sig_of)
    lap("confirm")
    return c.finish(
        rule="scenario = (widget, prompt, window width, command history); bounded-exhaustive: every history of length "
             "1..2 (quick) / 1..4 (thorough) over the widget's command alphabet (insert narrow/wide/two-codepoint/blank "
             "grapheme, every navigation and deletion key, Enter or paste; TextField: a paste holding a control character) "
             "from 5 starting contents/cursors (TextField: an assignment of Value is one more command, and 2 more starts "
             "given through Value, one with the cursor beyond the new end), window widths cycling 0..40; prefixed: from the "
             "same 5 starts a base plus a typed/pasted joining character (4 pairs x 3 forms) or a paste holding one of 11 control "
             "characters, from 2 of them the deletion (BackSpace, Delete; textinput Ctrl+w) of the grapheme between two that "
             "then join (4 pairs), then every history of length 0..1 (quick) / 0..2 (thorough); seeded random histories of 60..300 commands (a third with Caps Lock / Num Lock bits on every key) incl. method calls, unbound keys, key "
             "releases, pastes (a third with control characters), joining characters, joining deletions, assignments of Value, resizes; hand-written corners. Every command is one event checked by LineEdit!Next "
             "(text, cursor), ChangeOK/SubmitOK (callbacks) and ColOK (drawn cursor); distinct = distinct descriptor")
