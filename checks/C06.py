"""C06 - the embedded terminal shows what a VT/xterm would show (core vocabulary)."""
from checks import emu_common

SPEC, CFG = "VTRef_Trace.tla", "VTRef_Trace.cfg"
ORACLE_OPS = ["PRINT", "CR", "CUP", "HVP", "CHA", "HPA", "VPA", "SGR", "DECSC", "DECRC", "ALTON", "ALTOFF",
              "ALT47ON", "ALT47OFF", "ALT1047ON", "ALT1047OFF", "SC1048", "RC1048", "SU", "SD", "DECSTBM",
              "LF", "IND", "RI", "NEL", "CUU", "CUD", "CUF", "CUB", "CNL", "CPL", "ED", "EL", "ECH", "ICH", "DCH", "IL", "DL"]
SIZES = ["2x2", "2x3", "3x2", "3x3", "3x4", "4x5"]


def sig_of(rej, scn):
    return "C06:%s:%s:%s" % (rej.get("op"), rej.get("why"), rej.get("cls") or "-")


def main(c):
    drv = c.build()
    specs = c.stage_specs("term", "emu")
    c.assumptions += [
        "the library's own parser (ansi.Parser, property C02) turns the operation bytes into sequences; widths of printed clusters are uniseg facts",
        "oracle VTRef: autowrap on, insert/origin mode off, no left/right margins; DEC/xterm differences accepted both ways "
        "(IL/DL cursor column, DECSTBM bottom beyond the page); halves of split wide glyphs and class-C operations while a wrap "
        "is pending are unconstrained",
        "cells are compared by what they show (foreground of a plain blank and underline colour without underline ignored)",
        "a cluster that uniseg measures wider than two columns (U+2E3A, U+2E3B) is shown by the reference terminal as a narrow or "
        "as a wide glyph (either accepted, xterm: narrow), never wider; parameters of seven digits and more are logged as one "
        "symbolic value (the oracle compares parameters with screen sizes only: MC_VTRef ThmHuge)",
    ]
    if not c.replay:
        c.model_check(specs, "MC_VTRef.tla", "MC_VTRef.cfg" if c.tier == "quick" else "MC_VTRef_deep.cfg", workers=8)
    if not c.replay:
        emu_common.binding_selftest(c, drv, "c06", specs, SPEC, CFG)
    families = [None] if (c.replay or c.tier == "quick") else ["rand"] + ["ex:" + z for z in SIZES]
    cands = emu_common.run_batches(c, drv, "c06", specs, SPEC, CFG, families, sig_of)
    c.confirm(drv, "c06", specs, SPEC, CFG, cands, sig_of)
    if not c.replay:
        hits = c.cov.get("oracle_action_hits", {})
        c.cov["oracle_actions_never_exercised"] = sorted(set(ORACLE_OPS) - {k for k, v in hits.items() if v > 0})
    return c.finish(
        rule="scenario = screen size x operation sequence over the C06 vocabulary (bounded-exhaustive over the boundary-parameter "
             "alphabet from prepared start states: length 1 everywhere incl. every counted/positional function with 13 huge values "
             "(2^16 .. 2^64+3, 10^30), length 2 and 3 on the small screens; seeded random long "
             "sequences on screens up to 12x6; fixed corner cases); after EVERY operation the emulator's grid, cursor, pending-wrap "
             "flag, pen, margins, active screen and saved cursors must be an outcome of the VTRef oracle; distinct = distinct "
             "scenario descriptor")
