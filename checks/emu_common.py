"""Helpers shared by the emulator checks (C05, C06): streaming access to large
scenario indexes and batch-wise trace validation."""
import hashlib
import json
import os
import shutil
import time

from vcheck import log

os.environ.setdefault("JAVA_TOOL_OPTIONS", "-Xmx3g")


def scan_index(tracedir, keep_ids, seen_hashes, kinds, nontrivial=lambda s: s["nev"] > 2):
    """One pass over index.ndjson: returns {id: scenario} for keep_ids, adds the
    descriptor hashes of non-trivial scenarios to seen_hashes and counts kinds."""
    kept = {}
    first = []
    with open(os.path.join(tracedir, "index.ndjson")) as f:
        for line in f:
            s = json.loads(line)
            if nontrivial(s):
                seen_hashes.add(hashlib.sha1(json.dumps(s["desc"], sort_keys=True).encode()).digest()[:10])
            k = s.get("sig", "?")
            kinds[k] = kinds.get(k, 0) + 1
            if s["id"] in keep_ids:
                kept[s["id"]] = s
            if len(first) < 2:
                first.append(s)
    return kept, first


def run_batches(c, drv, prop, specs, spec, cfg, families, sig_of, extra_of=lambda fam: ("-x", fam) if fam else (),
                conformance=None, shards=16):
    """drive + validate + collect candidates family by family, deleting each
    batch's shards once validated. Returns the candidate list for c.confirm."""
    cands = []
    hashes, kinds = set(), {}
    for fam in families:
        t1 = time.time()
        sub = "traces-%s" % (fam or "all").replace(":", "-")
        td = c.drive(drv, prop, sub=sub, replay=c.replay, extra=extra_of(fam), shards=shards)
        t2 = time.time()
        rejects, _ = c.validate_traces(specs, spec, cfg, td, label=fam or ("replay" if c.replay else "all"))
        if conformance:
            # implementation-shaped model run along the same traces: disagreements are MODEL-DRIFT, never a verdict
            before = (c.cov["traces_validated_against_impl"], c.cov["evaluations"])
            drifts, _ = c.validate_traces(specs, conformance[0], conformance[1], td, label="model-conformance " + (fam or "all"))
            c.cov["traces_validated_against_impl"], c.cov["evaluations"] = before
            mc = c.cov.setdefault("model_conformance", {"spec": conformance[0], "scenarios": 0, "drift_scenarios": 0, "drift_samples": []})
            mc["scenarios"] += json.load(open(os.path.join(td, "meta.json")))["scenarios"]
            mc["drift_scenarios"] += len(drifts)
            for d in drifts[:3]:
                if len(mc["drift_samples"]) < 5:
                    mc["drift_samples"].append({k: d.get(k) for k in ("k", "m", "what")})
            if drifts:
                c.notes.append("MODEL-DRIFT: %s disagrees with the code in %d scenario(s) of family %s (no verdict)" % (conformance[0], len(drifts), fam))
        t3 = time.time()
        kept, first = scan_index(td, {r["scn"] for r in rejects}, hashes, kinds)
        tables = os.path.join(td, "tables.json")
        if os.path.exists(tables):
            ops = json.load(open(tables)).get("ops") or {}
            cov = c.cov.setdefault("oracle_action_hits", {})
            for k, v in ops.items():
                cov[k] = cov.get(k, 0) + v
        for s in first:
            c.sample({"scenario": s["desc"]})
        cands += [(sig_of(r, kept[r["scn"]]), r, kept[r["scn"]]) for r in rejects]
        log("%s %s: drive %.1fs validate %.1fs index %.1fs, %d rejects" % (prop, fam, t2 - t1, t3 - t2, time.time() - t3, len(rejects)))
        shutil.rmtree(td, ignore_errors=True)
    c.cov["distinct_nontrivial"] += len(hashes)
    c.cov.setdefault("scenario_kinds", {}).update(kinds)
    return cands


def binding_selftest(c, drv, prop, specs, spec, cfg):
    """Guard against a vacuous trace specification: the driver records one good
    trace and two copies in which one recorded field is corrupted; TLC must
    reject exactly the corrupted ones."""
    from vcheck import Inconclusive
    before = (c.cov["traces_validated_against_impl"], c.cov["evaluations"])
    td = c.drive(drv, prop, sub="selftest", extra=("-x", "selftest"), shards=1)
    rejects, _ = c.validate_traces(specs, spec, cfg, td, label="binding self-test")
    c.cov["traces_validated_against_impl"], c.cov["evaluations"] = before
    got = sorted(r["scn"] for r in rejects)
    # scenario 0 (uncorrupted) is judged by the main run; here only the corrupted copies matter
    ok = 1 in got and 2 in got
    c.cov["binding_selftest"] = {"corrupted_rejected": ok, "rejected": [r.get("why") for r in rejects if r["scn"] in (1, 2)]}
    shutil.rmtree(td, ignore_errors=True)
    if not ok:
        raise Inconclusive("binding self-test failed for %s: rejected scenarios %s, expected 1 and 2" % (spec, got))
