"""C02 - input parser conforms to the VT500 state machine plus documented extensions."""
import vselftest
from checks import selfmut
import json


def _has_fffd(it):
    if not isinstance(it, dict):
        return False
    return it.get("v") == 65533 or 65533 in (it.get("d") or [])


def _t(it):
    return it.get("t") if isinstance(it, dict) else str(it)


def sig_of(rej, scn):
    at = rej.get("at") or ["?", "?"]
    w, g = at[0], at[1]
    if rej.get("why") != "items":
        return "C02:%s" % rej.get("why")
    if rej.get("known"):      # the oracle's own diagnosis: nothing differs but an ESC \\ delivered after an empty OSC
        return "C02:items:" + rej["known"]
    if isinstance(g, dict) and g.get("t") == "esc" and g.get("f") == 92 and not g.get("i") and \
            not (isinstance(w, dict) and w.get("t") == "esc" and w.get("f") == 92):
        return "C02:items:spurious-ESC-backslash" + (":" + at[2] if len(at) > 2 and at[2] else "")
    if _has_fffd(w) and not _has_fffd(g):
        return "C02:items:U+FFFD-altered-in-%s" % _t(w)
    if isinstance(w, dict) and w.get("t") == "esc" and w.get("f") == 92 and not w.get("i") and \
            not (isinstance(g, dict) and g.get("t") == "esc" and g.get("f") == 92 and not g.get("i")):
        # at[2]: the oracle's marker of the situation this ESC \\ is in (after an abandoned DCS header, ESC ESC \\ after a string)
        return "C02:items:lost-ESC-backslash" + (":" + at[2] if len(at) > 2 and at[2] else "")
    if isinstance(w, dict) and isinstance(g, dict) and w.get("t") == "dcs" and g.get("t") == "dcs" and \
            all(w.get(k) == g.get(k) for k in ("i", "f", "d")):
        # the same device control string, its parameters differ (a value of 19 digits or more, [-2], is open)
        if len(g.get("p") or []) < len(w.get("p") or []):
            return "C02:items:dcs-parameters-lost"
        return "C02:items:dcs-parameters-differ"
    return "C02:items:want=%s:got=%s" % (_t(w), _t(g))


def main(c):
    drv = c.build()
    specs = c.stage_specs("parser")
    c.assumptions += [
        "UAX#29 segmentation and widths are logged facts from rivo/uniseg (trusted base)",
        "input is UTF-8: no 8-bit C1 controls; a non-ASCII scalar inside an escape/control sequence cancels it and whether it is printed is unconstrained; "
        "in the header of a device control string it may also be ignored, be taken as the final character or turn the string into an ignored one (each followed consistently to the end of the input)",
        "an ESC \\ is withheld only when its ESC ended a string state; optional when its ESC cut a DCS header short or a C0 control came between the two; delivered in every other place (after BEL/CAN/SUB, after a second ESC, after a cancelled sequence)",
        "more than 16 CSI parameters: only the first 16 are prescribed; a parameter value of 19 digits or more (beyond a 64-bit integer) is unconstrained, smaller ones are compared exactly as digit sequences "
        "(CSI and DCS alike: an out-of-range value leaves only itself open, not its neighbours nor the number of parameters)",
        "Go error values on the sequence channel are diagnostics of a character without a table entry (non-ASCII inside a sequence): not compared with the prescription, "
        "but none may arrive when every input character is 00-7F (the state table covers those in every state)",
    ]
    if not c.replay:
        c.model_check(specs, "MC_VT500.tla", "MC_VT500.cfg" if c.tier == "quick" else "MC_VT500_deep.cfg", workers=16)
    td = c.drive(drv, "c02", replay=c.replay)
    rejects, _ = c.validate_traces(specs, "VT500_Trace.tla", "VT500_Trace.cfg", td)
    if not c.replay:
        c.cov["binding_selftest"] = vselftest.run(c, specs, "VT500_Trace.tla", "VT500_Trace.cfg", td, {r["scn"] for r in rejects}, [
            ("first delivered sequence missing", selfmut.item_dropped),
            ("end marker missing", selfmut.eof_dropped),
            ("parser panicked", selfmut.parser_panicked),
        ])
    idx = c.load_index(td)
    c.count_distinct(idx, nontrivial=lambda s: True)
    for s in list(idx.values())[:4]:
        c.sample({"scenario": s["desc"]})
    cands = [(sig_of(r, idx[r["scn"]]), r, idx[r["scn"]]) for r in rejects]
    c.confirm(drv, "c02", specs, "VT500_Trace.tla", "VT500_Trace.cfg", cands, sig_of)
    return c.finish(
        rule="scenario = byte string x read split; bounded-exhaustive over one representative per byte class "
             "(24 classes, length <=3 quick / <=4 thorough, each also with one random split), grammar-generated sequence "
             "streams, rich-Unicode text and random bytes, all randomly chunked; distinct = distinct (bytes, splits)",
        exhaustive=False)
