"""C15 - vxfw routes events capture-target-bubble and keeps focus and hover consistent."""
import concurrent.futures as cf
import json
import os
import re
import shutil
import time

import vcheck
import vselftest

# short-lived JVMs: C1 only and few helper threads cut the CPU of a trace shard to a third
os.environ.setdefault("JAVA_TOOL_OPTIONS", "-XX:TieredStopAtLevel=1 -XX:ParallelGCThreads=2 -XX:CICompilerCount=2")


def _corrupt_order(evs):
    """two consecutive offers of one event recorded in the opposite order"""
    for e in evs:
        if e.get("ev") == "step" and e["in"]["cls"] != "S":
            o = e["offers"]
            for i in range(len(o) - 1):
                if o[i]["cls"] == e["in"]["cls"] == o[i + 1]["cls"] and (o[i]["w"], o[i]["ph"]) != (o[i + 1]["w"], o[i + 1]["ph"]):
                    o[i], o[i + 1] = o[i + 1], o[i]
                    return evs
    return None


def _corrupt_focus(evs):
    """a focus-out notification dropped from the record"""
    for e in evs:
        if e.get("ev") == "step":
            for i, o in enumerate(e["offers"]):
                if o["cls"] == "fout":
                    del e["offers"][i]
                    return evs
    return None


def _corrupt_hover(evs):
    """a mouse-leave notification dropped from the record"""
    for e in evs:
        if e.get("ev") == "step":
            for i, o in enumerate(e["offers"]):
                if o["cls"] == "leave":
                    del e["offers"][i]
                    return evs
    return None


def _corrupt_consume(evs):
    """an offer appended after the one that consumed the event"""
    for e in evs:
        if e.get("ev") == "step" and e["in"]["cls"] not in ("S", "kQ", "kR"):
            o = e["offers"]
            if o and o[-1]["cls"] == e["in"]["cls"] and json.dumps(o[-1]["ret"]).count("consume") and o[-1]["ph"] != "bub":
                o.append({"w": 1, "ph": "bub", "cls": e["in"]["cls"], "ret": {"c": "nil"}})
                return evs
    return None


def _corrupt_undrawn_target(evs):
    """the target-phase offer to a focused widget that is not part of the drawn frame recorded as an offer to the root"""
    reset = evs[0]
    lay = 1
    for e in evs[1:]:
        if e.get("ev") == "frame":
            lay = e["lay"]
        if e.get("ev") == "step" and e["in"]["t"] in ("key", "custom"):
            for o in e["offers"]:
                if o["cls"] != e["in"]["cls"] or o["ph"] != "tgt" or o["w"] == 1:
                    continue
                w, absent = o["w"], False
                while w > 0:
                    absent = absent or reset["lays"][lay - 1][w - 1]["hid"]
                    w = reset["pars"][lay - 1][w - 1]
                if absent:
                    o["w"] = 1
                    return evs
    return None


def _corrupt_reparent_hover(evs):
    """the leave/enter notifications of a frame that draws a widget under another parent dropped (the stale chain kept)"""
    reset = evs[0]
    lay = 1
    for e in evs[1:]:
        if e.get("ev") != "frame":
            continue
        prev, lay = lay, e["lay"]
        if reset["pars"][prev - 1] == reset["pars"][lay - 1]:
            continue
        left = {o["w"] for o in e["items"] if o["cls"] == "leave"}
        came = {o["w"] for o in e["items"] if o["cls"] == "enter"}
        if left != came:
            e["items"] = [o for o in e["items"] if o["cls"] not in ("leave", "enter")]
            return evs
    return None


def _has_focus(ret):
    return ret.get("c") == "focus" or any(_has_focus(x) for x in ret.get("l", []))


def _corrupt_nested_focus(evs):
    """the focus-out of a widget that answers it with a focus command recorded twice (the change re-entered)"""
    for e in evs:
        if e.get("ev") == "step":
            for i, o in enumerate(e["offers"]):
                if o["cls"] == "fout" and _has_focus(o["ret"]):
                    e["offers"].insert(i + 1, dict(o, ret={"c": "nil"}))
                    return evs
    return None


def _corrupt_live_target(evs):
    """a key whose capturing ancestor moved the focus without consuming it: the target-phase offer recorded as made to
    the newly focused widget, the rest of the route unchanged"""
    reset = evs[0]
    lay = 1
    for e in evs[1:]:
        if e.get("ev") == "frame":
            lay = e["lay"]
        if e.get("ev") == "step" and e["in"]["t"] == "key":
            cls = e["in"]["cls"]
            fins = [o["w"] for o in e["offers"] if o["cls"] == "fin"]
            mover = [o for o in e["offers"] if o["cls"] == cls and o["ph"] == "cap" and _has_focus(o["ret"])]
            tgt = [o for o in e["offers"] if o["cls"] == cls and o["ph"] == "tgt"]
            bub = [o["w"] for o in e["offers"] if o["cls"] == cls and o["ph"] == "bub"]
            if fins and mover and tgt and tgt[0]["w"] != fins[-1] and not json.dumps([o["ret"] for o in e["offers"]]).count("consume"):
                anc, w = [], reset["pars"][lay - 1][fins[-1] - 1]
                while w > 0:
                    anc.append(w)
                    w = reset["pars"][lay - 1][w - 1]
                if anc != bub:      # (else the corrupted record is the route of the new focus, which R1m allows)
                    tgt[0]["w"] = fins[-1]
                    return evs
    return None


def _corrupt_twice(evs):
    """a capture-phase offer of a mouse event recorded twice"""
    for e in evs:
        if e.get("ev") == "step" and e["in"]["t"] == "mouse":
            for i, o in enumerate(e["offers"]):
                if o["cls"] == e["in"]["cls"] and o["ph"] == "cap" and not json.dumps(o["ret"]).count("consume"):
                    e["offers"].insert(i, dict(o))
                    return evs
    return None


def _corrupt_quit_in_frame(evs):
    """an event dispatched after the frame in which a notification handler returned quit"""
    for i, e in enumerate(evs):
        if e.get("ev") == "frame" and json.dumps([o["ret"] for o in e["items"]]).count("quit") and i + 1 < len(evs) and evs[i + 1].get("ev") == "exit":
            evs.insert(i + 1, {"ev": "step", "in": {"t": "key", "cls": "S"}, "offers": [{"w": 1, "ph": "tgt", "cls": "S", "ret": {"c": "nil"}}], "scn": e.get("scn")})
            return evs
    return None


def _corrupt_undrawn_bubble(evs):
    """the bubble offer to the root dropped from a key that the root captured while the focused widget is not in the frame"""
    reset = evs[0]
    lay = 1
    for e in evs[1:]:
        if e.get("ev") == "frame":
            lay = e["lay"]
        if e.get("ev") == "step" and e["in"]["t"] in ("key", "custom") and e["in"]["cls"] != "S":
            cls = e["in"]["cls"]
            d = [o for o in e["offers"] if o["cls"] == cls]
            if len(d) == len(e["offers"]) and len(d) >= 3 and d[0]["w"] == 1 and d[0]["ph"] == "cap" and d[-1]["w"] == 1 and d[-1]["ph"] == "bub" \
                    and not json.dumps([o["ret"] for o in d]).count("consume"):
                w, absent = [o["w"] for o in d if o["ph"] == "tgt"][0], False
                while w > 0:
                    absent = absent or reset["lays"][lay - 1][w - 1]["hid"]
                    w = reset["pars"][lay - 1][w - 1]
                if absent:
                    e["offers"] = e["offers"][:-1]
                    return evs
    return None


def _corrupt_tie_flap(evs):
    """a frame drawn again from the same layout under a resting pointer recorded as moving the hover from the deepest
    hovered widget to a childless sibling of the same z-index that contains the point too"""
    reset = evs[0]
    lay, ptr, hover = 1, None, set()
    for e in evs[1:]:
        if e.get("ev") == "step":
            if e["in"]["t"] == "mouse":
                ptr = (e["in"]["x"], e["in"]["y"])
            elif e["in"]["t"] in ("tfout", "tfin"):
                ptr = None
            items = e["offers"]
        elif e.get("ev") == "frame":
            items = e["items"]
        else:
            continue
        before = set(hover)
        for o in items:
            if o["cls"] == "enter":
                hover.add(o["w"])
            elif o["cls"] == "leave":
                hover.discard(o["w"])
        if e.get("ev") != "frame":
            continue
        prev, lay = lay, e["lay"]
        if prev != lay or ptr is None or before != hover or len(hover) < 2 or any(o["cls"] != "draw" for o in items):
            continue
        par, geo = reset["pars"][lay - 1], reset["lays"][lay - 1]
        deep = [w for w in hover if not any(par[k - 1] == w for k in hover)]
        if len(deep) != 1:
            continue
        w, x, y = deep[0], ptr[0], ptr[1]
        a = par[w - 1]
        while a > 0:
            x, y, a = x - geo[a - 1]["x"], y - geo[a - 1]["y"], par[a - 1]
        for v in range(1, reset["n"] + 1):
            g = geo[v - 1]
            if v != w and par[v - 1] == par[w - 1] and g["z"] == geo[w - 1]["z"] and not g["hid"] and v not in par \
                    and g["x"] <= x < g["x"] + g["w"] and g["y"] <= y < g["y"] + g["h"]:
                e["items"] += [{"w": w, "ph": "tgt", "cls": "leave", "ret": {"c": "nil"}}, {"w": v, "ph": "tgt", "cls": "enter", "ret": {"c": "nil"}}]
                return evs
    return None


def sig_of(rej, scn):
    why = rej.get("why")
    t = (rej.get("in") or {}).get("t", rej.get("op"))
    exp = rej.get("exp") or {}
    ctx = []
    if t in ("key", "custom", "init") and exp.get("moved"):
        ctx.append("focus-moved-since-frame")
    if t in ("key", "custom", "frame") and exp.get("undrawn"):
        ctx.append("focus-not-in-frame")
    if t in ("mouse", "frame") and exp.get("overlap"):
        ctx.append("overlapping-siblings")
    if t in ("mouse", "frame") and exp.get("tie"):
        # siblings of equal z-index overlap under the pointer: which of them is on top is open, but it is ONE of them for
        # a frame and a point; "pointer-at-rest": the chain had been established (by the frame or the event before) and
        # neither the pointer nor the tree and layout changed
        ctx.append("equal-z-siblings")
        if exp.get("rest"):
            ctx.append("pointer-at-rest")
    if t in ("mouse", "tfin", "frame") and exp.get("tfin"):
        ctx.append("after-terminal-focus-in")
    if t in ("mouse", "tfout", "frame") and exp.get("relaid"):
        ctx.append("reparented-since-pointer-moved")
    if exp.get("held"):
        # (a handler moved the focus while the event was on its way; says more than "since the last frame")
        ctx = [x for x in ctx if x != "focus-moved-since-frame"] + ["focus-moved-during-dispatch"]
    if exp.get("selfnest") and (why == "offer-twice" or (why or "").startswith("hover")):
        # a widget on the chain draws a surface of its own inside its surface; the only context kept for these
        ctx = ["self-nested-surface"]
    if why == "event-after-quit" and exp.get("qtick"):
        ctx.append("quit-returned-in-frame")
    return "C15:%s:%s:%s" % (t, why, "+".join(ctx))


def main(c):
    t0, phase = time.time(), {}

    def lap(name):
        nonlocal t0
        phase[name] = round(time.time() - t0, 1)
        t0 = time.time()
    drv = c.build()
    lap("build")
    specs = c.stage_specs("vxfw")
    c.assumptions += [
        "trusted base: fake console, vaxis input parser (bytes -> events; checked by C02/C03), TLC, encoding/json",
        "whether a capturing *target* also sees the event in the capture phase is left open (optional offer)",
        "order between a focus-out and its focus-in, and position of notifications relative to the event's own offers, are left open",
        "a focus command returned without consume while the event is on its way: the whole route is that of ONE widget that held the "
        "focus at some moment of the dispatch (which one is left open); only the handlers offered the event itself can consume it",
        "a focus-out/focus-in handler that itself returns a focus command: the order in which the competing commands take effect (and so "
        "who ends up focused) is left open; demanded: notifications in pairs (focus-out to the holder, focus-in to its successor), every "
        "change paid for by one focus command returned before it, at least one change when a command names another widget than the holder",
        "scripted focus answers to notifications are given once (re-armed by the driver between events): handlers that always hand the "
        "focus on make any implementation loop",
        "a quit returned by a notification handler while a frame is drawn ends the run with that frame: no further event is dispatched",
        "a widget that draws a surface tagged with itself inside its own surface is one widget of the chain (the oracle knows widgets, "
        "not surfaces); such an inner surface has the size and origin of the outer one",
        "layouts change geometry, z-order, which widgets are drawn at all (a widget that is not drawn is absent from the frame with "
        "its subtree) and which parent draws a widget (the same widget instance may be a child of different parents in different "
        "layouts); the tree that counts for the chain under the pointer, the hover set, the mouse route and the focus path is the tree "
        "of the last drawn frame; overlapping siblings have distinct z, except in the family 'ties'",
        "among overlapping siblings of EQUAL z-index which one is on top is left open (the property orders by z); demanded is only that the "
        "chain under the pointer is ONE chain for one drawn frame and one point: the hover set a frame leaves under a resting pointer is "
        "the chain of every mouse event at that point until the next frame, and a frame drawn again from the same tree and layout under a "
        "resting pointer enters and leaves nobody",
        "while the widget holding the focus is not part of the last drawn frame only the target-phase offer (to it, to nobody else), the "
        "order of the phases and the stop at a consume are judged: the property does not say who its ancestors are; a frame that does "
        "not contain the focused widget may be followed by one focus change away from it (one focus-out, one focus-in), or by none",
        "refresh is observed as a full repaint of the frame (>= cols*rows printed cells) on a static screen",
    ]
    models = None
    if not c.replay:
        # the negative controls and the model with scripted notification answers run beside the exhaustive model (plain
        # TLC runs; their bookkeeping is done in join_models, in order); all of them run in the background while the
        # driver and the trace validation work, and are joined before the verdict
        negs = [("MC_Routing_asfound.cfg", "the transcription of the unrepaired dispatch (path refreshed only at frames, every overlapping "
                 "sibling hit, enter on terminal focus-in)"),
                ("MC_Routing_staletarget.cfg", "a dispatch whose target is the end of the path (and not the focused widget), on the tree "
                 "with an undrawn widget"),
                ("MC_Routing_fastpath.cfg", "a hover update that keeps the old hit list when the deepest hit and the depth are unchanged, "
                 "on the tab view whose pages hand a shared leaf over"),
                ("MC_Routing_reentrant.cfg", "a focus change that interprets the answer to the focus-out before it switches the focus "
                 "(a focus command among it re-enters: two focus-outs to one widget)"),
                ("MC_Routing_livetarget.cfg", "a dispatch that keeps the path it started on but reads the target when the target phase "
                 "starts (a capturing ancestor moved the focus meanwhile)"),
                ("MC_Routing_bubbleskip.cfg", "a bubble loop that starts below the last widget of the path whoever the target is (the root "
                 "captures for an undrawn focus and is never bubbled to)"),
                ("MC_Routing_consumeleak.cfg", "a consume returned for a focus notification stopping the event being routed"),
                ("MC_Routing_dupself.cfg", "a widget that draws a surface of its own inside its surface listed once per surface in the hit "
                 "list and the focus path")]

        def neg(cfg):
            md = os.path.join(c.scratch, "mc-" + cfg[:-4])
            rc, out = c._tlc(specs, "MC_Routing.tla", cfg, {}, 2, md, 3000, extra=("-noGenerateSpecTE",))
            shutil.rmtree(md, ignore_errors=True)
            return out
        ex = cf.ThreadPoolExecutor(max_workers=len(negs) + 2)
        main_f = ex.submit(c.model_check, specs, "MC_Routing.tla", "MC_Routing.cfg" if c.tier == "quick" else "MC_Routing_deep.cfg")
        nested_f = ex.submit(c.model_check, specs, "MC_Routing.tla", "MC_Routing_nested.cfg", 4)
        futs = [ex.submit(neg, cfg) for cfg, _ in negs]

        def join_models():
            ok, _ = main_f.result()
            ok2, _ = nested_f.result()
            outs = [f.result() for f in futs]
            ex.shutdown()
            if not (ok and ok2):
                raise vcheck.Inconclusive("MC_Routing: an exhaustive model did not complete without error (spec-level problem, not a verdict)")
            for (cfg, what), out in zip(negs, outs):
                m = re.search(r"(\d+) states generated, (\d+) distinct states found", out)
                refuted = "Invariant Conforms is violated" in out
                if not m or not (refuted or "No error has been found" in out):
                    vcheck.log(out[-4000:])
                    raise vcheck.Inconclusive("TLC model run failed: MC_Routing.tla/%s" % cfg)
                st = {"model": "MC_Routing.tla", "cfg": cfg, "ok": not refuted, "transitions": int(m.group(1)), "states": int(m.group(2)),
                      "note": "negative control: %s must be refuted (refuted=%s)" % (what, refuted)}
                c.cov["states"] += st["states"]
                c.cov["transitions"] += st["transitions"]
                c.cov["models"].append(st)
                if not refuted:
                    c.notes.append("negative control %s was NOT refuted" % cfg[:-4])
        models = join_models
    td = c.drive(drv, "c15", replay=c.replay)
    lap("driver")
    rejects, _ = c.validate_traces(specs, "Routing_Trace.tla", "Routing_Trace.cfg", td)
    lap("trace_validation")
    if models:
        models()
    lap("models_join")
    idx = c.load_index(td)
    c.count_distinct(idx, nontrivial=lambda s: s["nev"] > 3)
    kinds = {}
    for s in idx.values():
        k = s["desc"]["Kind"]
        kinds[k] = kinds.get(k, 0) + 1
    c.cov["scenarios_by_kind"] = kinds
    c.cov["desynchronised_scenarios_not_judged"] = sum(1 for s in idx.values() if s.get("note") == "desync")
    c.cov["injected_events"] = sum(len(s["desc"].get("Steps") or []) for s in idx.values())
    for s in list(idx.values())[:40]:
        if len(json.dumps(s["desc"])) < 1800:
            c.sample({"scenario": s["desc"]})
    cands = [(sig_of(r, idx[r["scn"]]), r, idx[r["scn"]]) for r in rejects]
    c.cov["rejections_first_pass"] = len(cands)
    if not c.replay:
        c.cov["binding_selftest"] = vselftest.run(
            c, specs, "Routing_Trace.tla", "Routing_Trace.cfg", td, {r["scn"] for r in rejects},
            [("offer-order", _corrupt_order), ("focus-out-dropped", _corrupt_focus), ("leave-dropped", _corrupt_hover),
             ("offer-after-consume", _corrupt_consume), ("target-of-undrawn-focus", _corrupt_undrawn_target),
             ("hover-after-reparenting", _corrupt_reparent_hover), ("focus-out-twice-in-nested-change", _corrupt_nested_focus),
             ("target-after-focus-moved-in-capture", _corrupt_live_target), ("offer-twice", _corrupt_twice),
             ("event-after-quit-in-frame", _corrupt_quit_in_frame), ("root-bubble-of-undrawn-focus", _corrupt_undrawn_bubble),
             ("hover-flap-between-equal-z-siblings", _corrupt_tie_flap)])
    lap("binding_selftest")
    c.confirm(drv, "c15", specs, "Routing_Trace.tla", "Routing_Trace.cfg", cands, sig_of)
    lap("confirm")
    for n in c.notes:
        vcheck.log("C15 note: %s" % n)
    c.cov["phase_seconds"] = phase
    vcheck.log("C15 phases (s): %s" % phase)
    return c.finish(
        rule="route-*: every tree shape (all sibling orders) of <=4 (quick; thorough <=5) widgets x every capture mask x every focus "
             "position x every single consumer (widget, phase) or none, by key and by mouse at every widget, with and without a frame "
             "after each focus change; random: trees <=7 widgets with overlapping z-ordered siblings, random command trees (nested "
             "batches of both kinds, focus, refresh, quit), key/mouse/terminal-focus/custom events, forced frames and layout "
             "switches; hidden-focus: every tree shape of <=3 (quick; plus a quarter of size 4; thorough <=4 plus a quarter of size 5) x "
             "every capture mask x every non-root widget left out of layout 0 with its subtree: each widget of that subtree focused while "
             "undrawn (by the target, by the root bubbling, by the root capturing), keys with every single consumer and custom events "
             "before any frame, after a frame without it, after the frame that draws it and after the frame that drops it again; "
             "random-hidden: the random family with random undrawn sets per layout; reparent-tabs/stack/side: every tree shape of 4 (quick; "
             "plus 1/32 of size 5; thorough: all of size 5) x every widget m below a non-root parent q x every sibling p of q x every capture "
             "mask: layout 1 draws m (with its subtree) under p instead of q - only the page holding m drawn (same screen position), both "
             "pages on one rectangle with the holder on top, or side by side - with the pointer resting on each widget of m's subtree across "
             "the switch, then a key, every mouse class with its single consumer or none at the resting cell and at the new place, the "
             "switch back, terminal focus out/in and the pointer leaving; random-reparent / random-hidden-reparent: the random family with "
             "random per-layout parents, half with a page pair handing a child over under the pointer; nested-focus-*: every shape <=3 (quick; plus "
             "1/16 of size 4; thorough <=4) x capture mask x widget c: the first focus-out (focus-in) handler after an arm answers with a focus "
             "command for c, for every ordered pair (holder, newly focused) and three ways of focusing; midroute-*: per shape x mask every "
             "focus position x capturing ancestor a x widget b: a's CaptureEvent (the target; the root bubbling) returns focus(b) without "
             "consume, plain or with every focus-in (focus-out) handler returning consume; tick-*: a widget appearing / vanishing under a "
             "resting pointer or vanishing while focused answers the notification the frame sends with quit, focus or consume; "
             "ties: one surface with 13-18 children (more than a dozen: sorting them by "
             "z-index is then no longer a trivially stable insertion sort), one row each at z-index 0, 2-4 of them rectangles overlapping their "
             "siblings, 1-3 raised or lowered, children below some, one or two layouts (different widgets raised): the pointer resting on a cell "
             "shared by siblings of equal z-index while frames are drawn from the unchanged tree and presses, releases, motions and wheel "
             "events arrive at that cell (with single consumers), then moving, layout switches, terminal focus out/in; "
             "route-selfnest: the route family on trees in which a set of widgets draws a surface of its own inside its surface; the random "
             "families also return focus (one-shot), consume and quit from notification handlers and focus without consume from capture / "
             "target handlers, a third of them with self-nested widgets; fixed corner cases; every sentinel key is itself a checked key dispatch; distinct = distinct descriptor")
