"""C10 - concurrent use is race-free and deadlock-free; shutdown completes."""
import vselftest
from checks import selfmut
import json
import re


def sig_of(rej, scn):
    why = rej.get("why")
    det = rej.get("detail") or ""
    if why == "data-race":
        return "C10:data-race:" + re.sub(r"[^A-Za-z0-9.]+", "-", det[6:90])
    if why == "shutdown-hang":
        return "C10:shutdown-hang:" + re.sub(r"[^A-Za-z]+", "-", det)[:50]
    if why == "goroutine-leak":
        return "C10:goroutine-leak:" + re.sub(r"[^A-Za-z0-9.]+", "-", ",".join(rej.get("leaked") or []))[:80]
    if why == "caller-stuck":
        return "C10:caller-stuck:" + re.sub(r"[^A-Za-z]+", "-", ",".join(rej.get("stuck") or []))[:60]
    if why == "panic":
        return "C10:panic:" + re.sub(r"[^A-Za-z0-9]+", "-", det)[:60]
    return "C10:%s" % why


def main(c):
    drv = c.build(race=True, name="drive-race")
    specs = c.stage_specs("conc")
    c.assumptions += [
        "data races are observed by Go's race detector on the executions the driver produces (trusted base); the design-level interleavings are explored by TLC on specs/conc/Shutdown.tla",
        "an application that neither reads events nor lets replies be handled while it waits for a query has deadlocked itself: not generated",
        "goroutines 'started by the library' are those whose creator frame is in package vaxis or vaxis/ansi",
    ]
    if not c.replay:
        for cfg in ("MC_Shutdown_fixed_main.cfg", "MC_Shutdown_fixed_signal.cfg"):
            ok, _ = c.model_check(specs, "Shutdown.tla", cfg, workers=16)
            if not ok:
                c.notes.append("MODEL: Shutdown (repaired shape) violates a property: " + cfg)
        bad = 0
        for cfg in ("MC_Shutdown_prefix_main.cfg", "MC_Shutdown_prefix_signal.cfg", "MC_Shutdown_wakefirst.cfg"):
            ok, _ = c.model_check(specs, "Shutdown.tla", cfg, workers=4, expect_violation=True)
            bad += 0 if ok else 1
        c.cov["prefix_shutdown_models_violated_as_expected"] = bad
        # the resize hand-off between requesters and Render: repaired shape holds, as-found shape loses a request
        ok, _ = c.model_check(specs, "ResizeFlag.tla", "ResizeFlag_fixed.cfg", workers=2)
        if not ok:
            c.notes.append("MODEL: ResizeFlag (repaired shape) violates NoLostResize")
        ok, _ = c.model_check(specs, "ResizeFlag.tla", "ResizeFlag_found.cfg", workers=1, expect_violation=True)
        c.cov["resize_flag_as_found_refuted"] = not ok
    td = c.drive(drv, "c10", replay=c.replay)
    rejects, _ = c.validate_traces(specs, "Conc_Trace.tla", "Conc_Trace.cfg", td)
    if not c.replay:
        c.cov["binding_selftest"] = vselftest.run(c, specs, "Conc_Trace.tla", "Conc_Trace.cfg", td, {r["scn"] for r in rejects}, [
            ("race report", selfmut.conc("race", "WARNING: DATA RACE")),
            ("Close did not return", selfmut.conc("returned", False)),
            ("goroutine left", selfmut.conc("leaked", ["vaxis.(*Vaxis).openTty.func1"])),
            ("poster order", selfmut.poster_order),
            ("resize request lost", selfmut.resize_lost),
        ])
    idx = c.load_index(td)
    c.count_distinct(idx, nontrivial=lambda s: True)
    for s in list(idx.values())[:3]:
        c.sample({"scenario": s["desc"]})
    cands = [(sig_of(r, idx[r["scn"]]), r, idx[r["scn"]]) for r in rejects]
    # what a run shows depends on the schedule: re-run up to 8 of the rejected scenarios of a signature
    c.confirm(drv, "c10", specs, "Conc_Trace.tla", "Conc_Trace.cfg", cands, sig_of, tries=8)
    return c.finish(
        rule="scenario = event-queue size (1,2,4,1024) x capability set x input flood x reader policy (drain/slow/none) x up to 3 "
             "posters (PostEvent/PostEventBlocking/SyncFunc/Resize) x queries from another goroutine x frames rendered meanwhile x "
             "lone ESC 0-13 ms before the end x end (Close, Close twice, Suspend+Close, Suspend+Resume+Close), executed with the "
             "race detector (halt on first report) in child processes; distinct = distinct descriptor")
