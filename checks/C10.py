"""C10 - concurrent use is race-free and deadlock-free; shutdown completes."""
import vselftest
from checks import selfmut
import json
import os
import re
from concurrent.futures import ThreadPoolExecutor


def sig_of(rej, scn):
    why = rej.get("why")
    det = rej.get("detail") or ""
    if why == "data-race":
        return "C10:data-race:" + re.sub(r"[^A-Za-z0-9.]+", "-", det[6:90])
    if why == "shutdown-hang":
        return "C10:shutdown-hang:" + re.sub(r"[^A-Za-z]+", "-", det)[:50]
    if why == "goroutine-leak":
        return "C10:goroutine-leak:" + re.sub(r"[^A-Za-z0-9.]+", "-", ",".join(rej.get("leaked") or []))[:80]
    if why == "goroutine-outlives-suspend":
        return "C10:goroutine-outlives-suspend:" + re.sub(r"[^A-Za-z0-9.]+", "-", ",".join(rej.get("sleaked") or []))[:80]
    if why == "caller-stuck":
        return "C10:caller-stuck:" + re.sub(r"[^A-Za-z]+", "-", ",".join(rej.get("stuck") or []))[:60]
    if why in ("query-deadlock", "query-stuck-after-close"):
        # which callers are left blocked depends on the schedule: the signature names when the replies came
        return "C10:%s:%s" % (why, "-".join(sorted({w.split("/", 1)[1] for w in rej.get("who") or []})))
    if why == "panic":
        return "C10:panic:" + re.sub(r"[^A-Za-z0-9]+", "-", det)[:60]
    return "C10:%s" % why


def model_checks(c, specs, jobs):
    """jobs: (tla, cfg, workers, expect_violation). The TLC runs go side by side (a JVM start costs seconds);
    model_check's bookkeeping is then done one after the other on their outputs. Returns {cfg: ok}."""
    real = c._tlc

    def one(j):
        return real(specs, j[0], j[1], {}, j[2], os.path.join(c.scratch, "mcp-" + os.path.splitext(j[1])[0]), 3000,
                    ("-noGenerateSpecTE",))
    with ThreadPoolExecutor(6) as ex:
        outs = dict(zip([(j[0], j[1]) for j in jobs], ex.map(one, jobs)))
    c._tlc = lambda specdir, tla, cfg, *a, **k: outs[(tla, cfg)]
    try:
        return {j[1]: c.model_check(specs, j[0], j[1], workers=j[2], expect_violation=j[3])[0] for j in jobs}
    finally:
        del c._tlc


def main(c):
    drv = c.build(race=True, name="drive-race")
    specs = c.stage_specs("conc")
    c.assumptions += [
        "data races are observed by Go's race detector on the executions the driver produces (trusted base); the design-level interleavings are explored by TLC on specs/conc/Shutdown.tla",
        "an application that neither reads events nor lets replies be handled while it waits for a query has deadlocked itself: not generated",
        "goroutines 'started by the library' are those whose creator frame is in a package of the library (vaxis, vaxis/ansi, vaxis/widgets/...: the spinner's ticker goroutine is one of them)",
        "a goroutine 'outlives' Suspend when it is still alive one second after Suspend returned (before any Resume); not observed in the spinner and query scenarios",
        "a query call has to return while Vaxis runs when the terminal answered it and the application kept running (bound 4 s), and in every case once Close has returned (bound 1.5 s); what the call returns is not judged (C03 judges answers)",
    ]
    if not c.replay:
        jobs = [("Shutdown.tla", "MC_Shutdown_fixed_main.cfg", 8, False), ("Shutdown.tla", "MC_Shutdown_fixed_signal.cfg", 8, False),
                ("Shutdown.tla", "MC_Shutdown_prefix_main.cfg", 2, True), ("Shutdown.tla", "MC_Shutdown_prefix_signal.cfg", 2, True),
                ("Shutdown.tla", "MC_Shutdown_wakefirst.cfg", 2, True),
                # the resize hand-off between requesters and Render: repaired shape holds, as-found shape loses a request
                ("ResizeFlag.tla", "ResizeFlag_fixed.cfg", 2, False), ("ResizeFlag.tla", "ResizeFlag_found.cfg", 1, True),
                # the query hand-off: serialised callers get their own answers; serialised + timeout + release on Close always
                # return; the as-found shape deadlocks with two callers, and a never-answered query blocks its caller for good
                ("Query.tla", "Query_serial.cfg", 1, False), ("Query.tla", "Query_fixed.cfg", 2, False),
                ("Query.tla", "Query_found.cfg", 1, True), ("Query.tla", "Query_found_never.cfg", 1, True),
                ("Query.tla", "Query_serial_never.cfg", 1, True),
                # the clipboard hand-off (a rendezvous with the caller's own deadline): an offer that gives up lets input go
                # on and Close return whenever the reply comes; an offer that waits for the quit channel wedges both
                ("Rendezvous.tla", "Rendezvous_fixed.cfg", 1, False), ("Rendezvous.tla", "Rendezvous_blocking.cfg", 1, True),
                # Suspend beside an input goroutine that posts to a full queue: released and waited for, nothing outlives
                # Suspend (also when the input goroutine shuts down itself); as found it does; waiting for oneself deadlocks
                ("SuspendLeave.tla", "SuspendLeave_fixed_main.cfg", 1, False), ("SuspendLeave.tla", "SuspendLeave_fixed_signal.cfg", 1, False),
                ("SuspendLeave.tla", "SuspendLeave_found.cfg", 1, True), ("SuspendLeave.tla", "SuspendLeave_selfwait.cfg", 1, True)]
        ok = model_checks(c, specs, jobs)
        for tla, cfg, _, expect in jobs:
            if not expect and not ok[cfg]:
                c.notes.append("MODEL: %s (repaired shape) violates a property: %s" % (tla, cfg))
        c.cov["prefix_shutdown_models_violated_as_expected"] = sum(
            1 for cfg in ("MC_Shutdown_prefix_main.cfg", "MC_Shutdown_prefix_signal.cfg", "MC_Shutdown_wakefirst.cfg") if not ok[cfg])
        c.cov["resize_flag_as_found_refuted"] = not ok["ResizeFlag_found.cfg"]
        c.cov["query_handoff_as_found_models_deadlock"] = sum(
            1 for cfg in ("Query_found.cfg", "Query_found_never.cfg", "Query_serial_never.cfg") if not ok[cfg])
        c.cov["clipboard_rendezvous_blocking_offer_refuted"] = not ok["Rendezvous_blocking.cfg"]
        c.cov["suspend_leave_as_found_and_selfwait_refuted"] = sum(
            1 for cfg in ("SuspendLeave_found.cfg", "SuspendLeave_selfwait.cfg") if not ok[cfg])
    td = c.drive(drv, "c10", replay=c.replay)
    rejects, _ = c.validate_traces(specs, "Conc_Trace.tla", "Conc_Trace.cfg", td)
    if not c.replay:
        c.cov["binding_selftest"] = vselftest.run(c, specs, "Conc_Trace.tla", "Conc_Trace.cfg", td, {r["scn"] for r in rejects}, [
            ("race report", selfmut.conc("race", "WARNING: DATA RACE")),
            ("Close did not return", selfmut.conc("returned", False)),
            ("goroutine left", selfmut.conc("leaked", ["vaxis.(*Vaxis).openTty.func1"])),
            ("goroutine left after Suspend", selfmut.conc("sleaked", ["vaxis.(*Vaxis).openTty.func1"])),
            ("poster order", selfmut.poster_order),
            ("resize request lost", selfmut.resize_lost),
            ("answered query call never returned", selfmut.conc("queries", [{"kind": "bg", "reply": "late", "before": False, "after": True}])),
            ("query call blocked after Close", selfmut.conc("queries", [{"kind": "color", "reply": "never", "before": False, "after": False}])),
        ])
    idx = c.load_index(td)
    c.count_distinct(idx, nontrivial=lambda s: True)
    for s in list(idx.values())[:3]:
        c.sample({"scenario": s["desc"]})
    cands = [(sig_of(r, idx[r["scn"]]), r, idx[r["scn"]]) for r in rejects]
    # what a run shows depends on the schedule: re-run up to 8 of the rejected scenarios of a signature
    c.confirm(drv, "c10", specs, "Conc_Trace.tla", "Conc_Trace.cfg", cands, sig_of, tries=8)
    return c.finish(
        rule="scenario = event-queue size (1,2,4,1024) x capability set x input flood x reader policy (drain/slow/none) x up to 3 "
             "posters (PostEvent/PostEventBlocking/SyncFunc/Resize) x queries from another goroutine x frames rendered meanwhile x "
             "lone ESC 0-13 ms before the end x end (Close, Close twice, Suspend+Close, Suspend+Resume+Close, Close from a second "
             "goroutine); plus query scenarios: 1-4 goroutines x calls of QueryColor(distinct indexes)/QueryForeground/QueryBackground/"
             "CursorPosition/ClipboardPop x replies on time / 1-7 ms late / after the caller gave up (clipboard) / never / while the input is shut down / after Resume x 0-3 "
             "Suspend+Resume cycles meanwhile x end; plus widgets/spinner scenarios (run, stop queued, stopped, Start/Stop/Toggle from "
             "3 goroutines, across Suspend+Resume) then Close; plus Suspend beside a full event queue: queue 1/2/4 x input the "
             "input goroutine has to post (paste start, keys, focus, mouse) x Suspend+Close / Suspend+Resume+more input+late or no "
             "reader+Close, with the library's goroutines listed one second after Suspend returned; plus a sixel image re-encoded "
             "(library goroutine) beside frames that take in-band size reports over; executed with the race detector (halt on first report) in child "
             "processes; distinct = distinct descriptor")
