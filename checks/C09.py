"""C09 - key decoding and binding matching are exact and protocol-independent."""
import concurrent.futures as cf
import json
import os

FKBASE = 0x110000
SS3_ASSIGNED = "ABCDEFHPQRS" "MX" "jklmnopqrstuvwxy"     # self-test only: which recorded items are judged at all
MODN = ["shift", "alt", "ctrl", "super", "hyper", "meta", "caps", "num"]


def modnames(m):
    if m < 0:
        return "invalid"
    return "+".join(n for i, n in enumerate(MODN) if m & (1 << i)) or "none"


def modset(m, prefix=""):
    if m < 0:
        return {prefix + "invalid"}
    return {prefix + n for i, n in enumerate(MODN) if m & (1 << i)}


def keyclass(k):
    if k >= FKBASE:
        return "fk"
    if k in (9, 13, 27, 127):
        return "named%d" % k
    if k == 32:
        return "space"
    if k == 43:
        return "plus"
    if k < 32:
        return "ctl"
    if k < 128:
        c = chr(k)
        return "letter" if c.isalpha() else "graphic"
    return "nonascii"


def coarse(r):
    """(coarse signature, attribute set): the operation and condition class, and the features of the
    failing instance (modifier names, optional fields) among which the culprit is sought."""
    w = r.get("why")
    if w == "decode":
        return "C09:decode:%s:%s" % (r["kind"], r["diff"].rstrip("+")), frozenset()
    if w == "count":
        return "C09:count:%s:keys%d:other%d" % (r["kind"], r["n"], r["other"]), frozenset()
    if w == "match":
        k = r["key"]
        a = modset(k["mods"], "event-") | modset(r["bm"], "binding-")
        return "C09:match:%s:%s:%s:%s:%s" % (r["bound"], r["rel"], keyclass(r["bk"]), r["shift"], r["core"]), frozenset(a)
    if w == "mstr":
        a = {n.lower() for n in r["modnames"].split("+") if n}
        if r["form"] != "canon":
            a.add("form-" + r["form"])
        return "C09:mstr:%s:%s:%s" % (r["bound"], r["rel"], keyclass(r["bk"])), frozenset(a)
    if w == "self":
        kcls, mods, txt = r["cls"].split(":")
        a = set(mods.split("+")) if mods else set()
        if txt == "text":
            a.add("text")
        return "C09:self:%s" % kcls, frozenset(a)
    if w == "xp-string":
        c = r["chord"]
        return "C09:xp-string:%s/%s:%s" % (r["a"], r["b"], keyclass(c["key"])), frozenset(modset(c["mods"]))
    if w == "xp-match":
        c = r["chord"]
        d = c["mods"] ^ (r["bm"] & 63)
        return "C09:xp-match:%s/%s:%s:fields-differ=%s:binding=%s:%s:%s->%s" % (
            r["a"], r["b"], keyclass(c["key"]), r["opt"], r["rel"],
            "same-mods" if d == 0 else ("shift-differs" if d == 1 else "mods-differ"),
            str(r["resa"]).lower(), str(r["resb"]).lower()), frozenset(modset(c["mods"]))
    if w == "panic":
        return "C09:panic:%s" % r.get("msg", "")[:60], frozenset()
    return "C09:%s" % w, frozenset()


class Sigs:
    """Signature = coarse class + minimal culprit: among the rejected instances of a class the
    attribute sets that are minimal under inclusion are the culprits; an instance is filed under
    the first culprit it contains.  (A defect tied to one modifier thus gets one signature, not
    one per modifier combination; two independent culprits get two.)"""

    def __init__(self, rejects):
        groups = {}
        for r in rejects:
            c, a = coarse(r)
            groups.setdefault(c, set()).add(a)
        self.culprits = {}
        for c, sets in groups.items():
            mins = [a for a in sets if not any(b < a for b in sets)]
            self.culprits[c] = sorted(mins, key=lambda a: (len(a), sorted(a)))

    def __call__(self, r, scn=None):
        c, a = coarse(r)
        for m in self.culprits.get(c, []):
            if m <= a:
                return c + ":" + ("+".join(sorted(m)) or "any")
        return c + ":" + ("+".join(sorted(a)) or "any")

    def weight(self, r):
        return len(coarse(r)[1])


def reduce_scn(scn, item):
    """Descriptor re-running only the failing item of a scenario."""
    d = scn["desc"]
    items = d.get("Items") or []
    xps = d.get("XPs") or []
    nd = {"Kind": d["Kind"], "Kitty": d.get("Kitty", False)}
    if item < len(items):
        nd["Items"] = [items[item]]
    elif item - len(items) < len(xps):
        nd["XPs"] = [xps[item - len(items)]]
    else:
        nd = d
    return {"desc": nd, "nev": 1, "id": scn["id"]}


def reduced(scn, r, weight):
    x = reduce_scn(scn, r.get("item", 0))
    x["nev"] = weight       # confirm() re-runs the lightest instance of each signature
    return x


def binding_selftest(c, specs, td, rejects):
    """Corrupt one recorded field of accepted items and require TLC to reject each corruption
    (guards against a vacuous trace spec). Returns {corruption: bool}."""
    import vcheck
    bad = {r["scn"] for r in rejects}
    meta = json.load(open(os.path.join(td, "meta.json")))
    scns = {}
    have = set()                # every kind of event a corruption needs is among the loaded scenarios
    for i in range(meta["shards"]):
        with open(os.path.join(td, "shard%02d.ndjson" % i)) as f:
            for line in f:
                e = json.loads(line)
                if e["scn"] not in bad:
                    scns.setdefault(e["scn"], []).append(e)
                    have.add("then" if e["ev"] == "key" and len(e["then"]) == 1 and len(e["got"]) == 2 else e["ev"])
        if len(scns) > 40 and have >= {"key", "then", "match", "mstr", "self", "xp"}:
            break

    def find(pred):
        for sid in sorted(scns):
            evs = scns[sid]
            for n, e in enumerate(evs):
                if pred(e, evs, n):
                    return evs, n
        return None, None

    def item_key(evs, n):       # the key event that opens the item of event n
        for m in range(n, -1, -1):
            if evs[m]["ev"] == "key":
                return evs[m]
        return {}

    def flip_all(v):
        return [not x for x in v]

    def judged_key(e):          # a key item whose outcome the oracle judges (all but SS3 + unassigned final)
        return e["ev"] == "key" and not (e["enc"]["k"] == "ss3" and not e["then"] and chr(e["enc"]["b"]) not in SS3_ASSIGNED)

    muts = {
        "decode": (lambda e, evs, n: judged_key(e) and len(e["got"]) == 1,
                   lambda e: e["got"][0].__setitem__("mods", e["got"][0]["mods"] ^ 2)),
        "count": (lambda e, evs, n: judged_key(e) and len(e["got"]) == 1,
                  lambda e: e.__setitem__("other", 1)),
        # a report behind another one: its event is judged too, and a missing event is noticed
        "decode-then": (lambda e, evs, n: judged_key(e) and len(e["then"]) == 1 and len(e["got"]) == 2,
                        lambda e: e["got"][1].__setitem__("mods", e["got"][1]["mods"] ^ 4)),
        "count-then": (lambda e, evs, n: judged_key(e) and len(e["then"]) == 1 and len(e["got"]) == 2,
                       lambda e: e["got"].pop()),
        "match": (lambda e, evs, n: e["ev"] == "match", lambda e: e.__setitem__("res", flip_all(e["res"]))),
        "mstr": (lambda e, evs, n: e["ev"] == "mstr", lambda e: e.__setitem__("res", not e["res"])),
        "self": (lambda e, evs, n: e["ev"] == "self" and e["res"] and item_key(evs, n).get("got", [{}])[0].get("type") == 1,
                 lambda e: e.__setitem__("res", False)),
        "xp-string": (lambda e, evs, n: e["ev"] == "xp" and len(e["sids"]) > 1,
                      lambda e: e["sids"].__setitem__(1, e["sids"][1] + 100000)),
        "xp-match": (lambda e, evs, n: e["ev"] == "xp" and len(e["res"]) > 1 and len(e["res"][1]) > 0,
                     lambda e: e["res"][1].__setitem__(0, not e["res"][1][0])),
    }
    d = os.path.join(c.scratch, "selftest")
    os.makedirs(d, exist_ok=True)
    want, lines = {}, []
    for k, (name, (pred, mut)) in enumerate(sorted(muts.items())):
        evs, n = find(pred)
        if evs is None:
            continue
        evs = json.loads(json.dumps(evs[:n + 1]))
        mut(evs[n])
        for e in evs:
            e["scn"] = k
        want[k] = name
        lines += [json.dumps(e) for e in evs]
    f = os.path.join(d, "shard00.ndjson")
    with open(f, "w") as fh:
        fh.write("\n".join(lines) + "\n")
    rc, out = c._tlc(specs, "KeyCodec_Trace.tla", "KeyCodec_Trace.cfg", {"TRACE": f}, 1, os.path.join(d, "md"), 600)
    if "Model checking completed. No error has been found." not in out:
        raise vcheck.Inconclusive("binding self-test: TLC failed")
    got = {}
    for line in out.splitlines():
        line = line.strip()
        if line.startswith('"REJECT '):
            r = json.loads(json.loads(line)[7:])
            got.setdefault(r["scn"], r["why"])
    res = {name: got.get(k) == name.replace("-then", "") for k, name in want.items()}
    c.cov["binding_selftest"] = res
    if not res or not all(res.values()):
        raise vcheck.Inconclusive("binding self-test: a corrupted trace was accepted: %s" % res)
    return res


def main(c):
    import time
    t0 = time.time()
    phase = {}

    def mark(name):
        phase[name] = round(time.time() - t0, 1)
    drv = c.build()
    mark("build")
    specs = c.stage_specs("keys")
    c.assumptions += [
        "character classes and case images of non-ASCII code points are facts computed with Go's unicode tables (ASCII classes are defined in the oracle and the logged facts are checked against them)",
        "grapheme segmentation of multi-code-point text samples (rivo/uniseg inside the library's parser) is trusted base; a literal U+FFFD in the byte stream and invalid UTF-8 belong to C02",
        "the kitty functional-key table, the legacy ctrl mapping and xterm's function-key numbers in specs/keys/KeyCodec.tla were written from the protocol documents",
        "ESC-prefixed domain: ESC + byte 0x20..0x7f other than the introducers O P X [ ] ^ _ (there the bytes alone do not tell Alt+key from a terminal report), and ESC + C0 (kitty legacy table); xterm modifyOtherKeys (CSI 27;m;k~) is out of scope: it is neither a function-key report nor one of the legacy/kitty encodings the property names",
        "SS3 domain: application cursor keys A-F H, PF1-PF4, and the application keypad finals of xterm's VT220 keypad table (M X j-y); SS3 + any other final (incl. SP and I, keypad Space/Tab, which no keyboard of the kitty key table has) has no specified meaning: exercised, outcome not judged; SS3 with a modifier parameter (ESC O 5 M, xterm modifyKeypadKeys=0) is not in xterm's tables and not judged",
        "String()/self-match of release events: the property speaks of the chord the user pressed; a release prints no modifiers by design and is not required to match its own description",
        "each report is delivered in one read together with a sentinel report (a lone ESC alone, the sentinel after its event); pair items deliver two or three reports plus the sentinel in one read",
    ]
    deep = c.tier == "thorough"
    mcs = []
    if not c.replay:
        # the bounded models do not depend on the driver: run them beside it
        ex = cf.ThreadPoolExecutor(max_workers=2)
        mcs = [ex.submit(c.model_check, specs, "MC_KeyMatch.tla", "MC_KeyMatch_deep.cfg" if deep else "MC_KeyMatch.cfg",
                         workers=8 if deep else 4),
               ex.submit(c.model_check, specs, "MC_KeyCodec.tla", "MC_KeyCodec_deep.cfg" if deep else "MC_KeyCodec.cfg",
                         workers=4 if deep else 2)]
    td = c.drive(drv, "c09", replay=c.replay)
    mark("drive")
    rejects, _ = c.validate_traces(specs, "KeyCodec_Trace.tla", "KeyCodec_Trace.cfg", td)
    mark("validate")
    for f in mcs:
        ok, out = f.result()
        if not ok:
            c.notes.append("bounded model reported an invariant violation (spec-level candidate, not a verdict): see log")
    for m in c.cov["models"]:
        if m["model"] == "MC_KeyMatch.tla" and "states" in m:
            nm = 256 if deep else 64
            # one state per (case, binding key, event mask); the binding mask is quantified inside the invariants
            m["mask_pairs_per_state"] = nm
            c.cov["mask_pairs_model_checked"] = (m["states"] - 37) * nm
    mark("models")
    idx = c.load_index(td)
    c.count_distinct(idx)
    st = None
    if not c.replay:
        st = cf.ThreadPoolExecutor(max_workers=1).submit(binding_selftest, c, specs, td, rejects)   # beside confirm()
    try:
        counts = json.load(open(os.path.join(td, "tables.json")))["counts"]
    except Exception:
        counts = {}
    c.cov["reports_decoded"] = counts.get("keys", 0)
    c.cov["matches_evaluated"] = counts.get("match", 0) + counts.get("xpmatch", 0)
    c.cov["matchstring_evaluated"] = counts.get("mstr", 0) + counts.get("self", 0)
    c.cov["cross_protocol_chords"] = counts.get("xp", 0)
    c.cov["evaluations"] += sum(v for k, v in counts.items() if k not in ("retries", "restarts"))
    if counts.get("retries"):
        c.notes.append("%d report(s) re-injected because the first delivery did not yield exactly one key event "
                       "(ESC timer of the parser on a loaded machine; an outcome is recorded only if normal or reproduced)" % counts["retries"])
    if counts.get("restarts"):
        c.notes.append("%d session(s) restarted because a fresh Vaxis did not deliver input (start-up wedge of the input "
                       "goroutine on a loaded machine, C03's subject)" % counts["restarts"])
    kinds = {}
    for s in idx.values():
        k = s["desc"]["Kind"]
        kinds[k] = kinds.get(k, 0) + len(s["desc"].get("Items") or []) + len(s["desc"].get("XPs") or [])
    c.cov["items_by_kind"] = kinds
    seen = set()
    for s in idx.values():
        k = s["desc"]["Kind"]
        if k not in seen and len(c.cov["samples"]) < 6:
            seen.add(k)
            d = s["desc"]
            one = (d.get("Items") or d.get("XPs"))[0]
            c.sample({"kind": k, "first_item": one if len(json.dumps(one)) < 1500 else {"Enc": one.get("Enc", one.get("Encs"))}})
    sig_of = Sigs(rejects)
    cands = [(sig_of(r), r, reduced(idx[r["scn"]], r, sig_of.weight(r))) for r in rejects]
    c.confirm(drv, "c09", specs, "KeyCodec_Trace.tla", "KeyCodec_Trace.cfg", cands, sig_of)
    if st is not None:
        st.result()
    mark("confirm+selftest")
    c.cov["phase_end_s"] = phase
    return c.finish(
        rule="item = one key report injected as bytes into a real Vaxis (encodings: text incl. clusters, C0, ESC+byte 0x20-0x7f, ESC+C0, SS3 "
             "cursor/PF/application-keypad finals, CSI letter, CSI ~, CSI u with every combination of optional fields; ASCII exhaustively, "
             "~190 sampled code points, every functional key; all 256 modifier masks and 3 event types on chosen keys) whose Key event must be "
             "one of KeyCodec!Meanings; pair items: two or three reports in one read, one event each; "
             "each item carries Matches probes (binding keys by relation class x aimed masks, all 256 masks on some, full 256x256 grids), "
             "MatchString probes built from the library's own modifier/key names, the self-match, and cross-protocol groups (one chord, "
             "several encodings: equal String() and equal match vectors); distinct = distinct scenario descriptor")
