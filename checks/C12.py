"""C12 - a Vaxis application renders correctly inside the embedded terminal."""
import vselftest
from checks import selfmut
import json


def sig_of(rej, scn):
    det = rej.get("detail")
    fields = sorted(det[3]) if isinstance(det, list) and len(det) == 4 else []
    why = rej.get("why")
    if why == "capabilities":
        return "C12:capabilities:%s" % "+".join(sorted(det or []))
    if why.startswith("graphics-"):
        return "C12:%s:%s" % (why, det.get("proto") if isinstance(det, dict) else "")
    if why == "emulator-cells-cut-cluster":
        # one transport effect, whatever it does to the cell: a cluster delivered to the emulator in two reads
        return "C12:emulator-cells:cut-cluster"
    kind = (scn.get("desc") or {}).get("Kind")
    if kind == "wideglyph" and "grapheme" in fields:
        # a displaced row: which style fields differ as well depends on the neighbours, not on the defect
        fields = ["grapheme"]
    elif kind == "wideglyph" and "width" in fields:
        fields = ["width"]
    # the families of this check name themselves; the C01 families keep the plain signature
    tail = ":" + kind if kind in ("neighbours", "bigframe", "wideglyph") else ""
    return "C12:%s:%s%s" % (why, "+".join(fields), tail)


def _last_images(evs):
    for i in range(len(evs) - 1, -1, -1):
        if evs[i].get("ev") == "images" and evs[i].get("got"):
            return i
    return None


def images_lost(evs):
    """the emulator holds one image fewer than the application drew"""
    i = _last_images(evs)
    if i is None:
        return None
    evs[i]["got"] = evs[i]["got"][:-1]
    return evs


def images_moved(evs):
    """the emulator holds the image one column further right than the application drew it"""
    i = _last_images(evs)
    if i is None:
        return None
    evs[i]["got"][0][1] += 1
    return evs


def main(c):
    drv = c.build()
    specs = c.stage_specs("term", "life", "emu")
    c.assumptions += [
        "the emulator implements: sixel (DA1), Unicode-core clustering/width (DECRPM 2027 = permanently set); nothing else is advertised",
        "the host terminal is a capable one (RGB, styled underlines, Unicode core): what the host cannot display is not the emulator's loss",
        "hosts without Unicode core: only that Draw hands the window the emulator's cells with the emulator's widths is judged (two such hosts, one drawn "
        "into, one set cell by cell from the emulator's snapshot, write the same bytes), not what a plain terminal displays of them",
        "the emulator is not resized under the running application (C05 covers resizes); histories are cut at their first resize",
        "graphics: the emulator gives its child no pixel geometry (no reply to CSI 14 t, no pixel size in the PTY's window size); the "
        "pictures are drawn by an application whose tty reports one, as an image encoder needs it; judged: every picture drawn with the "
        "protocol Vaxis chose is held by the emulator at the cell it was drawn at (not the pixels)",
        "transport: each write of the application reaches the emulator's parser in reads of at most 4096 bytes; a grapheme cluster "
        "that straddles the end of a read is a logged fact, and differences at and to the right of such a cluster in its row are "
        "classified apart (signature C12:emulator-cells:cut-cluster)",
        "a terminal (the emulator, the host's, the reference) gives a grapheme cluster one column or two: the logged terminal width of a "
        "cluster is the Unicode width cut at two (U+2E3A / U+2E3B measure 3 / 4 in the width table the harness uses); a cell whose "
        "explicit width is not the width the terminal gives its text is outside the domain, as in C01",
    ]
    if not c.replay:
        # the oracle's own structural sanity (shared with C01)
        c.model_check(specs, "MC_RefTerm.tla", "MC_RefTerm.cfg")
        # the C12-specific oracle pieces (placement of a cut cluster, classification corner cases)
        c.model_check(specs, "MC_RoundTrip.tla", "MC_RoundTrip.cfg")
    td = c.drive(drv, "c12", replay=c.replay)
    rejects, _ = c.validate_traces(specs, "RoundTrip_Trace.tla", "RoundTrip_Trace.cfg", td)
    if not c.replay:
        c.cov["binding_selftest"] = vselftest.run(c, specs, "RoundTrip_Trace.tla", "RoundTrip_Trace.cfg", td, {r["scn"] for r in rejects}, [
            ("stream view: glyph of cell (0,0)", selfmut.frame_glyph("frame")),
            ("emulator view: application record", selfmut.frame_glyph("emu")),
            ("emulator view: snapshot cell", selfmut.emu_grid),
            ("host view: glyph of cell (0,0)", selfmut.frame_glyph("hframe")),
            ("graphics: an image the application drew is missing in the emulator", images_lost),
            ("graphics: the emulator holds the image at another cell", images_moved),
])
    idx = c.load_index(td)
    c.count_distinct(idx)
    for s in list(idx.values())[:3]:
        c.sample({"scenario": s["desc"]})
    cands = [(sig_of(r, idx[r["scn"]]), r, idx[r["scn"]]) for r in rejects]
    c.confirm(drv, "c12", specs, "RoundTrip_Trace.tla", "RoundTrip_Trace.cfg", cands, sig_of)
    return c.finish(
        rule="scenario = screen size x frame history (the C01 generators: random ops, style chains over attribute-mask pairs and "
             "colour classes, fixed corner cases) run by a real Vaxis whose terminal is the real emulator; after every frame three "
             "views are compared with the application's record: reference terminal fed the same bytes, emulator snapshot, host "
             "screen after Draw, and the bytes a plain host writes after Draw = the bytes a second one writes after the snapshot's cells were set in its window; plus: runs of neighbouring cells whose texts have no grapheme cluster boundary between them (13 pairs "
             "over the UAX #29 joining rules, fixed and random histories), screens whose first frame is longer than one read of the "
             "emulator's parser (combining sequences, ZWJ sequences, single-code-point content under changing styles, mixed content), "
             "pictures of few and many colours drawn with the graphics protocol derived from the emulator's replies; rows holding "
             "characters a typesetting width table gives 3 or 4 columns (U+2E3A, U+2E3B) followed by other cells: set at the terminal's "
             "columns (width left to the library / given), laid out by the application from the widths the library reports "
             "(RenderedWidth, Characters, NewStyledString), printed as text, overwritten in later frames, fixed and random histories; "
             "distinct = distinct descriptor")
