"""C12 - a Vaxis application renders correctly inside the embedded terminal."""
import vselftest
from checks import selfmut
import json


def sig_of(rej, scn):
    det = rej.get("detail")
    fields = sorted(det[3]) if isinstance(det, list) and len(det) == 4 else []
    if rej.get("why") == "capabilities":
        return "C12:capabilities:%s" % "+".join(sorted(det or []))
    return "C12:%s:%s" % (rej.get("why"), "+".join(fields))


def main(c):
    drv = c.build()
    specs = c.stage_specs("term", "life", "emu")
    c.assumptions += [
        "the emulator implements: sixel (DA1), Unicode-core clustering/width (DECRPM 2027 = permanently set); nothing else is advertised",
        "the host terminal is a capable one (RGB, styled underlines, Unicode core): what the host cannot display is not the emulator's loss",
        "the emulator is not resized under the running application (C05 covers resizes); histories are cut at their first resize",
    ]
    if not c.replay:
        # the oracle's own structural sanity (shared with C01)
        c.model_check(specs, "MC_RefTerm.tla", "MC_RefTerm.cfg")
    td = c.drive(drv, "c12", replay=c.replay)
    rejects, _ = c.validate_traces(specs, "RoundTrip_Trace.tla", "RoundTrip_Trace.cfg", td)
    if not c.replay:
        c.cov["binding_selftest"] = vselftest.run(c, specs, "RoundTrip_Trace.tla", "RoundTrip_Trace.cfg", td, {r["scn"] for r in rejects}, [
            ("stream view: glyph of cell (0,0)", selfmut.frame_glyph("frame")),
            ("emulator view: application record", selfmut.frame_glyph("emu")),
            ("emulator view: snapshot cell", selfmut.emu_grid),
            ("host view: glyph of cell (0,0)", selfmut.frame_glyph("hframe")),
])
    idx = c.load_index(td)
    c.count_distinct(idx)
    for s in list(idx.values())[:3]:
        c.sample({"scenario": s["desc"]})
    cands = [(sig_of(r, idx[r["scn"]]), r, idx[r["scn"]]) for r in rejects]
    c.confirm(drv, "c12", specs, "RoundTrip_Trace.tla", "RoundTrip_Trace.cfg", cands, sig_of)
    return c.finish(
        rule="scenario = screen size x frame history (the C01 generators: random ops, style chains over attribute-mask pairs and "
             "colour classes, fixed corner cases) run by a real Vaxis whose terminal is the real emulator; after every frame three "
             "views are compared with the application's record: reference terminal fed the same bytes, emulator snapshot, host "
             "screen after Draw; distinct = distinct descriptor")
