"""C01 - rendered terminal equals the application's screen after every frame."""
import vselftest
from checks import selfmut
import json


def sig_of(rej, scn):
    bad = rej.get("bad") or []
    fields = sorted(bad[3]) if len(bad) == 4 else []
    why = rej.get("why")
    if why == "cursor":         # which part of the request is not met, and whether after foreign output
        return "C01:cursor:%s" % rej.get("cur", "")
    return "C01:%s:%s" % (why, "+".join(fields) if why == "cells" else "")


def _plain(app):
    """every column of the frame holds a cell of its own (no glyph over several columns, none that lost one):
    each cell is then demanded exactly"""
    return all(len(cell) >= 11 and cell[9] == x + 1 for row in app for x, cell in enumerate(row))


def _last_frame_plain(mut):
    """apply a corruption of selfmut only to scenarios whose last frame is plain and which no foreign
    output (that wipes the screen like a scramble) precedes"""
    def f(evs):
        frames = [e for e in evs if e.get("ev") == "frame" and e.get("app")]
        if not frames or not _plain(frames[-1]["app"]) or any(e.get("ev") == "foreign" for e in evs):
            return None
        return mut(evs)
    return f


def main(c):
    drv = c.build()
    specs = c.stage_specs("term", "render")
    c.assumptions += [
        "lexer (harness/lexer) and uniseg/runewidth grapheme facts are trusted base",
        "a width-2 grapheme placed in the last column is outside the domain",
        "the reference terminal implements DECAWM deferred wrap, CUP, SGR, OSC 8, OSC 66 (when advertised), modes 25/1049/2026",
    ]
    if not c.replay:
        c.model_check(specs, "MC_RefTerm.tla", "MC_RefTerm.cfg" if c.tier == "quick" else "MC_RefTerm_deep.cfg")
        # implementation-shaped renderer model composed with the oracle: every 2-3 frame history on a tiny screen
        if c.tier == "quick":
            cfgs = ["MC_Render_fixed_q2.cfg", "MC_Render_fixed_sync_xw_q2.cfg"]
        else:
            cfgs = ["MC_Render_fixed_quick.cfg", "MC_Render_fixed_sync_xw_quick.cfg", "MC_Render_fixed.cfg", "MC_Render_fixed_sync_xw.cfg"]
        for cfg in cfgs:
            ok, _ = c.model_check(specs, "MC_Render.tla", cfg, workers=16)
            if not ok:
                c.notes.append("MODEL: Render model violates FrameAlwaysOK under %s (candidate; verdicts come from trace validation)" % cfg)
        # the same renderer under an application that builds its screen by single cell writes in any order (the
        # record then says which write came last in each column): every history of 4 / 5-6 writes and frames
        for cfg in (["MC_RenderSet_fixed_q.cfg"] if c.tier == "quick" else ["MC_RenderSet_fixed.cfg", "MC_RenderSet_fixed_deep.cfg"]):
            ok, _ = c.model_check(specs, "MC_RenderSet.tla", cfg, workers=16)
            if not ok:
                c.notes.append("MODEL: Render model violates FrameAlwaysOK under %s (candidate; verdicts come from trace validation)" % cfg)
        if c.tier != "quick":
            refuted = 0
            for tla, cfg in (("MC_Render.tla", "MC_Render_bug_hidden.cfg"), ("MC_Render.tla", "MC_Render_bug_link.cfg"),
                             ("MC_Render.tla", "MC_Render_bug_cursor.cfg"), ("MC_Render.tla", "MC_Render_bug_rehide.cfg"),
                             ("MC_RenderSet.tla", "MC_RenderSet_bug_store.cfg")):
                ok, _ = c.model_check(specs, tla, cfg, workers=8, expect_violation=True)
                refuted += 0 if ok else 1
            c.cov["as_found_render_models_refuted"] = refuted
    td = c.drive(drv, "c01", replay=c.replay)
    rejects, _ = c.validate_traces(specs, "RefTerm_Trace.tla", "RefTerm_Trace.cfg", td)
    if not c.replay:
        c.cov["binding_selftest"] = vselftest.run(c, specs, "RefTerm_Trace.tla", "RefTerm_Trace.cfg", td, {r["scn"] for r in rejects}, [
            ("frame: glyph of cell (0,0)", _last_frame_plain(selfmut.frame_glyph())),
            ("frame: cursor row", selfmut.frame_cursor),
            ("stream: last glyph sent differs", _last_frame_plain(selfmut.print_dropped)),
])
    idx = c.load_index(td)
    c.count_distinct(idx)
    for s in list(idx.values())[:3]:
        c.sample({"scenario": s["desc"]})
    cands = [(sig_of(r, idx[r["scn"]]), r, idx[r["scn"]]) for r in rejects]
    c.confirm(drv, "c01", specs, "RefTerm_Trace.tla", "RefTerm_Trace.cfg", cands, sig_of)
    return c.finish(
        rule="scenario = capability set x screen size x frame history (random ops, style chains covering attribute-mask "
             "pairs and colour classes, fixed corner cases); every frame of every scenario is checked by RefTerm!FrameOK; "
             "distinct = distinct scenario descriptor with at least one frame")
