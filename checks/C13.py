"""C13 - keys, pastes and mouse events forwarded into the embedded terminal arrive intact."""
import vselftest
from checks import selfmut


import re


def sig_of(rej, scn):
    """why + input class: special keys by name, printable keys by class (the failing instance is in the replay file);
    mouse by event type and mode set (not by button)."""
    what = rej.get("what", "")
    why = rej.get("why")
    m = re.match(r"key:U\+([0-9A-F]+):(mods=\d)", what)
    if m:
        c = int(m.group(1), 16)
        cls = "letter" if chr(c).isalpha() and c < 128 else "digit" if chr(c).isdigit() else "space" if c == 32 else "punct" if c < 128 else "nonascii"
        what = "key:%s:%s" % (cls, m.group(2))
    what = re.sub(r":button=\d+", "", what)
    return "C13:%s:%s" % (why, what)


def extension_replies(c, drv, specs):
    """Specification growth beyond the property (specs/emu/EmuReplies.tla): the emulator's answers to DSR, CPR, DA1 and
    DECRQM after histories of mode changes and cursor movements.  Disagreements are recorded in the evidence as
    extension findings; they are not violations of C13 and never change the exit status."""
    before = {k: c.cov[k] for k in ("traces_validated_against_impl", "evaluations") if k in c.cov}
    try:
        tr = c.drive(drv, "c13r", sub="replies", shards=4)
        rej, _ = c.validate_traces(specs, "EmuReplies_Trace.tla", "EmuReplies_Trace.cfg", tr, label="extension: emulator replies")
    except Exception as e:            # an extension never decides anything
        c.notes.append("extension EmuReplies not evaluated: %s" % e)
        c.cov.update(before)
        return
    import json as _json
    meta = _json.load(open(tr + "/meta.json"))
    c.cov.update(before)
    by = {}
    for r in rej:
        k = "%s:%s" % (r.get("q"), r.get("why"))
        by[k] = by.get(k, 0) + 1
    c.cov["extension_emulator_replies"] = {"histories": meta["scenarios"], "events": meta["events"], "disagreements": by,
                                           "note": "not part of C13's statement; recorded, not judged"}


def main(c):
    drv = c.build()
    specs = c.stage_specs("input", "emu")
    c.assumptions += [
        "key events are those a Vaxis host delivers under the kitty keyboard protocol with alternate keys and associated text (what Vaxis requests): "
        "key code of the unshifted key, shifted code for Shift chords, text only for chords that produce text",
        "a chord is required to arrive intact when the xterm legacy encoding can carry it (Forward!Expressible); other chords are unconstrained",
        "legacy (non-SGR) mouse encodings are constrained only by the enabling rule (nothing written when not enabled)",
        "alternate scroll (1007): on the alternate screen with no tracking mode a wheel step is one or more cursor-up/down keys (CSI or SS3 form), every other mouse event writes nothing",
        "Ctrl with a key that shares its control code with other keys (NUL: Space/2/@, FS: 4/\\, GS: 5/], RS: 6/^, US: 7///_) must arrive as Ctrl + some key of that class",
    ]
    if not c.replay:
        c.model_check(specs, "MC_Forward.tla", "MC_Forward.cfg")
    td = c.drive(drv, "c13", replay=c.replay)
    rejects, _ = c.validate_traces(specs, "Forward_Trace.tla", "Forward_Trace.cfg", td)
    if not c.replay:
        c.cov["binding_selftest"] = vselftest.run(c, specs, "Forward_Trace.tla", "Forward_Trace.cfg", td, set(), [
            ("key: decoded key does not match", selfmut.key_not_matching),
            ("key: other cursor-key mode", selfmut.key_wrong_mode),
            ("paste: bracket missing", selfmut.paste_unbracketed),
            ("mouse: decoded column off by one", selfmut.mouse_off_by_one),
            ("mouse: report without tracking mode", selfmut.mouse_unrequested),
])
    if not c.replay:
        extension_replies(c, drv, specs)
    idx = c.load_index(td)
    c.count_distinct(idx)
    for s in list(idx.values())[:3]:
        c.sample({"scenario": {k: v for k, v in s["desc"].items() if k != "inputs"}, "inputs": len(s["desc"]["inputs"])})
    cands = [(sig_of(r, idx[r["scn"]]), r, idx[r["scn"]]) for r in rejects]
    c.confirm(drv, "c13", specs, "Forward_Trace.tla", "Forward_Trace.cfg", cands, sig_of)
    return c.finish(
        rule="scenario = child mode configuration (DECCKM x DECKPAM for keys; 1000 x 1002 x 1003 x 1006 for mouse; 2004 for paste) x input list "
             "(36 special keys and 70+ printable keys x all 8 Shift/Alt/Ctrl subsets; 10 buttons x press/release/motion x positions up to column 319 / row 259); "
             "distinct = distinct descriptor")
