"""C13 - keys, pastes and mouse events forwarded into the embedded terminal arrive intact."""
import vselftest
from checks import selfmut


import re


def sig_of(rej, scn):
    """why + input class: special keys by name, printable keys by class (the failing instance is in the replay file);
    mouse by event type and mode set (not by button)."""
    what = rej.get("what", "")
    why = rej.get("why")
    m = re.match(r"key:U\+([0-9A-F]+):(mods=\d)(.*)", what)
    if m:
        c = int(m.group(1), 16)
        cls = "nonascii" if c >= 128 else "letter" if chr(c).isalpha() else "digit" if chr(c).isdigit() else "space" if c == 32 else "punct"
        what = "key:%s:%s%s" % (cls, m.group(2), m.group(3))
    what = re.sub(r":(repeat|paste)$", "", what)      # a repeated or pasted key is encoded like a press: same class
    if what.endswith(":release"):        # nothing may be written for any release: one class for the special keys, chords not told apart
        what = re.sub(r"^key:[A-Z][A-Z0-9_]*:", "key:special:", what)
        what = re.sub(r":mods=\d", "", what)
    # the navigation keys of the keypad form one class
    what = re.sub(r"^key:KP_(LEFT|RIGHT|UP|DOWN|HOME|END|PAGE_UP|PAGE_DOWN|INSERT|DELETE):", "key:KP_nav:", what)
    # the keypad digits and operators as a host without the kitty protocol delivers them (no text) form one class
    what = re.sub(r"^key:KP_(\d|DECIMAL|DIVIDE|MULTIPLY|SUBTRACT|ADD|EQUAL|SEPARATOR):(.*):notext", r"key:KP_char:\2:notext", what)
    if why == "nothing-written":         # a dropped key: the chord and the event type are in the replay file
        what = re.sub(r":mods=\d", "", what)
    if why in ("control-code-written-for-key-without-one", "arrives-as-another-key"):   # Ctrl + a key beyond ASCII: every modifier set with Ctrl alike
        what = re.sub(r":mods=\d", "", what)
    what = re.sub(r":button=\d+", "", what)
    return "C13:%s:%s" % (why, what)


def presses(fn):
    """a selfmut corruption applied to the key presses of a scenario only (releases and repeats have rules of their own)"""
    return lambda evs: fn([evs[0]] + [e for e in evs[1:] if e.get("etype", "press") == "press"])


def _pair(evs, pick, corrupt):
    import copy
    for e in evs[1:]:
        if pick(e):
            good = [evs[0], copy.deepcopy(e)]
            corrupt(e)
            return good, [evs[0], e]
    return None


def text_truncated(evs):
    return _pair(evs, lambda e: e.get("ev") == "key" and e.get("name") == "" and e.get("mods") == 0 and e.get("etype") != "release"
                 and len(e.get("text", [])) >= 1 and e.get("gottext") == e.get("text") and e.get("allkeys") and e.get("n", 0) >= 1,
                 lambda e: e.update(gottext=e["gottext"][:-1]))


def release_written(evs):
    return _pair(evs, lambda e: e.get("ev") == "key" and e.get("etype") == "release" and not e.get("bytes"),
                 lambda e: e.update(bytes=[97]))


def keypad_enter_dropped(evs):
    return _pair(evs, lambda e: e.get("ev") == "key" and e.get("name") == "KP_ENTER" and e.get("mods") == 0 and e.get("etype") != "release" and e.get("bytes") == [13],
                 lambda e: e.update(bytes=[]))


def keypad_nav_other_key(evs):
    return _pair(evs, lambda e: e.get("ev") == "key" and e.get("name") == "KP_LEFT" and e.get("etype") != "release" and e.get("gotname") == "LEFT" and e.get("n") == 1,
                 lambda e: e.update(gotname="RIGHT"))


def _kp_char_notext(e):
    return (e.get("ev") == "key" and re.match(r"KP_(\d|DECIMAL|DIVIDE|MULTIPLY|SUBTRACT|ADD|EQUAL|SEPARATOR)$", e.get("name", "")) and e.get("mods") == 0
            and e.get("etype") != "release" and not e.get("text") and e.get("n") == 1)


def keypad_char_dropped(evs):
    return _pair(evs, lambda e: _kp_char_notext(e) and not e.get("deckpam") and len(e.get("bytes", [])) == 1,
                 lambda e: e.update(bytes=[], n=0))


def keypad_code_other_key(evs):
    return _pair(evs, lambda e: _kp_char_notext(e) and e.get("deckpam") and len(e.get("bytes", [])) == 3 and e.get("gotname") == e.get("name"),
                 lambda e: e.update(gotname="KP_BEGIN"))


def ctrl_shift_loses_ctrl(evs):
    return _pair(evs, lambda e: e.get("ev") == "key" and e.get("name") == "" and e.get("mods") == 5 and e.get("shifted") == 95
                 and e.get("etype") != "release" and e.get("n") == 1 and 95 in e.get("ctrlm", []),
                 lambda e: e.update(bytes=[e["code"]], ctrlm=[]))


def ctrl_nonascii_as_backspace(evs):
    return _pair(evs, lambda e: e.get("ev") == "key" and e.get("name") == "" and e.get("mods") == 4 and e.get("code", 0) > 127
                 and e.get("etype") != "release" and e.get("n") == 1 and e.get("samekey"),
                 lambda e: e.update(bytes=[127], samekey=False, gotname="BACKSPACE"))


def altscroll_other_mode(evs):
    return _pair(evs, lambda e: e.get("ev") == "mouse" and e.get("alt") and e.get("m1007") and e.get("button") in (64, 65) and e.get("bytes")
                 and not (e["m1000"] or e["m1002"] or e["m1003"]) and e["bytes"][1] == (79 if e["decckm"] else 91),
                 lambda e: e.update(decckm=not e["decckm"]))


def extension_replies(c, drv, specs):
    """Specification growth beyond the property (specs/emu/EmuReplies.tla): the emulator's answers to DSR, CPR, DA1 and
    DECRQM after histories of mode changes and cursor movements.  Disagreements are recorded in the evidence as
    extension findings; they are not violations of C13 and never change the exit status."""
    before = {k: c.cov[k] for k in ("traces_validated_against_impl", "evaluations") if k in c.cov}
    try:
        tr = c.drive(drv, "c13r", sub="replies", shards=4)
        rej, _ = c.validate_traces(specs, "EmuReplies_Trace.tla", "EmuReplies_Trace.cfg", tr, label="extension: emulator replies")
    except Exception as e:            # an extension never decides anything
        c.notes.append("extension EmuReplies not evaluated: %s" % e)
        c.cov.update(before)
        return
    import json as _json
    meta = _json.load(open(tr + "/meta.json"))
    c.cov.update(before)
    by = {}
    for r in rej:
        k = "%s:%s" % (r.get("q"), r.get("why"))
        by[k] = by.get(k, 0) + 1
    c.cov["extension_emulator_replies"] = {"histories": meta["scenarios"], "events": meta["events"], "disagreements": by,
                                           "note": "not part of C13's statement; recorded, not judged"}


def main(c):
    drv = c.build()
    specs = c.stage_specs("input", "emu")
    c.assumptions += [
        "key events are those a Vaxis host delivers under the kitty keyboard protocol with alternate keys and associated text (what Vaxis requests): "
        "key code of the unshifted key, shifted code for Shift chords, text only for chords that produce text",
        "a chord is required to arrive intact when the xterm legacy encoding can carry it (Forward!Expressible); other chords are unconstrained",
        "legacy (non-SGR) mouse encodings are constrained only by the enabling rule (nothing written when not enabled)",
        "alternate scroll (1007): on the alternate screen with no tracking mode a wheel step is one or more cursor-up/down keys in the form the child's cursor-key mode selects, every other mouse event writes nothing",
        "a printable key without Ctrl/Alt that carries text (grapheme cluster, AltGr level, Caps Lock, composed text with key code 0) must arrive as that text; "
        "nothing is written for a key release; a repeat or pasted key is encoded like a press",
        "keypad keys: digits and operators (with text, i.e. Num Lock on) arrive as their character, or as SS3 j-y/X under DECKPAM; Enter as CR, or SS3 M under DECKPAM; "
        "the navigation keys of the keypad arrive as the cursor/editing key of the same name (either form), Begin as CSI E",
        "Ctrl with a key that shares its control code with other keys (NUL: Space/2/@, FS: 4/\\, GS: 5/], RS: 6/^, US: 7///_) must arrive as Ctrl + some key of that class",
        "Ctrl+Shift with a key whose shifted character is @, ^ or _ (US layout: 2, 6, -) is Ctrl + that character and must arrive as Ctrl + some key of its class",
        "Ctrl with a key beyond ASCII is not expressible (its modifiers may be lost) but the key may not be replaced: no control code (C0, DEL, C1) is written for it, "
        "and when what is written decodes to one key event it is the same key with some of the chord's modifiers",
        "keypad digits and operators WITHOUT text (what Vaxis's decoder delivers from the SS3 codes of a host without the kitty protocol) are demanded like those with text; "
        "a keypad key written in a form its mode allows must decode to one key event: the keypad key for the SS3 code, the character as text otherwise",
    ]
    if not c.replay:
        c.model_check(specs, "MC_Forward.tla", "MC_Forward.cfg")
    td = c.drive(drv, "c13", replay=c.replay)
    rejects, _ = c.validate_traces(specs, "Forward_Trace.tla", "Forward_Trace.cfg", td)
    if not c.replay:
        c.cov["binding_selftest"] = vselftest.run(c, specs, "Forward_Trace.tla", "Forward_Trace.cfg", td, set(), [
            ("key: decoded key does not match", presses(selfmut.key_not_matching)),
            ("key: other cursor-key mode", presses(selfmut.key_wrong_mode)),
            ("key: text arrives truncated", text_truncated),
            ("key: bytes written for a release", release_written),
            ("key: keypad Enter dropped", keypad_enter_dropped),
            ("key: keypad Left decoded as Right", keypad_nav_other_key),
            ("key: keypad digit/operator without text dropped", keypad_char_dropped),
            ("key: keypad SS3 code decoded as another keypad key", keypad_code_other_key),
            ("key: Ctrl+Shift+- arrives without Ctrl", ctrl_shift_loses_ctrl),
            ("key: Ctrl + non-ASCII key written as DEL", ctrl_nonascii_as_backspace),
            ("mouse: alternate scroll in the other cursor-key form", altscroll_other_mode),
            ("paste: bracket missing", selfmut.paste_unbracketed),
            ("mouse: decoded column off by one", selfmut.mouse_off_by_one),
            ("mouse: report without tracking mode", selfmut.mouse_unrequested),
])
    if not c.replay:
        extension_replies(c, drv, specs)
    idx = c.load_index(td)
    c.count_distinct(idx)
    for s in list(idx.values())[:3]:
        c.sample({"scenario": {k: v for k, v in s["desc"].items() if k != "inputs"}, "inputs": len(s["desc"]["inputs"])})
    cands = [(sig_of(r, idx[r["scn"]]), r, idx[r["scn"]]) for r in rejects]
    c.confirm(drv, "c13", specs, "Forward_Trace.tla", "Forward_Trace.cfg", cands, sig_of)
    return c.finish(
        rule="scenario = child mode configuration (DECCKM x DECKPAM for keys; 1000 x 1002 x 1003 x 1006 for mouse; 2004 for paste) x input list "
             "(55 special keys, 29 of them on the keypad, and 70+ printable keys x all 8 Shift/Alt/Ctrl subsets; the 17 keypad digits and operators also without text (legacy host); keys whose text is not their key code "
             "(clusters, AltGr, Caps Lock, composed) typed, repeated and pasted; press/repeat/release/paste event types; "
             "10 buttons x press/release/motion x positions up to column 319 / row 259; wheel steps under alternate scroll x DECCKM); "
             "distinct = distinct descriptor")
