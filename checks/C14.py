"""C14 - vxfw layout contract and surface addressing hold for every constraint."""
import concurrent.futures as cf
import json
import os
import time

import vcheck
import vselftest

# short-lived JVMs: C1 only and few helper threads cut the CPU of a trace shard to a third (JDK_JAVA_OPTIONS is read by
# the java launcher; lib/vcheck sets JAVA_TOOL_OPTIONS itself)
os.environ.setdefault("JDK_JAVA_OPTIONS", "-XX:TieredStopAtLevel=1 -XX:ParallelGCThreads=2 -XX:CICompilerCount=2")


def _corrupt_write(evs):
    """an inside write recorded as having landed one position further"""
    for e in evs:
        if e.get("ev") == "write" and len(e.get("changed") or []) == 1 and not e.get("panic"):
            e["changed"] = [e["changed"][0] + 1]
            return evs
    return None


def _corrupt_size(evs):
    """a drawn widget recorded one row taller than its maximum"""
    for e in evs:
        if e.get("ev") == "draw" and not e.get("panic") and e.get("maxh", 65535) < 65535:
            e["root"]["h"] = e["maxh"] + 1
            return evs
    return None


def _corrupt_centre(evs):
    """a centred child recorded two columns to the right"""
    for e in evs:
        if e.get("ev") == "draw" and not e.get("panic") and e["root"]["kind"] == "center" and e["root"]["kids"]:
            k = e["root"]["kids"][0]
            if k["n"]["w"] + 4 <= e["root"]["w"] and k["n"]["h"] <= e["root"]["h"]:
                k["x"] += 2
                return evs
    return None


def _corrupt_return(evs):
    """a Draw of a list recorded as not having come back"""
    for e in evs:
        if e.get("ev") == "draw" and not e.get("panic") and e.get("ret") and e["root"]["kind"] == "list":
            e["ret"] = False
            return evs
    return None


def _corrupt_paint(evs):
    """the tree the driver built recorded with its first child one column to the left"""
    for e in evs:
        if e.get("ev") == "paint" and e["tree"].get("kids") and e["tree"]["w"] > 2 and e["tree"]["h"] > 1:
            k = e["tree"]["kids"][0]
            if k["s"]["w"] > 0 and k["s"]["h"] > 0 and 0 < k["x"] < e["tree"]["w"] and 0 <= k["y"] < e["tree"]["h"] and not k["s"].get("kids"):
                k["x"] -= 1
                return evs
    return None


def _wide_cell(t):
    """a visible wide cell of a childless tree, or None"""
    if t.get("kids"):
        return None
    for cell in t.get("cells") or []:
        if len(cell) == 4 and cell[3] == 2:
            return cell
    return None


def _corrupt_wide(evs):
    """a wide grapheme the driver wrote recorded as one column wide"""
    for e in evs:
        if e.get("ev") == "paint":
            cell = _wide_cell(e["tree"])
            if cell:
                cell[3] = 1
                return evs
    return None


def _big(sd):
    if sd["W"] * sd["H"] > 65535:
        return True
    return any(_big(k["S"]) for k in sd.get("Kids") or [])


def sig_of(rej, scn):
    op, why, d = rej.get("op"), rej.get("why"), rej.get("d") or {}
    desc = scn["desc"]
    if desc["Kind"] == "surf":
        w, h = d.get("w", desc.get("W", 0)), d.get("h", desc.get("H", 0))
        if op == "write" and d.get("r") == h and d.get("c", 0) < w and w * h <= 65535:
            cls = "row-eq-height"
        elif w * h > 65535:
            cls = "cells>65535"
        else:
            cls = "small"
        if why == "panic":
            cls += ":" + d.get("pmsg", "")
        return "C14:%s:%s:%s" % (op, why, cls)
    if desc["Kind"] == "draw":
        wsig = scn.get("sig", "draw:?").split(":", 1)[1]
        root = wsig.split("(")[0]
        if why == "panic":
            unb = d.get("maxw") == 65535 or d.get("maxh") == 65535
            cls = d.get("pmsg", "")
            if cls.startswith("bounded-assert"):
                return "C14:draw:panic:%s:%s" % (cls, "max-unbounded" if unb else ("item-of-list" if "list(" in wsig else "bounded"))
            return "C14:draw:panic:%s:%s" % (root, cls)
        if why == "does-not-return":
            return "C14:draw:%s:%s:%s" % (why, root, d.get("pmsg", ""))
        if why == "child-larger-than-max":
            return "C14:draw:%s:%s" % (why, "+".join(sorted(d.get("kinds") or [])))
        if why == "larger-than-max":
            dim = ("width" if d.get("w", 0) > d.get("maxw", 0) else "") + ("height" if d.get("h", 0) > d.get("maxh", 0) else "")
            return "C14:draw:%s:%s:%s" % (why, root, dim)
        return "C14:draw:%s:%s:%s" % (why, root, "+".join(sorted(d.get("kinds") or [])))
    # paint
    tag = "big" if any(_big(f) for f in desc.get("Frames") or []) else "small"
    if why == "panic" or op == "panic":
        return "C14:paint:panic:%s:%s" % (d.get("pmsg", ""), tag)
    bad = d.get("bad") or []
    fields = "+".join(sorted(bad[3])) if len(bad) == 4 else ""
    if fields == "partly-covered-wide-glyph-shown":
        return "C14:paint:%s:%s" % (why, fields)      # one defect class whatever the surface sizes
    return "C14:paint:%s:%s:%s" % (why, fields, tag)


def main(c):
    t0, phase = time.time(), {}

    def lap(name):
        nonlocal t0
        phase[name] = round(time.time() - t0, 1)
        t0 = time.time()
    drv = c.build()
    lap("build")
    specs = c.stage_specs("term", "vxfw")
    c.assumptions += [
        "trusted base: harness lexer/termcmd and the RefTerm oracle (checked by C01), TLC, encoding/json",
        "Buffer is row-major (Index = r*W + c): public layout used by every widget; confirmed end to end by the paint scenarios",
        "paint scenarios use ASCII and two-column CJK graphemes (explicit width or left to the library) and palette colours only; "
        "a frame in which a wide grapheme is cut by the edge of its own surface, of an ancestor or of the screen, or in which a "
        "surface wrote a cell of its own under its own wide grapheme, is not judged (the property does not say what shows there; "
        "what a window does with a glyph that does not fit is C11's); the generators keep wide graphemes away from those places",
        "a wide grapheme of which one column lies under a surface painted later cannot be shown: its other column must show a "
        "narrow cell (any), the later surface's cells are demanded exactly",
        "overlapping siblings always get distinct z-indices (the property orders painting by z-index only)",
        "a child that does not fit its centring parent is outside the centring clause",
        "a Draw counts as not returning when a list whose builder has a widget for every index has asked it for more than "
        "20000 rows in one Draw (viewports of at most 10 lines; the builder then unwinds the call) or, as a safety net, when "
        "it has not come back after 120 s",
    ]
    models = None
    if not c.replay:
        # the exhaustive model (all its states are initial states, which TLC computes on one thread) and its two negative
        # controls run beside the driver and the trace validation
        ex = cf.ThreadPoolExecutor(max_workers=5)
        models = [ex.submit(c.model_check, specs, "MC_Surface.tla", "MC_Surface.cfg" if c.tier == "quick" else "MC_Surface_deep.cfg", 2),
                  ex.submit(c.model_check, specs, "MC_Surface.tla", "MC_Surface_u16.cfg", 2, 3000, ("-noGenerateSpecTE",), True),
                  ex.submit(c.model_check, specs, "MC_Surface.tla", "MC_Surface_wide.cfg", 2, 3000, ("-noGenerateSpecTE",), True),
                  ex.submit(c.model_check, specs, "MC_SurfaceList.tla", "MC_SurfaceList.cfg", 1),
                  ex.submit(c.model_check, specs, "MC_SurfaceList.tla", "MC_SurfaceList_asfound.cfg", 1, 3000, ("-noGenerateSpecTE",), True)]
    td = c.drive(drv, "c14", replay=c.replay)
    lap("driver")
    rejects, _ = c.validate_traces(specs, "Surface_Trace.tla", "Surface_Trace.cfg", td)
    lap("trace_validation")
    if models:
        (ok, _), (ok16, _), (okw, _), (okl, _), (okla, _) = [f.result() for f in models]
        ex.shutdown()
        if not ok:
            raise vcheck.Inconclusive("MC_Surface: the exhaustive model did not complete without error (spec-level problem, not a verdict)")
        if not okl:
            raise vcheck.Inconclusive("MC_SurfaceList: the row-loop model did not complete without error (spec-level problem, not a verdict)")
        for m in c.cov["models"]:
            if m["cfg"] == "MC_Surface_u16.cfg":
                m["note"] = ("negative control: the 16-bit / row<=height transcription of the unrepaired code "
                             "must be refuted by the oracle (refuted=%s)" % (not ok16))
            if m["cfg"] == "MC_Surface_wide.cfg":
                m["note"] = ("negative control: a painter that leaves a wide cell in the screen buffer when a later surface "
                             "is painted over its right half must be refuted by the oracle (refuted=%s)" % (not okw))
            if m["cfg"] == "MC_SurfaceList_asfound.cfg":
                m["note"] = ("negative control: the row loop of a list without a bound on rows that add no height must be "
                             "refuted by the invariant Returns (refuted=%s)" % (not okla))
        if okla:
            c.notes.append("negative control MC_SurfaceList_asfound was NOT refuted: the row-loop model lost its teeth")
        if ok16:
            c.notes.append("negative control MC_Surface_u16 was NOT refuted: the exhaustive model lost its teeth")
        if okw:
            c.notes.append("negative control MC_Surface_wide was NOT refuted: the exhaustive model lost its teeth")
    lap("models_after_validation")
    idx = c.load_index(td)
    c.count_distinct(idx, nontrivial=lambda s: s["nev"] >= 2)
    kinds = {}
    for s in idx.values():
        k = s["desc"]["Kind"]
        kinds[k] = kinds.get(k, 0) + 1
    c.cov["scenarios_by_kind"] = kinds
    c.cov["widget_nestings"] = len({s.get("sig") for s in idx.values() if s["desc"]["Kind"] == "draw"})
    seen = set()
    for s in idx.values():
        if s["desc"]["Kind"] not in seen and len(json.dumps(s["desc"])) < 1500:
            seen.add(s["desc"]["Kind"])
            c.sample({"scenario": s["desc"]})
    cands = [(sig_of(r, idx[r["scn"]]), r, idx[r["scn"]]) for r in rejects]
    c.cov["rejections_first_pass"] = len(cands)
    if not c.replay:
        c.cov["binding_selftest"] = vselftest.run(
            c, specs, "Surface_Trace.tla", "Surface_Trace.cfg", td, {r["scn"] for r in rejects},
            [("write-index", _corrupt_write), ("draw-size", _corrupt_size), ("draw-centre", _corrupt_centre), ("paint-offset", _corrupt_paint),
             ("paint-wide", _corrupt_wide), ("draw-no-return", _corrupt_return)])
        lap("binding_selftest")
    c.confirm(drv, "c14", specs, "Surface_Trace.tla", "Surface_Trace.cfg", cands, sig_of)
    lap("confirm")
    c.cov["phase_seconds"] = phase
    vcheck.log("C14 phases (s): %s" % phase)
    return c.finish(
        rule="surf: every size in {0,1,2,3,255,256,257,300}^2 (+ sizes around 2^16 cells, random sizes) x boundary coordinates "
             "{0,1,n-2,n-1,n,n+1,65535}^2, each write checked against Surface!WriteEffect; draw: every built-in widget x content "
             "class x max in {0,1,2,3,10,65535}^2 (+min=max, contents of max/max+1/max+7 lines, >65535 cells, one level of "
             "nesting, list state sequences; lists whose builder never runs out: 10 row classes x width {0,1,2,3,10} x height "
             "{0,1,3,10} x gutter x gap), checked against LayoutRel; paint: surface trees rendered by the real App.Run "
             "on a fake console (bounded-exhaustive two-level trees, every overlap of two children holding narrow and wide graphemes, "
             "random trees), the console bytes stepped through RefTerm and compared with Surface!Want(tree); "
             "distinct = distinct scenario descriptor")
