"""C11 - windows clip: drawing never escapes a window or its ancestors."""
import concurrent.futures as cf
import copy
import json
import os
import re

import vcheck

SELFTEST = {"Kind": "selftest", "Mask": 0, "Cols": 6, "Rows": 3, "Rounds": [
    {"Chain": [{"M": "new", "C": 1, "R": 1, "W": 2, "H": 1}], "Op": {"K": "fill"}},
    {"Chain": [{"M": "new", "C": 1, "R": 1, "W": 2, "H": 1}], "Op": {"K": "set", "C": 0, "R": 0}},
    {"Chain": [{"M": "new", "C": 0, "R": 0, "W": 3, "H": 2}], "Op": {"K": "print", "Segs": ["ab"]}},
    {"Chain": [{"M": "new", "C": 1, "R": 1, "W": 3, "H": 1}], "Op": {"K": "set0", "C": 0, "R": 0}},
    {"Chain": [{"M": "new", "C": 1, "R": 1, "W": 3, "H": 1}],
     "Op": {"K": "style", "C": 1, "R": 0, "Pre": [{"K": "w", "C": 2, "R": 1}]}},
]}


def binding_selftest(c, drv, specs):
    """Vacuity guard: a known-good trace must be accepted, and the same trace with ONE recorded
    field changed must be rejected (five different fields)."""
    rp = os.path.join(c.scratch, "selftest.json")
    json.dump(SELFTEST, open(rp, "w"))
    td = c.drive(drv, "c11", sub="selftest", replay=rp, shards=1)
    lines = [json.loads(x) for x in open(os.path.join(td, "shard00.ndjson"))]

    def m_chain(chk):
        chk[0]["chain"][0]["w"] += 1      # the logged window is one column wider than the real one

    def m_coord(chk):
        chk[1]["c"] += 1                  # the logged coordinate is not the one used

    def m_width(chk):
        chk[2]["items"][0]["w"] = 2       # the logged cluster width is not the real one

    def m_auto(chk):
        chk[3]["mk"][1] = 1               # the logged width of the cell left to be measured is not the terminal's

    def m_glyph(chk):
        chk[4]["chain"][0]["w"] -= 1      # the logged window ends between the two columns of the glyph it restyled
        # (rejected only if the second column of a glyph is seen to change with the glyph's style)

    variants = [("good", None), ("chain", m_chain), ("coord", m_coord), ("width", m_width), ("auto", m_auto),
                ("glyph", m_glyph)]
    d = os.path.join(c.scratch, "selftest-variants")
    os.makedirs(d, exist_ok=True)
    for i, (name, mutate) in enumerate(variants):      # one shard per variant, scenario id = variant index
        evs = copy.deepcopy(lines)
        if mutate:
            mutate([e for e in evs if e["ev"] == "check"])
        with open(os.path.join(d, "shard%02d.ndjson" % i), "w") as f:
            for e in evs:
                e["scn"] = i
                f.write(json.dumps(e) + "\n")
    json.dump({"scenarios": len(variants), "events": len(lines) * len(variants), "shards": len(variants),
               "lines": [len(lines)] * len(variants)}, open(os.path.join(d, "meta.json"), "w"))
    cov = copy.deepcopy(c.cov)
    rej, _ = c.validate_traces(specs, "Clip_Trace.tla", "Clip_Trace.cfg", d, label="selftest")
    c.cov = cov     # self-test runs are not coverage
    hit = {r["scn"] for r in rej}
    if 0 in hit:
        # the library misbehaves on the reference scenario itself: the main run below reports that;
        # it is a tool failure only if the main run then rejects nothing
        c.notes.append("binding self-test skipped: the reference scenario is rejected on this tree")
        return False
    for i, (name, _) in enumerate(variants[1:], 1):
        if i not in hit:
            raise vcheck.Inconclusive("binding self-test: corrupted field '%s' was accepted (vacuous trace spec)" % name)
    c.notes.append("binding self-test: reference trace accepted; 5/5 single-field corruptions (chain size, coordinate, "
                   "cluster width, width of a cell left to be measured, window of a restyled two-cell glyph) rejected")
    return True


def sig_of(rej, scn=None):
    det = rej.get("det") or ""
    why = rej.get("why")
    if why == "layout" and det != "cluster-cut":
        try:
            d = json.loads(det)
            det = "%s:%s" % (d.get("k"), "changed" if d.get("ch") else "unchanged") if d.get("k") != "alt" else "alt"
        except ValueError:
            det = "?"
    # the text holds a cluster whose width on the scenario's terminal is not the Unicode tables' width
    tw = ":termwidth" if rej.get("tw") and det != "cluster-cut" else ""
    return "C11:%s:%s%s%s" % (rej.get("op"), why, (":" + det) if det else "", tw)


def reduce_round(scn, rnd):
    """The same scenario with only round rnd (rounds are independent: every
    round starts from a freshly painted sentinel screen)."""
    s = dict(scn)
    d = copy.deepcopy(scn["desc"])
    if 0 <= rnd < len(d.get("Rounds") or []):
        d["Rounds"] = [d["Rounds"][rnd]]
        s["nev"] = 1
    s["desc"] = d
    return s


def heap(mb):
    """Cap the JVM heap of the TLC runs that follow (many run side by side on a shared machine)."""
    os.environ["JAVA_TOOL_OPTIONS"] = "-Xmx%dm" % mb


def main(c):
    drv = c.build()
    specs = c.stage_specs("term", "clip")
    c.assumptions += [
        "trusted base: harness lexer, uniseg/runewidth grapheme, width and line-break facts, TLC, the RefTerm reference terminal",
        "a tab stands for 8 blanks (the library's tab policy); the end of a styled segment is a line-break opportunity",
        "after a cluster wider than the whole window, or a line break handed to a single-line helper, only containment is demanded",
        "a line break following a completely filled row may start one or two new rows (documentation leaves it open)",
        "set cell / fill are exercised with narrow and two-cell markers, the width stated in the cell or left at 0 for "
        "the library to measure; a cell left to be measured is as wide as the scenario's terminal shows its cluster (logged "
        "fact: code points added up without Unicode core, Unicode cluster width with it); a wider-than-one cell is accepted "
        "iff all its columns are; one that is not is only required not to escape; of a fill with a wider-than-one cell only "
        "containment, the content of what changed and the glyph in the clip's first column are demanded",
        "set style is also exercised on a screen that already holds two-cell glyphs (and empty cells): a cell under the "
        "second column of a glyph displays the glyph in the glyph's style and changes with it; a glyph that is not wholly "
        "inside the window's clip is only required not to change outside it (nothing changing at all is accepted); one that "
        "is, addressed by its first column, is restyled whole; addressed by its second column, restyled whole or not at all; "
        "set cell / fill / clear / text over a glyph that is already on the screen are not exercised (not judged: "
        "overwriting one half of a glyph that straddles the window's edge cannot leave the other half as it was)",
        "text clusters whose width depends on the terminal ('☺'+VS16, a letter + U+FF9E) are judged with the width of the "
        "scenario's terminal; on explicit-width terminals only those that Unicode measures wider than one cell",
    ]
    selftest_ok = True
    heap(4096)
    if not c.replay:
        quick = c.tier == "quick"
        runs = [("MC_Clip.tla", "MC_Clip.cfg"), ("MC_Clip.tla", "MC_Clip2D.cfg"), ("MC_Text.tla", "MC_Text.cfg")]
        if not quick:
            runs += [("MC_Clip.tla", "MC_Clip_deep.cfg"), ("MC_Clip.tla", "MC_Clip2D_deep.cfg"), ("MC_Text.tla", "MC_Text_deep.cfg"),
                     ("MC_Text.tla", "MC_Text_width_deep.cfg")]
        with cf.ThreadPoolExecutor(max_workers=3) as ex:
            list(ex.map(lambda r: c.model_check(specs, r[0], r[1], workers=5), runs))
        heap(1536)
        selftest_ok = binding_selftest(c, drv, specs)
        for m in c.cov["models"]:
            if not m["ok"]:
                c.notes.append("MODEL-DRIFT candidate: %s/%s reports an invariant violation (not a verdict)" % (m["model"], m["cfg"]))
    heap(1536)
    shards = 16 if c.tier == "quick" else 64
    td = c.drive(drv, "c11", replay=c.replay, shards=shards)
    rejects, _ = c.validate_traces(specs, "Clip_Trace.tla", "Clip_Trace.cfg", td)
    idx = c.load_index(td)
    rounds = sum(len(s["desc"].get("Rounds") or []) for s in idx.values())
    kinds = {}
    seen = set()
    for s in idx.values():
        for r in s["desc"].get("Rounds") or []:
            k = r["Op"]["K"]
            kinds[k] = kinds.get(k, 0) + 1
            seen.add(json.dumps(r, sort_keys=True))
    c.cov["evaluations"] = rounds
    c.cov["distinct_nontrivial"] = len(seen)
    c.cov["rounds_by_call"] = kinds
    for s in list(idx.values())[:2] + list(idx.values())[-2:]:
        d = dict(s["desc"])
        d["Rounds"] = d["Rounds"][:2]
        c.sample({"scenario_head": d})
    cands = [(sig_of(r), r, reduce_round(idx[r["scn"]], r.get("rnd", -1))) for r in rejects]
    before = {v[0] for v in c.violations} | {k["sig"] for k, _ in c.known_seen}
    c.confirm(drv, "c11", specs, "Clip_Trace.tla", "Clip_Trace.cfg", cands, sig_of)
    if not c.replay:
        # a rejection that does not reproduce from its single round is retried with its whole scenario
        done = {v[0] for v in c.violations} | {s for s in (sig_of(r) for r in rejects) if c.match_known(s)}
        left = [(sig_of(r), r, idx[r["scn"]]) for r in rejects if sig_of(r) not in done]
        if left:
            c.notes = [n for n in c.notes if not n.startswith("unconfirmed")]
            c.confirm(drv, "c11", specs, "Clip_Trace.tla", "Clip_Trace.cfg", left, sig_of)
    if not selftest_ok and not c.violations and not c.known_seen:
        raise vcheck.Inconclusive("binding self-test: the reference scenario is rejected but the main run rejects nothing")
    return c.finish(
        rule="evaluation = one round = (window tree, drawing call): sentinel frame, the call, second frame, changed-cell set "
             "judged by Clip/TextLayout through RefTerm; depth-1 trees enumerate every mode x offset x size in -2..6 on a 4x3 "
             "screen (thorough: all 19683, quick: seeded 5%), deeper trees and long strings are seeded random, strings over "
             "{narrow, space, wide, combining, tab, newline} are enumerated up to length 3 (quick) / 4 (thorough) for every "
             "helper and window width 0..5; cells whose width is stated or left to be measured are set and filled at and around "
             "the right edge of windows ending inside, on and beyond the screen's edge and cut by a parent (5x3 screen, quick: "
             "seeded third); strings over {narrow, space, wide, emoji+VS16, +U+FF9E} holding a cluster whose width depends on "
             "the terminal are enumerated up to length 3 (quick: seeded quarter; thorough also a seeded half of length 4) for every helper, width 1..5 and the four "
             "width-measuring capability sets; set style at every column of the edge windows (5x3 screen) over a row holding a "
             "two-cell glyph at every position (quick: seeded 30%) and at seeded coordinates through seeded trees; "
             "distinct = distinct (tree, call) pairs")
