"""C03 - every terminal report becomes the right event; the input loop survives any input."""
import vselftest
from checks import selfmut
import json


# scenario families whose event rejections are named after the family and the class of the
# expected key report at the divergence (specs/input/ReportsKeys.tla)
NEW_KINDS = ("esc-c0-then-keys", "esc-prefixed-key", "esc-sos-pm-key", "cpr-timing")


def _no_optional(fn):
    """apply a corruption only to scenarios without optional (ambiguous) expected events"""
    def g(evs):
        for e in evs:
            if e.get("ev") == "run" and any(r.get("opt") for r in e.get("reports", [])):
                return None
        return fn(evs)
    g.__doc__ = fn.__doc__
    return g


def key_gains_alt(evs):
    """a delivered plain key carries an Alt modifier it was not pressed with"""
    for e in evs:
        if e.get("ev") == "run" and not e.get("loose"):
            want = [r for r in e.get("reports", []) if r.get("k") == "key"]
            if len(want) == len(e.get("events", [])) and all(x.get("t") == "key" for x in e["events"]):
                for r, x in zip(want, e["events"]):
                    if r.get("mods") == 0 and r.get("cls") == "" and not r.get("opt"):
                        x["mods"] = 2
                        return evs
    return None


def phantom_key(evs):
    """a reply surfaces as an extra key event at the end of a judged key stream"""
    for e in evs:
        if e.get("ev") == "run" and not e.get("loose") and e.get("events") and not any(r.get("opt") for r in e.get("reports", [])):
            e["events"].append({"t": "key", "code": 5, "paste": False, "mods": 6})
            return evs
    return None


def sig_of(rej, scn):
    why = rej.get("why")
    kind = scn["desc"].get("Kind")
    if why == "panic":
        d = (rej.get("detail") or "")
        return "C03:panic:" + "".join(ch if ch.isalnum() else "-" for ch in d[7:60]).strip("-")
    if why == "events":
        wg = "want=%s:got=%s" % ((rej.get("want") or {}).get("t"), (rej.get("got") or {}).get("t"))
        cls = rej.get("class") or ""
        if cls == "alt-carried-after-esc-c0":       # the oracle's diagnosis: nothing else differs in the run
            return "C03:events:" + cls
        if kind == "typeahead":
            # reports sent during start-up come first in the stream: a divergence among their events is about them
            n = sum(len(a.get("Reports") or []) for a in scn["desc"].get("Ahead") or [])
            if (rej.get("at") or 0) <= n:
                return "C03:events:typeahead:input-during-start-up"
            return "C03:events:typeahead:after-start-up:" + wg
        if kind in NEW_KINDS:
            return "C03:events:%s:%s:%s" % (kind, cls or "-", wg)
        return "C03:events:" + wg
    if why == "query-answer":
        a = rej.get("answer") or {}
        return "C03:query-answer:%s:%s" % (a.get("q"), "blocked" if a.get("got") == "blocked" else "wrong")
    return "C03:%s:%s" % (why, kind)


def main(c):
    drv = c.build()
    specs = c.stage_specs("input")
    c.assumptions += [
        "key decoding proper is C09's oracle; here a key report is one key event (exact code only for plain ASCII letters), marked pasted inside brackets; "
        "modifiers are judged only on single printable ASCII bytes (none) in the esc-*/cpr-timing families",
        "CSI 1;c R is both F3 with modifiers and a cursor position report on row 1: either reading is accepted (optional event); CSI r;c R with r != 1 is never a key",
        "events of the library's unexported internal types (capability/reply notifications) are not application-visible user input and are filtered",
        "a query call's answer must be a value the terminal reported for that kind (its reply or one volunteered earlier)",
        "input during start-up (family typeahead): keys, mouse reports, focus changes and complete pastes sent before / between the terminal's replies "
        "to the start-up queries, none after the primary device attributes reply and no F3 chord or lone ESC (ambiguous while a cursor position "
        "request is outstanding); event queues of 1-4 events and the default one",
        "absurd size reports (family size-report): every field is either small (rows <= 200, columns <= 1000) or >= 2^50; values in between "
        "(65535, 2^31, ...) are NOT generated because a library that accepts them would allocate gigabytes; only survival "
        "(no panic in the frame drawn afterwards, sentinel delivered) is judged, not the size the library settles on",
    ]
    if not c.replay:
        c.model_check(specs, "MC_Reports.tla", "MC_Reports.cfg", workers=4)
        c.model_check(specs, "InputLoop.tla", "MC_InputLoop.cfg", workers=8)
        ok, _ = c.model_check(specs, "InputLoop.tla", "MC_InputLoop_prefix.cfg", workers=4, expect_violation=True)
        c.cov["prefix_handoff_model_wedges_as_expected"] = not ok
        if c.tier == "thorough":   # non-vacuity of NoPhantom: the shape that decodes every unrequested CSI r;c R as a key violates it
            ok, _ = c.model_check(specs, "InputLoop.tla", "MC_InputLoop_stale.cfg", workers=4, expect_violation=True)
            c.cov["stale_report_model_delivers_phantom_key_as_expected"] = not ok
        # start-up: input arriving between the replies to the start-up queries. The shape that keeps it and lets
        # later input wait behind it delivers every key once and in order for queues of 1-2 events; the as-found
        # shape (thrown away) loses keys; keeping without the wait reorders (thorough)
        c.model_check(specs, "Startup.tla", "MC_Startup.cfg", workers=4)
        ok, _ = c.model_check(specs, "Startup.tla", "MC_Startup_drop.cfg", workers=2, expect_violation=True)
        c.cov["startup_drop_model_loses_keys_as_expected"] = not ok
        if c.tier == "thorough":
            ok, _ = c.model_check(specs, "Startup.tla", "MC_Startup_feed.cfg", workers=2, expect_violation=True)
            c.cov["startup_ungated_model_reorders_as_expected"] = not ok
            c.model_check(specs, "Startup.tla", "MC_Startup_deadline.cfg", workers=4)
    td = c.drive(drv, "c03", replay=c.replay)
    rejects, _ = c.validate_traces(specs, "Reports_Trace.tla", "Reports_Trace.cfg", td)
    if not c.replay:
        c.cov["binding_selftest"] = vselftest.run(c, specs, "Reports_Trace.tla", "Reports_Trace.cfg", td, {r["scn"] for r in rejects}, [
            ("delivered event missing", _no_optional(selfmut.event_dropped)),
            ("plain key gains Alt", key_gains_alt),
            ("reply surfaces as a key", phantom_key),
            ("mouse event one column off", selfmut.mouse_moved),
            ("input loop stalled", selfmut.loop_stalled),
        ])
    idx = c.load_index(td)
    c.count_distinct(idx, nontrivial=lambda s: True)
    for k in ("stream", "robust", "query"):
        for s in idx.values():
            if s["desc"].get("Kind") == k:
                c.sample({"scenario": s["desc"]})
                break
    cands = [(sig_of(r, idx[r["scn"]]), r, idx[r["scn"]]) for r in rejects]
    # some observations depend on the schedule (input racing the end of start-up, replies racing time-outs):
    # up to 6 of the rejected scenarios of a signature are re-run, the first that is rejected again is reported
    c.confirm(drv, "c03", specs, "Reports_Trace.tla", "Reports_Trace.cfg", cands, sig_of, tries=6)
    return c.finish(
        rule="scenario = capability set x (strict stream of legacy/kitty keys, SGR mouse reports with every button byte, focus, "
             "paste brackets with arbitrary content, interleaved replies | robust stream of unsolicited/repeated/truncated/"
             "malformed replies and garbage | query calls with on-time/late/never replies preceded by unsolicited ones); "
             "| ESC + control byte, silence, keys | ESC + non-ASCII / ESC ESC / ESC X keys then keys | cursor position requests "
             "(late/never/in-time replies on row 1 and other rows, F3 chords while outstanding) inside a judged key stream; "
             "| input (keys, mouse, focus, pastes) sent before / between the replies to the start-up queries x event queue of "
             "1-4 events or the default, then later input | absurd size reports (in-band and as the reply to a size request), "
             "a frame, keys; "
             "each ends with an in-band sentinel key; distinct = distinct descriptor")
