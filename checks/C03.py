"""C03 - every terminal report becomes the right event; the input loop survives any input."""
import vselftest
from checks import selfmut
import json


def sig_of(rej, scn):
    why = rej.get("why")
    kind = scn["desc"].get("Kind")
    if why == "panic":
        d = (rej.get("detail") or "")
        return "C03:panic:" + "".join(ch if ch.isalnum() else "-" for ch in d[7:60]).strip("-")
    if why == "events":
        return "C03:events:want=%s:got=%s" % ((rej.get("want") or {}).get("t"), (rej.get("got") or {}).get("t"))
    if why == "query-answer":
        a = rej.get("answer") or {}
        return "C03:query-answer:%s:%s" % (a.get("q"), "blocked" if a.get("got") == "blocked" else "wrong")
    return "C03:%s:%s" % (why, kind)


def main(c):
    drv = c.build()
    specs = c.stage_specs("input")
    c.assumptions += [
        "key decoding proper is C09's oracle; here a key report is one key event (exact code only for plain ASCII letters), marked pasted inside brackets",
        "events of the library's unexported internal types (capability/reply notifications) are not application-visible user input and are filtered",
        "a query call's answer must be a value the terminal reported for that kind (its reply or one volunteered earlier)",
    ]
    if not c.replay:
        c.model_check(specs, "MC_Reports.tla", "MC_Reports.cfg", workers=4)
        c.model_check(specs, "InputLoop.tla", "MC_InputLoop.cfg", workers=8)
        ok, _ = c.model_check(specs, "InputLoop.tla", "MC_InputLoop_prefix.cfg", workers=4, expect_violation=True)
        c.cov["prefix_handoff_model_wedges_as_expected"] = not ok
    td = c.drive(drv, "c03", replay=c.replay)
    rejects, _ = c.validate_traces(specs, "Reports_Trace.tla", "Reports_Trace.cfg", td)
    if not c.replay:
        c.cov["binding_selftest"] = vselftest.run(c, specs, "Reports_Trace.tla", "Reports_Trace.cfg", td, {r["scn"] for r in rejects}, [
            ("delivered event missing", selfmut.event_dropped),
            ("mouse event one column off", selfmut.mouse_moved),
            ("input loop stalled", selfmut.loop_stalled),
        ])
    idx = c.load_index(td)
    c.count_distinct(idx, nontrivial=lambda s: True)
    for k in ("stream", "robust", "query"):
        for s in idx.values():
            if s["desc"].get("Kind") == k:
                c.sample({"scenario": s["desc"]})
                break
    cands = [(sig_of(r, idx[r["scn"]]), r, idx[r["scn"]]) for r in rejects]
    c.confirm(drv, "c03", specs, "Reports_Trace.tla", "Reports_Trace.cfg", cands, sig_of)
    return c.finish(
        rule="scenario = capability set x (strict stream of legacy/kitty keys, SGR mouse reports with every button byte, focus, "
             "paste brackets with arbitrary content, interleaved replies | robust stream of unsolicited/repeated/truncated/"
             "malformed replies and garbage | query calls with on-time/late/never replies preceded by unsolicited ones); "
             "each ends with an in-band sentinel key; distinct = distinct descriptor")
