"""Corruptions of recorded traces for the binding self-tests of C01-C04, C07, C08, C10, C12, C13
(lib/vselftest.py): each takes the events of one accepted scenario and returns a corrupted copy
(or None when the scenario offers nothing to corrupt). The trace specification must reject every
corrupted copy; otherwise the check is inconclusive (exit 2), never a verdict."""


def _last(evs, pred):
    for i in range(len(evs) - 1, -1, -1):
        if pred(evs[i]):
            return i
    return None


# --- RefTerm family (C01, C07 frames, C12) -------------------------------------------------------

def frame_glyph(ev="frame"):
    def f(evs):
        """the application's record of cell (0,0) names a glyph the terminal was never sent"""
        i = _last(evs, lambda e: e.get("ev") == ev and e.get("app"))
        if i is None:
            return None
        cell = evs[i]["app"][0][0]      # <<g, w, fg, bg, ul, us, at, ln, tw>>
        cell[0] = 987654
        cell[8] = max(cell[8], 1)       # a cell of terminal width 0 is displayed as a blank whatever its glyph
        return evs
    return f


def frame_cursor(evs):
    """the application's record of the cursor is one row further down than what was sent"""
    # cur = <<visible, row, col, shape>>
    i = _last(evs, lambda e: e.get("ev") == "frame" and e.get("cur") and e["cur"][0] != 0)
    if i is None:
        return None
    evs[i]["cur"][1] += 1
    return evs


def print_dropped(evs):
    """the last glyph sent before the last frame end is another one than the application recorded"""
    j = _last(evs, lambda e: e.get("ev") == "frame")
    if j is None:
        return None
    for i in range(j - 1, -1, -1):
        e = evs[i]
        if e.get("ev") == "frame":
            break
        if e.get("ev") in ("ed2", "resize", "scramble"):
            return None          # something after it may wipe the cell
        if e.get("ev") == "print" and e.get("w", 0) >= 1:
            e["g"] = 987654
            return evs
    return None


def emu_grid(evs):
    """the emulator snapshot shows another glyph in cell (0,0)"""
    i = _last(evs, lambda e: e.get("ev") == "emu" and e.get("grid"))
    if i is None:
        return None
    evs[i]["grid"][0][0][1] = 987654     # <<continuation, g, w, fg, bg, ul, us, at, ln>>
    return evs


# --- Caps (C07) -----------------------------------------------------------------------------------

def nothing_advertised(evs):
    """the same session, but the terminal advertised nothing"""
    if evs[0].get("ev") != "reset" or len(evs[0].get("adv", [])) < 2:
        return None
    evs[0]["adv"] = []
    return evs


def accessor_flipped(evs):
    """a capability accessor answers the opposite"""
    for e in evs:
        if e.get("ev") == "ready" and "can" in e:
            e["can"]["rgb"] = not e["can"]["rgb"]
            return evs
    return None


# --- VT500 (C02), ParserLife (C08) ----------------------------------------------------------------

def item_dropped(evs):
    """the first delivered sequence is missing"""
    for e in evs:
        if e.get("ev") == "run" and len(e.get("items", [])) >= 2 and not e.get("panic"):
            del e["items"][0]
            return evs
    return None


def eof_dropped(evs):
    """the end marker is missing"""
    for e in evs:
        if e.get("ev") == "run" and e.get("items") and e["items"][-1].get("t") == "eof" and len(e["items"]) >= 2:
            del e["items"][-1]
            return evs
    return None


def eof_not_last(evs):
    """a sequence is delivered after the end marker"""
    for e in evs:
        if e.get("ev") == "run" and e.get("items") and e["items"][-1].get("t") == "eof" and len(e["items"]) >= 2:
            e["items"][-1], e["items"][-2] = e["items"][-2], e["items"][-1]
            return evs
    return None


def parser_panicked(evs):
    for e in evs:
        if e.get("ev") == "run" and e.get("panic") in ("", False):
            e["panic"] = "send on closed channel" if e["panic"] == "" else True
            return evs
    return None


# --- Reports (C03) --------------------------------------------------------------------------------

def event_dropped(evs):
    """one delivered event is missing"""
    for e in evs:
        if e.get("ev") == "run" and len(e.get("events", [])) >= 1 and not e.get("loose"):
            del e["events"][0]
            return evs
    return None


def mouse_moved(evs):
    """a delivered mouse event is one column off"""
    for e in evs:
        if e.get("ev") == "run":
            for x in e.get("events", []):
                if x.get("t") == "mouse":
                    x["col"] += 1
                    return evs
    return None


def loop_stalled(evs):
    for e in evs:
        if e.get("ev") == "run" and e.get("stalled") is False:
            e["stalled"] = True
            return evs
    return None


# --- Modes (C04) ----------------------------------------------------------------------------------

def altscreen_left_on(evs):
    """no command leaving the alternate screen reaches the terminal (the session entered it)"""
    on = lambda e: e.get("ev") == "set" and e.get("m") == 1049 and e.get("v") is True
    off = lambda e: e.get("ev") == "set" and e.get("m") == 1049 and e.get("v") is False
    if not any(on(e) for e in evs) or not any(off(e) for e in evs):
        return None
    return [e for e in evs if not off(e)]


def cursor_left_hidden(evs):
    """every show-cursor command is missing from the output (the session hid the cursor at least once)"""
    hide = lambda e: e.get("ev") == "set" and e.get("m") == 25 and e.get("v") is False
    show = lambda e: e.get("ev") == "set" and e.get("m") == 25 and e.get("v") is True
    if not any(hide(e) for e in evs) or not any(show(e) for e in evs):
        return None
    return [e for e in evs if not show(e)]


def kitty_not_popped(evs):
    """no kitty keyboard pop reaches the terminal (the session pushed flags)"""
    if not any(e.get("ev") == "kpush" for e in evs) or not any(e.get("ev") == "kpop" for e in evs):
        return None
    return [e for e in evs if e.get("ev") != "kpop"]


def hyperlink_left_open(evs):
    """no command closing a hyperlink reaches the terminal (the session opened one)"""
    if not any(e.get("ev") == "osc8" and e.get("ln") != 0 for e in evs) or not any(e.get("ev") == "osc8" and e.get("ln") == 0 for e in evs):
        return None
    return [e for e in evs if not (e.get("ev") == "osc8" and e.get("ln") == 0)]


def unicode_core_left_set(evs):
    """no command resetting mode 2027 reaches a terminal which implements it and had it reset at start (the session set it)"""
    if 2027 not in (evs[0].get("sup") or []) or 2027 in (evs[0].get("preset") or []):
        return None
    on = lambda e: e.get("ev") == "set" and e.get("m") == 2027 and e.get("v") is True
    off = lambda e: e.get("ev") == "set" and e.get("m") == 2027 and e.get("v") is False
    if not any(on(e) for e in evs) or not any(off(e) for e in evs):
        return None
    return [e for e in evs if not off(e)]


# --- Conc (C10) -----------------------------------------------------------------------------------

def conc(field, value):
    def f(evs):
        for e in evs:
            if e.get("ev") == "run" and e.get("panic") == "" and e.get("race") == "" and e.get("returned") and not e.get("leaked") and not e.get("stuck"):
                e[field] = value
                return evs
        return None
    f.__doc__ = "%s = %r" % (field, value)
    return f


def resize_lost(evs):
    """the library ends up with another size than the terminal's"""
    for e in evs:
        if e.get("ev") == "run" and e.get("rwant"):
            e["rgot"] = [e["rwant"][0] - 3, e["rwant"][1] - 1]
            return evs
    return None


def poster_order(evs):
    for e in evs:
        if e.get("ev") == "run" and e.get("returned"):
            for o in e.get("orders", []):
                if len(o) >= 2:
                    o[0], o[1] = o[1], o[0]
                    return evs
    return None


# --- Forward (C13) --------------------------------------------------------------------------------

# The C13 corruptions return (intact, corrupt) pairs of one-event scenarios: whole C13 scenarios
# contain the known Alt + C0 finding, so single accepted events are used instead.
import copy


def _pair(evs, e):
    i = evs.index(e)
    return [evs[0], copy.deepcopy(e)], [evs[0], e], i


def key_not_matching(evs):
    for e in evs[1:]:
        if e.get("ev") == "key" and e.get("rt") and e.get("name") in ("UP", "F5", "DELETE") and e.get("mods") == 5:
            good = [evs[0], copy.deepcopy(e)]
            e["rt"] = False
            e["rtnoalt"] = False
            return good, [evs[0], e]
    return None


def key_wrong_mode(evs):
    for e in evs[1:]:
        if e.get("ev") == "key" and e.get("name") == "UP" and e.get("mods") == 0:
            good = [evs[0], copy.deepcopy(e)]
            e["decckm"] = not e["decckm"]
            return good, [evs[0], e]
    return None


def paste_unbracketed(evs):
    for e in evs[1:]:
        if e.get("ev") == "paste" and e.get("pastemode") and e.get("bytes"):
            good = [evs[0], copy.deepcopy(e)]
            e["bytes"] = []
            return good, [evs[0], e]
    return None


def mouse_off_by_one(evs):
    for e in evs[1:]:
        if e.get("ev") == "mouse" and e.get("m1006") and e["sgr"]["ok"] and e["dec"]["ok"]:
            good = [evs[0], copy.deepcopy(e)]
            e["dec"]["col"] += 1
            return good, [evs[0], e]
    return None


def mouse_unrequested(evs):
    for e in evs[1:]:
        if e.get("ev") == "mouse" and not e.get("bytes") and not (e["m1000"] or e["m1002"] or e["m1003"]):
            good = [evs[0], copy.deepcopy(e)]
            e["bytes"] = [27, 91, 60, 48, 59, 49, 59, 49, 77]
            return good, [evs[0], e]
    return None
