#!/bin/bash
# verify_seeded.sh <name>...  confirm in a scratch worktree: tests pass with the change, demo fails with it and passes without it
export GOFLAGS=-mod=mod GOPROXY=off GOSUMDB=off GOTOOLCHAIN=local
unset COLORTERM
W=/tmp/seedcheck
git -C /repo worktree remove --force $W/repo 2>/dev/null; rm -rf $W; mkdir -p $W
git -C /repo worktree add -q --detach $W/repo HEAD || exit 2
for name in "$@"; do
  d=/verif/seeded/$name
  rm -rf $W/demo; mkdir -p $W/demo
  if [ -d $d/demo ]; then cp -r $d/demo/. $W/demo/; else cp $d/*.go $d/go.mod $d/go.sum $W/demo/ 2>/dev/null; fi
  sed -i "s#=> /tmp/mut[-/][A-Za-z0-9]*/repo#=> $W/repo#" $W/demo/go.mod
  cp $W/repo/go.sum $W/demo/go.sum
  TAGS=""; grep -q -- "-tags verif" $d/meta.json && TAGS="-tags verif"
  (cd $W/demo && go test $TAGS -count=1 ./... >/dev/null 2>&1); without=$?
  (cd $W/repo && git apply $d/patch.diff) || { echo "$name: patch does not apply"; continue; }
  tests=$(cd $W/repo && go build ./... 2>&1 && go test -vet=off -count=1 ./... 2>&1 | grep -cE '^(FAIL|---)')
  (cd $W/demo && go test $TAGS -count=1 ./... >/dev/null 2>&1); with=$?
  (cd $W/repo && git checkout -- .)
  echo "$name: demo without change rc=$without (want 0), with change rc=$with (want !=0), repo test failures with change=$tests (want 0)"
done
git -C /repo worktree remove --force $W/repo; rm -rf $W
