#!/bin/bash
# thorough_all.sh [ids...] — run the thorough tier of the named checks (default all) one after another; meant for `vp run --with-repo`
# (the snapshot's own evidence directory is written, /repo is not touched when VP_RUN_REPO is set)
cd "$(dirname "$0")/.."
[ -n "$VP_RUN_REPO" ] && export VERIF_REPO=$VP_RUN_REPO
ids=${@:-C01 C02 C03 C04 C05 C06 C07 C08 C09 C10 C11 C12 C13 C14 C15 C16 C17 C18 C19 C20}
rc=0
for id in $ids; do
  /usr/bin/time -f "$id wall=%es maxrss=%MkB" bin/check $id thorough 2>&1 | grep -E "^(VIOLATION|  signature|KNOWN|INCONCLUSIVE|C[0-9]+ (quick|thorough)|C[0-9]+ wall)" | cut -c1-300
  [ ${PIPESTATUS[0]} -ne 0 ] && rc=1
done
exit $rc
