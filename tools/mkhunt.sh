#!/bin/bash
# mkhunt.sh <NN>   scratch worktree and prompt for a defect-hunting sub-agent on property C<NN> (nothing from /verif but the property text)
set -e
n=$1; W=/tmp/hunt/h$n
git -C /repo worktree remove --force $W/repo 2>/dev/null || true
git -C /repo branch -D hunt-h$n 2>/dev/null || true
rm -rf $W; mkdir -p $W/demo $W/out
git -C /repo worktree add -q -b hunt-h$n $W/repo HEAD
sed "s#WORKDIR#$W#g" /verif/tools/hunter_prompt.md > $W/prompt.md
echo >> $W/prompt.md; echo "PROPERTY (id C$n):" >> $W/prompt.md
sed -n "$((10#$n))p" /verif/properties.jsonl | python3 -c "import json,sys; d=json.load(sys.stdin); print(json.dumps({k:d[k] for k in ('title','statement','quantifier','anchors') if k in d}, indent=1, ensure_ascii=False))" >> $W/prompt.md
echo $W/prompt.md
