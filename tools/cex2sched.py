#!/usr/bin/env python3
"""Convert a TLC -dumpTrace json counterexample of ParserLife into a SCHED line (input + action names)."""
import json, sys, re
d = json.load(open(sys.argv[1]))["counterexample"]["action"]
first = d[0][0][1]
acts = []
for step in d:
    name = step[1]["name"]
    before, after = step[0][1], step[2][1]
    if name in ("TFire", "TSend", "TLock", "TSet", "FLock", "FSet"):
        # which timer changed
        k = [i + 1 for i, (a, b) in enumerate(zip(before["tm"], after["tm"])) if a != b][0]
        name = "%s:%d" % (name, k)
    acts.append(name)
print(json.dumps({"inp": first["inp"], "eofGap": first["eofGap"], "acts": acts}))
