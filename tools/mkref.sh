#!/bin/bash
# mkref.sh <area> <round> "<property ids>"   scratch worktree and prompt for a sub-agent that writes behaviour-preserving changes
a=$1; r=$2; ids=$3; W=/tmp/ref/$a
git -C /repo worktree remove --force $W/repo 2>/dev/null; git -C /repo branch -D ref-$a-r$r 2>/dev/null
rm -rf $W; mkdir -p $W/out
git -C /repo worktree add -q -b ref-$a-r$r $W/repo HEAD
sed "s#WORKDIR#$W#g" /verif/tools/refactor_prompt.md > $W/prompt.md
echo -e "\nPROPERTIES:\n" >> $W/prompt.md
python3 - "$ids" >> $W/prompt.md <<'P'
import json,sys
want=sys.argv[1].split()
for l in open('/verif/properties.jsonl'):
    p=json.loads(l)
    if p['id'] in want: print(json.dumps({k:p[k] for k in ('id','title','statement','quantifier') if k in p},indent=1,ensure_ascii=False)); print()
P
echo $W/prompt.md
