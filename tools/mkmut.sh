#!/bin/bash
# mkmut.sh <name> <round> "<constraint>"
id=$1; r=$2; extra=$3; P=${id%?}
mkdir -p /tmp/mut/$id/out /tmp/mut/$id/demo
git -C /repo worktree add -q -b mut-$id-r$r /tmp/mut/$id/repo HEAD
sed "s#WORKDIR#/tmp/mut/$id#g; s#/tmp/yourname.patch#/tmp/mut/$id/my.patch#g" /verif/tools/mutant_prompt.md > /tmp/mut/$id/prompt.md
echo -e "\nADDITIONAL CONSTRAINT: $extra\n\nPROPERTY:\n" >> /tmp/mut/$id/prompt.md
python3 -c "
import json
for l in open('/verif/properties.jsonl'):
    p=json.loads(l)
    if p['id']=='$P': print(json.dumps(p,indent=1))" >> /tmp/mut/$id/prompt.md
