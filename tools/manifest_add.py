#!/usr/bin/env python3
"""manifest_add.py ID "technique" "level text" "level note" [design_ref]  - add/replace a check entry."""
import json, sys
pid, tech, text, note = sys.argv[1:5]
ref = sys.argv[5] if len(sys.argv) > 5 else "DESIGN.md section 5 " + pid
m = json.load(open("/verif/MANIFEST.json"))
m["checks"] = [c for c in m["checks"] if c["property_id"] != pid]
m["checks"].append({
    "property_id": pid, "quick_cmd": "bin/check %s quick" % pid, "thorough_cmd": "bin/check %s thorough" % pid,
    "evidence_file": "/verif/evidence/%s.json" % pid, "replay_cmd_template": "bin/check %s --replay {path}" % pid,
    "engine": "tlc-trace-validation",
    "level_claimed": {"category": "model_checking", "text": text, "design_ref": ref},
    "level_note": note, "technique": tech})
m["checks"].sort(key=lambda c: c["property_id"])
m["not_applicable"] = [n for n in m.get("not_applicable", []) if n["property_id"] != pid]
sp = m["engines"][0]["serves_properties"]
if pid not in sp:
    sp.append(pid); sp.sort()
json.dump(m, open("/verif/MANIFEST.json", "w"), indent=1)
