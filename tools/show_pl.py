#!/usr/bin/env python3
import json,sys
d=json.load(open(sys.argv[1]))['counterexample']['action']
first=d[0][0][1]
print('inp',[(x['c'],x['gap']) for x in first['inp']], 'eofGap',first['eofGap'])
for step in d:
    name=step[1]['name']; s=step[2][1]
    print(' ',name.ljust(8), 'rpc=',s['rpc'].ljust(7),'st=',s['st'].ljust(6),'own',s['owner'],'mu',s['mu'],'tm=',s['tm'],'buf=',[x.get('t') for x in s['buf']],'sq=',[x['who'] for x in s['sendq']],'got=',[x.get('t')+str(x.get('v','')) for x in s['got']], 'closed' if s['closed'] else '', 'PANIC' if s['panic'] else '', 'CLOB' if s['clobber'] else '')
