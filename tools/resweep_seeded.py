#!/usr/bin/env python3
"""resweep_seeded.py [-j N] [name...]   re-confirm every kept seeded change against /repo's HEAD.

For each /verif/seeded/<name>: in a scratch worktree of /repo's HEAD (outside /repo and /verif) run the demo
without the change (must pass), apply patch.diff, run the repository's tests (must pass), run the demo (must
fail), run the property's quick check against that worktree (VERIF_REPO; evidence redirected) and collect the
violation signatures. Results go to meta.json (verified_by_me) and to stdout. Mutants of one property run one
after the other, properties side by side. The worktrees are removed afterwards.
"""
import json, os, re, shutil, subprocess, sys
from concurrent.futures import ThreadPoolExecutor

V = "/verif"
ENV = dict(os.environ, GOFLAGS="-mod=mod", GOPROXY="off", GOSUMDB="off", GOTOOLCHAIN="local")
ENV.pop("COLORTERM", None)
ROOT = "/tmp/rs"


def sh(cmd, cwd=None, env=None, timeout=3600):
    p = subprocess.run(cmd, shell=True, cwd=cwd, env=env or ENV, capture_output=True, text=True, timeout=timeout)
    return p.returncode, p.stdout + p.stderr


def one(name, wt):
    d = os.path.join(V, "seeded", name)
    meta = json.load(open(os.path.join(d, "meta.json")))
    prop = meta.get("caught_by_check") or meta.get("property") or name[:3]   # caught_by_check: the check that decides it when that is not the property's own
    res = {"repo_head": HEAD}
    demo = os.path.join(os.path.dirname(wt), "demo")
    shutil.rmtree(demo, ignore_errors=True)
    os.makedirs(demo)
    if os.path.isdir(os.path.join(d, "demo")):
        sh("cp -r %s/demo/. %s/" % (d, demo))
    else:
        sh("cp %s/*.go %s/go.mod %s/go.sum %s/ 2>/dev/null" % (d, d, d, demo))
    sh(r"sed -i 's#=> /tmp/[A-Za-z0-9_/-]*/repo[0-9]*#=> %s#' go.mod" % wt, cwd=demo)
    shutil.copy(os.path.join(wt, "go.sum"), os.path.join(demo, "go.sum"))
    tags = "-tags verif" if "-tags verif" in json.dumps(meta) else ""
    res["demo_without_rc"], _ = sh("go test %s -count=1 ./..." % tags, cwd=demo)
    rc, out = sh("git apply %s/patch.diff" % d, cwd=wt)
    if rc != 0:
        res["note"] = "patch does not apply to " + HEAD
        return name, prop, res
    rc, out = sh("go build ./... 2>&1 && go test -vet=off -count=1 ./... 2>&1", cwd=wt)
    res["repo_tests_failures_with_change"] = len(re.findall(r"^(FAIL|---)", out, re.M)) + (1 if rc and "FAIL" not in out else 0)
    res["demo_with_rc"], _ = sh("go test %s -count=1 ./..." % tags, cwd=demo)
    e = dict(ENV, VERIF_REPO=wt, VERIF_EVIDENCE_DIR=os.path.join(V, "out", "mutant-evidence"), VERIF_SEED="1")
    rc, out = sh("bin/check %s quick" % prop, cwd=V, env=e)
    sigs = sorted(set(re.findall(r"^  signature: (\S+)", out, re.M)))
    res["check_rc"] = rc
    res["signatures"] = sigs[:8] + (["(%d signatures)" % len(sigs)] if len(sigs) > 8 else [])
    res["caught"] = rc == 1 and bool(sigs)
    if rc not in (0, 1):
        res["note"] = "check inconclusive: " + out[-300:]
    sh("git checkout -- . && git clean -fdq", cwd=wt)
    return name, prop, res


def chain(args):
    prop, names, k = args
    wt = "%s/%d/repo" % (ROOT, k)
    sh("git -C /repo worktree remove --force %s" % wt)
    shutil.rmtree(os.path.dirname(wt), ignore_errors=True)
    os.makedirs(os.path.dirname(wt))
    rc, out = sh("git -C /repo worktree add -q --detach %s HEAD" % wt)
    if rc:
        print("worktree failed", out)
        return []
    outl = []
    for n in names:
        try:
            r = one(n, wt)
        except Exception as ex:  # noqa
            r = (n, prop, {"note": "sweep error: %r" % ex})
        outl.append(r)
        name, _, res = r
        print("%-6s caught=%s demo(without,with)=(%s,%s) tests_fail=%s sigs=%s %s" % (
            name, res.get("caught"), res.get("demo_without_rc"), res.get("demo_with_rc"),
            res.get("repo_tests_failures_with_change"), res.get("signatures"), res.get("note", "")), flush=True)
        mp = os.path.join(V, "seeded", name, "meta.json")
        meta = json.load(open(mp))
        old = meta.get("verified_by_me", {})
        keep_note = old.get("note", "")
        if res.get("caught") and "NOT YET CAUGHT" in keep_note:
            keep_note = "first missed; caught after the check was extended"
        if keep_note.startswith("RETIRED"):   # a retired change stays retired (its note says why); what this run saw is kept beside it
            res["note"], res["caught"] = keep_note, False
        res.setdefault("note", keep_note)
        meta["verified_by_me"] = res
        json.dump(meta, open(mp, "w"), indent=1, ensure_ascii=False)
    sh("git -C /repo worktree remove --force %s" % wt)
    shutil.rmtree(os.path.dirname(wt), ignore_errors=True)
    return outl


if __name__ == "__main__":
    a = sys.argv[1:]
    j = 4
    if a[:1] == ["-j"]:
        j = int(a[1]); a = a[2:]
    HEAD = subprocess.run("git -C /repo rev-parse --short HEAD", shell=True, capture_output=True, text=True).stdout.strip()
    names = a or sorted(n for n in os.listdir(os.path.join(V, "seeded")) if os.path.exists(os.path.join(V, "seeded", n, "patch.diff")))
    by = {}
    for n in names:
        meta = json.load(open(os.path.join(V, "seeded", n, "meta.json")))
        by.setdefault(meta.get("property") or n[:3], []).append(n)
    jobs = [(p, ns, k) for k, (p, ns) in enumerate(sorted(by.items()))]
    with ThreadPoolExecutor(j) as ex:
        allr = [r for rs in ex.map(chain, jobs) for r in rs]
    missed = [n for n, _, r in allr if not r.get("caught")]
    print("swept %d, not caught or inconclusive: %s" % (len(allr), missed))
