#!/usr/bin/env python3
"""findings_table.py   regenerate the table of defects in DESIGN.md (between FINDINGS-TABLE markers) from known_findings.json"""
import json, re
V = "/verif"
d = json.load(open(V + "/known_findings.json"))["findings"]
rows = ["| property | status | commit / signature | what failed |", "|---|---|---|---|"]
def short(w):
    w = re.sub(r"^fixed: property=C\d+ [0-9a-f]{7} ", "", w)
    w = w.replace("|", "/").replace("\n", " ")
    return w if len(w) <= 230 else w[:227] + "..."
for f in sorted(d, key=lambda f: (f["property"], f["status"] != "fixed")):
    if f["status"] == "fixed":
        rows.append("| %s | fixed | %s | %s |" % (f["property"], f["commit"], short(f["what"])))
    else:
        rows.append("| %s | known | `%s` | %s |" % (f["property"], f["sig"].replace("|", "\\|"), short(f["what"])))
nf = sum(1 for f in d if f["status"] == "fixed"); nk = len(d) - nf
ncommits = len({f["commit"] for f in d if f["status"] == "fixed"})
head = "%d entries: %d `fixed` (%d distinct `fix:` commits in `/repo`) and %d `known`.\n\n" % (len(d), nf, ncommits, nk)
p = V + "/DESIGN.md"
s = open(p).read()
b, e = "<!-- FINDINGS-TABLE-BEGIN -->", "<!-- FINDINGS-TABLE-END -->"
assert b in s and e in s
s = s[:s.index(b) + len(b)] + "\n" + head + "\n".join(rows) + "\n" + s[s.index(e):]
import re as _re
s = _re.sub(r"found \*\*\d+ genuine defects\*\* on the pinned tree \(entries of `known_findings.json`\), of which \d+ are\nrepaired by minimal `fix:` commits in `/repo` and \d+ are recorded as known findings",
            "found **%d genuine defects** on the pinned tree (entries of `known_findings.json`), of which %d are\nrepaired by minimal `fix:` commits in `/repo` and %d are recorded as known findings" % (len(d), nf, nk), s)
s = _re.sub(r"disagreement is a finding to classify — \d+ of them were genuine", "disagreement is a finding to classify — %d of them were genuine" % len(d), s)
open(p, "w").write(s)
print(head.strip())
