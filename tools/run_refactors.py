#!/usr/bin/env python3
"""run_refactors.py [dir...]   apply each behaviour-preserving patch under /verif/refactors/<dir>/ alone in a scratch
worktree of /repo's HEAD and run the related quick checks against it (VERIF_REPO; evidence redirected). No check may alarm.
Prints one line per patch; patches that no longer apply to HEAD are reported as such."""
import glob, json, os, re, subprocess, sys
V = "/verif"
ENV = dict(os.environ, GOFLAGS="-mod=mod", GOPROXY="off", GOSUMDB="off", GOTOOLCHAIN="local")
CHECKS = {"render": "C01 C07 C18 C12", "parser": "C02 C08 C09 C03", "life": "C04 C10 C03 C07 C01", "emu": "C05 C06 C12 C13 C18",
          "vxfw": "C14 C15 C19", "text": "C11 C16 C17 C01 C14"}
def sh(cmd, cwd=None, env=None):
    p = subprocess.run(cmd, shell=True, cwd=cwd, env=env or ENV, capture_output=True, text=True)
    return p.returncode, p.stdout + p.stderr
W = "/tmp/rf/repo"
sh("git -C /repo worktree remove --force " + W); sh("rm -rf /tmp/rf; mkdir -p /tmp/rf")
rc, out = sh("git -C /repo worktree add -q --detach %s HEAD" % W)
dirs = sys.argv[1:] or sorted(d for d in os.listdir(V + "/refactors") if os.path.isdir(V + "/refactors/" + d))
alarms = 0
for d in dirs:
    area = re.sub(r"\d+$", "", d)
    for pf in sorted(glob.glob("%s/refactors/%s/patch*.diff" % (V, d))):
        name = "%s/%s" % (d, os.path.basename(pf))
        rc, out = sh("git apply " + pf, cwd=W)
        if rc:
            print("%-22s does not apply to HEAD" % name, flush=True); continue
        rc, out = sh("go build ./... && go build -tags verif ./... && go test -vet=off -count=1 ./... 2>&1 | grep -cE '^(FAIL|---)'", cwd=W)
        res = []
        for c in CHECKS[area].split():
            e = dict(ENV, VERIF_REPO=W, VERIF_EVIDENCE_DIR=V + "/out/mutant-evidence", VERIF_SEED="1")
            rc2, o2 = sh("bin/check %s quick" % c, cwd=V, env=e)
            sigs = re.findall(r"^  signature: (\S+)", o2, re.M)
            res.append("%s=%s%s" % (c, {0: "ok", 1: "ALARM", 2: "inconclusive"}.get(rc2, rc2), (" " + ";".join(sigs[:3])) if sigs else ""))
            alarms += rc2 == 1
        print("%-22s tests_fail=%s  %s" % (name, out.strip().splitlines()[-1] if out.strip() else "?", "  ".join(res)), flush=True)
        sh("git checkout -- . && git clean -fdq", cwd=W)
sh("git -C /repo worktree remove --force " + W); sh("rm -rf /tmp/rf")
print("alarms:", alarms)
