#!/usr/bin/env python3
"""integrate_agent.py <agent> : cherry-pick the agent's repo commits onto /repo main, copy its new verif files,
merge its known_findings entries (rewriting commit hashes by subject)."""
import json, os, shutil, subprocess, sys
ag = sys.argv[1]
W = "/tmp/ag-%s" % ag
def sh(*a, **k):
    return subprocess.run(a, capture_output=True, text=True, **k)
base = "3a4a916"
commits = sh("git", "-C", W + "/repo", "log", "--reverse", "--format=%H %s", base + "..HEAD").stdout.strip().splitlines()
print("repo commits:", len(commits))
for line in ([] if len(sys.argv) > 2 and sys.argv[2] == "nopick" else commits):
    h, subj = line.split(" ", 1)
    r = sh("git", "-C", "/repo", "cherry-pick", h)
    if r.returncode != 0:
        print("CONFLICT on", subj); print(r.stdout[-500:], r.stderr[-500:]); sys.exit(1)
    print("  picked:", subj)
# files
vbase = sh("git", "-C", W + "/verif", "merge-base", "HEAD", "f4bfa41").stdout.strip() or "f4bfa41"
names = sh("git", "-C", W + "/verif", "diff", "--name-status", vbase + "..HEAD").stdout.strip().splitlines()
for l in names:
    st, path = l.split("\t", 1)
    if path in ("known_findings.json", "MANIFEST.json", "DESIGN.md", "harness/go.mod", "harness/go.sum") or path.startswith("evidence/"):
        continue
    src = os.path.join(W, "verif", path); dst = os.path.join("/verif", path)
    if st.startswith("M") and os.path.exists(dst):
        print("  MODIFIED shared file (not copied, review):", path); continue
    os.makedirs(os.path.dirname(dst), exist_ok=True)
    shutil.copy(src, dst); print("  copied", path)
# findings
mine = json.load(open("/verif/known_findings.json"))
have = {(f["property"], f["sig"]) for f in mine["findings"]}
log = sh("git", "-C", "/repo", "log", "--format=%h %s", "-80").stdout.splitlines()
subj2h = {l.split(" ", 1)[1]: l.split(" ", 1)[0] for l in log}
old = sh("git", "-C", W + "/repo", "log", "--format=%h %s", base + "..HEAD").stdout.splitlines()
oldh = {l.split(" ", 1)[0]: l.split(" ", 1)[1] for l in old}
theirs = json.load(open(W + "/verif/known_findings.json"))["findings"]
n = 0
for f in theirs:
    if (f["property"], f["sig"]) in have:
        continue
    if f["property"] in ("C01", "C07"):
        continue
    c = f.get("commit", "") or ""
    new = None
    for oh, s in oldh.items():
        if c == s or c.startswith(oh) or (c and oh.startswith(c[:7])):
            new = subj2h.get(s)
            if new:
                f["what"] = f["what"].replace(oh, new).replace(c, new) if c != s else f["what"]
                f["commit"] = new
    if f.get("status") == "fixed" and not new:
        # try subject match inside commit field
        for s, h in subj2h.items():
            if c and (c in s or s in c):
                f["commit"] = h; new = h
    if f.get("status") == "fixed" and "fixed: property=" not in f["what"]:
        f["what"] = "fixed: property=%s %s %s" % (f["property"], f.get("commit", "?"), f["what"])
    mine["findings"].append(f); n += 1
json.dump(mine, open("/verif/known_findings.json", "w"), indent=1)
print("findings added:", n)
for f in mine["findings"][-n:] if n else []:
    print("  ", f["property"], f["status"], f.get("commit"), f["what"][:90])
