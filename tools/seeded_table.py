#!/usr/bin/env python3
"""Regenerate the table of seeded changes in DESIGN.md (between the SEEDED-TABLE markers) from seeded/*/meta.json."""
import glob, json, os, re
rows = []
for d in sorted(glob.glob('/verif/seeded/*/meta.json')):
    name = os.path.basename(os.path.dirname(d))
    m = json.load(open(d))
    v = m.get('verified_by_me', {})
    summ = re.sub(r'\s+', ' ', m.get('summary', '')).strip()
    if len(summ) > 170:
        summ = summ[:167] + '...'
    sigs = v.get('signatures') or []
    sig = '; '.join('`%s`' % s for s in sigs[:2]) + (' …' if len(sigs) > 2 else '')
    note = re.sub(r'\s+', ' ', v.get('note', '')).strip()
    rows.append('| %s | %s | %s | %s |' % (name, summ.replace('|', '/'), sig.replace('|', '/') or '—', note.replace('|', '/')))
table = '| change | what it does | caught by (signature) | how |\n|---|---|---|---|\n' + '\n'.join(rows)
p = '/verif/DESIGN.md'
s = open(p).read()
a, b = '<!-- SEEDED-TABLE-BEGIN -->', '<!-- SEEDED-TABLE-END -->'
s = s[:s.index(a) + len(a)] + '\n' + table + '\n' + s[s.index(b):]
open(p, 'w').write(s)
print(len(rows), 'rows')
