#!/bin/bash
# inst_mutant.sh <name>...  copy a finished sub-agent's deliverables from /tmp/mut/<name>/out into seeded/<name>
for id in "$@"; do
  mkdir -p /verif/seeded/$id; cp /tmp/mut/$id/out/patch.diff /tmp/mut/$id/out/meta.json /verif/seeded/$id/; rm -rf /verif/seeded/$id/demo
  if [ -d /tmp/mut/$id/out/demo ]; then cp -r /tmp/mut/$id/out/demo /verif/seeded/$id/demo; else mkdir /verif/seeded/$id/demo; cp /tmp/mut/$id/out/*.go /tmp/mut/$id/out/go.mod /tmp/mut/$id/out/go.sum /verif/seeded/$id/demo/; fi
done
