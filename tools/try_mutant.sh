#!/bin/bash
# try_mutant.sh <patch> <check id>...   apply a seeded change to /repo, run the named checks (quick), undo it
set -u
patch=$1; shift
cd /repo || exit 2
if [ -n "$(git status --porcelain)" ]; then echo "repo not clean"; exit 2; fi
git apply "$patch" || { echo "patch does not apply"; exit 2; }
export GOFLAGS=-mod=mod GOPROXY=off GOSUMDB=off GOTOOLCHAIN=local
tests=$(go build ./... 2>&1 && go test -vet=off -count=1 ./... 2>&1 | grep -cE '^(FAIL|---)')
echo "repo tests with change: failures=$tests"
for id in "$@"; do
  (cd /verif && VERIF_EVIDENCE_DIR=/verif/out/mutant-evidence VERIF_SEED=${VERIF_SEED:-1} bin/check $id ${TIER:-quick} 2>&1 | grep -E '^(VIOLATION|  signature|KNOWN|INCONCLUSIVE|C[0-9]+ )' | cut -c1-220)
done
git checkout -- . ; git status --porcelain | head -3
