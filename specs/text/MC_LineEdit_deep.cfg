CONSTANTS
  MaxSteps = 24
  MaxLen = 7
  PasteExec = FALSE
  ValSync = TRUE
  Assign = TRUE
  Orig = FALSE
SPECIFICATION Spec
INVARIANTS CursorInside Conform WordCmdsConform WordSane
VIEW View
CHECK_DEADLOCK FALSE
