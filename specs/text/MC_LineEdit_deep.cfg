CONSTANTS
  MaxSteps = 24
  MaxLen = 7
  PasteExec = FALSE
  Orig = FALSE
SPECIFICATION Spec
INVARIANTS CursorInside Conform WordCmdsConform WordSane
VIEW View
CHECK_DEADLOCK FALSE
