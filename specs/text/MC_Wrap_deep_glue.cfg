CONSTANTS
  MaxLen = 5
  MaxWidth = 8
  Classes = {1, 2, 3, 4, 5, 6, 7, 8, 9}
  Orig = FALSE
  RunCut = TRUE
  OwnBreaks = TRUE
SPECIFICATION Spec
INVARIANT Holds
CHECK_DEADLOCK FALSE
