------------------------------ MODULE WrapRel ------------------------------
(* Oracle for C16: what a soft-wrap (or hard-wrap) scanner may emit for a   *)
(* text and a line width.  Relational: it does not say WHERE lines are      *)
(* broken, only what every admissible answer satisfies.  Written from the   *)
(* property statement and from UAX #14 / UAX #29 vocabulary (grapheme       *)
(* cluster, white space, mandatory break, break opportunity); it mentions   *)
(* no identifier of the code under test.                                    *)
(*                                                                          *)
(* Unicode facts are DATA here.  An input grapheme is the tuple             *)
(*    <<g, w, ws, nl, lt, gl, st>>                                          *)
(*  g  interned grapheme cluster        w  display width in cells           *)
(*  ws 1 iff every code point is White_Space                                *)
(*  nl 1 iff the cluster is a line terminator (UAX #14 BK/CR/LF/NL)         *)
(*  lt 1 iff the cluster is an alphabetic letter (not an ideograph)         *)
(*  gl 1 iff UAX #14 gives NO break opportunity between it and its successor*)
(*  st style id (0 for plain text)                                          *)
(* An emitted line is a sequence of tuples <<g, w, ws, st>>.                *)
(* A drawn row is a sequence of cells <<g, w, st>>, g = 0 for blank/space.  *)
EXTENDS Naturals, Sequences, FiniteSets

IG(x) == x[1]
IW(x) == x[2]
IWs(x) == x[3] = 1
INl(x) == x[4] = 1
ILt(x) == x[5] = 1
IGl(x) == x[6] = 1
ISt(x) == x[7]

LG(x) == x[1]
LW(x) == x[2]
LWs(x) == x[3] = 1
LSt(x) == x[4]

RECURSIVE Flat(_)
Flat(ls) == IF ls = <<>> THEN <<>> ELSE Head(ls) \o Flat(Tail(ls))

RECURSIVE SumLW(_)
SumLW(l) == IF l = <<>> THEN 0 ELSE LW(Head(l)) + SumLW(Tail(l))

RECURSIVE StripTrail(_)
StripTrail(l) == IF l = <<>> THEN l
                 ELSE IF LWs(l[Len(l)]) THEN StripTrail(SubSeq(l, 1, Len(l) - 1))
                 ELSE l

NonWsI(inp) == SelectSeq(inp, LAMBDA x : ~IWs(x))
NonWsL(l) == SelectSeq(l, LAMBDA x : ~LWs(x))

(* ---- 1. conservation ---------------------------------------------------- *)
(* The non-whitespace graphemes of the lines, concatenated, are those of    *)
(* the input, in order, with their styles.                                  *)
Conserved(inp, ls) ==
  LET a == NonWsI(inp)
      b == NonWsL(Flat(ls))
  IN /\ Len(a) = Len(b)
     /\ \A k \in 1..Len(a) : IG(a[k]) = LG(b[k]) /\ ISt(a[k]) = LSt(b[k])

(* Diagnosis of a recorded finding: cr = pairs <<g, core>> for clusters that begin with    *)
(* white space without being white space (an isolated accent carried by a space), core =   *)
(* the cluster without that leading white space.  ConservedCore holds when the lines differ *)
(* from the input by nothing but such a carrier space having been cut off.                  *)
CoreOf(cr, g) == IF \E k \in 1..Len(cr) : cr[k][1] = g THEN cr[CHOOSE k \in 1..Len(cr) : cr[k][1] = g][2] ELSE g
ConservedCore(inp, ls, cr) ==
  LET a == NonWsI(inp)
      b == NonWsL(Flat(ls))
  IN /\ Len(a) = Len(b)
     /\ \A k \in 1..Len(a) : CoreOf(cr, IG(a[k])) = CoreOf(cr, LG(b[k])) /\ ISt(a[k]) = LSt(b[k])

(* ---- 2. width ----------------------------------------------------------- *)
(* Ignoring trailing whitespace a line is no wider than the width, except   *)
(* a line holding a single grapheme that is itself wider than the line.     *)
LineFits(l, width) ==
  LET s == StripTrail(l) IN
  \/ SumLW(s) <= width
  \/ Len(s) = 1 /\ LW(s[1]) > width
WidthOK(ls, width) == \A i \in 1..Len(ls) : LineFits(ls[i], width)
FirstWide(ls, width) == CHOOSE i \in 1..Len(ls) : ~LineFits(ls[i], width)

(* ---- positions: which line holds the k-th non-ws grapheme ---------------- *)
RECURSIVE LineIdx(_, _)
LineIdx(ls, i) == IF i > Len(ls) THEN <<>>
                  ELSE [k \in 1..Len(NonWsL(ls[i])) |-> i] \o LineIdx(ls, i + 1)
Rank(inp, i) == Cardinality({k \in 1..i : ~IWs(inp[k])})

(* ---- 3. runs of letters -------------------------------------------------- *)
(* A run of letters is a maximal sequence of consecutive letter graphemes   *)
(* with no break opportunity between neighbours.  A run that would fit on a *)
(* line of its own must not be split over two lines.                        *)
Joined(inp, i) == i >= 1 /\ i < Len(inp) /\ ILt(inp[i]) /\ ILt(inp[i + 1]) /\ IGl(inp[i])
IsRun(inp, a, b) ==
  /\ \A i \in a..b : ILt(inp[i])
  /\ \A i \in a..(b - 1) : Joined(inp, i)
  /\ ~Joined(inp, a - 1)
  /\ ~Joined(inp, b)
RECURSIVE SumIW(_, _, _)
SumIW(inp, a, b) == IF a > b THEN 0 ELSE IW(inp[a]) + SumIW(inp, a + 1, b)
SplitRuns(inp, ls, width) ==       \* assumes Conserved
  LET li == LineIdx(ls, 1)
      lineOf(i) == li[Rank(inp, i)]
  IN {<<a, b>> \in (1..Len(inp)) \X (1..Len(inp)) :
        /\ a < b
        /\ ILt(inp[a]) /\ ILt(inp[b])
        /\ IsRun(inp, a, b)
        /\ SumIW(inp, a, b) <= width
        /\ lineOf(a) # lineOf(b)}
LettersOK(inp, ls, width) == SplitRuns(inp, ls, width) = {}
\* Diagnosis (names the finding, demands nothing): every split run directly follows a grapheme that
\* is not a letter and has no break opportunity after it (opening punctuation, no-break space)
GluedRuns(inp, ls, width) ==
  \A r \in SplitRuns(inp, ls, width) : r[1] > 1 /\ IGl(inp[r[1] - 1]) /\ ~ILt(inp[r[1] - 1])

(* ---- 4. hard breaks ------------------------------------------------------ *)
(* Paragraph number of input position i = number of line terminators before *)
(* it.  A hard break ends the current line: no line holds non-ws graphemes  *)
(* of two paragraphs, and the text before every terminator owns at least    *)
(* one line (possibly empty), in order - so leading and consecutive breaks  *)
(* produce empty lines.                                                     *)
Para(inp, i) == Cardinality({k \in 1..(i - 1) : INl(inp[k])})
NBreaks(inp) == Cardinality({k \in 1..Len(inp) : INl(inp[k])})
NonWsPos(inp) == SelectSeq([i \in 1..Len(inp) |-> i], LAMBDA i : ~IWs(inp[i]))
\* paragraphs of the non-ws graphemes of line i (assumes Conserved)
LineParas(inp, ls, i) ==
  LET li == LineIdx(ls, 1)
      pos == NonWsPos(inp)
  IN {Para(inp, pos[k]) : k \in {k \in 1..Len(li) : li[k] = i}}
\* walk the lines: last = paragraph of the last line that holds text (-1 = none,
\* encoded +1), flex = text-free lines seen since
RECURSIVE Walk(_, _, _, _, _)
Walk(inp, ls, i, last1, flex) ==
  IF i > Len(ls) THEN flex + last1 >= NBreaks(inp)
  ELSE LET ps == LineParas(inp, ls, i) IN
       IF ps = {} THEN Walk(inp, ls, i + 1, last1, flex + 1)
       ELSE IF Cardinality(ps) > 1 THEN FALSE
       ELSE LET p1 == (CHOOSE p \in ps : TRUE) + 1 IN
            /\ p1 >= last1
            /\ flex + last1 + 1 >= p1
            /\ Walk(inp, ls, i + 1, p1, 0)
HardOK(inp, ls) == Walk(inp, ls, 1, 0, 0)
\* Diagnosis (names the finding, demands nothing): a line holds a line terminator of the text with
\* something behind it - the break was emitted as a part of the line instead of ending it
TermG(inp) == {IG(inp[k]) : k \in {k \in 1..Len(inp) : INl(inp[k])}}
TermInside(inp, ls) ==
  \E i \in 1..Len(ls) : \E j \in 1..(Len(ls[i]) - 1) : LG(ls[i][j]) \in TermG(inp)

(* ---- verdict ------------------------------------------------------------- *)
(* done: the scanner reported the end of the text within Len(inp)+2 calls.  *)
Why0(inp, width, done, ls) ==
  IF ~done THEN "nonterm"
  ELSE IF ~Conserved(inp, ls) THEN "conserve"
  ELSE IF ~WidthOK(ls, width) THEN "width"
  ELSE IF ~LettersOK(inp, ls, width) THEN "letters"
  ELSE IF ~HardOK(inp, ls) THEN "hardbreak"
  ELSE ""
\* the reason names the degenerate width 0 so that it can be told apart
Why(inp, width, done, ls) ==
  LET y == Why0(inp, width, done, ls) IN
  IF y # "" /\ width = 0 THEN y \o ":w0" ELSE y

(* ---- 5. drawing ----------------------------------------------------------- *)
(* The widget draws exactly the emitted lines, one per row: row r shows     *)
(* every positive-width non-ws grapheme of line r at the column equal to    *)
(* the width of what precedes it on the line, with its style, and shows     *)
(* nothing that is not a grapheme of that line at its own column.           *)
Off(l, j) == SumLW(SubSeq(l, 1, j - 1))
RowShows(l, row, sw) ==
  /\ Len(row) = sw
  /\ \A j \in 1..Len(l) :
       (LW(l[j]) > 0 /\ ~LWs(l[j])) =>
          /\ Off(l, j) < sw
          /\ row[Off(l, j) + 1][1] = LG(l[j])
          /\ row[Off(l, j) + 1][3] = LSt(l[j])
  /\ \A c \in 1..sw :
       \/ row[c][1] = 0
       \/ \E j \in 1..Len(l) : Off(l, j) + 1 = c /\ LG(l[j]) = row[c][1]
DrawOK(ls, rows, sw, sh) ==
  /\ sh = Len(ls)
  /\ Len(rows) = sh
  /\ \A r \in 1..sh : RowShows(ls[r], rows[r], sw)
=============================================================================
