------------------------------- MODULE MC_Wrap -------------------------------
(* Exhaustive bounded model for C16: every text of up to MaxLen graphemes   *)
(* over the class alphabet {letter, letter+combining mark, space, hyphen,   *)
(* newline, wide ideograph, wide closing punctuation, wide opening          *)
(* punctuation, no-break space, digit} (constant Classes picks a subset)    *)
(* and every width 0..MaxWidth is wrapped by the transcribed scanner        *)
(* (WrapScan) and the result judged by the oracle (WrapRel).  Break         *)
(* opportunities follow an abridgement of UAX #14 (LB4-7, LB12, LB12a,      *)
(* LB13, LB14, LB18, LB21, LB23, LB25, LB28, LB31).  The scanner is run on  *)
(* the segmenter's view of the text (SegFacts: the line segmenter the       *)
(* scanners are built on gives no break in front of a hyphen followed by a  *)
(* digit, whatever precedes the hyphen, even a line terminator), the oracle *)
(* on the facts.  RLAgrees: the run-length oracle (WrapRelRL) gives the     *)
(* verdict of WrapRel on the scanner's lines and on damaged copies of them. *)
(* ASSUMEs are unit checks of the oracle itself (it must reject outputs     *)
(* that lose, reorder, overflow, split or ignore a break).                  *)
EXTENDS WrapScan, TLC
CONSTANTS MaxLen, MaxWidth, Classes

\* classes: 1 letter, 2 letter+mark, 3 space, 4 hyphen, 5 newline, 6 ideograph, 7 wide closing punct,
\* 8 wide opening punct (glued to what follows), 9 no-break space (white space, glued on both sides),
\* 10 digit (not a letter; a hyphen and the digit behind it stay together)
CW(c) == IF c \in {6, 7, 8} THEN 2 ELSE IF c = 5 THEN 0 ELSE 1
CWs(c) == IF c \in {3, 5, 9} THEN 1 ELSE 0
CNl(c) == IF c = 5 THEN 1 ELSE 0
CLt(c) == IF c \in {1, 2} THEN 1 ELSE 0
\* class of the nearest grapheme before position i that is not a space (0 = none)
RECURSIVE Before(_, _)
Before(s, i) == IF i < 1 THEN 0 ELSE IF s[i] = 3 THEN Before(s, i - 1) ELSE s[i]
\* no break opportunity between position i and position i + 1
Glue(s, i) ==
  LET x == s[i]  y == s[i + 1] IN
  IF x = 5 THEN FALSE                 \* LB4/5 break after a hard break
  ELSE IF y \in {3, 5} THEN TRUE      \* LB6/7 never before newline or space
  ELSE IF x = 9 THEN TRUE             \* LB12 never after a no-break space
  ELSE IF y = 9 /\ x \notin {3, 4} THEN TRUE   \* LB12a nor before it, except after space or hyphen
  ELSE IF y = 7 THEN TRUE             \* LB13 never before closing punctuation, even after spaces
  ELSE IF Before(s, i) = 8 THEN TRUE  \* LB14 never after opening punctuation, even after spaces
  ELSE IF x = 3 THEN FALSE            \* LB18 break after spaces
  ELSE IF y = 4 THEN TRUE             \* LB21 never before a hyphen
  ELSE IF x = 4 /\ y = 10 THEN TRUE   \* LB25 hyphen x digit
  ELSE IF x \in {1, 2, 10} /\ y \in {1, 2, 10} THEN TRUE   \* LB23, LB25, LB28
  ELSE FALSE                          \* LB31
Facts(s) == [i \in 1..Len(s) |->
   <<10 * i + s[i], CW(s[i]), CWs(s[i]), CNl(s[i]), CLt(s[i]),
     IF i < Len(s) /\ Glue(s, i) THEN 1 ELSE 0, i % 3>>]

\* what the scanner's line segmenter reports: as Facts, but never a break in front of a hyphen that a
\* digit follows (uniseg v0.4.4, LB25 look-ahead) - not even behind a line terminator
SegGlue(s, i) == Glue(s, i) \/ (i + 2 <= Len(s) /\ s[i + 1] = 4 /\ s[i + 2] = 10)
SegFacts(s) == [i \in 1..Len(s) |->
   <<10 * i + s[i], CW(s[i]), CWs(s[i]), CNl(s[i]), CLt(s[i]),
     IF i < Len(s) /\ SegGlue(s, i) THEN 1 ELSE 0, i % 3>>]

VARIABLES cls, width
vars == <<cls, width>>
Init == cls = <<>> /\ width \in 0..MaxWidth
Next == Len(cls) < MaxLen /\ \E c \in Classes : cls' = Append(cls, c) /\ UNCHANGED width
Spec == Init /\ [][Next]_vars

Verdict == LET inp == Facts(cls)
               r == Lines(SegFacts(cls), width)
           IN Why(inp, width, r.done, r.lines)
\* width 0 emits nothing (recorded finding); everything else must satisfy the oracle
Holds == Verdict = "" \/ (width = 0 /\ Verdict \in {"conserve:w0", "hardbreak:w0"})

\* ---- the run-length oracle agrees with the oracle -----------------------------
RL == INSTANCE WrapRelRL
\* the same texts with one grapheme per class (so that neighbours can be equal) and a style per pair
FactsSame(s) == [i \in 1..Len(s) |->
   <<s[i], CW(s[i]), CWs(s[i]), CNl(s[i]), CLt(s[i]), IF i < Len(s) /\ Glue(s, i) THEN 1 ELSE 0, (i - 1) \div 2>>]
\* maximal items / one item per grapheme
RECURSIVE Pack(_)
Pack(q) == IF q = <<>> THEN <<>>
           ELSE LET r == Pack(Tail(q))  x == Head(q) IN
                IF r # <<>> /\ SubSeq(r[1], 1, Len(x)) = x
                THEN <<Append(x, r[1][Len(x) + 1] + 1)>> \o Tail(r)
                ELSE <<Append(x, 1)>> \o r
Ones(q) == [i \in 1..Len(q) |-> Append(q[i], 1)]
\* the lines and damaged copies of them: last grapheme of the first line lost, first two graphemes of
\* the first line swapped, first line ended after its first grapheme, first two lines joined
Damaged(ls) ==
  {ls}
  \cup (IF ls # <<>> /\ Len(ls[1]) >= 1
        THEN {<<SubSeq(ls[1], 1, Len(ls[1]) - 1)>> \o Tail(ls),
              <<SubSeq(ls[1], 1, 1), SubSeq(ls[1], 2, Len(ls[1]))>> \o Tail(ls)} ELSE {})
  \cup (IF ls # <<>> /\ Len(ls[1]) >= 2
        THEN {<<(<<ls[1][2], ls[1][1]>> \o SubSeq(ls[1], 3, Len(ls[1])))>> \o Tail(ls)} ELSE {})
  \cup (IF Len(ls) >= 2 THEN {<<ls[1] \o ls[2]>> \o SubSeq(ls, 3, Len(ls))} ELSE {})
RLAgrees ==
  LET inp == FactsSame(cls)
      r == Lines(inp, width)
  IN \A ls \in Damaged(r.lines) : \A done \in {r.done, FALSE} :
       LET y == Why0(inp, width, done, ls) IN
       /\ RL!Why0(Pack(inp), width, done, [i \in 1..Len(ls) |-> Pack(ls[i])]) = y
       /\ RL!Why0(Ones(inp), width, done, [i \in 1..Len(ls) |-> Ones(ls[i])]) = y

\* the same for the drawing demand: the rows painted from the scanner's lines, and a copy with the first
\* cell of the first row blanked, are judged alike against the lines and the damaged copies of them
Widest(ls) == LET ws == {SumLW(ls[i]) : i \in 1..Len(ls)} IN IF ws = {} THEN 0 ELSE CHOOSE x \in ws : \A y \in ws : y <= x
Paint(ls, sw) == [r \in 1..Len(ls) |-> [col \in 1..sw |->
   LET l == ls[r]
       js == {j \in 1..Len(l) : Off(l, j) + 1 = col /\ LW(l[j]) > 0 /\ ~LWs(l[j])}
   IN IF js = {} THEN <<0, 0, 0>> ELSE LET j == CHOOSE j \in js : TRUE IN <<LG(l[j]), LW(l[j]), LSt(l[j])>>]]
DrawAgrees ==
  LET inp == FactsSame(cls)
      r == Lines(inp, width)
      sw == Widest(r.lines)
      rows == Paint(r.lines, sw)
      blanked == IF rows # <<>> /\ sw > 0 THEN <<[rows[1] EXCEPT ![1] = <<0, 0, 0>>]>> \o Tail(rows) ELSE rows
  IN /\ DrawOK(r.lines, rows, sw, Len(rows))
     /\ \A ls \in Damaged(r.lines) : \A rw \in {rows, blanked} :
          LET y == DrawOK(ls, rw, sw, Len(rw)) IN
          /\ RL!DrawOK([i \in 1..Len(ls) |-> Pack(ls[i])], rw, sw, Len(rw)) = y
          /\ RL!DrawOK([i \in 1..Len(ls) |-> Ones(ls[i])], rw, sw, Len(rw)) = y

\* ---- oracle unit checks ---------------------------------------------------
a == <<1, 1, 0, 0, 1, 1, 0>>   b == <<2, 1, 0, 0, 1, 1, 0>>   c == <<3, 1, 0, 0, 1, 0, 0>>
sp == <<0, 1, 1, 0, 0, 0, 0>>  nl == <<9, 0, 1, 1, 0, 0, 0>>  d == <<4, 1, 0, 0, 1, 0, 0>>
wd == <<5, 2, 0, 0, 0, 0, 0>>
La == <<1, 1, 0, 0>>  Lb == <<2, 1, 0, 0>>  Lc == <<3, 1, 0, 0>>  Ld == <<4, 1, 0, 0>>
Lsp == <<0, 1, 1, 0>> Lwd == <<5, 2, 0, 0>>
ASSUME Why(<<a, b, c>>, 3, TRUE, <<<<La, Lb, Lc>>>>) = ""
ASSUME Why(<<a, b, c>>, 3, FALSE, <<<<La, Lb, Lc>>>>) = "nonterm"
ASSUME Why(<<a, b, c>>, 3, TRUE, <<<<La, Lb>>>>) = "conserve"
ASSUME Why(<<a, b, c>>, 3, TRUE, <<<<La, Lc, Lb>>>>) = "conserve"
ASSUME Why(<<a, b, c>>, 3, TRUE, <<<<La, Lb>>, <<Lc>>>>) = "letters"
ASSUME Why(<<a, b, c>>, 2, TRUE, <<<<La, Lb>>, <<Lc>>>>) = ""
ASSUME Why(<<a, b, c>>, 2, TRUE, <<<<La, Lb, Lc>>>>) = "width"
ASSUME Why(<<a, b, c, sp, sp>>, 3, TRUE, <<<<La, Lb, Lc, Lsp, Lsp>>>>) = ""
ASSUME Why(<<wd>>, 1, TRUE, <<<<Lwd>>>>) = ""
ASSUME Why(<<c, wd>>, 2, TRUE, <<<<Lc, Lwd>>>>) = "width"
ASSUME Why(<<c, nl, d>>, 5, TRUE, <<<<Lc, Ld>>>>) = "hardbreak"
ASSUME Why(<<c, nl, d>>, 5, TRUE, <<<<Lc>>, <<Ld>>>>) = ""
ASSUME Why(<<c, nl, nl, d>>, 5, TRUE, <<<<Lc>>, <<Ld>>>>) = "hardbreak"
ASSUME Why(<<c, nl, nl, d>>, 5, TRUE, <<<<Lc>>, <<>>, <<Ld>>>>) = ""
ASSUME Why(<<nl, c>>, 5, TRUE, <<<<Lc>>>>) = "hardbreak"
ASSUME Why(<<nl, c>>, 5, TRUE, <<<<>>, <<Lc>>>>) = ""
ASSUME Why(<<c, nl>>, 5, TRUE, <<<<Lc>>>>) = ""
ASSUME Why(<<nl>>, 5, TRUE, <<>>) = "hardbreak"
ASSUME Why(<<c>>, 0, TRUE, <<>>) = "conserve:w0"
Lnl == <<9, 0, 1, 0>>
ASSUME Why(<<c, nl, d>>, 5, TRUE, <<<<Lc, Lnl, Ld>>>>) = "hardbreak" /\ TermInside(<<c, nl, d>>, <<<<Lc, Lnl, Ld>>>>)
ASSUME Why(<<nl, d>>, 5, TRUE, <<<<Lnl, Ld>>>>) = "hardbreak" /\ TermInside(<<nl, d>>, <<<<Lnl, Ld>>>>)
ASSUME Why(<<c, nl, d>>, 5, TRUE, <<<<Lc, Lnl>>, <<Ld>>>>) = "" /\ ~TermInside(<<c, nl, d>>, <<<<Lc, Lnl>>, <<Ld>>>>)
\* the run-length oracle on texts too long for the other one (item = <<g, w, ws, nl, lt, gl, st, n>>)
ra(n) == <<1, 1, 0, 0, 1, 1, 0, n>>   rz(n) == <<1, 1, 0, 0, 1, 0, 0, n>>   rsp(n) == <<0, 1, 1, 0, 0, 0, 0, n>>
rnl == <<9, 0, 1, 1, 0, 0, 0, 1>>     rwd(n) == <<5, 2, 0, 0, 0, 0, 0, n>>
Ra(n) == <<1, 1, 0, 0, n>>  Rsp(n) == <<0, 1, 1, 0, n>>  Rwd(n) == <<5, 2, 0, 0, n>>
ASSUME RL!Why0(<<ra(69999), rz(1)>>, 30000, TRUE, <<<<Ra(30000)>>, <<Ra(30000)>>, <<Ra(10000)>>>>) = ""
ASSUME RL!Why0(<<ra(69999), rz(1)>>, 30000, FALSE, <<<<Ra(30000)>>, <<Ra(30000)>>, <<Ra(10000)>>>>) = "nonterm"
ASSUME RL!Why0(<<ra(69999), rz(1)>>, 30000, TRUE, <<<<Ra(30000)>>, <<Ra(30000)>>, <<Ra(9999)>>>>) = "conserve"
ASSUME RL!Why0(<<ra(69999), rz(1)>>, 30000, TRUE, <<<<Ra(70000)>>>>) = "width"
ASSUME RL!Why0(<<ra(69999), rz(1)>>, 30000, TRUE, <<<<Ra(30001)>>, <<Ra(30000)>>, <<Ra(9999)>>>>) = "width"
ASSUME RL!Why0(<<ra(2), rsp(70000), rz(1)>>, 10, TRUE, <<<<Ra(2), Rsp(70000)>>, <<Ra(1)>>>>) = ""
ASSUME RL!Why0(<<ra(2), rsp(70000), rz(1)>>, 10, TRUE, <<<<Ra(2), Rsp(70000), Ra(1)>>>>) = "width"
ASSUME RL!Why0(<<ra(39999), rz(1)>>, 50000, TRUE, <<<<Ra(20000)>>, <<Ra(20000)>>>>) = "letters"
ASSUME RL!Why0(<<ra(39999), rz(1), ra(1), rz(1)>>, 50000, TRUE, <<<<Ra(40000)>>, <<Ra(2)>>>>) = ""
ASSUME RL!Why0(<<ra(39999), rz(1), ra(1), rz(1)>>, 50000, TRUE, <<<<Ra(40001)>>, <<Ra(1)>>>>) = "letters"
ASSUME RL!Why0(<<rwd(40000)>>, 65535, TRUE, <<<<Rwd(32767)>>, <<Rwd(7233)>>>>) = ""
ASSUME RL!Why0(<<rwd(40000)>>, 65535, TRUE, <<<<Rwd(32768)>>, <<Rwd(7232)>>>>) = "width"
ASSUME RL!Why0(<<rwd(1)>>, 1, TRUE, <<<<Rwd(1)>>>>) = ""
ASSUME RL!Why0(<<rwd(2)>>, 1, TRUE, <<<<Rwd(2)>>>>) = "width"
ASSUME RL!Why0(<<ra(39999), rz(1), rnl, rz(1)>>, 50000, TRUE, <<<<Ra(40000)>>, <<Ra(1)>>>>) = ""
ASSUME RL!Why0(<<ra(39999), rz(1), rnl, rz(1)>>, 50000, TRUE, <<<<Ra(40001)>>>>) = "hardbreak"
ASSUME RL!Why0(<<ra(39999), rz(1), rnl, rnl, rz(1)>>, 50000, TRUE, <<<<Ra(40000)>>, <<Ra(1)>>>>) = "hardbreak"
ASSUME RL!Why0(<<ra(39999), rz(1), rnl, rnl, rz(1)>>, 50000, TRUE, <<<<Ra(40000)>>, <<>>, <<Ra(1)>>>>) = ""
\* a line of two letters and 70000 spaces drawn 10 columns wide / on a surface without columns / one column wide
blank == <<0, 0, 0>>
ASSUME RL!DrawOK(<<<<Ra(2), Rsp(70000)>>>>, <<<< <<1, 1, 0>>, <<1, 1, 0>>, blank, blank, blank, blank, blank, blank, blank, blank >>>>, 10, 1)
ASSUME ~RL!DrawOK(<<<<Ra(2), Rsp(70000)>>>>, <<<<>>>>, 0, 1)
ASSUME ~RL!DrawOK(<<<<Ra(2), Rsp(70000)>>>>, <<<< <<1, 1, 0>> >>>>, 1, 1)
ASSUME ~RL!DrawOK(<<<<Ra(2), Rsp(70000)>>>>, <<<< <<1, 1, 0>>, <<1, 1, 0>>, <<1, 1, 0>> >>>>, 3, 1)
ASSUME ~RL!DrawOK(<<<<Ra(2), Rsp(70000)>>>>, <<<< <<1, 1, 0>>, <<1, 1, 0>> >>, <<blank, blank>>>>, 2, 2)
ASSUME RL!DrawOK(<<<<Rwd(2), Ra(1)>>, <<>>>>, <<<< <<5, 2, 0>>, blank, <<5, 2, 0>>, blank, <<1, 1, 0>> >>, <<blank, blank, blank, blank, blank>>>>, 5, 2)
ASSUME ~RL!DrawOK(<<<<Rwd(2), Ra(1)>>>>, <<<< <<5, 2, 0>>, <<5, 2, 0>>, blank, blank, <<1, 1, 0>> >>>>, 5, 1)
ASSUME DrawOK(<<<<Lc, Lsp, Lwd>>, <<>>>>, <<<< <<3, 1, 0>>, <<0, 1, 0>>, <<5, 2, 0>>, <<0, 0, 0>> >>, << <<0, 0, 0>>, <<0, 0, 0>>, <<0, 0, 0>>, <<0, 0, 0>> >>>>, 4, 2)
ASSUME ~DrawOK(<<<<Lc, Lsp, Lwd>>>>, <<<< <<3, 1, 0>>, <<5, 2, 0>>, <<0, 0, 0>>, <<0, 0, 0>> >>>>, 4, 1)
ASSUME ~DrawOK(<<<<Lc>>, <<Ld>>>>, <<<< <<3, 1, 0>>, <<4, 1, 0>> >>>>, 2, 1)
ASSUME ~DrawOK(<<<<Lc>>>>, <<<< <<3, 1, 7>> >>>>, 1, 1)
=============================================================================
