------------------------------- MODULE MC_Wrap -------------------------------
(* Exhaustive bounded model for C16: every text of up to MaxLen graphemes   *)
(* over the class alphabet {letter, letter+combining mark, space, hyphen,   *)
(* newline, wide ideograph, wide closing punctuation} and every width       *)
(* 0..MaxWidth is wrapped by the transcribed scanner (WrapScan) and the     *)
(* result judged by the oracle (WrapRel).  Break opportunities follow a     *)
(* pairwise abridgement of UAX #14 (LB4-7, LB13, LB18, LB21, LB28, LB31).   *)
(* ASSUMEs are unit checks of the oracle itself (it must reject outputs     *)
(* that lose, reorder, overflow, split or ignore a break).                  *)
EXTENDS WrapScan, TLC
CONSTANTS MaxLen, MaxWidth

\* classes: 1 letter, 2 letter+mark, 3 space, 4 hyphen, 5 newline, 6 ideograph, 7 wide closing punct
Classes == 1..7
CW(c) == IF c \in {6, 7} THEN 2 ELSE IF c = 5 THEN 0 ELSE 1
CWs(c) == IF c \in {3, 5} THEN 1 ELSE 0
CNl(c) == IF c = 5 THEN 1 ELSE 0
CLt(c) == IF c \in {1, 2} THEN 1 ELSE 0
\* no break opportunity between class x and following class y
Glue(x, y) ==
  IF x = 5 THEN FALSE                 \* LB4/5 break after a hard break
  ELSE IF y \in {3, 5} THEN TRUE      \* LB6/7 never before newline or space
  ELSE IF y = 7 THEN TRUE             \* LB13 never before closing punctuation, even after spaces
  ELSE IF x = 3 THEN FALSE            \* LB18 break after spaces
  ELSE IF y = 4 THEN TRUE             \* LB21 never before a hyphen
  ELSE IF x \in {1, 2} /\ y \in {1, 2} THEN TRUE   \* LB28
  ELSE FALSE                          \* LB31
Facts(cls) == [i \in 1..Len(cls) |->
   <<10 * i + cls[i], CW(cls[i]), CWs(cls[i]), CNl(cls[i]), CLt(cls[i]),
     IF i < Len(cls) /\ Glue(cls[i], cls[i + 1]) THEN 1 ELSE 0, i % 3>>]

VARIABLES cls, width
vars == <<cls, width>>
Init == cls = <<>> /\ width \in 0..MaxWidth
Next == Len(cls) < MaxLen /\ \E c \in Classes : cls' = Append(cls, c) /\ UNCHANGED width
Spec == Init /\ [][Next]_vars

Verdict == LET inp == Facts(cls)
               r == Lines(inp, width)
           IN Why(inp, width, r.done, r.lines)
\* width 0 emits nothing (recorded finding); everything else must satisfy the oracle
Holds == Verdict = "" \/ (width = 0 /\ Verdict \in {"conserve:w0", "hardbreak:w0"})

\* ---- oracle unit checks ---------------------------------------------------
a == <<1, 1, 0, 0, 1, 1, 0>>   b == <<2, 1, 0, 0, 1, 1, 0>>   c == <<3, 1, 0, 0, 1, 0, 0>>
sp == <<0, 1, 1, 0, 0, 0, 0>>  nl == <<9, 0, 1, 1, 0, 0, 0>>  d == <<4, 1, 0, 0, 1, 0, 0>>
wd == <<5, 2, 0, 0, 0, 0, 0>>
La == <<1, 1, 0, 0>>  Lb == <<2, 1, 0, 0>>  Lc == <<3, 1, 0, 0>>  Ld == <<4, 1, 0, 0>>
Lsp == <<0, 1, 1, 0>> Lwd == <<5, 2, 0, 0>>
ASSUME Why(<<a, b, c>>, 3, TRUE, <<<<La, Lb, Lc>>>>) = ""
ASSUME Why(<<a, b, c>>, 3, FALSE, <<<<La, Lb, Lc>>>>) = "nonterm"
ASSUME Why(<<a, b, c>>, 3, TRUE, <<<<La, Lb>>>>) = "conserve"
ASSUME Why(<<a, b, c>>, 3, TRUE, <<<<La, Lc, Lb>>>>) = "conserve"
ASSUME Why(<<a, b, c>>, 3, TRUE, <<<<La, Lb>>, <<Lc>>>>) = "letters"
ASSUME Why(<<a, b, c>>, 2, TRUE, <<<<La, Lb>>, <<Lc>>>>) = ""
ASSUME Why(<<a, b, c>>, 2, TRUE, <<<<La, Lb, Lc>>>>) = "width"
ASSUME Why(<<a, b, c, sp, sp>>, 3, TRUE, <<<<La, Lb, Lc, Lsp, Lsp>>>>) = ""
ASSUME Why(<<wd>>, 1, TRUE, <<<<Lwd>>>>) = ""
ASSUME Why(<<c, wd>>, 2, TRUE, <<<<Lc, Lwd>>>>) = "width"
ASSUME Why(<<c, nl, d>>, 5, TRUE, <<<<Lc, Ld>>>>) = "hardbreak"
ASSUME Why(<<c, nl, d>>, 5, TRUE, <<<<Lc>>, <<Ld>>>>) = ""
ASSUME Why(<<c, nl, nl, d>>, 5, TRUE, <<<<Lc>>, <<Ld>>>>) = "hardbreak"
ASSUME Why(<<c, nl, nl, d>>, 5, TRUE, <<<<Lc>>, <<>>, <<Ld>>>>) = ""
ASSUME Why(<<nl, c>>, 5, TRUE, <<<<Lc>>>>) = "hardbreak"
ASSUME Why(<<nl, c>>, 5, TRUE, <<<<>>, <<Lc>>>>) = ""
ASSUME Why(<<c, nl>>, 5, TRUE, <<<<Lc>>>>) = ""
ASSUME Why(<<nl>>, 5, TRUE, <<>>) = "hardbreak"
ASSUME Why(<<c>>, 0, TRUE, <<>>) = "conserve:w0"
ASSUME DrawOK(<<<<Lc, Lsp, Lwd>>, <<>>>>, <<<< <<3, 1, 0>>, <<0, 1, 0>>, <<5, 2, 0>>, <<0, 0, 0>> >>, << <<0, 0, 0>>, <<0, 0, 0>>, <<0, 0, 0>>, <<0, 0, 0>> >>>>, 4, 2)
ASSUME ~DrawOK(<<<<Lc, Lsp, Lwd>>>>, <<<< <<3, 1, 0>>, <<5, 2, 0>>, <<0, 0, 0>>, <<0, 0, 0>> >>>>, 4, 1)
ASSUME ~DrawOK(<<<<Lc>>, <<Ld>>>>, <<<< <<3, 1, 0>>, <<4, 1, 0>> >>>>, 2, 1)
ASSUME ~DrawOK(<<<<Lc>>>>, <<<< <<3, 1, 7>> >>>>, 1, 1)
=============================================================================
