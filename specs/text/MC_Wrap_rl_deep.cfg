CONSTANTS
  MaxLen = 5
  MaxWidth = 6
  Classes = {1, 3, 5, 6, 8, 9}
  Orig = FALSE
  RunCut = TRUE
  OwnBreaks = TRUE
SPECIFICATION Spec
INVARIANT RLAgrees
INVARIANT DrawAgrees
CHECK_DEADLOCK FALSE
