CONSTANTS
  MaxLen = 5
  MaxWidth = 6
  Classes = {1, 3, 5, 6, 8, 9}
  Orig = FALSE
  RunCut = TRUE
SPECIFICATION Spec
INVARIANT RLAgrees
CHECK_DEADLOCK FALSE
