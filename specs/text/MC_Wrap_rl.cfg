CONSTANTS
  MaxLen = 4
  MaxWidth = 5
  Classes = {1, 3, 4, 5, 6, 9}
  Orig = FALSE
  RunCut = TRUE
  OwnBreaks = TRUE
SPECIFICATION Spec
INVARIANT RLAgrees
INVARIANT DrawAgrees
CHECK_DEADLOCK FALSE
