CONSTANTS
  MaxLen = 4
  MaxWidth = 6
  Classes = {1, 2, 3, 4, 5, 6, 7, 8, 9, 10}
  Orig = FALSE
  RunCut = TRUE
  OwnBreaks = TRUE
SPECIFICATION Spec
INVARIANT Holds
CHECK_DEADLOCK FALSE
