CONSTANTS
  MaxLen = 4
  MaxWidth = 6
  Orig = FALSE
SPECIFICATION Spec
INVARIANT Holds
CHECK_DEADLOCK FALSE
