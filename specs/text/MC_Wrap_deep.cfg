CONSTANTS
  MaxLen = 6
  MaxWidth = 8
  Orig = FALSE
SPECIFICATION Spec
INVARIANT Holds
CHECK_DEADLOCK FALSE
