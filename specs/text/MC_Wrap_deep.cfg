CONSTANTS
  MaxLen = 6
  MaxWidth = 8
  Classes = {1, 2, 3, 4, 5, 6, 7}
  Orig = FALSE
  RunCut = TRUE
  OwnBreaks = TRUE
SPECIFICATION Spec
INVARIANT Holds
CHECK_DEADLOCK FALSE
