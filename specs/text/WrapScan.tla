------------------------------ MODULE WrapScan ------------------------------
(* Implementation-shaped model: a transcription of the soft-wrap scanners   *)
(* (plain and rich share the algorithm) over abstract graphemes, for        *)
(* exhaustive exploration against the WrapRel oracle.  Not an oracle: it    *)
(* produces no verdict about the code; a counterexample here is a candidate *)
(* scenario.  Orig = TRUE transcribes the algorithm as found (long word     *)
(* broken on a partly filled line; wide grapheme placed in the last column) *)
(* Orig = FALSE the repaired algorithm.  RunCut = TRUE: an over-long line   *)
(* segment is not cut inside a run of letters that fits on a line of its    *)
(* own (the line ends before the run); FALSE = cut wherever the line is     *)
(* full, as found before that repair.  OwnBreaks = TRUE: the scanner ends a  *)
(* line segment at the first line terminator itself; FALSE = it relies on   *)
(* the line segmenter for that (as found in the plain scanner), and the      *)
(* segmenter it is given may be wrong about it (MC_Wrap!SegFacts).          *)
EXTENDS WrapRel

CONSTANTS Orig, RunCut, OwnBreaks

\* line grapheme of an input grapheme
AsLine(x) == <<IG(x), IW(x), x[3], ISt(x)>>
AsLines(s) == [i \in 1..Len(s) |-> AsLine(s[i])]

RECURSIVE SumIWs(_)
SumIWs(s) == IF s = <<>> THEN 0 ELSE IW(Head(s)) + SumIWs(Tail(s))

\* first line segment: up to and including the first grapheme after which a
\* break is allowed (or the end of the text)
SegEnd(rest, i) == ~IGl(rest[i]) \/ (OwnBreaks /\ INl(rest[i]))
SegLen(rest) == IF \E i \in 1..Len(rest) : SegEnd(rest, i)
                THEN CHOOSE i \in 1..Len(rest) : SegEnd(rest, i) /\ \A j \in 1..(i - 1) : ~SegEnd(rest, j)
                ELSE Len(rest)
RECURSIVE WordLen(_)
WordLen(seg) == IF seg = <<>> THEN 0
                ELSE IF IWs(seg[Len(seg)]) THEN WordLen(SubSeq(seg, 1, Len(seg) - 1))
                ELSE Len(seg)

\* split a too-long word: returns number of graphemes taken onto the line
RECURSIVE Take(_, _, _, _)
Take(word, i, w, width) ==
  IF i > Len(word) THEN i - 1
  ELSE IF Orig THEN (IF w >= width THEN i - 1 ELSE Take(word, i + 1, w + IW(word[i]), width))
  ELSE (IF i > 1 /\ w + IW(word[i]) > width THEN i - 1
        ELSE Take(word, i + 1, w + IW(word[i]), width))

\* the cut after n graphemes of a word, moved in front of the run of letters it would split
\* when that run fits on a line of its own and is not the head of the word
RECURSIVE RunLo(_, _)
RunLo(word, i) == IF i > 1 /\ ILt(word[i - 1]) THEN RunLo(word, i - 1) ELSE i
RECURSIVE RunHi(_, _)
RunHi(word, i) == IF i < Len(word) /\ ILt(word[i + 1]) THEN RunHi(word, i + 1) ELSE i
Cut(word, n, width) ==
  IF ~RunCut \/ n < 1 \/ n >= Len(word) THEN n
  ELSE IF ~(ILt(word[n]) /\ ILt(word[n + 1])) THEN n
  ELSE LET a == RunLo(word, n)
           b == RunHi(word, n + 1)
       IN IF a > 1 /\ SumIWs(SubSeq(word, a, b)) <= width THEN a - 1 ELSE n

\* one Scan call from a fresh token; returns [tok, rest]
RECURSIVE Fill(_, _, _, _)
Fill(tok, w, rest, width) ==
  LET k == SegLen(rest)
      seg == SubSeq(rest, 1, k)
      after == SubSeq(rest, k + 1, Len(rest))
      br == k = 0 \/ INl(seg[k]) \/ k = Len(rest)
      nword == WordLen(seg)
      word == SubSeq(seg, 1, nword)
      trsp == SubSeq(seg, nword + 1, k)
      wordW == SumIWs(word)
      spW == SumIWs(trsp)
  IN IF wordW > width THEN
        IF ~Orig /\ tok # <<>> THEN [tok |-> tok, rest |-> rest]
        ELSE LET n == Cut(word, Take(word, 1, w, width), width) IN
             [tok |-> tok \o SubSeq(word, 1, n),
              rest |-> SubSeq(word, n + 1, nword) \o trsp \o after]
     ELSE IF w + wordW > width THEN [tok |-> tok, rest |-> rest]
     ELSE IF br THEN
        [tok |-> tok \o (IF k > 0 /\ INl(seg[k]) THEN SubSeq(seg, 1, k - 1) ELSE seg), rest |-> after]
     ELSE IF w + wordW + spW > width THEN [tok |-> tok \o word, rest |-> after]
     ELSE Fill(tok \o seg, w + wordW + spW, after, width)

\* all lines, with the harness's bound on the number of Scan calls
RECURSIVE Run(_, _, _, _)
Run(rest, width, acc, fuel) ==
  IF rest = <<>> \/ width = 0 THEN [done |-> TRUE, lines |-> acc]
  ELSE IF fuel = 0 THEN [done |-> FALSE, lines |-> acc]
  ELSE LET r == Fill(<<>>, 0, rest, width) IN
       Run(r.rest, width, Append(acc, AsLines(r.tok)), fuel - 1)
Lines(inp, width) == Run(inp, width, <<>>, Len(inp) + 2)
=============================================================================
