CONSTANTS
  MaxLen = 4
  MaxWidth = 6
  Classes = {1, 2, 3, 4, 5, 6, 7, 8, 9}
  Orig = FALSE
  RunCut = FALSE
  OwnBreaks = TRUE
SPECIFICATION Spec
INVARIANT Holds
CHECK_DEADLOCK FALSE
