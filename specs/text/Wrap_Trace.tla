----------------------------- MODULE Wrap_Trace -----------------------------
(* Trace validation for C16.  One scenario = one text (with its Unicode     *)
(* facts) and, per width, what the real scanner emitted and what the real   *)
(* widget drew:                                                             *)
(*   reset {kind, inp}            kind: "plain" | "rich" | "hard"           *)
(*   scan  {w, done, lines}       lines emitted by the exported scanner     *)
(*   draw  {w, sw, sh, rows}      surface returned by the widget's Draw     *)
(*   panic {in, w} / hang {in, w} crash or watchdog expiry (observations)   *)
(*   rscan {w, done, lines}       the same for a text of tens of thousands  *)
(*                                of graphemes, run-length encoded: the     *)
(*                                text is reset.rinp, judged by WrapRelRL   *)
(*   rdraw {w, sw, sh, rows}      surface the widget drew for such a text,  *)
(*                                cell by cell; judged by WrapRelRL!DrawOK  *)
(*                                against the lines of the rscan before it  *)
(* Every scan is judged by WrapRel!Why, every draw by WrapRel!DrawOK        *)
(* against the lines of the scan event just before it (skipped when that    *)
(* scan was rejected).                                                      *)
EXTENDS WrapRel, TLC, Json, IOUtils

RL == INSTANCE WrapRelRL

Trace == ndJsonDeserialize(IOEnv.TRACE)

VARIABLES l, inp, rinp, cr, lines, failed
vars == <<l, inp, rinp, cr, lines, failed>>

Init == l = 1 /\ inp = <<>> /\ rinp = <<>> /\ cr = <<>> /\ lines = <<>> /\ failed = FALSE

Reject(e, why) ==
  /\ failed' = TRUE
  /\ PrintT("REJECT " \o ToJson([scn |-> e.scn, line |-> l, why |-> why, w |-> e.w]))

Next ==
  /\ l <= Len(Trace)
  /\ l' = l + 1
  /\ LET e == Trace[l] IN
     IF e.ev = "reset" THEN
        /\ inp' = e.inp /\ rinp' = e.rinp /\ cr' = e.carriers /\ lines' = <<>> /\ failed' = FALSE
     ELSE IF e.ev = "rscan" THEN     \* a giant text: every width is judged on its own
        /\ UNCHANGED <<inp, rinp, cr>> /\ lines' = e.lines
        /\ LET why0 == RL!Why0(rinp, e.w, e.done, e.lines)
               why == IF why0 = "letters" /\ RL!GluedRuns(rinp, e.lines, e.w) THEN "letters-glued-prefix" ELSE why0
           IN IF why = "" THEN failed' = FALSE ELSE Reject(e, why \o ":giant")
     ELSE IF e.ev = "scan" THEN      \* every width is judged on its own
        /\ inp' = inp /\ rinp' = rinp /\ cr' = cr /\ lines' = e.lines
        /\ LET why0 == Why(inp, e.w, e.done, e.lines)
               \* the scanner cut the space off an isolated accent and nothing else differs: recorded finding
               \* a run of letters was split right behind something glued to it: told apart from other splits
               why == IF why0 = "conserve" /\ cr # <<>> /\ ConservedCore(inp, e.lines, cr) THEN "conserve-carrier-space-cut"
                      ELSE IF why0 = "letters" /\ GluedRuns(inp, e.lines, e.w) THEN "letters-glued-prefix"
                      \* a line runs across a terminator that it holds: told apart from other hard-break rejections
                      ELSE IF why0 = "hardbreak" /\ TermInside(inp, e.lines) THEN "hardbreak-terminator-inside-line"
                      ELSE why0
           IN IF why = "" THEN failed' = FALSE ELSE Reject(e, why)
     ELSE IF failed THEN UNCHANGED <<inp, rinp, cr, lines, failed>>
     ELSE IF e.ev = "draw" THEN
        /\ UNCHANGED <<inp, rinp, cr, lines>>
        /\ IF DrawOK(lines, e.rows, e.sw, e.sh) THEN UNCHANGED failed ELSE Reject(e, "draw")
     ELSE IF e.ev = "rdraw" THEN
        /\ UNCHANGED <<inp, rinp, cr, lines>>
        /\ IF RL!DrawOK(lines, e.rows, e.sw, e.sh) THEN UNCHANGED failed ELSE Reject(e, "draw:giant")
     ELSE  \* panic, hang, anything else the oracle has no step for
        /\ UNCHANGED <<inp, rinp, cr, lines>>
        /\ Reject(e, e.ev \o ":" \o e.in)

Spec == Init /\ [][Next]_vars

Consumed == TLCGet("stats").diameter - 1 = Len(Trace)
=============================================================================
