CONSTANTS
  MaxSteps = 12
  MaxLen = 3
  PasteExec = FALSE
  ValSync = FALSE
  Assign = FALSE
  Orig = TRUE
SPECIFICATION Spec
INVARIANTS CursorInside Conform WordCmdsConform WordSane
VIEW View
CHECK_DEADLOCK FALSE
