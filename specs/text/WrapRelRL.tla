----------------------------- MODULE WrapRelRL -----------------------------
(* The C16 oracle (module WrapRel) once more, for texts too long to be      *)
(* spelled out grapheme by grapheme: the same five demands of the property  *)
(* (termination, conservation, width, runs of letters, hard breaks), stated *)
(* over RUN-LENGTH ENCODED texts and lines.  Written from the property      *)
(* statement like WrapRel; it mentions no identifier of the code under      *)
(* test.  MC_Wrap (cfg MC_Wrap_rl) checks that it gives the verdict of      *)
(* WrapRel on every small text, whatever way the text is cut into items.    *)
(*                                                                          *)
(* DrawOK states the sixth demand (the widget draws exactly the emitted      *)
(* lines) for run-length encoded lines and a surface given cell by cell.    *)
(*                                                                          *)
(* An input item is <<g, w, ws, nl, lt, gl, st, n>>: n >= 1 consecutive     *)
(* copies of the input grapheme <<g, w, ws, nl, lt, gl, st>> of WrapRel     *)
(* (gl: no break opportunity between a copy and what follows it, be that    *)
(* the next copy or the next item).  A line is a sequence of line items     *)
(* <<g, w, ws, st, n>>.  Positions: "rank r" = the r-th grapheme of the     *)
(* text that is not white space.                                            *)
EXTENDS Integers, Sequences, FiniteSets

XG(x) == x[1]
XW(x) == x[2]
XWs(x) == x[3] = 1
XNl(x) == x[4] = 1
XLt(x) == x[5] = 1
XGl(x) == x[6] = 1
XSt(x) == x[7]
XN(x) == x[8]

YG(y) == y[1]
YW(y) == y[2]
YWs(y) == y[3] = 1
YSt(y) == y[4]
YN(y) == y[5]

Least(a, b) == IF a <= b THEN a ELSE b
Most(a, b) == IF a >= b THEN a ELSE b

\* <<0, f[1], f[1]+f[2], ..., f[1]+...+f[Len(f)]>> for a sequence of numbers
RECURSIVE Cum(_, _, _)
Cum(f, i, s) == IF i > Len(f) THEN <<s>> ELSE <<s>> \o Cum(f, i + 1, s + f[i])
Sums(f) == Cum(f, 1, 0)

RECURSIVE FlatL(_)
FlatL(ls) == IF ls = <<>> THEN <<>> ELSE Head(ls) \o FlatL(Tail(ls))

(* ---- 1. conservation ---------------------------------------------------- *)
(* Pieces <<g, st, n>> of the graphemes that are not white space; piece k   *)
(* covers the ranks c[k]+1 .. c[k+1] (c = running sums of the counts).  Two  *)
(* piecewise constant sequences are equal iff they are equally long and     *)
(* agree at every rank where a piece of either begins.                      *)
InPieces(inp) == LET a == SelectSeq(inp, LAMBDA x : ~XWs(x))
                 IN [k \in 1..Len(a) |-> <<XG(a[k]), XSt(a[k]), XN(a[k])>>]
LinePieces(ls) == LET b == SelectSeq(FlatL(ls), LAMBDA y : ~YWs(y))
                  IN [k \in 1..Len(b) |-> <<YG(b[k]), YSt(b[k]), YN(b[k])>>]
PieceAt(p, c, r) == LET k == CHOOSE k \in 1..Len(p) : c[k] < r /\ r <= c[k + 1] IN <<p[k][1], p[k][2]>>
Conserved(inp, ls) ==
  LET a == InPieces(inp)
      b == LinePieces(ls)
      ca == Sums([k \in 1..Len(a) |-> a[k][3]])
      cb == Sums([k \in 1..Len(b) |-> b[k][3]])
  IN /\ ca[Len(ca)] = cb[Len(cb)]
     /\ \A r \in {ca[k] + 1 : k \in 1..Len(a)} \cup {cb[k] + 1 : k \in 1..Len(b)} :
          PieceAt(a, ca, r) = PieceAt(b, cb, r)

(* ---- 2. width ----------------------------------------------------------- *)
RECURSIVE SumYW(_)
SumYW(l) == IF l = <<>> THEN 0 ELSE YW(Head(l)) * YN(Head(l)) + SumYW(Tail(l))
RECURSIVE StripTrail(_)
StripTrail(l) == IF l = <<>> THEN l
                 ELSE IF YWs(l[Len(l)]) THEN StripTrail(SubSeq(l, 1, Len(l) - 1))
                 ELSE l
LineFits(l, width) ==
  LET s == StripTrail(l) IN
  \/ SumYW(s) <= width
  \/ Len(s) = 1 /\ YN(s[1]) = 1 /\ YW(s[1]) > width
WidthOK(ls, width) == \A i \in 1..Len(ls) : LineFits(ls[i], width)

(* ---- positions ------------------------------------------------------------ *)
\* running number of non-white-space graphemes before every input item / after every line
InRanks(inp) == Sums([k \in 1..Len(inp) |-> IF XWs(inp[k]) THEN 0 ELSE XN(inp[k])])
RECURSIVE NonWsCount(_)
NonWsCount(l) == IF l = <<>> THEN 0 ELSE (IF YWs(Head(l)) THEN 0 ELSE YN(Head(l))) + NonWsCount(Tail(l))
LineRanks(ls) == Sums([i \in 1..Len(ls) |-> NonWsCount(ls[i])])

(* ---- 3. runs of letters -------------------------------------------------- *)
(* A grapheme is joined to its successor when both are letters and there is *)
(* no break opportunity between them.  Every copy of an item of letters     *)
(* with gl is joined to what follows it; a run of two or more letters is    *)
(* therefore a maximal block of such items plus, when it is a letter, the   *)
(* one grapheme that follows the block.  A run that fits on a line of its   *)
(* own is split when a line ends after one of its graphemes but the last.   *)
Chain(inp, k) == k >= 1 /\ k <= Len(inp) /\ XLt(inp[k]) /\ XGl(inp[k])
RECURSIVE BlockN(_, _, _)
BlockN(inp, k1, k2) == IF k1 > k2 THEN 0 ELSE XN(inp[k1]) + BlockN(inp, k1 + 1, k2)
RECURSIVE BlockW(_, _, _)
BlockW(inp, k1, k2) == IF k1 > k2 THEN 0 ELSE XW(inp[k1]) * XN(inp[k1]) + BlockW(inp, k1 + 1, k2)
SplitRuns(inp, ls, width) ==       \* assumes Conserved
  LET K == Len(inp)
      ir == InRanks(inp)
      lr == LineRanks(ls)
      ends == {lr[i + 1] : i \in 1..Len(ls)}
  IN {<<k1, k2>> \in (1..K) \X (1..K) :
        /\ k1 <= k2
        /\ \A k \in k1..k2 : Chain(inp, k)
        /\ ~Chain(inp, k1 - 1)
        /\ ~Chain(inp, k2 + 1)
        /\ LET ext == k2 < K /\ XLt(inp[k2 + 1])
               cnt == BlockN(inp, k1, k2) + (IF ext THEN 1 ELSE 0)
               wd == BlockW(inp, k1, k2) + (IF ext THEN XW(inp[k2 + 1]) ELSE 0)
               ra == ir[k1] + 1
               rb == ir[k1] + cnt
           IN cnt >= 2 /\ wd <= width /\ \E r \in ends : ra <= r /\ r < rb}
LettersOK(inp, ls, width) == SplitRuns(inp, ls, width) = {}
\* Diagnosis (names the finding, demands nothing): every split run directly follows a grapheme that
\* is not a letter and has no break opportunity after it
GluedRuns(inp, ls, width) ==
  \A r \in SplitRuns(inp, ls, width) : r[1] > 1 /\ XGl(inp[r[1] - 1]) /\ ~XLt(inp[r[1] - 1])

(* ---- 4. hard breaks ------------------------------------------------------ *)
(* Paragraph of a grapheme = number of line terminators before it.  No line *)
(* holds graphemes (other than white space) of two paragraphs, and the text *)
(* before every terminator owns at least one line, in order.                *)
InBreaks(inp) == Sums([k \in 1..Len(inp) |-> IF XNl(inp[k]) THEN XN(inp[k]) ELSE 0])
\* paragraphs of the ranks lo+1 .. hi
Paras(inp, ir, ib, lo, hi) ==
  UNION {LET x == inp[k]
             o1 == Most(lo + 1, ir[k] + 1) - ir[k]      \* first and last copy of item k
             o2 == Least(hi, ir[k + 1]) - ir[k]         \* among these ranks
         IN IF XWs(x) \/ o1 > o2 THEN {}
            ELSE IF XNl(x) THEN {ib[k] + o - 1 : o \in o1..o2}
            ELSE {ib[k]} : k \in 1..Len(inp)}
RECURSIVE Walk(_, _, _, _, _, _, _, _)
Walk(inp, ir, ib, ls, lr, i, last1, flex) ==
  IF i > Len(ls) THEN flex + last1 >= ib[Len(ib)]
  ELSE LET ps == Paras(inp, ir, ib, lr[i], lr[i + 1]) IN
       IF ps = {} THEN Walk(inp, ir, ib, ls, lr, i + 1, last1, flex + 1)
       ELSE IF Cardinality(ps) > 1 THEN FALSE
       ELSE LET p1 == (CHOOSE p \in ps : TRUE) + 1 IN
            /\ p1 >= last1
            /\ flex + last1 + 1 >= p1
            /\ Walk(inp, ir, ib, ls, lr, i + 1, p1, 0)
HardOK(inp, ls) == Walk(inp, InRanks(inp), InBreaks(inp), ls, LineRanks(ls), 1, 0, 0)     \* assumes Conserved

(* ---- verdict ------------------------------------------------------------- *)
Why0(inp, width, done, ls) ==
  IF ~done THEN "nonterm"
  ELSE IF ~Conserved(inp, ls) THEN "conserve"
  ELSE IF ~WidthOK(ls, width) THEN "width"
  ELSE IF ~LettersOK(inp, ls, width) THEN "letters"
  ELSE IF ~HardOK(inp, ls) THEN "hardbreak"
  ELSE ""

(* ---- 5. drawing ----------------------------------------------------------- *)
(* As WrapRel!DrawOK: row r shows every grapheme of line r that has a width *)
(* and is not white space at the column equal to the width of what precedes *)
(* it on the line, with its style, and nothing that is not a grapheme of    *)
(* that line at its own column.  The k-th copy (k = 0..n-1) of an item      *)
(* stands k times its width behind the start of the item.  A row is a       *)
(* sequence of cells <<g, w, st>>, g = 0 for blank/space.                   *)
YOff(l, j) == SumYW(SubSeq(l, 1, j - 1))
RowShows(l, row, sw) ==
  /\ Len(row) = sw
  /\ \A j \in 1..Len(l) :
       (YW(l[j]) > 0 /\ ~YWs(l[j])) =>
          \A k \in 0..(YN(l[j]) - 1) :
             LET o == YOff(l, j) + k * YW(l[j]) IN
             /\ o < sw
             /\ row[o + 1][1] = YG(l[j])
             /\ row[o + 1][3] = YSt(l[j])
  /\ \A c \in 1..sw :
       \/ row[c][1] = 0
       \/ \E j \in 1..Len(l) :
            LET d == c - 1 - YOff(l, j) IN
            /\ YG(l[j]) = row[c][1]
            /\ IF YW(l[j]) = 0 THEN d = 0
               ELSE d >= 0 /\ d % YW(l[j]) = 0 /\ d \div YW(l[j]) < YN(l[j])
DrawOK(ls, rows, sw, sh) ==
  /\ sh = Len(ls)
  /\ Len(rows) = sh
  /\ \A r \in 1..sh : RowShows(ls[r], rows[r], sw)
=============================================================================
