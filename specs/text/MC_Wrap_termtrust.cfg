CONSTANTS
  MaxLen = 4
  MaxWidth = 6
  Classes = {1, 3, 4, 5, 6, 10}
  Orig = FALSE
  RunCut = TRUE
  OwnBreaks = FALSE
SPECIFICATION Spec
INVARIANT Holds
CHECK_DEADLOCK FALSE
