--------------------------- MODULE LineEdit_Trace ---------------------------
(* Trace validation for C17.  Events:                                       *)
(*   reset {widget, enter, cb, pw, tab}   new empty widget; tab = facts     *)
(*   op    {k, via, gs, i, text, cur, chg, sub, w, col}                     *)
(*         the command the driver issued (k, via, gs, i; on a deletion gs   *)
(*         is <<>> or the segmentation fact <<l, r, j>>) and what it then   *)
(*         observed: text (grapheme ids), cur (-1 when the widget exposes   *)
(*         no cursor index), change/submit callback arguments in order, the *)
(*         window width w used for Draw and the drawn cursor column col.    *)
(*   panic {k} / hang {k}                                                   *)
(* The oracle state is stepped with LineEdit!Next; the observed text (and   *)
(* cursor) must be one of the allowed successors.  seen = what the history  *)
(* since the content was last replaced as a whole contains (an assignment   *)
(* of the value, a deletion that let two graphemes join): printed with a    *)
(* rejection, it only names the rejection.                                  *)
EXTENDS LineEdit, TLC, Json, IOUtils

Trace == ndJsonDeserialize(IOEnv.TRACE)

VARIABLES l, ed, cfg, failed, seen
vars == <<l, ed, cfg, failed, seen>>

NoCfg == [widget |-> "", enter |-> "keep", cb |-> FALSE, pw |-> 0, tab |-> <<>>]
Init == l = 1 /\ ed = Empty /\ cfg = NoCfg /\ failed = FALSE /\ seen = {}

Seen(e) ==
  IF e.k \in {"set", "reset"} \/ (e.k = "enter" /\ cfg.enter = "clear") THEN {}
  ELSE seen \cup (IF e.k = "setval" THEN {"setval"} ELSE {})
            \cup (IF e.k \in {"bs", "del", "delword"} /\ e.gs # <<>> THEN {"deljoin"} ELSE {})

Reject(e, why, more) ==
  /\ failed' = TRUE
  /\ PrintT("REJECT " \o ToJson([scn |-> e.scn, line |-> l, why |-> why, k |-> e.k, more |-> more,
                                  ctx |-> IF e.ev = "op" THEN Seen(e) ELSE seen]))

Matches(e, s) == s.text = e.text /\ (e.cur < 0 \/ s.cur = e.cur)

Next1 ==
  /\ l <= Len(Trace)
  /\ l' = l + 1
  /\ LET e == Trace[l] IN
     IF e.ev = "reset" THEN
        /\ cfg' = [widget |-> e.widget, enter |-> e.enter, cb |-> e.cb, pw |-> e.pw, tab |-> e.tab]
        /\ ed' = Empty /\ failed' = FALSE /\ seen' = {}
     ELSE IF failed THEN UNCHANGED <<ed, cfg, failed, seen>>
     ELSE IF e.ev = "op" THEN
        /\ cfg' = cfg
        /\ seen' = Seen(e)
        /\ LET cands == {s \in Next(cfg.tab, cfg, ed, e) : Matches(e, s)}
               want == CHOOSE s \in Next(cfg.tab, cfg, ed, e) : TRUE
           IN
           IF cands = {} THEN
              /\ ed' = ed
              /\ Reject(e, IF \E s \in Next(cfg.tab, cfg, ed, e) : s.text = e.text THEN "cursor" ELSE "text",
                        [want |-> want, got |-> [text |-> e.text, cur |-> e.cur]])
           ELSE LET s == CHOOSE s \in cands : TRUE IN
              /\ ed' = s
              /\ IF ~Inv(s) THEN Reject(e, "inv", s)
                 ELSE IF cfg.cb /\ ~ChangeOK(ed, s, e, e.chg) THEN Reject(e, "change", [chg |-> e.chg, text |-> s.text])
                 ELSE IF cfg.cb /\ ~SubmitOK(ed, e, e.sub) THEN Reject(e, "submit", [sub |-> e.sub])
                 ELSE IF ~ColOK(cfg.tab, cfg, s, e.w, e.col)
                      THEN Reject(e, "col", [w |-> e.w, col |-> e.col, cur |-> s.cur, pw |-> cfg.pw,
                                             tw |-> WidthOf(cfg.tab, s.text), prevw |-> e.pwin])
                 ELSE UNCHANGED failed
     ELSE
        /\ UNCHANGED <<ed, cfg, seen>>
        /\ Reject(e, e.ev, <<>>)

Spec == Init /\ [][Next1]_vars

Consumed == TLCGet("stats").diameter - 1 = Len(Trace)
=============================================================================
