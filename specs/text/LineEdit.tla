------------------------------ MODULE LineEdit ------------------------------
(* Oracle for C17: an ideal single-line editor over grapheme clusters.      *)
(* Written from the property statement and the GNU Readline / Emacs command *)
(* vocabulary the widgets bind their keys to (beginning-of-line,            *)
(* end-of-line, forward-char, backward-char, forward-word, backward-word,   *)
(* delete-char, backward-delete-char, kill-line, unix-line-discard,         *)
(* unix-word-rubout / backward-kill-word, self-insert, bracketed paste).    *)
(* No identifier of the code under test appears here.                       *)
(*                                                                          *)
(* A text is a sequence of grapheme ids; Tab[id] = <<width, class>> with    *)
(* class 0 = white space, 1 = word constituent (base code point is a letter *)
(* or digit), 3 = a character that cannot be displayed (C0 control, DEL),   *)
(* 2 = anything else.  The cursor is a gap index 0..Len(text).              *)
EXTENDS Naturals, Sequences, FiniteSets

Ed(t, c) == [text |-> t, cur |-> c]
Empty == Ed(<<>>, 0)

MinOf(S) == CHOOSE x \in S : \A y \in S : x <= y
MaxOf(S) == CHOOSE x \in S : \A y \in S : x >= y

Ins(t, c, gs) == SubSeq(t, 1, c) \o gs \o SubSeq(t, c + 1, Len(t))
Cut(t, a, b) == SubSeq(t, 1, a) \o SubSeq(t, b + 1, Len(t))      \* removes t[a+1..b]

Cls(tab, g) == tab[g][2]
Wd(tab, g) == tab[g][1]
Displayable(tab, t) == \A p \in 1..Len(t) : Cls(tab, t[p]) # 3
(* What a paste of gs may leave in the text: "every pasted character appears *)
(* exactly once at the cursor"; for a character that cannot be displayed the *)
(* statement is silent, so it may be kept or dropped - every displayable    *)
(* grapheme stays, in order.                                                *)
RECURSIVE Kept(_, _)
Kept(tab, gs) ==
  IF gs = <<>> THEN {<<>>}
  ELSE LET rest == Kept(tab, Tail(gs)) IN
       {<<Head(gs)>> \o r : r \in rest} \cup (IF Cls(tab, Head(gs)) = 3 THEN rest ELSE {})
RECURSIVE WidthOf(_, _)
WidthOf(tab, t) == IF t = <<>> THEN 0 ELSE Wd(tab, Head(t)) + WidthOf(tab, Tail(t))

IsWord(tab, t, p) == p >= 1 /\ p <= Len(t) /\ Cls(tab, t[p]) = 1
IsSpace(tab, t, p) == p >= 1 /\ p <= Len(t) /\ Cls(tab, t[p]) = 0
\* gap p is the start (end) of a word: letters/digits after (before) it, none before (after)
WordStarts(tab, t) == {p \in 0..Len(t) : IsWord(tab, t, p + 1) /\ ~IsWord(tab, t, p)}
WordEnds(tab, t) == {p \in 0..Len(t) : IsWord(tab, t, p) /\ ~IsWord(tab, t, p + 1)}
\* the same with "word" = maximal run of non-blank graphemes (unix-word-rubout)
BlankStarts(tab, t) == {p \in 0..Len(t) : p + 1 <= Len(t) /\ ~IsSpace(tab, t, p + 1) /\ (p = 0 \/ IsSpace(tab, t, p))}

BackWord(tab, t, c) == MaxOf({p \in WordStarts(tab, t) : p < c} \cup {0})
ForwWord(tab, t, c) == MinOf({p \in WordEnds(tab, t) : p > c} \cup {Len(t)})
BackBlankWord(tab, t, c) == MaxOf({p \in BlankStarts(tab, t) : p < c} \cup {0})

(* A deletion can leave two graphemes side by side that form ONE cluster     *)
(* (two regional indicators, Hangul jamo, an emoji sequence around a zero   *)
(* width joiner).  fact = <<>> or <<l, r, j>>, a logged segmentation fact:  *)
(* "l directly followed by r is the single cluster j".  The text then holds *)
(* j in their place.  The cursor was between l and r, a place that is no    *)
(* longer a position of a grapheme editor: it is on one of the two sides of *)
(* j - a grapheme boundary of the text, no further from the place of the    *)
(* deletion than the joined cluster reaches.  (The statement does not say   *)
(* which side.)                                                             *)
Seam(s, fact) ==
  IF fact # <<>> /\ s.cur >= 1 /\ s.cur < Len(s.text) /\ s.text[s.cur] = fact[1] /\ s.text[s.cur + 1] = fact[2]
  THEN LET t2 == SubSeq(s.text, 1, s.cur - 1) \o <<fact[3]>> \o SubSeq(s.text, s.cur + 2, Len(s.text))
       IN {Ed(t2, s.cur - 1), Ed(t2, s.cur)}
  ELSE {s}

(* Next(tab, cfg, ed, op) = the set of states the ideal editor may be in     *)
(* after op.  op.k names the command, op.gs the inserted/pasted/assigned    *)
(* graphemes, op.i a target index.  cfg.enter is "clear" when submitting    *)
(* empties the field, "keep" otherwise.                                     *)
Next(tab, cfg, ed, op) ==
  LET t == ed.text  c == ed.cur  n == Len(ed.text) IN
  CASE op.k = "ins" -> {Ed(Ins(t, c, op.gs), c + Len(op.gs))}
    \* pasted text is text, whatever keys its characters would be when typed (a pasted carriage return
    \* is not Enter being pressed, a pasted ^A is not beginning-of-line): it is inserted at the cursor
    \* ("pastectl" = a paste that contains such characters)
    [] op.k \in {"paste", "pastectl"} -> {Ed(Ins(t, c, kept), c + Len(kept)) : kept \in Kept(tab, op.gs)}
    \* typed ("insjoin") or pasted ("pastejoin") text whose first character joins the cluster left of the
    \* cursor (op.i, a logged segmentation fact): that cluster becomes op.gs[1], which adds no grapheme
    \* and does not move the cursor; the remaining graphemes are inserted behind it
    [] op.k \in {"insjoin", "pastejoin"} ->
         {IF c > 0 /\ t[c] = op.i THEN Ed(Ins([t EXCEPT ![c] = op.gs[1]], c, Tail(op.gs)), c + Len(op.gs) - 1)
          ELSE Ed(Ins(t, c, op.gs), c + Len(op.gs))}
    [] op.k = "left"    -> {Ed(t, IF c > 0 THEN c - 1 ELSE 0)}
    [] op.k = "right"   -> {Ed(t, IF c < n THEN c + 1 ELSE n)}
    [] op.k = "home"    -> {Ed(t, 0)}
    [] op.k = "end"     -> {Ed(t, n)}
    [] op.k = "wordleft"  -> {Ed(t, BackWord(tab, t, c))}
    [] op.k = "wordright" -> {Ed(t, ForwWord(tab, t, c))}
    \* deletions inside the text: op.gs is <<>> or the segmentation fact for the two graphemes the
    \* deletion brings together (see Seam)
    [] op.k = "bs"      -> Seam(IF c > 0 THEN Ed(Cut(t, c - 1, c), c - 1) ELSE ed, op.gs)
    [] op.k = "del"     -> Seam(IF c < n THEN Ed(Cut(t, c, c + 1), c) ELSE ed, op.gs)
    [] op.k = "killeol" -> {Ed(SubSeq(t, 1, c), c)}
    [] op.k = "killbol" -> {Ed(SubSeq(t, c + 1, n), 0)}
    [] op.k = "delword" -> UNION {Seam(Ed(Cut(t, p, c), p), op.gs) : p \in {BackWord(tab, t, c), BackBlankWord(tab, t, c)}}
    [] op.k = "enter"   -> {IF cfg.enter = "clear" THEN Empty ELSE ed}
    [] op.k = "set"     -> {Ed(op.gs, Len(op.gs))}
    \* the text is replaced from outside, the editor is not asked to move its cursor ("setval": the
    \* application assigns the widget's exported value, which is also how a starting content is given):
    \* the cursor keeps its index, and it is always within the text
    [] op.k = "setval"  -> {Ed(op.gs, IF c < Len(op.gs) THEN c ELSE Len(op.gs))}
    [] op.k = "reset"   -> {Empty}
    [] op.k = "goto"    -> {Ed(t, IF op.i < n THEN op.i ELSE n)}
    [] op.k \in {"noop", "resize"} -> {ed}

Inv(ed) == ed.cur <= Len(ed.text)

\* commands issued through the widget's event handler (as opposed to method calls)
IsEvent(op) == op.via = "key"

(* Callbacks after key events: change fires once with the new value for     *)
(* every event that changed the value - typed or pasted graphemes arrive as *)
(* one key event each, so k inserted graphemes give k calls with the        *)
(* intermediate values - and never otherwise (the reset that follows a      *)
(* submit is not an edit: unconstrained); submit fires once with the        *)
(* submitted value iff Enter.                                               *)
ChangeOK(ed, ed2, op, chg) ==
  IF ~IsEvent(op) \/ op.k = "enter" THEN TRUE
  ELSE IF op.k \in {"ins", "paste", "pastectl"}     \* kept = the graphemes that were inserted
       THEN LET kept == SubSeq(ed2.text, ed.cur + 1, ed2.cur) IN
            chg = [j \in 1..Len(kept) |-> Ins(ed.text, ed.cur, SubSeq(kept, 1, j))]
  ELSE IF op.k \in {"insjoin", "pastejoin"} /\ ed.cur > 0 /\ ed.text[ed.cur] = op.i
       THEN LET t1 == [ed.text EXCEPT ![ed.cur] = op.gs[1]] IN
            chg = [j \in 1..Len(op.gs) |-> Ins(t1, ed.cur, SubSeq(op.gs, 2, j))]
  ELSE IF ed2.text # ed.text THEN chg = <<ed2.text>> ELSE chg = <<>>
SubmitOK(ed, op, sub) ==
  IF op.k = "enter" /\ IsEvent(op) THEN sub = <<ed.text>> ELSE sub = <<>>

(* Drawn cursor column: while prompt + text + the cursor cell fit the       *)
(* window, it is the prompt width plus the width of the text before the     *)
(* cursor.  w < 0: the driver did not draw.  A text holding a character     *)
(* that cannot be displayed has no display width: not judged.               *)
Fits(tab, cfg, ed, w) == cfg.pw + WidthOf(tab, ed.text) < w
ColOK(tab, cfg, ed, w, col) ==
  (Fits(tab, cfg, ed, w) /\ w > 0 /\ Displayable(tab, ed.text)) => col = cfg.pw + WidthOf(tab, SubSeq(ed.text, 1, ed.cur))
=============================================================================
