CONSTANTS
  MaxSteps = 12
  MaxLen = 3
  PasteExec = FALSE
  ValSync = FALSE
  Assign = TRUE
  Orig = FALSE
SPECIFICATION Spec
INVARIANTS CursorInside Conform WordCmdsConform WordSane
VIEW View
CHECK_DEADLOCK FALSE
