CONSTANTS
  MaxLen = 4
  MaxWidth = 6
  Orig = TRUE
SPECIFICATION Spec
INVARIANT Holds
CHECK_DEADLOCK FALSE
