----------------------------- MODULE MC_LineEdit -----------------------------
(* Exhaustive bounded model for C17.  The LineEdit oracle is run next to    *)
(* implementation-shaped transcriptions of the two widgets:                 *)
(*  - the text field (value, cursor, cached grapheme count n) under every   *)
(*    command history of up to MaxSteps commands on texts of up to MaxLen   *)
(*    graphemes; Orig = TRUE is the code as found (count not refreshed by   *)
(*    deletions), Orig = FALSE the repaired code.  Conform compares what    *)
(*    is observable: the value and the drawn cursor column.                 *)
(*    A paste arrives as one key event per pasted character; PasteExec =    *)
(*    TRUE is the code as found (a pasted control character runs through    *)
(*    the key bindings: a carriage return submits), FALSE the repaired code *)
(*    (it is ignored).  The oracle allows several outcomes of such a paste: *)
(*    the oracle state follows the one the transcription matches, if any.   *)
(*    The application can assign the value ("setval"); ValSync = FALSE is   *)
(*    the code as found (the cached count and the cursor are what they were *)
(*    until the next insertion or deletion refreshes the count), TRUE the   *)
(*    repaired code (every command first recounts and keeps the cursor      *)
(*    within the text).  Two assignments in a row are not explored: the     *)
(*    widget cannot know of the first (variable assigned).  Assign = FALSE  *)
(*    leaves the assignments out (MC_LineEdit_orig.cfg: the stale count of   *)
(*    Orig is to be refuted by deletions alone).                            *)
(*  - the text input's word motions and word deletion (index loops with     *)
(*    clamping) on every (text, cursor) reached, against BackWord/ForwWord. *)
(* ASSUMEs are unit checks of the oracle.  A violation here is a candidate  *)
(* scenario, not a verdict about the code.                                  *)
EXTENDS LineEdit, Integers, TLC
CONSTANTS MaxSteps, MaxLen, Orig, PasteExec, ValSync, Assign

\* grapheme 1: narrow letter, 2: wide letter, 3: blank, 4: hyphen, 5: carriage return (cannot be displayed)
Tab == << <<1, 1>>, <<2, 1>>, <<1, 0>>, <<1, 2>>, <<0, 3>> >>
Cfg == [enter |-> "clear", pw |-> 0]

VARIABLES ed, tf, steps, assigned
vars == <<ed, tf, steps, assigned>>

Cmd(k, via, gs, i) == [k |-> k, via |-> via, gs |-> gs, i |-> i]
Cmds ==
  {Cmd("ins", "key", <<g>>, 0) : g \in 1..4}
  \cup {Cmd(k, "key", <<>>, 0) : k \in {"left", "right", "home", "end", "bs", "del", "killeol", "enter"}}
  \cup {Cmd("goto", "call", <<>>, j) : j \in 0..(MaxLen + 1)}
  \cup {Cmd("reset", "call", <<>>, 0)}
  \cup {Cmd("pastectl", "key", <<1, 5>>, 0), Cmd("pastectl", "key", <<5, 2>>, 0)}
  \cup (IF Assign THEN {Cmd("setval", "call", gs, 0) : gs \in {<<>>, <<2>>, <<1, 2>>, <<2, 3, 1>>}} ELSE {})

\* ---- text field as implemented -------------------------------------------
Min2(a, b) == IF a < b THEN a ELSE b
TF(v, c, n) == [val |-> v, cur |-> c, n |-> n]
Count(tf2) == IF Orig THEN tf2.n ELSE Len(tf2.val)     \* what deletions leave in n
CursorTo(t, i) == [t EXCEPT !.cur = Min2(i, t.n)]
Sync(t) == IF ValSync THEN TF(t.val, Min2(t.cur, Len(t.val)), Len(t.val)) ELSE t
ImplKey(t0, op) ==
  LET t == Sync(t0)  v == t.val  c == t.cur  len == Len(t.val) IN
  CASE op.k = "ins" -> LET v2 == Ins(v, Min2(c, len), op.gs) IN TF(v2, c + Len(op.gs), Len(v2))
    [] op.k = "home" -> CursorTo(t, 0)
    [] op.k = "end" -> CursorTo(t, t.n)
    [] op.k = "right" -> CursorTo(t, c + 1)
    [] op.k = "left" -> IF c = 0 THEN t ELSE CursorTo(t, c - 1)
    [] op.k = "goto" -> CursorTo(t, op.i)
    [] op.k = "del" -> IF t.n = c THEN t
                       ELSE LET v2 == IF c < len THEN Cut(v, c, c + 1) ELSE v
                                t2 == TF(v2, c, t.n) IN [t2 EXCEPT !.n = Count(t2)]
    [] op.k = "bs" -> IF c = 0 THEN t
                      ELSE LET v2 == IF c <= len THEN Cut(v, c - 1, c) ELSE v
                               t2 == TF(v2, c - 1, t.n) IN [t2 EXCEPT !.n = Count(t2)]
    [] op.k = "killeol" -> IF c = t.n THEN t
                           ELSE LET t2 == TF(SubSeq(v, 1, Min2(c, len)), c, t.n) IN [t2 EXCEPT !.n = Count(t2)]
    [] op.k \in {"enter", "reset"} -> TF(<<>>, 0, 0)
\* a paste: one key event per character; the carriage return is the key the decoder reports for it
RECURSIVE ImplPaste(_, _)
ImplPaste(t, gs) ==
  IF gs = <<>> THEN t
  ELSE LET t2 == IF Cls(Tab, Head(gs)) # 3 THEN ImplKey(t, Cmd("ins", "key", <<Head(gs)>>, 0))
                 ELSE IF PasteExec THEN ImplKey(t, Cmd("enter", "key", <<>>, 0)) ELSE t
       IN ImplPaste(t2, Tail(gs))
Impl(t, op) == IF op.k = "pastectl" THEN ImplPaste(t, op.gs)
               ELSE IF op.k = "setval" THEN TF(op.gs, t.cur, t.n)     \* an assignment: no code of the widget runs
               ELSE ImplKey(t, op)
ImplCol(t) == WidthOf(Tab, SubSeq(t.val, 1, Min2(t.cur, Len(t.val))))

Obs(s, t) == t.val = s.text /\ ImplCol(t) = WidthOf(Tab, SubSeq(s.text, 1, s.cur))
Init == ed = Empty /\ tf = TF(<<>>, 0, 0) /\ steps = 0 /\ assigned = FALSE
Step ==
  /\ steps < MaxSteps
  /\ steps' = steps + 1
  /\ \E op \in Cmds :
       /\ assigned' = (op.k = "setval")
       /\ IF op.k = "setval" THEN ~assigned /\ Len(op.gs) <= MaxLen ELSE Len(ed.text) + Len(op.gs) <= MaxLen
       /\ tf' = Impl(tf, op)
       /\ LET m == {s \in Next(Tab, Cfg, ed, op) : Obs(s, Impl(tf, op))} IN
            IF m # {} THEN ed' \in m ELSE ed' \in Next(Tab, Cfg, ed, op)
Spec == Init /\ [][Step]_vars

CursorInside == Inv(ed)
View == <<ed, tf, assigned>>
Conform == Obs(ed, tf)

\* ---- text input word commands as implemented ------------------------------
Alnum(t, i0) == i0 >= 0 /\ i0 < Len(t) /\ Cls(Tab, t[i0 + 1]) = 1     \* 0-based index
Clamp(c, n) == IF c > n THEN n ELSE IF c < 0 THEN 0 ELSE c
RECURSIVE SkipF(_, _, _)     \* forward while the class test holds
SkipF(t, c, wantAlnum) == IF c < Len(t) /\ Alnum(t, c) = wantAlnum THEN SkipF(t, c + 1, wantAlnum) ELSE c
TiForw(t, c) == Clamp(SkipF(t, SkipF(t, c, FALSE), TRUE), Len(t))
RECURSIVE BackNon(_, _)      \* first loop of backward-word: i runs with the cursor
BackNon(t, c) == IF c >= 0 /\ ~Alnum(t, c) THEN BackNon(t, c - 1) ELSE c
RECURSIVE BackAl(_, _)       \* second loop: steps back over the word, then forward one
BackAl(t, c) == IF c < 0 THEN c ELSE IF Alnum(t, c) THEN BackAl(t, c - 1) ELSE c + 1
TiBack(t, c) ==
  LET c0 == IF c - 1 >= Len(t) THEN Len(t) - 1 ELSE c - 1 IN
  Clamp(BackAl(t, BackNon(t, c0)), Len(t))
RECURSIVE RubNon(_, _)
RubNon(t, c) == IF c - 1 >= 0 /\ ~Alnum(t, c - 1) THEN RubNon(t, c - 1) ELSE c
RECURSIVE RubAl(_, _)
RubAl(t, c) == IF c - 1 >= 0 /\ Alnum(t, c - 1) THEN RubAl(t, c - 1) ELSE c
TiRub(t, c) == IF c = 0 THEN Ed(t, 0) ELSE LET p == RubAl(t, RubNon(t, c)) IN Ed(Cut(t, p, c), p)

WordCmdsConform ==
  /\ TiForw(ed.text, ed.cur) = ForwWord(Tab, ed.text, ed.cur)
  /\ TiBack(ed.text, ed.cur) = BackWord(Tab, ed.text, ed.cur)
  /\ TiRub(ed.text, ed.cur) \in Next(Tab, Cfg, ed, Cmd("delword", "key", <<>>, 0))
\* oracle sanity: word motions are monotone, stay inside, and are idempotent at the ends
WordSane ==
  LET t == ed.text  c == ed.cur  b == BackWord(Tab, t, c)  f == ForwWord(Tab, t, c) IN
  /\ b <= c /\ f >= c /\ f <= Len(t)
  /\ (b = c <=> c = 0) /\ (f = c <=> c = Len(t))
  /\ \A p \in (b + 1)..(c - 1) : p \notin WordStarts(Tab, t)
  /\ \A s \in Next(Tab, Cfg, ed, Cmd("delword", "key", <<>>, 0)) : Inv(s) /\ Len(s.text) = Len(t) - (c - s.cur)

\* ---- oracle unit checks ------------------------------------------------------
T1 == <<1, 1, 3, 4, 1, 3, 3, 2>>          \* "aa -a  W"
ASSUME BackWord(Tab, T1, 8) = 7 /\ BackWord(Tab, T1, 7) = 4 /\ BackWord(Tab, T1, 4) = 0 /\ BackWord(Tab, T1, 0) = 0
ASSUME ForwWord(Tab, T1, 0) = 2 /\ ForwWord(Tab, T1, 2) = 5 /\ ForwWord(Tab, T1, 5) = 8 /\ ForwWord(Tab, T1, 8) = 8
ASSUME BackBlankWord(Tab, T1, 5) = 3 /\ BackBlankWord(Tab, T1, 7) = 3
ASSUME Next(Tab, Cfg, Ed(T1, 5), Cmd("delword", "key", <<>>, 0)) = {Ed(<<1, 1, 3, 4, 3, 3, 2>>, 4), Ed(<<1, 1, 3, 3, 3, 2>>, 3)}
ASSUME Next(Tab, Cfg, Ed(<<1, 2>>, 1), Cmd("ins", "key", <<3, 4>>, 0)) = {Ed(<<1, 3, 4, 2>>, 3)}
ASSUME Next(Tab, Cfg, Ed(<<1, 2>>, 1), Cmd("killbol", "key", <<>>, 0)) = {Ed(<<2>>, 0)}
ASSUME ChangeOK(Ed(<<1>>, 1), Ed(<<1, 2, 3>>, 3), Cmd("paste", "key", <<2, 3>>, 0), <<<<1, 2>>, <<1, 2, 3>>>>)
ASSUME ~ChangeOK(Ed(<<1>>, 1), Ed(<<1, 2, 3>>, 3), Cmd("paste", "key", <<2, 3>>, 0), <<<<1, 2, 3>>>>)
ASSUME ~ChangeOK(Ed(<<1>>, 1), Ed(<<1>>, 0), Cmd("left", "key", <<>>, 0), <<<<1>>>>)
\* pasted text is inserted; a character that cannot be displayed may be dropped, nothing else happens
ASSUME Next(Tab, Cfg, Ed(<<1, 2>>, 1), Cmd("pastectl", "key", <<4, 5, 3>>, 0)) = {Ed(<<1, 4, 5, 3, 2>>, 4), Ed(<<1, 4, 3, 2>>, 3)}
ASSUME Kept(Tab, <<5, 1, 5>>) = {<<5, 1, 5>>, <<1, 5>>, <<5, 1>>, <<1>>} /\ Kept(Tab, <<1, 2>>) = {<<1, 2>>}
ASSUME ChangeOK(Ed(<<1>>, 1), Ed(<<1, 2, 3>>, 3), Cmd("pastectl", "key", <<2, 5, 3>>, 0), <<<<1, 2>>, <<1, 2, 3>>>>)
ASSUME ~ChangeOK(Ed(<<1>>, 1), Ed(<<1, 2, 3>>, 3), Cmd("pastectl", "key", <<2, 5, 3>>, 0), <<<<1, 2>>, <<1, 2>>, <<1, 2, 3>>>>)
ASSUME ~SubmitOK(Ed(<<1>>, 1), Cmd("pastectl", "key", <<5>>, 0), <<<<1>>>>) /\ SubmitOK(Ed(<<1>>, 1), Cmd("pastectl", "key", <<5>>, 0), <<>>)
\* the value assigned by the application: the cursor keeps its index and stays within the text
ASSUME Next(Tab, Cfg, Ed(<<1, 2, 3>>, 1), Cmd("setval", "call", <<4, 4>>, 0)) = {Ed(<<4, 4>>, 1)}
ASSUME Next(Tab, Cfg, Ed(<<1, 2, 3>>, 3), Cmd("setval", "call", <<4>>, 0)) = {Ed(<<4>>, 1)}
ASSUME Next(Tab, Cfg, Empty, Cmd("setval", "call", <<4, 1>>, 0)) = {Ed(<<4, 1>>, 0)}
\* a deletion that brings two graphemes together which form one cluster (fact: 4 followed by 3 is 2):
\* the cluster takes their place, the cursor is on one of its sides
ASSUME Next(Tab, Cfg, Ed(<<1, 4, 1, 3, 1>>, 3), Cmd("bs", "key", <<4, 3, 2>>, 0)) = {Ed(<<1, 2, 1>>, 1), Ed(<<1, 2, 1>>, 2)}
ASSUME Next(Tab, Cfg, Ed(<<1, 4, 1, 3, 1>>, 2), Cmd("del", "key", <<4, 3, 2>>, 0)) = {Ed(<<1, 2, 1>>, 1), Ed(<<1, 2, 1>>, 2)}
ASSUME Next(Tab, Cfg, Ed(<<4, 1, 3>>, 2), Cmd("delword", "key", <<4, 3, 2>>, 0)) = {Ed(<<2>>, 0), Ed(<<2>>, 1), Ed(<<3>>, 0)}
\* the fact does not apply: other neighbours, a deletion at an end of the text, nothing deleted
ASSUME Next(Tab, Cfg, Ed(<<1, 4, 1, 3, 1>>, 2), Cmd("bs", "key", <<4, 3, 2>>, 0)) = {Ed(<<1, 1, 3, 1>>, 1)}
ASSUME Next(Tab, Cfg, Ed(<<1, 4, 3>>, 1), Cmd("bs", "key", <<4, 3, 2>>, 0)) = {Ed(<<4, 3>>, 0)}
ASSUME Next(Tab, Cfg, Ed(<<4, 3>>, 2), Cmd("del", "key", <<4, 3, 2>>, 0)) = {Ed(<<4, 3>>, 2)}
ASSUME Next(Tab, Cfg, Ed(<<4, 1, 3>>, 2), Cmd("bs", "key", <<>>, 0)) = {Ed(<<4, 3>>, 1)}
\* text joining the cluster before the cursor (here: 2 = 1 + a mark): no new grapheme, the cursor stays
ASSUME Next(Tab, Cfg, Ed(<<4, 1, 3>>, 2), Cmd("insjoin", "key", <<2>>, 1)) = {Ed(<<4, 2, 3>>, 2)}
ASSUME Next(Tab, Cfg, Ed(<<4, 1, 3>>, 2), Cmd("pastejoin", "key", <<2, 4, 4>>, 1)) = {Ed(<<4, 2, 4, 4, 3>>, 4)}
ASSUME ChangeOK(Ed(<<4, 1, 3>>, 2), Ed(<<4, 2, 4, 3>>, 3), Cmd("pastejoin", "key", <<2, 4>>, 1), <<<<4, 2, 3>>, <<4, 2, 4, 3>>>>)
ASSUME ~ColOK(Tab, Cfg, Ed(<<1, 2>>, 2), 9, 0) /\ ColOK(Tab, Cfg, Ed(<<1, 5, 2>>, 3), 9, 0)
ASSUME ColOK(Tab, Cfg, Ed(<<1, 2>>, 2), 4, 3) /\ ~ColOK(Tab, Cfg, Ed(<<1, 2>>, 2), 4, 2) /\ ColOK(Tab, Cfg, Ed(<<1, 2>>, 2), 3, 0)
=============================================================================
