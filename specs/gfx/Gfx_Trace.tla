----------------------------- MODULE Gfx_Trace -----------------------------
(* Trace validation for C20.  One scenario = one real Vaxis on a fake       *)
(* console ("reset" gives screen size, cell pixel size and protocol).       *)
(*   fit     one Resize + CellSize() record: ImageFit!FitOK (iw x ih = the  *)
(*           extent of the image's bounds, which start at (ox, oy)).        *)
(*   mark / bcheck   a block image drawn through a window between two       *)
(*           frames: changed cells (through RefTerm) must be image cells    *)
(*           accepted by the window (Clip) and show the source pixels       *)
(*           (BlockCells).                                                  *)
(*   gframe  end of a frame of a placement history: the kitty / sixel       *)
(*           commands of the frame have been applied to the reference       *)
(*           graphics terminal (GfxTerm); what it now displays must be what *)
(*           the Placement oracle allows for the placements the application *)
(*           drew, each inside its window (Clip).                           *)
(*   geom    the terminal's cells change their pixel size (same columns and *)
(*           rows): kitty images on display are measured in the new cells.  *)
(* REJECT lines carry why/det; a rejected scenario is skipped to its end    *)
(* (fit and bcheck records are independent and all judged).                 *)
EXTENDS RefTerm, Clip, ImageFit, BlockCells, GfxTerm, Placement, TLC, Json, IOUtils

Trace == ndJsonDeserialize(IOEnv.TRACE)

VARIABLES l, t, base, gt, shown, bind, fs, cfg, failed
vars == <<l, t, base, gt, shown, bind, fs, cfg, failed>>

Init == /\ l = 1 /\ t = InitTerm(1, 1, FALSE) /\ base = t.grid /\ gt = InitGfx(1, 1)
        /\ shown = {} /\ bind = {} /\ fs = 0 /\ cfg = [cw |-> 1, ch |-> 1, proto |-> ""] /\ failed = FALSE

At(grid, x, y) == grid[y + 1][x + 1]
ScreenCells(tt) == (0..(tt.cols - 1)) \X (0..(tt.rows - 1))
Diff(tt, b) == {p \in ScreenCells(tt) : At(b, p[1], p[2]) # At(tt.grid, p[1], p[2])}

(* ---- block images ---------------------------------------------------- *)
Col(c) == IF c = 0 THEN <<>> ELSE IF IsRGB(c) THEN Chan(c) ELSE <<-1, -1, -1>>   \* a palette colour is never right
(* <<upper-half colour, lower-half colour>> a displayed cell shows, or <<>> *)
Halves(cell, gl) ==
  IF cell.k # "g" \/ cell.st.at # 0 \/ cell.w # 1 THEN <<>>
  ELSE IF cell.g = gl.up   THEN <<Col(cell.st.fg), Col(cell.st.bg)>>
  ELSE IF cell.g = gl.lo   THEN <<Col(cell.st.bg), Col(cell.st.fg)>>
  ELSE IF cell.g = gl.full THEN <<Col(cell.st.fg), Col(cell.st.fg)>>
  ELSE IF cell.g = gl.sp   THEN <<Col(cell.st.bg), Col(cell.st.bg)>>
  ELSE <<>>

CellShows(e, cell, x, y) ==
  LET hv == Halves(cell, e.gl)
      top == TopOf(e.px, e.iw, e.ih, x, y)
      bot == BotOf(e.px, e.iw, e.ih, x, y)
  IN /\ hv # <<>>
     /\ IF e.proto = "half" THEN HalfOK(hv[1], hv[2], top, bot)
        ELSE hv[1] = hv[2] /\ FullOK(hv[1], top, bot)

BlockVerdict(e) ==
  LET W == Win(e.chain, t.cols, t.rows)
      D == Diff(t, base)
      icols == e.iw
      irows == CeilDiv(e.ih, 2)
      want == {p \in (0..(icols - 1)) \X (0..(irows - 1)) : Accepts(W, p[1], p[2])}
      wantAbs == {<<AbsX(W, p[1]), AbsY(W, p[2])>> : p \in want}
      esc == {p \in D : ~Inside(W.clip, p[1], p[2])}
      bad == {p \in want : ~CellShows(e, At(t.grid, AbsX(W, p[1]), AbsY(W, p[2])), p[1], p[2])}
  IN IF esc # {} THEN [ok |-> FALSE, why |-> "escape", det |-> "cells-outside-window"]
     ELSE IF e.ow # icols \/ e.oh # irows THEN [ok |-> FALSE, why |-> "fit", det |-> "size-changed-although-it-fits"]
     ELSE IF ~(D \subseteq wantAbs) THEN [ok |-> FALSE, why |-> "pixels", det |-> "cell-outside-image-changed"]
     ELSE IF bad # {} THEN
        LET p == CHOOSE p \in bad : \A q \in bad : p[2] < q[2] \/ (p[2] = q[2] /\ p[1] <= q[1])
            top == TopOf(e.px, e.iw, e.ih, p[1], p[2])
            bot == BotOf(e.px, e.iw, e.ih, p[1], p[2])
            \* none: no pixel there; clear: sufficiently transparent; sheer: visible but not opaque; solid: opaque
            cls(px) == IF px = NoPixel THEN "none" ELSE IF Transparent(px) THEN "clear"
                       ELSE IF px[4] < 65535 THEN "sheer" ELSE "solid"
        IN [ok |-> FALSE, why |-> "pixels", det |-> cls(top) \o "/" \o cls(bot)]
     ELSE [ok |-> TRUE, why |-> "", det |-> ""]

(* the same image object, resized into a smaller box and drawn again *)
ScaledVerdict(e) ==
  LET W == Win(e.chain, t.cols, t.rows)
      D == Diff(t, base)
      want == {p \in (0..(e.ow - 1)) \X (0..(e.oh - 1)) : Accepts(W, p[1], p[2])}
      wantAbs == {<<AbsX(W, p[1]), AbsY(W, p[2])>> : p \in want}
      esc == {p \in D : ~Inside(W.clip, p[1], p[2])}
      bad == {p \in want :
                LET hv == Halves(At(t.grid, AbsX(W, p[1]), AbsY(W, p[2])), e.gl) IN
                hv = <<>> \/ ~ScaledCellOK(hv[1], hv[2], Foot(e.px, e.iw, e.ih, e.ow, e.oh, p[1], p[2]), p[2] = e.oh - 1)}
  IN IF esc # {} THEN [ok |-> FALSE, why |-> "escape", det |-> "cells-outside-window"]
     ELSE IF e.ow < 1 \/ e.oh < 1 \/ e.ow > e.bw \/ e.oh > e.bh THEN [ok |-> FALSE, why |-> "fit", det |-> "second-encoding-exceeds-box"]
     ELSE IF ~(D \subseteq wantAbs) THEN [ok |-> FALSE, why |-> "pixels", det |-> "cell-outside-rescaled-image-changed"]
     ELSE IF bad # {} THEN
        LET p == CHOOSE p \in bad : \A q \in bad : p[2] < q[2] \/ (p[2] = q[2] /\ p[1] <= q[1])
            F == Foot(e.px, e.iw, e.ih, e.ow, e.oh, p[1], p[2])
        IN [ok |-> FALSE, why |-> "pixels", det |-> "rescaled:" \o (IF \A q \in F : Transparent(q) THEN "clear"
                                                                    ELSE IF \E q \in F : F = {q} THEN "solid" ELSE "edge")]
     ELSE [ok |-> TRUE, why |-> "", det |-> ""]

(* ---- placement histories ---------------------------------------------- *)
RectCells(x, y, w, h) == {p \in (x..(x + w - 1)) \X (y..(y + h - 1)) : p[1] >= 0 /\ p[1] < t.cols /\ p[2] >= 0 /\ p[2] < t.rows}

(* what the application drew, resolved: [k, x, y, w, h, g, fits] *)
Drawn(e) == {LET W == Win(d.chain, t.cols, t.rows) IN
              [k |-> d.k, x |-> W.ox, y |-> W.oy, w |-> d.w, h |-> d.h, g |-> d.g,
               fits |-> d.w >= 1 /\ d.h >= 1 /\ BlockInside(W, d.w, d.h)] :
              d \in {e.want[n] : n \in 1..Len(e.want)}}
KeyOf(d) == [k |-> d.k, x |-> d.x, y |-> d.y, w |-> d.w, h |-> d.h]
(* the same placement drawn twice counts once, with its latest encoding *)
Want(e) == LET fit == {dd \in Drawn(e) : dd.fits} IN
           {[key |-> KeyOf(d), g |-> d.g] : d \in {dd \in fit : \A o \in fit : KeyOf(o) = KeyOf(dd) => o.g <= dd.g}}
WantKeys(e) == Keys(Want(e))
SpillKeys(e) == {KeyOf(d) : d \in {dd \in Drawn(e) : ~dd.fits /\ dd.w >= 1 /\ dd.h >= 1}} \ WantKeys(e)

(* kitty: the placements on display, with the image id translated to the    *)
(* application's image index by b (a set of [id, k]); unknown ids give -1.  *)
KOf(b, id) == IF \E m \in b : m.id = id THEN (CHOOSE m \in b : m.id = id).k ELSE -1
KittyVis(b) ==
  {LET im == ImageOf(gt, q.i) IN
   [key |-> [k |-> KOf(b, q.i), x |-> q.c - 1, y |-> q.r - 1,
             w |-> CeilDiv(im.w, cfg.cw), h |-> CeilDiv(im.h, cfg.ch)], ep |-> q.ep] : q \in gt.pl}
(* admissible extensions of the binding: ids on display not yet bound, to   *)
(* image indices not yet bound, one to one                                  *)
Bindings(e) ==
  LET ids == {q.i : q \in gt.pl} \ {m.id : m \in bind}
      ks  == {d.k : d \in Drawn(e)} \ {m.k : m \in bind}
      fns == [ids -> ks \cup {-1}]
  IN {bind \cup {[id |-> i, k |-> f[i]] : i \in {j \in ids : f[j] # -1}} :
        f \in {g \in fns : \A i, j \in ids : (i # j /\ g[i] # -1) => g[i] # g[j]}}

(* sixel: a wanted placement is on display when a transmission at its       *)
(* origin exists and no character has been printed into its cells since;    *)
(* a placement shown before and no longer wanted is still on display while  *)
(* one of its cells has neither been printed over nor painted over by a     *)
(* later transmission of a wanted placement; a transmission during this     *)
(* frame that belongs to no wanted placement is on display as an unwanted   *)
(* one.                                                                     *)
LatestAt(x, y) ==
  LET S == {s \in gt.sx : s.c = x + 1 /\ s.r = y + 1} IN
  IF S = {} THEN 0 ELSE (CHOOSE s \in S : \A u \in S : u.ep <= s.ep).ep
IntactSince(key, ep) == \A p \in RectCells(key.x, key.y, key.w, key.h) : gt.lp[p[2] + 1][p[1] + 1] < ep
SixelVis(e) ==
  LET want == WantKeys(e) \cup SpillKeys(e)
      live == {key \in want : LatestAt(key.x, key.y) > 0 /\ IntactSince(key, LatestAt(key.x, key.y))}
      painted(p, after) == \E key \in live : LatestAt(key.x, key.y) > after /\ p \in RectCells(key.x, key.y, key.w, key.h)
      stale == {[key |-> q.key, ep |-> q.ep] : q \in {qq \in shown : qq.key \notin want /\
                   \E p \in RectCells(qq.key.x, qq.key.y, qq.key.w, qq.key.h) :
                       gt.lp[p[2] + 1][p[1] + 1] < qq.ep /\ ~painted(p, qq.ep)}}
      stray == {s \in gt.sx : s.ep > fs /\ ~\E key \in want : key.x + 1 = s.c /\ key.y + 1 = s.r}
  IN {[key |-> key, ep |-> LatestAt(key.x, key.y)] : key \in live}
     \cup stale
     \cup {[key |-> [k |-> -1, x |-> s.c - 1, y |-> s.r - 1, w |-> 0, h |-> 0], ep |-> s.ep] : s \in stray}

(* [ok, why, det, vis, bind] *)
FrameVerdict(e) ==
  LET want == Want(e)
      spill == SpillKeys(e)
      judge(vis, b) ==
        IF gt.err # 0 THEN [ok |-> FALSE, why |-> "protocol", det |-> "terminal-reports-error", vis |-> vis, bind |-> b]
        ELSE IF Keys(vis) \cap spill # {} THEN [ok |-> FALSE, why |-> "escape", det |-> "image-outside-window", vis |-> vis, bind |-> b]
        ELSE IF PlacementsOK(shown, want, e.refresh, vis, fs) THEN [ok |-> TRUE, why |-> "", det |-> "", vis |-> vis, bind |-> b]
        ELSE [ok |-> FALSE, why |-> "placement", det |-> PlacementsWhy(shown, want, e.refresh, vis, fs), vis |-> vis, bind |-> b]
  IN IF cfg.proto = "sixel" THEN judge(SixelVis(e), bind)
     ELSE LET cands == {judge(KittyVis(b), b) : b \in Bindings(e)}
              good == {v \in cands : v.ok}
          IN IF good # {} THEN CHOOSE v \in good : TRUE
             ELSE CHOOSE v \in cands : \A u \in cands : (u.why = "escape") => (v.why = "escape")

(* ---- stepping ----------------------------------------------------------- *)
(* where PrintG put the glyph: (row, first column) *)
HeadPos(t2, w) == IF t2.pw THEN <<t2.r, t2.cols - w + 1>> ELSE <<t2.r, t2.c - w>>

StepAll(e) ==
  IF e.ev = "kgfx" THEN /\ gt' = Kitty(gt, e, t.r, t.c, l) /\ UNCHANGED t
  ELSE IF e.ev = "sixel" THEN /\ gt' = Sixel(gt, t.r, t.c, l) /\ UNCHANGED t
  ELSE /\ t' = Step(t, e)
       /\ gt' = IF e.ev \in {"print", "xprint"} /\ e.w > 0 /\ cfg.proto = "sixel" /\ (e.ev = "print" \/ t.xw)
                THEN LET hp == HeadPos(t', e.w) IN Printed(gt, hp[1], hp[2], e.w, l)
                ELSE IF e.ev = "ed2" \/ (e.ev = "set" /\ e.m = 1049) THEN Erased(gt, t.rows, t.cols, l)
                ELSE IF e.ev = "resize" THEN [InitGfx(e.rows, e.cols) EXCEPT !.imgs = gt.imgs, !.pl = gt.pl]
                ELSE gt

(* context of the record, for the rejection signature only (no part of any verdict): the source *)
(* image is a crop that kept its coordinates (bounds not starting at (0,0)); the frame shows an   *)
(* image whose latest encoding was requested right after another one                             *)
ContextOf(e) ==
  IF "ctx" \in DOMAIN e THEN e.ctx
  ELSE IF "ox" \in DOMAIN e /\ (e.ox # 0 \/ e.oy # 0) THEN "origin"
  ELSE ""
Context(e) == IF ContextOf(e) = "" THEN "" ELSE ":" \o ContextOf(e)
Reject(e, why, det) ==
  PrintT("REJECT " \o ToJson([scn |-> e.scn, line |-> l, n |-> e.n, kind |-> e.ev, proto |-> cfg.proto, why |-> why, det |-> det \o Context(e)]))

Next ==
  /\ l <= Len(Trace)
  /\ l' = l + 1
  /\ LET e == Trace[l] IN
     IF e.ev = "reset" THEN
        /\ t' = InitTerm(e.rows, e.cols, e.xw)
        /\ base' = t'.grid
        /\ gt' = InitGfx(e.rows, e.cols)
        /\ shown' = {} /\ bind' = {} /\ fs' = l
        /\ cfg' = [cw |-> e.cw, ch |-> e.ch, proto |-> e.proto]
        /\ failed' = FALSE
     ELSE IF failed THEN UNCHANGED <<t, base, gt, shown, bind, fs, cfg, failed>>
     ELSE IF e.ev = "abort" THEN
        /\ failed' = TRUE
        /\ UNCHANGED <<t, base, gt, shown, bind, fs, cfg>>
     ELSE IF e.ev = "panic" THEN
        /\ failed' = TRUE
        /\ PrintT("REJECT " \o ToJson([scn |-> e.scn, line |-> l, n |-> (IF "n" \in DOMAIN e THEN e.n ELSE -1), kind |-> e.what, proto |-> cfg.proto,
                                        why |-> "panic", det |-> ContextOf(e)]))
        /\ UNCHANGED <<t, base, gt, shown, bind, fs, cfg>>
     ELSE IF e.ev = "fit" THEN
        /\ UNCHANGED <<t, base, gt, shown, bind, fs, cfg, failed>>
        /\ IF FitOK(e.iw, e.ih, e.bw, e.bh, e.cw, e.ch, e.ow, e.oh) THEN TRUE
           ELSE Reject(e, "fit", FitWhy(e.iw, e.ih, e.bw, e.bh, e.cw, e.ch, e.ow, e.oh))
     ELSE IF e.ev = "geom" THEN
        \* the terminal's cells have another pixel size from now on (same columns and rows)
        /\ cfg' = [cfg EXCEPT !.cw = e.cw, !.ch = e.ch]
        /\ UNCHANGED <<t, base, gt, shown, bind, fs, failed>>
     ELSE IF e.ev = "mark" THEN
        /\ base' = t.grid
        /\ UNCHANGED <<t, gt, shown, bind, fs, cfg, failed>>
     ELSE IF e.ev = "bcheck" THEN
        /\ UNCHANGED <<t, base, gt, shown, bind, fs, cfg, failed>>
        /\ LET v == BlockVerdict(e) IN IF v.ok THEN TRUE ELSE Reject(e, v.why, v.det)
     ELSE IF e.ev = "bscaled" THEN
        /\ UNCHANGED <<t, base, gt, shown, bind, fs, cfg, failed>>
        /\ LET v == ScaledVerdict(e) IN IF v.ok THEN TRUE ELSE Reject(e, v.why, v.det)
     ELSE IF e.ev = "gframe" THEN
        /\ UNCHANGED <<t, base, gt, cfg>>
        /\ fs' = l
        /\ LET v == FrameVerdict(e) IN
           IF v.ok THEN /\ shown' = NowShown(Want(e), v.vis) /\ bind' = v.bind /\ UNCHANGED failed
           ELSE /\ failed' = TRUE /\ UNCHANGED <<shown, bind>>
                /\ Reject(e, v.why, v.det)
     ELSE
        /\ StepAll(e)
        /\ IF e.ev = "resize" THEN shown' = (IF cfg.proto = "sixel" THEN {} ELSE shown) ELSE UNCHANGED shown
        /\ UNCHANGED <<base, bind, fs, cfg, failed>>

Spec == Init /\ [][Next]_vars

Consumed == TLCGet("stats").diameter - 1 = Len(Trace)
=============================================================================
