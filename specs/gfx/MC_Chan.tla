------------------------------ MODULE MC_Chan ------------------------------
(* Sanity theorems of the BlockCells oracle's colour rule (no verdict about *)
(* the code), exhaustive over every 8-bit colour value and every alpha      *)
(* level that is not "sufficiently transparent":                            *)
(*  Recovers   a pixel of an 8-bit straight-alpha source (channel v, alpha  *)
(*             A; premultiplied 16-bit form as the colour model defines it) *)
(*             has exactly one admissible displayed value: v itself;        *)
(*  Nearest    for every premultiplied 8-bit pixel (channel p <= A), whose  *)
(*             straight colour need not be an 8-bit value, the admissible   *)
(*             values are one or two neighbours of p*255/A, and rounding    *)
(*             p*255/A to the nearest value is always admissible (the rule  *)
(*             is satisfiable by one and the same conversion for both kinds *)
(*             of source);                                                  *)
(*  OneCell    a full-block cell over two such pixels of the same colour    *)
(*             admits that colour only; over a transparent and a visible    *)
(*             pixel it admits the default colour and the visible pixel's   *)
(*             colour, and no mixture.                                      *)
EXTENDS BlockCells, TLC

VARIABLE A
Init == A \in Threshold..255
Next == UNCHANGED A
Spec == Init /\ [][Next]_A

M7(v) == (v * 7) - 256 * ((v * 7) \div 256)
Premul(v, a8) == ((v * 257) * a8) \div 255       \* straight 8-bit -> premultiplied 16-bit
A16 == A * 257
Round(c, a) == (2 * c * 255 + a) \div (2 * a)

Recovers == \A v \in 0..255 : ChanVals(Premul(v, A), A16) = {v}
Nearest == \A p \in 0..A :
             LET c == p * 257
                 S == ChanVals(c, A16)
             IN /\ Round(c, A16) \in S
                /\ \A u \in S : (u - 1) * A16 < c * 255 /\ c * 255 < (u + 1) * A16
Px(v) == <<Premul(v, A), Premul(255 - v, A), Premul(M7(v), A), A16>>
Clear(v) == <<Premul(v, 49), 0, Premul(255, 49), 49 * 257>>
OneCell == \A v \in {0, 1, 2, 100, 127, 128, 254, 255} :
             LET col == <<v, 255 - v, M7(v)>> IN
             /\ FullOK(col, Px(v), Px(v)) /\ FullOK(col, Px(v), NoPixel)
             /\ ~FullOK(<<v, 255 - v, (M7(v) + 1) % 256>>, Px(v), Px(v))
             /\ FullOK(col, Clear(v), Px(v)) /\ FullOK(<<>>, Px(v), Clear(v))
             /\ ~FullOK(<<(v + 255) \div 2, (255 - v) \div 2, 200>>, Clear(255), Px(v))
             /\ FullOK(<<>>, Clear(v), Clear(3)) /\ ~FullOK(col, Clear(v), Clear(3))
             /\ HalfOK(col, <<>>, Px(v), Clear(v)) /\ ~HalfOK(col, col, Px(v), Clear(v))
=============================================================================
