SPECIFICATION Spec
INVARIANTS Recovers Nearest OneCell
CHECK_DEADLOCK FALSE
