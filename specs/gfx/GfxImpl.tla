------------------------------ MODULE GfxImpl ------------------------------
(* IMPLEMENTATION-SHAPED module (not an oracle, produces no verdicts):      *)
(* transcriptions of image.go resizeImage (scale-factor selection) and of   *)
(* the placement diff at the head of vaxis.go render() with the kitty       *)
(* image's upload bookkeeping (image.go KittyImage.Draw).  Deliberate       *)
(* deviations: scale factors are exact rationals instead of float64;        *)
(* graphicsNext/graphicsLast are sets instead of slices (deletes, then      *)
(* transmissions, then puts).  Repaired = FALSE gives resizeImage as found  *)
(* (equal scale factors skip the scaling; a scaled size may be 0 pixels).   *)
EXTENDS Integers, Sequences, FiniteSets

ICeil(a, b) == (a + b - 1) \div b

(* resizeImage: new pixel size of an iw x ih image for a w x h box *)
IResize(iw, ih, w, h, cw, ch, repaired) ==
  LET columns == ICeil(iw, cw)
      lines   == ICeil(ih, ch)
  IN IF columns <= w /\ lines <= h THEN <<iw, ih>>
     ELSE \* sfX = w/columns, sfY = h/lines: compare w*lines with h*columns
          IF w * lines = h * columns /\ ~repaired THEN <<iw, ih>>
          ELSE LET px == IF w * lines <= h * columns
                         THEN <<(w * iw) \div columns, (w * ih) \div columns>>
                         ELSE <<(h * iw) \div lines, (h * ih) \div lines>>
                   AtLeast1(a) == IF a < 1 THEN 1 ELSE a
               \* proposed repair c20-6: a scaled image keeps at least one pixel each way
               IN IF repaired THEN <<AtLeast1(px[1]), AtLeast1(px[2])>> ELSE px

(* Resize + CellSize: the cells of the resized image *)
ICellSize(iw, ih, w, h, cw, ch, repaired) ==
  LET px == IResize(iw, ih, w, h, cw, ch, repaired) IN <<ICeil(px[1], cw), ICeil(px[2], ch)>>

----------------------------------------------------------------------------
(* render(): a placement is [i, x, y, w, h, v] (samePlacement compares all  *)
(* six; v = the image's encoding generation, added by the repair).  up[i] = the image's data has been uploaded since its last        *)
(* Resize.  Returns [cmds, up]: the graphics commands written, in order.    *)
AsSeq(S) == CHOOSE s \in [1..Cardinality(S) -> S] : \A a, b \in 1..Cardinality(S) : a # b => s[a] # s[b]
Pid(p) == p.x * 65536 + p.y

IRender(last, next, refresh, up, dims) ==
  LET dels == IF refresh THEN last ELSE last \ next
      last2 == IF refresh THEN {} ELSE last
      news == next \ last2
      needUp == {i \in {p.i : p \in news} : ~up[i]}
      delCmds == [n \in 1..Cardinality(dels) |->
                    LET p == AsSeq(dels)[n] IN [ev |-> "kgfx", a |-> "d", d |-> "i", i |-> p.i, p |-> Pid(p), m |-> 0, wpx |-> 0, hpx |-> 0]]
      upCmds == [n \in 1..Cardinality(needUp) |->
                    LET i == AsSeq(needUp)[n] IN [ev |-> "kgfx", a |-> "t", d |-> "a", i |-> i, p |-> 0, m |-> 0, wpx |-> dims[i][1], hpx |-> dims[i][2]]]
      putCmds == [n \in 1..Cardinality(news) |->
                    LET p == AsSeq(news)[n] IN [ev |-> "kgfx", a |-> "p", d |-> "a", i |-> p.i, p |-> Pid(p), m |-> 0, wpx |-> 0, hpx |-> 0,
                                              r |-> p.y + 1, c |-> p.x + 1]]
  IN [cmds |-> delCmds \o upCmds \o putCmds,
      up |-> [i \in DOMAIN up |-> up[i] \/ i \in needUp]]
=============================================================================
