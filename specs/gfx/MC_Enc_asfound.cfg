CONSTANTS
  Repaired = FALSE
  Frames = 3
  Resizes = 3
SPECIFICATION Spec
INVARIANTS ImplPlaces
CHECK_DEADLOCK FALSE
