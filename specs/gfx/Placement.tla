----------------------------- MODULE Placement -----------------------------
(* Oracle for C20's last sentence: "an image placement is transmitted when  *)
(* it first appears or changes, not retransmitted while unchanged, and      *)
(* deleted when dropped or on a full refresh".                              *)
(*                                                                          *)
(* A placement is identified by its key [k, x, y, w, h]: which image, the   *)
(* top-left cell (0-based) and the size in cells.  The application's        *)
(* request for a frame is want = a set of [key, g]; g counts how often the  *)
(* application has re-encoded that image.  The oracle state is shown = the  *)
(* set of [key, g, ep] on display after the previous frame (ep = the epoch  *)
(* at which the terminal received that placement).  A frame is judged on    *)
(* what the terminal displays after it (vis: set of [key, ep]), never on    *)
(* which bytes were used:                                                   *)
(*   - exactly the wanted placements are on display;                        *)
(*   - one that was on display before with the same encoding, in a frame    *)
(*     that is not a full refresh, still carries its old epoch (it was not  *)
(*     sent again);                                                         *)
(*   - one whose image was re-encoded to the same size in between may carry *)
(*     its old epoch or one of this frame (whether its pixels changed is    *)
(*     not known to the oracle);                                            *)
(*   - every other one was sent during this frame (epoch after fs, the      *)
(*     frame's start) - in particular all of them on a full refresh.        *)
EXTENDS Integers

Keys(s) == {p.key : p \in s}
Of(s, key) == CHOOSE p \in s : p.key = key

PlacementOK(shown, want, refresh, p, fs) ==
  IF ~refresh /\ p.key \in Keys(shown)
  THEN LET old == Of(shown, p.key) IN
       IF old.g = Of(want, p.key).g THEN p.ep = old.ep
       ELSE p.ep = old.ep \/ p.ep > fs
  ELSE p.ep > fs

PlacementsOK(shown, want, refresh, vis, fs) ==
  /\ Keys(vis) = Keys(want)
  /\ \A p \in vis : PlacementOK(shown, want, refresh, p, fs)

(* the oracle's next state *)
NowShown(want, vis) == {[key |-> p.key, g |-> Of(want, p.key).g, ep |-> p.ep] : p \in vis}

PlacementsWhy(shown, want, refresh, vis, fs) ==
  IF \E key \in Keys(want) : key \notin Keys(vis) THEN
       (IF \E key \in Keys(want) \ Keys(vis) : key \in Keys(shown) THEN "kept-placement-lost" ELSE "new-placement-missing")
  ELSE IF \E key \in Keys(vis) : key \notin Keys(want) THEN
       (IF \E key \in Keys(vis) \ Keys(want) : key \in Keys(shown) THEN "dropped-placement-still-shown" ELSE "unwanted-placement")
  ELSE IF \E p \in vis : ~refresh /\ p.key \in Keys(shown) /\ ~PlacementOK(shown, want, refresh, p, fs) THEN "retransmitted-unchanged"
  ELSE IF refresh THEN "not-retransmitted-on-refresh"
  ELSE "new-placement-not-transmitted"
=============================================================================
