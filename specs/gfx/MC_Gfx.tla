------------------------------ MODULE MC_Gfx ------------------------------
(* Exhaustive bounded models for C20.                                       *)
(* Mode "fit": every image size, box size and cell geometry in the given    *)
(*   ranges: (1) the oracle is satisfiable - an ideal fit satisfies FitOK;  *)
(*   (2) the implementation-shaped scale-factor selection (GfxImpl) yields  *)
(*   a cell size that satisfies FitOK.                                      *)
(* (Repaired = FALSE: the placement record as found, without the encoding   *)
(* generation; TLC then exhibits the lost placement.)                       *)
(* Mode "place": every history of up to Frames frames in which the          *)
(*   application re-encodes images (same or different cell size) and draws  *)
(*   any set of up to two placements out of Images x Spots, rendering       *)
(*   normally or with a full refresh: the implementation-shaped placement   *)
(*   diff (GfxImpl), run against the reference graphics terminal (GfxTerm), *)
(*   leaves on display what the Placement oracle allows.                    *)
EXTENDS ImageFit, GfxTerm, Placement, GfxImpl, TLC
CONSTANTS Mode, MaxW, MaxH, MaxBox, Geoms, Frames, Repaired

G1 == {<<1, 2>>}
G3 == {<<1, 2>>, <<2, 4>>, <<3, 7>>}
Images == {1, 2}
Spots == {<<1, 0>>, <<3, 2>>}
Sizes == {<<2, 1>>, <<3, 2>>}        \* cell sizes an image can be re-encoded to (cell = 1 x 1 pixel here)

VARIABLES rec, n, last, up, dims, gen, gt, shown, clock, okv
vars == <<rec, n, last, up, dims, gen, gt, shown, clock, okv>>

FitRecs == {[iw |-> iw, ih |-> ih, bw |-> bw, bh |-> bh, cw |-> g[1], ch |-> g[2]] :
              iw \in 1..MaxW, ih \in 1..MaxH, bw \in 1..MaxBox, bh \in 1..MaxBox, g \in Geoms}

Init == /\ rec \in (IF Mode = "fit" THEN FitRecs ELSE {[iw |-> 0]})
        /\ n = 0 /\ last = {} /\ up = [i \in Images |-> FALSE]
        /\ dims = [i \in Images |-> <<2, 1>>] /\ gen = [i \in Images |-> 0]
        /\ gt = InitGfx(4, 6) /\ shown = {} /\ clock = 1 /\ okv = TRUE

RECURSIVE Apply(_, _, _, _)
Apply(g, cmds, k, c) ==
  IF k > Len(cmds) THEN g
  ELSE LET e == cmds[k] IN
       Apply(IF e.a = "p" THEN KPut(g, e, e.r, e.c, c + k) ELSE Kitty(g, e, 1, 1, c + k), cmds, k + 1, c)

Key(p) == [k |-> p.i, x |-> p.x, y |-> p.y, w |-> p.w, h |-> p.h]
Vis(g) == {LET im == ImageOf(g, q.i) IN
           [key |-> [k |-> q.i, x |-> q.c - 1, y |-> q.r - 1, w |-> im.w, h |-> im.h], ep |-> q.ep] : q \in g.pl}

Frame ==
  /\ Mode = "place" /\ n < Frames
  /\ \E re \in [Images -> Sizes \cup {<<0, 0>>}], draws \in SUBSET (Images \X Spots), refresh \in BOOLEAN :
       /\ Cardinality(draws) <= 2
       /\ LET reenc == {i \in Images : re[i] # <<0, 0>>}       \* the images the application re-encodes first
              dims2 == [i \in Images |-> IF i \in reenc THEN re[i] ELSE dims[i]]
              up1 == [i \in Images |-> up[i] /\ i \notin reenc]
              gen2 == [i \in Images |-> IF i \in reenc THEN gen[i] + 1 ELSE gen[i]]
              next == {[i |-> d[1], x |-> d[2][1], y |-> d[2][2], w |-> dims2[d[1]][1], h |-> dims2[d[1]][2],
                        v |-> IF Repaired THEN gen2[d[1]] ELSE 0] : d \in draws}
              r == IRender(last, next, refresh, up1, dims2)
              g2 == Apply(gt, r.cmds, 1, clock)
              vis == Vis(g2)
              want == {[key |-> Key(p), g |-> gen2[p.i]] : p \in next}
          IN /\ dims' = dims2 /\ up' = r.up /\ last' = next /\ gen' = gen2
             /\ gt' = g2 /\ clock' = clock + Len(r.cmds) + 1
             /\ okv' = (g2.err = 0 /\ PlacementsOK(shown, want, refresh, vis, clock))
             /\ shown' = IF Keys(vis) = Keys(want) THEN NowShown(want, vis) ELSE {}
  /\ n' = n + 1
  /\ UNCHANGED rec

Next == Frame
Spec == Init /\ [][Next]_vars

(* ---- fit ---- *)
OracleSatisfiable ==
  Mode = "fit" =>
    LET f == IdealFit(rec.iw, rec.ih, rec.bw, rec.bh, rec.cw, rec.ch) IN
    FitOK(rec.iw, rec.ih, rec.bw, rec.bh, rec.cw, rec.ch, f[1], f[2])
ImplFits ==
  Mode = "fit" =>
    LET f == ICellSize(rec.iw, rec.ih, rec.bw, rec.bh, rec.cw, rec.ch, Repaired) IN
    FitOK(rec.iw, rec.ih, rec.bw, rec.bh, rec.cw, rec.ch, f[1], f[2])
(* ---- place ---- *)
ImplPlaces == okv
=============================================================================
