CONSTANTS
  Mode = "place"
  MaxW = 1
  MaxH = 1
  MaxBox = 1
  Geoms <- G1
  Frames = 2
  Repaired = FALSE
SPECIFICATION Spec
INVARIANTS OracleSatisfiable ImplFits ImplPlaces
CHECK_DEADLOCK FALSE
