------------------------------ MODULE GfxTerm ------------------------------
(* Reference terminal for graphics: what the kitty graphics protocol        *)
(* commands and sixel images an application writes do to the set of images  *)
(* on display.  Written from the kitty graphics protocol specification      *)
(* (transmit a=t with chunking m=, put a=p at the cursor with placement id  *)
(* p= and C=1, delete a=d with d=i/I/a/A; re-transmitting an image id       *)
(* replaces the image and removes its placements; erasing the display       *)
(* removes every placement) and from the behaviour of sixel terminals       *)
(* (DEC STD 070 / xterm: the image is painted into the cell grid at the     *)
(* cursor; a character later printed into a cell replaces the pixels of     *)
(* that cell).  A functional core, like RefTerm.                            *)
(*                                                                          *)
(* Every put / sixel transmission is stamped with the line number of the    *)
(* command in the trace ("epoch"), so the oracle can tell a placement that  *)
(* was left alone from one that was sent again.                             *)
EXTENDS Integers, Sequences

InitGfx(rows, cols) ==
  [imgs |-> {},     \* complete images: [i, w, h] (pixels)
   pl   |-> {},     \* kitty placements: [i, p, r, c, ep]   (r, c 1-based cell of the top-left corner)
   sx   |-> {},     \* sixel transmissions: [r, c, ep]
   lp   |-> [y \in 1..rows |-> [x \in 1..cols |-> 0]],   \* epoch of the last character printed into each cell
   err  |-> 0]      \* commands the terminal would answer with an error / that are not modelled

HasImage(gt, i) == \E im \in gt.imgs : im.i = i
ImageOf(gt, i) == CHOOSE im \in gt.imgs : im.i = i

(* a=t / a=T, last chunk (m=0): the image is stored under its id; an image  *)
(* already stored under that id is replaced and its placements go.          *)
KTransmit(gt, e) ==
  IF e.m = 1 THEN gt
  ELSE [gt EXCEPT !.imgs = {im \in @ : im.i # e.i} \cup {[i |-> e.i, w |-> e.wpx, h |-> e.hpx]},
                  !.pl = {q \in @ : q.i # e.i}]

(* a=p at cursor (r, c): a placement with the same image and placement id   *)
(* is moved; an unknown image is an error (ENOENT).                         *)
KPut(gt, e, r, c, l) ==
  IF ~HasImage(gt, e.i) THEN [gt EXCEPT !.err = @ + 1]
  ELSE [gt EXCEPT !.pl = {q \in @ : ~(q.i = e.i /\ q.p = e.p /\ e.p # 0)}
                          \cup {[i |-> e.i, p |-> e.p, r |-> r, c |-> c, ep |-> l]}]

KDelete(gt, e) ==
  CASE e.d \in {"i", "I"} ->
         LET pl2 == {q \in gt.pl : ~(q.i = e.i /\ (e.p = 0 \/ q.p = e.p))} IN
         [gt EXCEPT !.pl = pl2,
                    !.imgs = IF e.d = "I" /\ ~\E q \in pl2 : q.i = e.i THEN {im \in @ : im.i # e.i} ELSE @]
    [] e.d \in {"a", "A"} ->
         [gt EXCEPT !.pl = {}, !.imgs = IF e.d = "A" THEN {} ELSE @]
    [] OTHER -> [gt EXCEPT !.err = @ + 1]

Kitty(gt, e, r, c, l) ==
  CASE e.a = "q" -> gt                          \* query: nothing is stored or shown
    [] e.a \in {"t"} -> KTransmit(gt, e)
    [] e.a = "p" -> KPut(gt, e, r, c, l)
    [] e.a = "d" -> KDelete(gt, e)
    [] OTHER -> [gt EXCEPT !.err = @ + 1]

Sixel(gt, r, c, l) == [gt EXCEPT !.sx = @ \cup {[r |-> r, c |-> c, ep |-> l]}]

(* a character w cells wide printed with its first cell at (r, c) *)
Printed(gt, r, c, w, l) ==
  [gt EXCEPT !.lp[r] = [x \in DOMAIN @ |-> IF x >= c /\ x < c + w THEN l ELSE @[x]]]

Erased(gt, rows, cols, l) ==
  [gt EXCEPT !.pl = {}, !.sx = {}, !.lp = [y \in 1..rows |-> [x \in 1..cols |-> l]]]
=============================================================================
