----------------------------- MODULE ImageFit -----------------------------
(* Oracle for C20's first sentence: what fitting an image into a box of     *)
(* cells must yield.  Exact integer (cross-multiplied rational) arithmetic; *)
(* no implementation identifiers.                                           *)
(*   iw x ih   image size in pixels         cw x ch   one cell in pixels    *)
(*   bw x bh   requested box in cells       ow x oh   resulting cell size   *)
EXTENDS Integers

CeilDiv(a, b) == (a + b - 1) \div b

(* the cells an unscaled image occupies (it takes over any cell it bleeds into) *)
OwnCols(iw, cw) == CeilDiv(iw, cw)
OwnRows(ih, ch) == CeilDiv(ih, ch)

InBox(ow, oh, bw, bh) == ow <= bw /\ oh <= bh
NoUpscale(ow, oh, iw, ih, cw, ch) == ow <= OwnCols(iw, cw) /\ oh <= OwnRows(ih, ch)

(* Aspect kept to within one cell: for some scale s > 0 the result is       *)
(* within one cell of the exactly scaled image, in both directions:         *)
(*    |ow - s*iw/cw| <= 1  and  |oh - s*ih/ch| <= 1.                        *)
(* Such an s exists iff the intervals of admissible s intersect:            *)
(*    (ow-1)*cw/iw <= (oh+1)*ch/ih   and   (oh-1)*ch/ih <= (ow+1)*cw/iw.    *)
AspectKept(ow, oh, iw, ih, cw, ch) ==
  /\ (ow - 1) * cw * ih <= (oh + 1) * ch * iw
  /\ (oh - 1) * ch * iw <= (ow + 1) * cw * ih

FitOK(iw, ih, bw, bh, cw, ch, ow, oh) ==
  /\ ow >= 0 /\ oh >= 0
  /\ InBox(ow, oh, bw, bh)
  /\ NoUpscale(ow, oh, iw, ih, cw, ch)
  /\ AspectKept(ow, oh, iw, ih, cw, ch)

(* which clause fails first (for the rejection signature) *)
FitWhy(iw, ih, bw, bh, cw, ch, ow, oh) ==
  IF ow < 0 \/ oh < 0 THEN "negative"
  ELSE IF ~InBox(ow, oh, bw, bh) THEN
       (IF bw * OwnRows(ih, ch) = bh * OwnCols(iw, cw) THEN "exceeds-box-equal-factors" ELSE "exceeds-box")
  ELSE IF ~NoUpscale(ow, oh, iw, ih, cw, ch) THEN "upscaled"
  ELSE "aspect"

(* An ideal fit, for the oracle's own sanity theorem: scale by the smaller  *)
(* of bw/cols and bh/rows (only when the image does not fit), in pixels,    *)
(* rounding down, then count cells.                                         *)
IdealFit(iw, ih, bw, bh, cw, ch) ==
  LET cols == OwnCols(iw, cw)
      rows == OwnRows(ih, ch)
  IN IF cols <= bw /\ rows <= bh THEN <<cols, rows>>
     ELSE IF bw * rows <= bh * cols           \* bw/cols <= bh/rows: width decides
          THEN <<CeilDiv((iw * bw) \div cols, cw), CeilDiv((ih * bw) \div cols, ch)>>
          ELSE <<CeilDiv((iw * bh) \div rows, cw), CeilDiv((ih * bh) \div rows, ch)>>
=============================================================================
