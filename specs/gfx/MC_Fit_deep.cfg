CONSTANTS
  Mode = "fit"
  MaxW = 12
  MaxH = 24
  MaxBox = 12
  Geoms <- G3
  Frames = 0
  Repaired = TRUE
SPECIFICATION Spec
INVARIANTS OracleSatisfiable ImplFits ImplPlaces
CHECK_DEADLOCK FALSE
