------------------------------ MODULE MC_Enc ------------------------------
(* Exhaustive bounded model for C20: an image whose encodings are produced  *)
(* asynchronously.  IMPLEMENTATION-SHAPED (a transcription of image.go      *)
(* KittyImage.Resize / Draw and of the placement diff of vaxis.go render()),*)
(* run against the reference graphics terminal (GfxTerm) and judged by the  *)
(* Placement oracle; it produces no verdict about the code (a violation is  *)
(* a candidate to replay: drivers/c20 "resize2").                           *)
(*                                                                          *)
(* The application may call Resize again before the encoding started by    *)
(* the previous call has finished (two quick size changes); the encoders    *)
(* finish in any order; it draws the image (any set of spots, Render or     *)
(* Refresh) whenever the image says it is not being encoded.  After every   *)
(* frame the terminal has to show exactly the drawn placements of the image *)
(* in the size of the LATEST Resize call (what CellSize() reports), sent    *)
(* again only when changed.                                                 *)
(*                                                                          *)
(* Repaired = FALSE: as found - every encoder appends its chunks to the     *)
(* upload buffer, clears "uploaded" and "encoding" when it finishes.  TLC   *)
(* exhibits Resize(a); Resize(b); b finishes; a finishes; draw: the upload  *)
(* ends with the encoding of the superseded call a.                         *)
(* Repaired = TRUE: an encoder that finishes after a later Resize call has  *)
(* been made is discarded (the version it was started for is not the        *)
(* current one any more).                                                   *)
EXTENDS GfxTerm, Placement, GfxImpl, TLC
CONSTANTS Repaired, Frames, Resizes

Spots == {<<1, 0>>, <<3, 2>>}
Sizes == {<<2, 1>>, <<3, 2>>}        \* cell = 1 x 1 pixel here
Img == 1

VARIABLES cell,    \* the size of the latest Resize call (CellSize())
          ver,     \* number of Resize calls = the placement's version
          encf,    \* "encoding" flag: Draw does nothing while it is set
          up,      \* "uploaded" flag
          buf,     \* upload buffer: the encodings (sizes) the next upload transmits, in order
          pend,    \* encoders at work: [size, v]
          last,    \* placements of the previous frame: [i, x, y, w, h, v]
          gt, shown, clock, okv, nf, nr
vars == <<cell, ver, encf, up, buf, pend, last, gt, shown, clock, okv, nf, nr>>

Init == /\ cell = <<0, 0>> /\ ver = 0 /\ encf = FALSE /\ up = FALSE /\ buf = <<>> /\ pend = {}
        /\ last = {} /\ gt = InitGfx(4, 6) /\ shown = {} /\ clock = 1 /\ okv = TRUE /\ nf = 0 /\ nr = 0

Resize(sz) ==
  /\ nr < Resizes
  /\ cell' = sz /\ ver' = ver + 1 /\ encf' = TRUE
  /\ pend' = pend \cup {[size |-> sz, v |-> ver + 1]}
  /\ nr' = nr + 1
  /\ UNCHANGED <<up, buf, last, gt, shown, clock, okv, nf>>

Finish(p) ==
  /\ pend' = pend \ {p}
  /\ IF ~Repaired THEN /\ buf' = Append(buf, p.size) /\ up' = FALSE /\ encf' = FALSE
     ELSE IF p.v = ver THEN /\ buf' = <<p.size>> /\ up' = FALSE /\ encf' = FALSE
     ELSE UNCHANGED <<buf, up, encf>>
  /\ UNCHANGED <<cell, ver, last, gt, shown, clock, okv, nf, nr>>

RECURSIVE Apply(_, _, _, _)
Apply(g, cmds, k, c) ==
  IF k > Len(cmds) THEN g
  ELSE LET e == cmds[k] IN
       Apply(IF e.a = "p" THEN KPut(g, e, e.r, e.c, c + k) ELSE Kitty(g, e, 1, 1, c + k), cmds, k + 1, c)

Vis(g) == {LET im == ImageOf(g, q.i) IN
           [key |-> [k |-> q.i, x |-> q.c - 1, y |-> q.r - 1, w |-> im.w, h |-> im.h], ep |-> q.ep] : q \in g.pl}

(* render(): deletes, then (for a new placement of an image not uploaded)   *)
(* the whole upload buffer, then the puts                                   *)
Frame(draws, refresh) ==
  /\ nf < Frames /\ ver > 0 /\ ~encf
  /\ LET next == {[i |-> Img, x |-> d[1], y |-> d[2], w |-> cell[1], h |-> cell[2], v |-> ver] : d \in draws}
         dels == IF refresh THEN last ELSE last \ next
         news == next \ (IF refresh THEN {} ELSE last)
         send == news # {} /\ ~up
         delCmds == [k \in 1..Cardinality(dels) |->
                       LET p == AsSeq(dels)[k] IN [ev |-> "kgfx", a |-> "d", d |-> "i", i |-> p.i, p |-> Pid(p), m |-> 0, wpx |-> 0, hpx |-> 0]]
         upCmds == IF send THEN [k \in 1..Len(buf) |-> [ev |-> "kgfx", a |-> "t", d |-> "a", i |-> Img, p |-> 0, m |-> 0, wpx |-> buf[k][1], hpx |-> buf[k][2]]]
                   ELSE <<>>
         putCmds == [k \in 1..Cardinality(news) |->
                       LET p == AsSeq(news)[k] IN [ev |-> "kgfx", a |-> "p", d |-> "a", i |-> p.i, p |-> Pid(p), m |-> 0, wpx |-> 0, hpx |-> 0,
                                                 r |-> p.y + 1, c |-> p.x + 1]]
         cmds == delCmds \o upCmds \o putCmds
         g2 == Apply(gt, cmds, 1, clock)
         vis == Vis(g2)
         want == {[key |-> [k |-> p.i, x |-> p.x, y |-> p.y, w |-> p.w, h |-> p.h], g |-> p.v] : p \in next}
     IN /\ gt' = g2 /\ clock' = clock + Len(cmds) + 1 /\ last' = next
        /\ up' = (up \/ send) /\ buf' = IF send THEN <<>> ELSE buf
        /\ okv' = (g2.err = 0 /\ PlacementsOK(shown, want, refresh, vis, clock))
        /\ shown' = IF Keys(vis) = Keys(want) THEN NowShown(want, vis) ELSE {}
  /\ nf' = nf + 1
  /\ UNCHANGED <<cell, ver, encf, pend, nr>>

Next == \/ \E sz \in Sizes : Resize(sz)
        \/ \E p \in pend : Finish(p)
        \/ \E draws \in SUBSET Spots, refresh \in BOOLEAN : Frame(draws, refresh)
Spec == Init /\ [][Next]_vars

ImplPlaces == okv
=============================================================================
