CONSTANTS
  Mode = "fit"
  MaxW = 8
  MaxH = 12
  MaxBox = 8
  Geoms <- G1
  Frames = 0
  Repaired = FALSE
SPECIFICATION Spec
INVARIANTS OracleSatisfiable ImplFits ImplPlaces
CHECK_DEADLOCK FALSE
