---------------------------- MODULE BlockCells ----------------------------
(* Oracle for C20's block-rendered images: which colours a character cell   *)
(* must show for the source pixels it covers.  A cell covers one pixel      *)
(* column and two pixel rows (top, bottom).                                 *)
(*                                                                          *)
(* A pixel is <<r, g, b, a>> as the standard colour model reports it:       *)
(* alpha-premultiplied, 16 bits per channel; NoPixel = the image ends above *)
(* this row (whatever the image type answers when asked for a point outside *)
(* its bounds is not a pixel of the image).  Pixels are counted from the    *)
(* image's own top-left corner: an image is its Dx x Dy pixels, wherever    *)
(* its bounds start (a crop keeps the coordinates of the picture it was     *)
(* taken from).  A displayed colour is <<>> (the terminal's default colour) or *)
(* <<r, g, b>> with 8-bit channels.  A pixel whose 8-bit alpha is below     *)
(* Threshold is "sufficiently transparent" (the library documents 50).      *)
(*                                                                          *)
(* The colour of a pixel is its straight (un-premultiplied) colour.  The    *)
(* premultiplied 16-bit form of an 8-bit straight channel v under the       *)
(* 16-bit alpha a is v*a/255 rounded down (the colour model's definition:   *)
(* v*257 * a / 65535).  When a pixel's channel c IS the premultiplied form  *)
(* of some 8-bit v (every pixel of an 8-bit straight-alpha source is, at    *)
(* every alpha level), v is the pixel's colour and the cell shows v itself: *)
(* "exactly the colours of the source pixels".  Otherwise (premultiplied    *)
(* and 16-bit sources: c*255/a is no 8-bit value) either neighbour of       *)
(* c*255/a is admissible: |v - c*255/a| < 1.                                *)
EXTENDS Integers, Sequences

Threshold == 50
NoPixel == <<>>

Alpha8(px) == px[4] \div 257
Transparent(px) == px = NoPixel \/ Alpha8(px) < Threshold

(* c is the premultiplied form of the 8-bit straight value v under alpha a *)
Exact(v, c, a) == 0 <= v * a - 255 * c /\ v * a - 255 * c < 255
(* the 8-bit values a displayed channel may have for the pixel channel c, alpha a (a > 0, c <= a): *)
(* an exact v lies within 255/a < 1 above c*255/a, so it is one of the two neighbours              *)
ChanVals(c, a) ==
  LET lo == (c * 255) \div a
      ex == {u \in {lo, lo + 1} : Exact(u, c, a)}
  IN IF ex # {} THEN ex ELSE {lo, lo + 1}
ChanOK(v, c, a) == v \in ChanVals(c, a)
SetMin(S) == CHOOSE x \in S : \A y \in S : x <= y
SetMax(S) == CHOOSE x \in S : \A y \in S : y <= x

(* the colour col shows exactly pixel px *)
Shows(col, px) ==
  IF Transparent(px) THEN col = <<>>
  ELSE Len(col) = 3 /\ \A k \in 1..3 : ChanOK(col[k], px[k], px[4])

(* Half-block images: the upper half of the cell shows the top pixel, the   *)
(* lower half the bottom pixel.                                             *)
HalfOK(topCol, botCol, top, bot) == Shows(topCol, top) /\ Shows(botCol, bot)

(* Full-block images: the cell shows ONE colour for the pixels it covers:   *)
(* the default colour when all of them are transparent; when none is, a     *)
(* colour lying (per channel) between the covered pixels' colours - hence   *)
(* exactly their colour when they agree or when only one pixel is covered.  *)
(* One sufficiently transparent pixel (it maps to the default colour: its   *)
(* own colour is not to be seen) and one visible pixel under a one-colour   *)
(* cell: the cell shows one of the two, the default colour or exactly the   *)
(* visible pixel's colour - never a colour that the transparent pixel's     *)
(* channels or alpha went into.                                             *)
Between(col, V) ==
  /\ Len(col) = 3
  /\ \A k \in 1..3 : /\ \E p \in V : col[k] <= SetMax(ChanVals(p[k], p[4]))     \* not above the largest
                     /\ \E p \in V : col[k] >= SetMin(ChanVals(p[k], p[4]))     \* not below the smallest
FullOK(col, top, bot) ==
  LET S == {p \in {top, bot} : p # NoPixel}
      V == {p \in S : ~Transparent(p)}
  IN IF V = {} THEN col = <<>>
     ELSE IF V # S THEN col = <<>> \/ Between(col, V)
     ELSE Between(col, V)

(* A block image scaled down to ow x oh cells (whatever the resampling, as long as an output  *)
(* pixel is computed from the source pixels it covers and their immediate neighbours): a cell *)
(* whose footprint, widened by one source pixel on every side, lies in a region that is       *)
(* sufficiently transparent throughout must show the default colour in both halves; one whose *)
(* widened footprint is a single opaque colour must show that colour in both halves; every    *)
(* other cell is left open.  The output is 2*oh or 2*oh - 1 pixel rows high: the footprint is *)
(* taken wide enough for both.                                                                *)
Foot(px, iw, ih, ow, oh, x, y) ==
  LET Max0(a) == IF a < 0 THEN 0 ELSE a
      Min(a, b) == IF a < b THEN a ELSE b
      x0 == Max0((x * iw) \div ow - 1)
      x1 == Min(iw - 1, ((x + 1) * iw + ow - 1) \div ow)
      y0 == Max0((2 * y * ih) \div (2 * oh) - 1)
      y1 == Min(ih - 1, ((2 * y + 2) * ih + (2 * oh - 1) - 1) \div (IF oh = 1 THEN 1 ELSE 2 * oh - 1))
  IN {px[yy * iw + xx + 1] : xx \in x0..x1, yy \in y0..y1}
Opaque(p) == p # NoPixel /\ p[4] = 65535
Clear0(p) == p = NoPixel \/ p[4] = 0
(* last: the cell is in the last cell row, whose lower half lies beyond an image of odd pixel height *)
(* Third rule: a widened footprint made of ONE opaque colour and fully transparent (alpha 0)        *)
(* pixels only: every output pixel is that colour at some coverage or nothing at all, so each half  *)
(* of the cell shows that colour or the default colour (the colour of an alpha-0 pixel is nobody's) *)
ScaledCellOK(topCol, botCol, F, last) ==
  IF \A p \in F : Transparent(p) THEN topCol = <<>> /\ botCol = <<>>
  ELSE IF \E p \in F : Opaque(p) /\ F = {p} THEN
       LET p == CHOOSE q \in F : TRUE IN Shows(topCol, p) /\ (Shows(botCol, p) \/ (last /\ botCol = <<>>))
  ELSE IF \E p \in F : Opaque(p) /\ \A q \in F : q = p \/ Clear0(q) THEN
       LET p == CHOOSE q \in F : Opaque(q) IN (topCol = <<>> \/ Shows(topCol, p)) /\ (botCol = <<>> \/ Shows(botCol, p))
  ELSE TRUE

(* px: the image's pixels, row-major, iw wide, ih high; cell (x, y). *)
TopOf(px, iw, ih, x, y) == px[(2 * y) * iw + x + 1]
BotOf(px, iw, ih, x, y) == IF 2 * y + 1 < ih THEN px[(2 * y + 1) * iw + x + 1] ELSE NoPixel
=============================================================================
