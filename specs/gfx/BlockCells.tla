---------------------------- MODULE BlockCells ----------------------------
(* Oracle for C20's block-rendered images: which colours a character cell   *)
(* must show for the source pixels it covers.  A cell covers one pixel      *)
(* column and two pixel rows (top, bottom).                                 *)
(*                                                                          *)
(* A pixel is <<r, g, b, a>> as the standard colour model reports it:       *)
(* alpha-premultiplied, 16 bits per channel; NoPixel = the image ends above *)
(* this row.  A displayed colour is <<>> (the terminal's default colour) or *)
(* <<r, g, b>> with 8-bit channels.  A pixel whose 8-bit alpha is below     *)
(* Threshold is "sufficiently transparent" (the library documents 50).      *)
(* A displayed channel v stands for the straight (un-premultiplied) channel *)
(* c*255/a exactly, to within less than one unit: |v - c*255/a| < 1.        *)
EXTENDS Integers, Sequences

Threshold == 50
NoPixel == <<>>

Alpha8(px) == px[4] \div 257
Transparent(px) == px = NoPixel \/ Alpha8(px) < Threshold

ChanOK(v, c, a) == v * a - c * 255 < a /\ c * 255 - v * a < a

(* the colour col shows exactly pixel px *)
Shows(col, px) ==
  IF Transparent(px) THEN col = <<>>
  ELSE Len(col) = 3 /\ \A k \in 1..3 : ChanOK(col[k], px[k], px[4])

(* Half-block images: the upper half of the cell shows the top pixel, the   *)
(* lower half the bottom pixel.                                             *)
HalfOK(topCol, botCol, top, bot) == Shows(topCol, top) /\ Shows(botCol, bot)

(* Full-block images: the cell shows ONE colour for the pixels it covers:   *)
(* the default colour when all of them are transparent; when none is, a     *)
(* colour lying (per channel) between the covered pixels' colours - hence   *)
(* exactly their colour when they agree or when only one pixel is covered.  *)
(* One transparent and one opaque pixel under a one-colour cell: left open. *)
FullOK(col, top, bot) ==
  LET S == {p \in {top, bot} : p # NoPixel} IN
  IF \A p \in S : Transparent(p) THEN col = <<>>
  ELSE IF \E p \in S : Transparent(p) THEN TRUE
  ELSE /\ Len(col) = 3
       /\ \A k \in 1..3 : /\ \E p \in S : col[k] * p[4] - p[k] * 255 < p[4]     \* not above the largest
                          /\ \E p \in S : p[k] * 255 - col[k] * p[4] < p[4]     \* not below the smallest

(* px: the image's pixels, row-major, iw wide, ih high; cell (x, y). *)
TopOf(px, iw, ih, x, y) == px[(2 * y) * iw + x + 1]
BotOf(px, iw, ih, x, y) == IF 2 * y + 1 < ih THEN px[(2 * y + 1) * iw + x + 1] ELSE NoPixel
=============================================================================
