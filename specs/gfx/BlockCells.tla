---------------------------- MODULE BlockCells ----------------------------
(* Oracle for C20's block-rendered images: which colours a character cell   *)
(* must show for the source pixels it covers.  A cell covers one pixel      *)
(* column and two pixel rows (top, bottom).                                 *)
(*                                                                          *)
(* A pixel is <<r, g, b, a>> as the standard colour model reports it:       *)
(* alpha-premultiplied, 16 bits per channel; NoPixel = the image ends above *)
(* this row (whatever the image type answers when asked for a point outside *)
(* its bounds is not a pixel of the image).  Pixels are counted from the    *)
(* image's own top-left corner: an image is its Dx x Dy pixels, wherever    *)
(* its bounds start (a crop keeps the coordinates of the picture it was     *)
(* taken from).  A displayed colour is <<>> (the terminal's default colour) or *)
(* <<r, g, b>> with 8-bit channels.  A pixel whose 8-bit alpha is below     *)
(* Threshold is "sufficiently transparent" (the library documents 50).      *)
(* A displayed channel v stands for the straight (un-premultiplied) channel *)
(* c*255/a exactly, to within less than one unit: |v - c*255/a| < 1.        *)
EXTENDS Integers, Sequences

Threshold == 50
NoPixel == <<>>

Alpha8(px) == px[4] \div 257
Transparent(px) == px = NoPixel \/ Alpha8(px) < Threshold

ChanOK(v, c, a) == v * a - c * 255 < a /\ c * 255 - v * a < a

(* the colour col shows exactly pixel px *)
Shows(col, px) ==
  IF Transparent(px) THEN col = <<>>
  ELSE Len(col) = 3 /\ \A k \in 1..3 : ChanOK(col[k], px[k], px[4])

(* Half-block images: the upper half of the cell shows the top pixel, the   *)
(* lower half the bottom pixel.                                             *)
HalfOK(topCol, botCol, top, bot) == Shows(topCol, top) /\ Shows(botCol, bot)

(* Full-block images: the cell shows ONE colour for the pixels it covers:   *)
(* the default colour when all of them are transparent; when none is, a     *)
(* colour lying (per channel) between the covered pixels' colours - hence   *)
(* exactly their colour when they agree or when only one pixel is covered.  *)
(* One transparent and one opaque pixel under a one-colour cell: left open. *)
FullOK(col, top, bot) ==
  LET S == {p \in {top, bot} : p # NoPixel} IN
  IF \A p \in S : Transparent(p) THEN col = <<>>
  ELSE IF \E p \in S : Transparent(p) THEN TRUE
  ELSE /\ Len(col) = 3
       /\ \A k \in 1..3 : /\ \E p \in S : col[k] * p[4] - p[k] * 255 < p[4]     \* not above the largest
                          /\ \E p \in S : p[k] * 255 - col[k] * p[4] < p[4]     \* not below the smallest

(* A block image scaled down to ow x oh cells (whatever the resampling, as long as an output  *)
(* pixel is computed from the source pixels it covers and their immediate neighbours): a cell *)
(* whose footprint, widened by one source pixel on every side, lies in a region that is       *)
(* sufficiently transparent throughout must show the default colour in both halves; one whose *)
(* widened footprint is a single opaque colour must show that colour in both halves; every    *)
(* other cell is left open.  The output is 2*oh or 2*oh - 1 pixel rows high: the footprint is *)
(* taken wide enough for both.                                                                *)
Foot(px, iw, ih, ow, oh, x, y) ==
  LET Max0(a) == IF a < 0 THEN 0 ELSE a
      Min(a, b) == IF a < b THEN a ELSE b
      x0 == Max0((x * iw) \div ow - 1)
      x1 == Min(iw - 1, ((x + 1) * iw + ow - 1) \div ow)
      y0 == Max0((2 * y * ih) \div (2 * oh) - 1)
      y1 == Min(ih - 1, ((2 * y + 2) * ih + (2 * oh - 1) - 1) \div (IF oh = 1 THEN 1 ELSE 2 * oh - 1))
  IN {px[yy * iw + xx + 1] : xx \in x0..x1, yy \in y0..y1}
Opaque(p) == p # NoPixel /\ p[4] = 65535
(* last: the cell is in the last cell row, whose lower half lies beyond an image of odd pixel height *)
ScaledCellOK(topCol, botCol, F, last) ==
  IF \A p \in F : Transparent(p) THEN topCol = <<>> /\ botCol = <<>>
  ELSE IF \E p \in F : Opaque(p) /\ F = {p} THEN
       LET p == CHOOSE q \in F : TRUE IN Shows(topCol, p) /\ (Shows(botCol, p) \/ (last /\ botCol = <<>>))
  ELSE TRUE

(* px: the image's pixels, row-major, iw wide, ih high; cell (x, y). *)
TopOf(px, iw, ih, x, y) == px[(2 * y) * iw + x + 1]
BotOf(px, iw, ih, x, y) == IF 2 * y + 1 < ih THEN px[(2 * y + 1) * iw + x + 1] ELSE NoPixel
=============================================================================
