CONSTANTS
  Cols = 4
  Rows = 1
  Depth = 2
  Offs <- Full
  Sizes <- Full
  YOffs <- Zero
  YSizes <- One
  CoordsX <- Coords
  CoordsY <- Zero
  Repaired = FALSE
  Measure = TRUE
  StyleFix = TRUE
SPECIFICATION Spec
INVARIANTS Incremental ClipInScreen ClipInParent AcceptedInsideOwnExtent SetCellConforms WideCellConforms AutoCellConforms StyleConforms FillConforms ExtentConforms
CHECK_DEADLOCK FALSE
