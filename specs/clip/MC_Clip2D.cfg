CONSTANTS
  Cols = 3
  Rows = 2
  Depth = 2
  Offs <- TinyO
  Sizes <- TinyS
  YOffs <- TinyYO
  YSizes <- TinyYS
  CoordsX <- CX2
  CoordsY <- CY2
  Repaired = TRUE
  Measure = TRUE
SPECIFICATION Spec
INVARIANTS Incremental ClipInScreen ClipInParent AcceptedInsideOwnExtent SetCellConforms WideCellConforms AutoCellConforms FillConforms ExtentConforms
CHECK_DEADLOCK FALSE
