CONSTANTS
  MaxLen = 4
  Widths <- WDeep
  Kinds <- K8
  Heights <- HDeep
  Repaired = TRUE
  Measure = TRUE
SPECIFICATION Spec
INVARIANTS OracleSane NoOverhang ImplConforms
CHECK_DEADLOCK FALSE
