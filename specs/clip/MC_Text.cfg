CONSTANTS
  MaxLen = 3
  Widths <- WQuick
  Heights <- HQuick
  Repaired = TRUE
SPECIFICATION Spec
INVARIANTS OracleSane NoOverhang ImplConforms
CHECK_DEADLOCK FALSE
