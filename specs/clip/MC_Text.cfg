CONSTANTS
  MaxLen = 3
  Widths <- WQuick
  Kinds <- K8
  Heights <- HQuick
  Repaired = TRUE
  Measure = TRUE
SPECIFICATION Spec
INVARIANTS OracleSane NoOverhang ImplConforms
CHECK_DEADLOCK FALSE
