---------------------------- MODULE TextLayout ----------------------------
(* Oracle for the text half of C11: where the text helpers of a window put  *)
(* the grapheme clusters of a string.  Written from the property statement  *)
(* and the helpers' public documentation: clusters go left to right in      *)
(* reading order, a cluster is never split, the column advances by the      *)
(* cluster's display width, a new row starts at a line break or when the    *)
(* next unit does not fit in the row, and nothing is placed outside the     *)
(* window.  Segmentation into clusters, display widths and line-break       *)
(* opportunities are logged FACTS (Unicode tables), not computed here.      *)
(*                                                                          *)
(* An item is [k, g, w, s, b]: k = "g" (cluster), "nl" (line break) or      *)
(* "tab"; g = grapheme id; w = display width in cells; s = index of the     *)
(* styled segment it came from; b = 1 when a line may be broken after it.   *)
(* A tab stands for TabCells blanks (the library's stated tab policy; an    *)
(* assumption of this oracle).                                              *)
(*                                                                          *)
(* Two points the documentation leaves open are left open here as well:     *)
(*   - whether a row that has just been filled is left at once (eager) or   *)
(*     only when the next cluster arrives (lazy): they differ only when a   *)
(*     line break follows a full row; either is accepted;                   *)
(*   - what follows a cluster wider than the whole window, or a line break  *)
(*     given to a single-line helper: from that point on only containment   *)
(*     is demanded ("open").                                                *)
EXTENDS Integers, Sequences

TabCells == 8

TabBlank(s, b) == [k |-> "g", g |-> 0, w |-> 1, s |-> s, b |-> b]

RECURSIVE Expand(_, _, _)
Expand(items, i, acc) ==
  IF i > Len(items) THEN acc
  ELSE LET it == items[i] IN
       IF it.k = "tab"
       THEN Expand(items, i + 1, acc \o [j \in 1..TabCells |-> TabBlank(it.s, IF j = TabCells THEN it.b ELSE 0)])
       ELSE Expand(items, i + 1, Append(acc, it))

(* Layout state: cursor (x, y) in window coordinates, the placements made   *)
(* so far (out: sequence of [x, y, i], i = item index, 0 = the ellipsis),   *)
(* and mode: "run", "stop" (nothing more is placed) or "open" (from (px,py) *)
(* on, in reading order, nothing is demanded but containment).              *)
Start(x, y) == [x |-> x, y |-> y, out |-> <<>>, mode |-> "run", px |-> 0, py |-> 0]
Open(st)    == [st EXCEPT !.mode = "open", !.px = st.x, !.py = st.y]
Stop(st)    == [st EXCEPT !.mode = "stop"]
NewRow(st)  == [st EXCEPT !.x = 0, !.y = @ + 1]
Put(st, i, w) == [st EXCEPT !.out = Append(@, [x |-> st.x, y |-> st.y, i |-> i]), !.x = @ + w]

(* Place one cluster with character wrapping in a window W cells wide. *)
PutWrap(st, it, i, W, eager) ==
  IF it.w > W THEN Open(st)
  ELSE LET s1 == IF st.x + it.w > W THEN NewRow(st) ELSE st     \* does not fit: new row first
           s2 == Put(s1, i, it.w)
       IN IF eager /\ s2.x >= W THEN NewRow(s2) ELSE s2

(* Wrapped printing from the window's origin. *)
RECURSIVE LayPrint(_, _, _, _, _)
LayPrint(items, i, st, W, eager) ==
  IF i > Len(items) \/ st.mode # "run" THEN st
  ELSE LET it == items[i] IN
       LayPrint(items, i + 1, IF it.k = "nl" THEN NewRow(st) ELSE PutWrap(st, it, i, W, eager), W, eager)

(* One line on a given row: clusters that do not fit are dropped. *)
RECURSIVE LayLine(_, _, _, _)
LayLine(items, i, st, W) ==
  IF i > Len(items) \/ st.mode # "run" THEN st
  ELSE LET it == items[i] IN
       IF it.k = "nl" THEN Open(st)
       ELSE IF st.x + it.w > W THEN Stop(st)
       ELSE LayLine(items, i + 1, Put(st, i, it.w), W)

(* One line on a given row, cut short with a one-cell ellipsis: clusters    *)
(* are placed while room for the ellipsis remains.                          *)
RECURSIVE LayTrunc(_, _, _, _)
LayTrunc(items, i, st, W) ==
  IF i > Len(items) \/ st.mode # "run" THEN st
  ELSE LET it == items[i] IN
       IF it.k = "nl" THEN Open(st)
       ELSE IF st.x + it.w + 1 > W
            THEN Stop(IF st.x + 1 <= W THEN Put(st, 0, 1) ELSE st)
       ELSE LayTrunc(items, i + 1, Put(st, i, it.w), W)

(* Word wrapping: a unit is a run of clusters up to a break opportunity;    *)
(* a unit that fits in an empty row but not in the rest of this one starts  *)
(* a new row; a unit wider than the window is wrapped cluster by cluster.   *)
EndsUnit(it) == it.b = 1 \/ it.k = "nl"
RECURSIVE UnitWidth(_, _)
UnitWidth(items, i) ==
  IF i > Len(items) THEN 0
  ELSE items[i].w + (IF EndsUnit(items[i]) THEN 0 ELSE UnitWidth(items, i + 1))

RECURSIVE LayWrap(_, _, _, _, _)
LayWrap(items, i, st, W, eager) ==
  IF i > Len(items) \/ st.mode # "run" THEN st
  ELSE LET it == items[i]
           first == i = 1 \/ EndsUnit(items[i - 1])
           tw == UnitWidth(items, i)
           s1 == IF first /\ tw <= W /\ st.x + tw > W THEN NewRow(st) ELSE st
       IN LayWrap(items, i + 1, IF it.k = "nl" THEN NewRow(s1) ELSE PutWrap(s1, it, i, W, eager), W, eager)

----------------------------------------------------------------------------
(* What a layout demands of one visible cell p = <<x, y>> of the window.    *)
(* vis = the visible cells of the window (window coordinates).              *)
Wd(items, pl) == IF pl.i = 0 THEN 1 ELSE items[pl.i].w

After(st, x, y) == st.mode = "open" /\ (y > st.py \/ (y = st.py /\ x >= st.px))

(* A cluster w cells wide placed at (x0, y) shows its glyph at x0 and       *)
(* continuation cells at x0+1 .. x0+w-1.  Whole(...) = all of them visible.  *)
Whole(vis, x0, y, w) == \A i \in 0..(w - 1) : <<x0 + i, y>> \in vis

Demand(st, items, vis, x, y) ==
  LET heads == {n \in 1..Len(st.out) : st.out[n].x = x /\ st.out[n].y = y}
      tails == {n \in 1..Len(st.out) : /\ st.out[n].y = y /\ st.out[n].x < x
                                       /\ x < st.out[n].x + Wd(items, st.out[n])}
  IN IF After(st, x, y) THEN [k |-> "any"]
     ELSE IF heads # {} THEN
        LET n == CHOOSE n \in heads : \A m \in heads : m <= n
            w == Wd(items, st.out[n])
        IN IF w = 0 THEN [k |-> "any"]                         \* a zero-width cluster shows as nothing definite
           ELSE IF ~Whole(vis, x, y, w) THEN [k |-> "any"]     \* cut by an ancestor: must not spill (containment)
           ELSE [k |-> "head", i |-> st.out[n].i, w |-> w]
     ELSE IF tails # {} THEN
        LET n == CHOOSE n \in tails : TRUE IN
        IF ~Whole(vis, st.out[n].x, y, Wd(items, st.out[n])) THEN [k |-> "any"] ELSE [k |-> "tail"]
     ELSE [k |-> "none"]

(* obs[p] = [ch, cell]: did the displayed cell change, and what it shows    *)
(* (a reference-terminal cell).  segbg[s + 1] = background of segment s.    *)
CellMatches(d, o, items, segbg, ell) ==
  CASE d.k = "any"  -> TRUE
    [] d.k = "none" -> ~o.ch
    [] d.k = "tail" -> o.ch /\ o.cell.k = "c"
    [] d.k = "head" ->
         /\ o.ch /\ o.cell.k = "g" /\ o.cell.w = d.w
         /\ IF d.i = 0 THEN o.cell.g = ell
            ELSE /\ o.cell.g = items[d.i].g
                 /\ o.cell.st.bg = segbg[items[d.i].s + 1]
                 /\ o.cell.st.fg = 0 /\ o.cell.st.at = 0 /\ o.cell.st.us = 0 /\ o.cell.ln = 0

Matches(st, items, vis, obs, segbg, ell) ==
  \A p \in vis : CellMatches(Demand(st, items, vis, p[1], p[2]), obs[p], items, segbg, ell)

Offending(st, items, vis, obs, segbg, ell) ==
  {p \in vis : ~CellMatches(Demand(st, items, vis, p[1], p[2]), obs[p], items, segbg, ell)}

(* The verdict.  raw = the logged items (tabs not yet expanded). *)
Layouts(fn, row, items, W) ==
  CASE fn = "print"   -> {LayPrint(items, 1, Start(0, 0), W, eager) : eager \in BOOLEAN}
    [] fn = "wrap"    -> {LayWrap(items, 1, Start(0, 0), W, eager) : eager \in BOOLEAN}
    [] fn = "println" -> {LayLine(items, 1, Start(0, row), W)}
    [] fn = "trunc"   -> {LayTrunc(items, 1, Start(0, row), W)}
                         \cup {s \in {LayLine(items, 1, Start(0, row), W)} : s.mode # "stop"}

TextOK(fn, row, raw, W, vis, obs, segbg, ell) ==
  LET items == Expand(raw, 1, <<>>) IN
  \E st \in Layouts(fn, row, items, W) : Matches(st, items, vis, obs, segbg, ell)

(* For the rejection report: the first offending cell under the canonical   *)
(* (eager / ellipsis) layout and what was demanded there.                   *)
TextWhy(fn, row, raw, W, vis, obs, segbg, ell) ==
  LET items == Expand(raw, 1, <<>>)
      st == CASE fn = "print" -> LayPrint(items, 1, Start(0, 0), W, TRUE)
              [] fn = "wrap" -> LayWrap(items, 1, Start(0, 0), W, TRUE)
              [] fn = "println" -> LayLine(items, 1, Start(0, row), W)
              [] OTHER -> LayTrunc(items, 1, Start(0, row), W)
      bad == Offending(st, items, vis, obs, segbg, ell)
  IN IF bad = {} THEN [k |-> "alt"]
     ELSE LET p == CHOOSE p \in bad : \A q \in bad : p[2] < q[2] \/ (p[2] = q[2] /\ p[1] <= q[1])
              d == Demand(st, items, vis, p[1], p[2])
          IN [k |-> d.k, at |-> p, ch |-> obs[p].ch, shown |-> obs[p].cell.k]
=============================================================================
