------------------------------ MODULE MC_Text ------------------------------
(* Exhaustive bounded model for C11's text clause: every string of up to    *)
(* MaxLen items over Kinds (narrow, space, wide, zero-width, tab, line       *)
(* break; K8 adds the clusters the terminal shows narrower ("e": 1 cell,    *)
(* Unicode tables 2) or wider ("h": 2 cells, tables 1) than the tables      *)
(* say), every helper, every window width in Widths and height in Heights.  *)
(*  - oracle sanity: the layouts TextLayout produces never put a cluster    *)
(*    outside the window's columns and are in reading order;                *)
(*  - the implementation-shaped text helpers of WindowImpl, executed on an  *)
(*    ideal clipped window, satisfy TextLayout!TextOK.                      *)
EXTENDS TextLayout, WindowImpl, TLC
CONSTANTS MaxLen, Widths, Heights, Kinds, Repaired, Measure

Fx == [wide |-> Repaired, measure |-> Measure]

WQuick == 0..4
HQuick == {1, 2}
WDeep == 1..4
HDeep == {2}

Fns == {"print", "println", "trunc", "wrap"}
K6 == {"n", "s", "w", "z", "t", "l"}
K8 == K6 \cup {"e", "h"}

VARIABLES str, fn, W, H, row
vars == <<str, fn, W, H, row>>

(* item i of kind kd; clusters get distinct grapheme ids (100 + i).  w = the *)
(* width the terminal gives the cluster (the oracle's), u = the width of    *)
(* the Unicode tables (only the implementation-shaped Wrap looks at it).    *)
Item(kd, i) ==
  CASE kd = "n" -> [k |-> "g", g |-> 100 + i, w |-> 1, u |-> 1, s |-> 0, b |-> 0]
    [] kd = "s" -> [k |-> "g", g |-> 0, w |-> 1, u |-> 1, s |-> 0, b |-> 1]
    [] kd = "w" -> [k |-> "g", g |-> 100 + i, w |-> 2, u |-> 2, s |-> 0, b |-> 1]
    [] kd = "z" -> [k |-> "g", g |-> 100 + i, w |-> 0, u |-> 0, s |-> 0, b |-> 0]
    [] kd = "e" -> [k |-> "g", g |-> 100 + i, w |-> 1, u |-> 2, s |-> 0, b |-> 1]
    [] kd = "h" -> [k |-> "g", g |-> 100 + i, w |-> 2, u |-> 1, s |-> 0, b |-> 0]
    [] kd = "t" -> [k |-> "tab", g |-> 0, w |-> 0, u |-> 0, s |-> 0, b |-> 1]
    [] OTHER    -> [k |-> "nl", g |-> 0, w |-> 0, u |-> 0, s |-> 0, b |-> 1]

Raw == [i \in 1..Len(str) |-> Item(str[i], i)]
Items == Expand(Raw, 1, <<>>)

Init == /\ str = <<>> /\ fn \in Fns /\ W \in Widths /\ H \in Heights
        /\ row \in (IF fn \in {"println", "trunc"} THEN {-1, 0, 1} ELSE {0})
Next == /\ Len(str) < MaxLen
        /\ \E kd \in Kinds : str' = Append(str, kd)
        /\ UNCHANGED <<fn, W, H, row>>
Spec == Init /\ [][Next]_vars

Ell == 99
SegBg == <<7>>
Vis == (0..(W - 1)) \X (0..(H - 1))

(* ---- oracle sanity ---- *)
InColumns(st, items) == \A n \in 1..Len(st.out) :
   LET pl == st.out[n] IN Wd(items, pl) > 0 => pl.x >= 0 /\ pl.x + Wd(items, pl) <= W
ReadingOrder(st) == \A n \in 1..(Len(st.out) - 1) :
   LET a == st.out[n]  b == st.out[n + 1] IN a.y < b.y \/ (a.y = b.y /\ a.x <= b.x)
OracleSane == \A st \in Layouts(fn, row, Items, W) : InColumns(st, Items) /\ ReadingOrder(st)

(* ---- implementation against oracle ---- *)
Calls ==
  CASE fn = "print"   -> IPrint(Items, 1, 0, 0, <<>>, W, H, Fx)
    [] fn = "wrap"    -> IWrap(Items, 1, 0, 0, <<>>, W, H, Fx)
    [] fn = "println" -> IPrintln(Items, row, W, H)
    [] OTHER          -> ITrunc(Items, row, W, H)

CW(cl) == IF cl.i = 0 THEN 1 ELSE Items[cl.i].w
(* the window accepts a call iff the cell (all of it, when repaired, as wide as the cell states) is inside *)
Accepted(cl) == /\ cl.x >= 0 /\ cl.x < W /\ cl.y >= 0 /\ cl.y < H
                /\ (Repaired /\ cl.d > 1) => cl.x + cl.d <= W
Shown(cl) ==   \* what the terminal shows for the cell written by this call
  LET st == [fg |-> 0, bg |-> 7, ul |-> 0, us |-> 0, at |-> 0] IN
  IF cl.i = 0 THEN [k |-> "g", g |-> Ell, w |-> 1, st |-> st, ln |-> 0]
  ELSE IF Items[cl.i].w = 0 THEN [k |-> "g", g |-> 0, w |-> 1, st |-> st, ln |-> 0]
  ELSE [k |-> "g", g |-> Items[cl.i].g, w |-> Items[cl.i].w, st |-> st, ln |-> 0]

Observed ==
  LET calls == Calls
      acc == {n \in 1..Len(calls) : Accepted(calls[n])}
      headAt(p) == {n \in acc : calls[n].x = p[1] /\ calls[n].y = p[2]}
      tailAt(p) == {n \in acc : CW(calls[n]) = 2 /\ calls[n].x + 1 = p[1] /\ calls[n].y = p[2]}
      last(S) == CHOOSE n \in S : \A m \in S : m <= n
  IN [p \in Vis |->
        LET hs == headAt(p)  ts == tailAt(p) IN
        IF hs # {} /\ (ts = {} \/ last(hs) > last(ts)) THEN [ch |-> TRUE, cell |-> Shown(calls[last(hs)])]
        ELSE IF ts # {} THEN [ch |-> TRUE, cell |-> [k |-> "c"]]
        ELSE [ch |-> FALSE, cell |-> [k |-> "s"]]]

(* a two-cell glyph accepted in the last column hangs over the edge: containment *)
NoOverhang == \A n \in 1..Len(Calls) :
   LET cl == Calls[n] IN (cl.x >= 0 /\ cl.x < W /\ cl.y >= 0 /\ cl.y < H /\ Accepted(cl)) => cl.x + CW(cl) <= W \/ CW(cl) = 0

ImplConforms == TextOK(fn, row, Raw, W, Vis, Observed, SegBg, Ell)
=============================================================================
