------------------------------ MODULE MC_Clip ------------------------------
(* Exhaustive bounded model for C11's geometry: every window tree up to     *)
(* Depth whose levels take every mode and every offset/size in the given    *)
(* ranges, every coordinate in CoordsX x CoordsY.                           *)
(*  - oracle sanity theorems of Clip (the clip rectangle is inside the      *)
(*    screen and inside every ancestor's; an accepted cell lands inside);   *)
(*  - the implementation-shaped WindowImpl (per-level bounds check and      *)
(*    delegation, constructor clamping, final screen check) composed with   *)
(*    the oracle: it accepts exactly the cells Clip accepts and puts them   *)
(*    exactly where Clip says; Fill writes exactly the clip rectangle; a    *)
(*    two-cell glyph is written iff both halves are accepted, whether its   *)
(*    width is stated in the cell or left to be measured (Measure = FALSE   *)
(*    is the code as found: the overhang test trusted the stated width);    *)
(*    set style on a screen holding a two-cell glyph changes the display of *)
(*    cells of the clip rectangle only, and restyles what the window        *)
(*    accepts when the glyph there is wholly inside (StyleFix = FALSE is    *)
(*    the code as found: no overhang test in SetStyle).                     *)
(* The clipping is separable per axis, so the deep configurations explore   *)
(* one axis with the full ranges (YOffs = {0}, YSizes = {1}, Rows = 1) and  *)
(* the 2D configurations explore both axes with smaller ranges.             *)
EXTENDS Clip, WindowImpl, TLC
CONSTANTS Cols, Rows, Depth, Offs, Sizes, YOffs, YSizes, CoordsX, CoordsY, Repaired, Measure, StyleFix

Fx == [wide |-> Repaired, measure |-> Measure, style |-> StyleFix]

(* Named value sets for the configuration files (a .cfg cannot write a     *)
(* negative number).                                                        *)
Full    == -2..6
Coords  == -1..6
Zero    == {0}
One     == {1}
SmallO  == {-1, 0, 1, 3}
SmallS  == {-1, 0, 2, 4}
SmallYO == {-1, 0, 1}
SmallYS == {-1, 1, 3}
TinyO   == {-1, 0, 2}
TinyS   == {-1, 2, 4}
TinyYO  == {-1, 1}
TinyYS  == {-1, 2}
CX2     == -1..3
CY2     == -1..2

Thin    == {-2, -1, 0, 1, 2, 4, 6}
ThinS   == {-1, 0, 1, 2, 3, 5, 6}

(* chain = the levels chosen so far; w = the oracle's resolved window and   *)
(* wins = the implementation's window values, both built level by level.    *)
VARIABLES chain, w, wins
vars == <<chain, w, wins>>

Levels(first) ==
  {[m |-> m, c |-> c, r |-> r, w |-> ww, h |-> h] :
      m \in (IF first THEN {"new", "raw", "top"} ELSE {"new", "raw"}),
      c \in Offs, r \in YOffs, ww \in Sizes, h \in YSizes}

Scr == ScreenWin(Cols, Rows)
Init == chain = <<>> /\ w = Scr /\ wins = <<IRoot(Cols, Rows)>>
Next == /\ Len(chain) < Depth
        /\ \E lv \in Levels(chain = <<>>) :
              /\ chain' = Append(chain, lv)
              /\ w' = Sub(w, Scr, lv)
              /\ wins' = IBuild(<<lv>>, 1, wins)
Spec == Init /\ [][Next]_vars

Top == Len(wins)

(* the incremental construction is the oracle's / the implementation's own *)
Incremental == w = Win(chain, Cols, Rows) /\ wins = IBuild(chain, 1, <<IRoot(Cols, Rows)>>)

(* ---- oracle sanity ---- *)
ClipInScreen == \A p \in CellsOf(w.clip) : Inside(Rect(0, 0, Cols, Rows), p[1], p[2])
ClipInParent ==
  chain # <<>> /\ chain[Len(chain)].m # "top" =>
     CellsOf(w.clip) \subseteq CellsOf(Win(SubSeq(chain, 1, Len(chain) - 1), Cols, Rows).clip)
AcceptedInsideOwnExtent ==
  \A c \in CoordsX : \A r \in CoordsY :
     Accepts(w, c, r) => c >= 0 /\ r >= 0 /\ c < w.w /\ r < w.h

(* ---- implementation against oracle ---- *)
SetCellConforms ==
  \A c \in CoordsX : \A r \in CoordsY :
     ISetCell(wins, Top, c, r, 1, Cols, Rows, Fx)
        = (IF Accepts(w, c, r) THEN Landing(w, c, r) ELSE None)
WideCellConforms ==
  \A c \in CoordsX : \A r \in CoordsY :
     LET got == ISetCell(wins, Top, c, r, Eff(2, 2, Fx), Cols, Rows, Fx) IN
     IF AcceptsWide(w, c, r, 2) THEN got = Landing(w, c, r) ELSE got = None
(* the same glyph in a cell whose width is left to be measured (stated 0) *)
AutoCellConforms ==
  \A c \in CoordsX : \A r \in CoordsY :
     LET got == ISetCell(wins, Top, c, r, Eff(0, 2, Fx), Cols, Rows, Fx) IN
     IF AcceptsWide(w, c, r, 2) THEN got = Landing(w, c, r) ELSE got = None
(* set style, the screen holding a two-cell glyph in the cells g and g + (1, 0): the cells  *)
(* whose display changes (both of the glyph when its first is restyled, none when the     *)
(* cell under its second is) are the window's; an accepted cell is restyled where Clip    *)
(* says unless the glyph it shows is not wholly the window's; a refused one never         *)
StyleConforms ==
  \A gx \in 0..(Cols - 2) : \A gy \in 0..(Rows - 1) : \A c \in CoordsX : \A r \in CoordsY :
     LET g == <<gx, gy>>
         g2 == <<gx + 1, gy>>
         got == ISetStyle(wins, Top, c, r, g, Cols, Rows, Fx)
         shown == IF got = None \/ got = g2 THEN {} ELSE IF got = g THEN {g, g2} ELSE {got}
         whole == Landing(w, c, r) \notin {g, g2} \/ {g, g2} \subseteq CellsOf(w.clip)
     IN /\ shown \subseteq CellsOf(w.clip)
        /\ ~Accepts(w, c, r) => got = None
        /\ Accepts(w, c, r) /\ whole => got = Landing(w, c, r)
FillConforms == IFill(wins, Top, Cols, Rows, Fx) = CellsOf(w.clip)
ExtentConforms == wins[Top].w = w.w /\ wins[Top].h = w.h
=============================================================================
