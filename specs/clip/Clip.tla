------------------------------- MODULE Clip -------------------------------
(* Oracle for C11: where a window is and which screen cells it may touch.   *)
(* Written from plane geometry and the public constructor convention of the *)
(* library (a child is given an offset relative to its parent and a size; a *)
(* negative size, or one reaching past the parent's far edge, means "up to  *)
(* the parent's far edge"; a window built without the constructor is taken  *)
(* exactly as given, a negative size being empty).  No implementation       *)
(* identifiers.  A functional core: everything is a pure operator, shared   *)
(* by the exhaustive models (MC_Clip) and by trace validation (Clip_Trace,  *)
(* Gfx_Trace).                                                              *)
(*                                                                          *)
(* Coordinates are 0-based screen cells, x to the right, y downwards.  A    *)
(* rectangle is half-open: [x0, x1) x [y0, y1); it is empty when x1 <= x0   *)
(* or y1 <= y0.                                                             *)
EXTENDS Integers, Sequences

Lo(a, b) == IF a < b THEN a ELSE b
Hi(a, b) == IF a > b THEN a ELSE b

Rect(x0, y0, x1, y1) == [x0 |-> x0, y0 |-> y0, x1 |-> x1, y1 |-> y1]
Meet(a, b) == Rect(Hi(a.x0, b.x0), Hi(a.y0, b.y0), Lo(a.x1, b.x1), Lo(a.y1, b.y1))
Inside(rc, x, y) == x >= rc.x0 /\ x < rc.x1 /\ y >= rc.y0 /\ y < rc.y1
CellsOf(rc) == (rc.x0..(rc.x1 - 1)) \X (rc.y0..(rc.y1 - 1))
IsEmpty(rc) == rc.x1 <= rc.x0 \/ rc.y1 <= rc.y0

(* A resolved window: absolute origin (ox, oy), extent (w, h) and the clip  *)
(* rectangle = its own rectangle met with every ancestor's and the screen.  *)
ScreenWin(cols, rows) ==
  [ox |-> 0, oy |-> 0, w |-> cols, h |-> rows, clip |-> Rect(0, 0, cols, rows)]

(* Extent of a constructed child along one axis. *)
Far(off, size, psize) == IF size < 0 \/ off + size > psize THEN psize - off ELSE size

(* One level of the tree: lv = [m, c, r, w, h].                             *)
(*   m = "new": made by the parent's constructor with (c, r, w, h);         *)
(*   m = "raw": a window value with these fields and this parent;           *)
(*   m = "top": a window value with these fields and no parent (offsets are *)
(*              relative to the terminal).                                  *)
Sub(P, scr, lv) ==
  LET base == IF lv.m = "top" THEN scr ELSE P
      w  == IF lv.m = "new" THEN Far(lv.c, lv.w, base.w) ELSE lv.w
      h  == IF lv.m = "new" THEN Far(lv.r, lv.h, base.h) ELSE lv.h
      ox == base.ox + lv.c
      oy == base.oy + lv.r
  IN [ox |-> ox, oy |-> oy, w |-> w, h |-> h,
      clip |-> Meet(base.clip, Rect(ox, oy, ox + Hi(w, 0), oy + Hi(h, 0)))]

RECURSIVE Resolve(_, _, _, _)
Resolve(chain, i, P, scr) ==
  IF i > Len(chain) THEN P ELSE Resolve(chain, i + 1, Sub(P, scr, chain[i]), scr)

(* The window reached by following chain (outermost level first) from the   *)
(* full-screen window of a cols x rows screen.                              *)
Win(chain, cols, rows) == Resolve(chain, 1, ScreenWin(cols, rows), ScreenWin(cols, rows))

(* A cell offered at offset (c, r) of window W is accepted iff its absolute *)
(* position lies in the clip rectangle; it lands at origin + offset.        *)
AbsX(W, c) == W.ox + c
AbsY(W, r) == W.oy + r
Accepts(W, c, r) == Inside(W.clip, AbsX(W, c), AbsY(W, r))
Landing(W, c, r) == <<AbsX(W, c), AbsY(W, r)>>

(* A cell whose content is displayed w cells wide (w >= 1; the width the    *)
(* terminal gives it, whether the caller stated it or left it to be         *)
(* measured) occupies the columns c .. c + w - 1 of row r.  It is accepted  *)
(* iff every one of them is: drawn in part it would either lose a half or   *)
(* change a cell outside the window.                                        *)
Columns(W, c, r, w) == {<<AbsX(W, c + i), AbsY(W, r)>> : i \in 0..(w - 1)}
AcceptsWide(W, c, r, w) == \A i \in 0..(w - 1) : Accepts(W, c + i, r)

(* The visible part of W in W's own coordinates. *)
Visible(W) == {<<c, r>> \in (W.clip.x0 - W.ox..W.clip.x1 - 1 - W.ox) \X (W.clip.y0 - W.oy..W.clip.y1 - 1 - W.oy) : TRUE}

(* A w x h block of cells at the window's origin (an image placement) is    *)
(* inside the window iff every one of its cells is accepted.                *)
BlockInside(W, w, h) == \A c \in 0..(w - 1) : \A r \in 0..(h - 1) : Accepts(W, c, r)
=============================================================================
