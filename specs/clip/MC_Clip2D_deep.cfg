CONSTANTS
  Cols = 3
  Rows = 2
  Depth = 2
  Offs <- SmallO
  Sizes <- SmallS
  YOffs <- SmallYO
  YSizes <- SmallYS
  CoordsX <- CX2
  CoordsY <- CY2
  Repaired = TRUE
  Measure = TRUE
  StyleFix = TRUE
SPECIFICATION Spec
INVARIANTS Incremental ClipInScreen ClipInParent AcceptedInsideOwnExtent SetCellConforms WideCellConforms AutoCellConforms StyleConforms FillConforms ExtentConforms
CHECK_DEADLOCK FALSE
