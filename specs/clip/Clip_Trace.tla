---------------------------- MODULE Clip_Trace ----------------------------
(* Trace validation for C11.  A scenario is a real Vaxis on a fake console. *)
(* Its output bytes, lexed to abstract terminal commands, are stepped       *)
(* through the RefTerm reference terminal.  The driver first paints every   *)
(* screen cell with a sentinel and renders ("mark" snapshots the displayed  *)
(* grid), then makes ONE drawing call on a window reached through a logged  *)
(* chain of levels and renders again.  At "check" the set of displayed      *)
(* cells that differ from the snapshot is compared with what the Clip and   *)
(* TextLayout oracles allow:                                                *)
(*   escape   a changed cell lies outside the window's clip rectangle;      *)
(*   landing  set cell / set style / fill / clear did not change exactly    *)
(*            the accepted cells, to exactly the requested content (a cell  *)
(*            displayed w cells wide, its width stated or left to be        *)
(*            measured, is accepted iff all its w columns are);             *)
(*   layout   a text helper did not place the clusters as TextLayout says.  *)
(* What a cell displays: a cell covered by the second (third ...) column of *)
(* a glyph wider than one cell displays that glyph, in the glyph's style:   *)
(* it changes when the glyph or the glyph's style does (Shown).  Set-style  *)
(* rounds may find such glyphs on the screen (put there before the          *)
(* snapshot, read from the snapshot).                                       *)
(* Many scenarios per file ("reset" starts one).  Every rejected round is   *)
(* reported with one REJECT line; rounds are independent (each starts from  *)
(* a fresh snapshot), so the rest of the scenario is still judged, except   *)
(* after a panic or an unknown terminal command (skipped to its end).       *)
EXTENDS RefTerm, Clip, TextLayout, TLC, Json, IOUtils

Trace == ndJsonDeserialize(IOEnv.TRACE)

VARIABLES l, t, base, unk0, failed
vars == <<l, t, base, unk0, failed>>

Init == l = 1 /\ t = InitTerm(1, 1, FALSE) /\ base = t.grid /\ unk0 = 0 /\ failed = FALSE

Pen(bg) == [DefaultPen EXCEPT !.bg = bg]
At(grid, x, y) == grid[y + 1][x + 1]
ScreenCells(tt) == (0..(tt.cols - 1)) \X (0..(tt.rows - 1))
(* The columns (0-based) of the glyph that covers column x of row y: the    *)
(* cell that holds it and the continuation cells that follow.               *)
HeadX(grid, x, y) ==
  IF At(grid, x, y).k = "c" /\ \E h \in 0..x : At(grid, h, y).k # "c"
  THEN HeadOf(grid[y + 1], x + 1) - 1 ELSE x
SpanX(grid, x, y) ==
  LET h == HeadX(grid, x, y)
      n == Len(grid[y + 1])
  IN {h} \cup {i \in (h + 1)..(n - 1) : \A m \in (h + 1)..i : At(grid, m, y).k = "c"}
Shown(grid, x, y) ==
  LET h == HeadX(grid, x, y)
  IN IF h = x THEN At(grid, x, y) ELSE [k |-> "c", of |-> At(grid, h, y), nth |-> x - h]
Diff(tt, b) == {p \in ScreenCells(tt) : Shown(b, p[1], p[2]) # Shown(tt.grid, p[1], p[2])}

(* Which way a cell left the rectangle (for the rejection signature). *)
Side(rc, p) == IF IsEmpty(rc) THEN "hidden"
               ELSE IF p[2] < rc.y0 THEN "above" ELSE IF p[2] >= rc.y1 THEN "below"
               ELSE IF p[1] < rc.x0 THEN "left" ELSE "right"

(* mk = <<g, w, bg>>: the marker cell the driver asked for. *)
Marker(mk) == G(mk[1], mk[2], Pen(mk[3]), 0)

(* Expected change map of the exact operations: [cells, at(p)]. *)
LandingOK(e, W, D) ==
  LET x == AbsX(W, e.c)
      y == AbsY(W, e.r)
      acc == Accepts(W, e.c, e.r)
  IN CASE e.op = "set" ->
            /\ D = (IF acc THEN {<<x, y>>} ELSE {})
            /\ acc => At(t.grid, x, y) = Marker(e.mk)
       [] e.op = "style" ->
            \* sp: the cells of the glyph the addressed cell displayed (itself, when narrow).  The
            \* style of a glyph is the style of all its cells: one that is not wholly the window's
            \* cannot be restyled by it (nothing states what else should happen: containment only,
            \* judged as "escape"); one that is, addressed by its first column, is restyled whole, its
            \* text left in place; addressed by another column, that or nothing
            LET h  == HeadX(base, x, y)
                sp == {<<i, y>> : i \in SpanX(base, x, y)}
                was == At(base, h, y)
                restyled == /\ D = sp
                            /\ At(t.grid, h, y) = [was EXCEPT !.st = Pen(e.mk[3])]
                            /\ \A p \in sp \ {<<h, y>>} : At(t.grid, p[1], p[2]) = Cont
            IN IF ~acc THEN D = {}
               ELSE IF was.k # "g" THEN D \subseteq sp
               ELSE IF \E p \in sp : ~Inside(W.clip, p[1], p[2]) THEN D \subseteq sp
               ELSE IF h = x THEN restyled
               ELSE D = {} \/ restyled
       [] e.op \in {"setw", "set0"} ->
            \* a cell displayed e.mk[2] cells wide, the width stated ("setw") or left to be measured
            \* ("set0"; e.mk[2] is then the logged fact of the width this terminal gives the cluster):
            \* drawn whole when all its columns are accepted
            LET w == e.mk[2]
                cs == Columns(W, e.c, e.r, w)
            IN IF w < 1 THEN TRUE
               ELSE IF AcceptsWide(W, e.c, e.r, w)
               THEN /\ D = cs
                    /\ At(t.grid, x, y) = Marker(e.mk)
                    /\ \A p \in cs \ {<<x, y>>} : At(t.grid, p[1], p[2]) = Cont
               ELSE D \subseteq cs                          \* (and inside the clip: checked as "escape")
       [] e.op = "fill" ->
            /\ D = CellsOf(W.clip)
            /\ \A p \in D : At(t.grid, p[1], p[2]) = Marker(e.mk)
       [] e.op \in {"fillw", "fill0"} ->
            \* fill with a cell displayed w >= 2 cells wide: every cell of the window is offered the
            \* glyph, and one offered next to an accepted one covers or is covered by it, so the exact
            \* pattern is not demanded: what changes shows the glyph or its continuation, and the
            \* first column of every clip row, which nothing to its left can cover, has the glyph
            \* when the clip is wide enough to accept it there
            LET w == e.mk[2]
                rc == W.clip
            IN IF w < 1 THEN TRUE
               ELSE IF w = 1 THEN /\ D = CellsOf(rc)
                                  /\ \A p \in D : At(t.grid, p[1], p[2]) = Marker(e.mk)
               ELSE /\ \A p \in D : At(t.grid, p[1], p[2]) \in {Marker(e.mk), Cont}
                    /\ IF rc.x1 - rc.x0 >= w
                       THEN \A yy \in rc.y0..(rc.y1 - 1) :
                               /\ At(t.grid, rc.x0, yy) = Marker(e.mk)
                               /\ \A i \in 1..(w - 1) : At(t.grid, rc.x0 + i, yy) = Cont
                       ELSE D = {}
       [] e.op = "clear" ->
            /\ D = CellsOf(W.clip)
            /\ \A p \in D : At(t.grid, p[1], p[2]) = Blank(0)
       [] OTHER -> TRUE

Obs(W, D) == [p \in Visible(W) |->
                [ch |-> <<AbsX(W, p[1]), AbsY(W, p[2])>> \in D,
                 cell |-> At(t.grid, AbsX(W, p[1]), AbsY(W, p[2]))]]

(* For the rejection signature only: the text holds a cluster that this     *)
(* terminal shows with another width than the Unicode tables give it.       *)
TermWidth(e) == e.op = "text" /\ \E i \in 1..Len(e.items) : e.items[i].k = "g" /\ e.items[i].u # e.items[i].w

Verdict(e) ==
  LET W == Win(e.chain, t.cols, t.rows)
      D == Diff(t, base)
      esc == {p \in D : ~Inside(W.clip, p[1], p[2])}
  IN IF t.unk # unk0 THEN [ok |-> FALSE, why |-> "unknown-command", det |-> ""]
     ELSE IF esc # {} THEN
        LET p == CHOOSE p \in esc : TRUE IN
        [ok |-> FALSE, why |-> "escape",
         det |-> Side(W.clip, p) \o (IF At(t.grid, p[1], p[2]).k = "c" THEN "-wide" ELSE "")]
     ELSE IF e.op = "text" THEN
        IF TextOK(e.fn, e.row, e.items, W.w, Visible(W), Obs(W, D), e.segbg, e.ell)
        THEN [ok |-> TRUE, why |-> "", det |-> ""]
        ELSE [ok |-> FALSE, why |-> "layout",
              \* e.cut: the logged fact that UAX #14 permits a break inside one of this text's clusters
              det |-> IF e.fn = "wrap" /\ e.cut THEN "cluster-cut"
                      ELSE ToJson(TextWhy(e.fn, e.row, e.items, W.w, Visible(W), Obs(W, D), e.segbg, e.ell))]
     ELSE IF LandingOK(e, W, D) THEN [ok |-> TRUE, why |-> "", det |-> ""]
     ELSE [ok |-> FALSE, why |-> "landing", det |-> ""]

Next ==
  /\ l <= Len(Trace)
  /\ l' = l + 1
  /\ LET e == Trace[l] IN
     IF e.ev = "reset" THEN
        /\ t' = InitTerm(e.rows, e.cols, e.xw)
        /\ base' = t'.grid
        /\ unk0' = 0
        /\ failed' = FALSE
     ELSE IF failed THEN UNCHANGED <<t, base, unk0, failed>>
     ELSE IF e.ev = "mark" THEN
        /\ base' = t.grid
        /\ unk0' = t.unk
        /\ UNCHANGED <<t, failed>>
     ELSE IF e.ev = "panic" THEN
        /\ failed' = TRUE
        /\ PrintT("REJECT " \o ToJson([scn |-> e.scn, line |-> l, rnd |-> e.rnd, op |-> e.op, why |-> "panic", det |-> ""]))
        /\ UNCHANGED <<t, base, unk0>>
     ELSE IF e.ev = "check" THEN
        /\ UNCHANGED <<t, base, unk0>>
        /\ LET v == Verdict(e) IN
           IF v.ok THEN UNCHANGED failed
           ELSE /\ failed' = (v.why = "unknown-command")   \* rounds are independent: keep judging the others
                /\ PrintT("REJECT " \o ToJson([scn |-> e.scn, line |-> l, rnd |-> e.rnd,
                                               op |-> IF e.op = "text" THEN e.fn ELSE e.op,
                                               why |-> v.why, det |-> v.det, tw |-> TermWidth(e)]))
     ELSE
        /\ t' = Step(t, e)
        /\ UNCHANGED <<base, unk0, failed>>

Spec == Init /\ [][Next]_vars

Consumed == TLCGet("stats").diameter - 1 = Len(Trace)
=============================================================================
