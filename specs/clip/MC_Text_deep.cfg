CONSTANTS
  MaxLen = 5
  Widths <- WDeep
  Heights <- HDeep
  Repaired = TRUE
SPECIFICATION Spec
INVARIANTS OracleSane NoOverhang ImplConforms
CHECK_DEADLOCK FALSE
