CONSTANTS
  MaxLen = 5
  Widths <- WDeep
  Kinds <- K6
  Heights <- HDeep
  Repaired = TRUE
  Measure = TRUE
SPECIFICATION Spec
INVARIANTS OracleSane NoOverhang ImplConforms
CHECK_DEADLOCK FALSE
