CONSTANTS
  Cols = 4
  Rows = 1
  Depth = 3
  Offs <- Thin
  Sizes <- ThinS
  YOffs <- Zero
  YSizes <- One
  CoordsX <- Coords
  CoordsY <- Zero
  Repaired = TRUE
  Measure = TRUE
  StyleFix = TRUE
SPECIFICATION Spec
INVARIANTS ClipInScreen SetCellConforms WideCellConforms AutoCellConforms StyleConforms FillConforms ExtentConforms
CHECK_DEADLOCK FALSE
