CONSTANTS
  MaxLen = 4
  Widths <- WQuick
  Kinds <- K6
  Heights <- HQuick
  Repaired = FALSE
  Measure = TRUE
SPECIFICATION Spec
INVARIANTS OracleSane NoOverhang ImplConforms
CHECK_DEADLOCK FALSE
