CONSTANTS
  MaxLen = 4
  Widths <- WQuick
  Heights <- HQuick
  Repaired = FALSE
SPECIFICATION Spec
INVARIANTS OracleSane NoOverhang ImplConforms
CHECK_DEADLOCK FALSE
