---------------------------- MODULE WindowImpl ----------------------------
(* IMPLEMENTATION-SHAPED module (not an oracle, produces no verdicts): a    *)
(* transcription of the library's window code for exhaustive exploration    *)
(* against the Clip and TextLayout oracles.                                 *)
(*   window.go  Window.New (size clamping), Window.SetCell (per-level       *)
(*              bounds check, then delegation to the parent), SetStyle,     *)
(*              Fill, Print, Println, PrintTruncate, Wrap                   *)
(*   screen.go  screen.setCell, screen.setStyle (final bounds check)        *)
(* It follows the repaired code: a cell wider than the columns left at a    *)
(* level is refused, and Print / Wrap start a new row before a cluster that *)
(* does not fit.  The switches fx = [wide, measure] give the code as it was *)
(* found:                                                                   *)
(*   wide = FALSE     no overhang test at all (TLC then exhibits the wide-  *)
(*                    cluster-in-the-last-column escape);                   *)
(*   measure = FALSE  the overhang test trusts the width stated in the cell *)
(*                    (0 = "left to be measured" passes it although the     *)
(*                    renderer later measures the glyph as wide), and Wrap  *)
(*                    places and advances by the width of the Unicode       *)
(*                    tables (item field u) instead of the width the        *)
(*                    terminal gives the cluster (field w): its measuring   *)
(*                    loop assigned to a copy;                              *)
(*   style = FALSE    (only read by ISetStyle) SetStyle has no overhang     *)
(*                    test: it restyles the first column of a wide          *)
(*                    character whose second column is outside the window.  *)
EXTENDS Integers, Sequences

None == <<>>
AllFixed == [wide |-> TRUE, measure |-> TRUE, style |-> TRUE]

(* The width SetCell's overhang test sees for a cell stated dw wide that    *)
(* the terminal shows mw wide.                                              *)
Eff(dw, mw, fx) == IF dw # 0 THEN dw ELSE IF fx.measure THEN mw ELSE 0
(* The width of the Unicode tables for an item (w when not given). *)
UW(it) == IF "u" \in DOMAIN it THEN it.u ELSE it.w

(* A window value is [col, row, w, h, par]; par = index of the parent in    *)
(* the sequence of windows, 0 = no parent.  wins[1] is vx.Window().         *)
IRoot(cols, rows) == [col |-> 0, row |-> 0, w |-> cols, h |-> rows, par |-> 0]

INew(p, pi, c, r, cols, rows) ==
  [col |-> c, row |-> r,
   w |-> IF cols < 0 THEN p.w - c ELSE IF cols + c > p.w THEN p.w - c ELSE cols,
   h |-> IF rows < 0 THEN p.h - r ELSE IF rows + r > p.h THEN p.h - r ELSE rows,
   par |-> pi]

RECURSIVE IBuild(_, _, _)
IBuild(chain, i, wins) ==
  IF i > Len(chain) THEN wins
  ELSE LET lv == chain[i]
           n  == Len(wins)
           nw == CASE lv.m = "new" -> INew(wins[n], n, lv.c, lv.r, lv.w, lv.h)
                   [] lv.m = "raw" -> [col |-> lv.c, row |-> lv.r, w |-> lv.w, h |-> lv.h, par |-> n]
                   [] OTHER        -> [col |-> lv.c, row |-> lv.r, w |-> lv.w, h |-> lv.h, par |-> 0]
       IN IBuild(chain, i + 1, Append(wins, nw))

IScreenSet(x, y, cw, cols, rows, fx) ==
  IF x < 0 \/ y < 0 THEN None
  ELSE IF x >= cols THEN None
  ELSE IF y >= rows THEN None
  ELSE IF fx.wide /\ cw > 1 /\ x + cw > cols THEN None
  ELSE <<x, y>>

(* Window.SetCell of window i with a cell whose width, as the overhang test *)
(* sees it, is cw (= Eff(stated, shown, fx)): where the cell lands on the   *)
(* screen, or None.                                                         *)
RECURSIVE ISetCell(_, _, _, _, _, _, _, _)
ISetCell(wins, i, col, row, cw, cols, rows, fx) ==
  LET win == wins[i] IN
  IF row >= win.h \/ col >= win.w THEN None
  ELSE IF row < 0 \/ col < 0 THEN None
  ELSE IF fx.wide /\ cw > 1 /\ col + cw > win.w THEN None
  ELSE IF win.par = 0 THEN IScreenSet(col + win.col, row + win.row, cw, cols, rows, fx)
  ELSE ISetCell(wins, win.par, col + win.col, row + win.row, cw, cols, rows, fx)

(* Window.Origin: the screen position of the window's first cell. *)
RECURSIVE IOrigin(_, _)
IOrigin(wins, i) ==
  LET win == wins[i] IN
  IF win.par = 0 THEN <<win.col, win.row>>
  ELSE LET o == IOrigin(wins, win.par) IN <<o[1] + win.col, o[2] + win.row>>

(* Window.SetStyle of window i on a screen that holds one character two     *)
(* cells wide whose first column is the screen cell g (every other cell     *)
(* holds a narrow one): the screen cell whose style is changed, or None.    *)
(* The repaired code looks up, at every level, how wide the character in    *)
(* the addressed cell is and refuses one that overhangs that window.        *)
RECURSIVE ISetStyle(_, _, _, _, _, _, _, _)
ISetStyle(wins, i, col, row, g, cols, rows, fx) ==
  LET win == wins[i]
      o   == IOrigin(wins, i)
      cw  == IF <<o[1] + col, o[2] + row>> = g THEN 2 ELSE 1
  IN IF row >= win.h \/ col >= win.w THEN None
     ELSE IF row < 0 \/ col < 0 THEN None
     ELSE IF fx.style /\ cw > 1 /\ col + cw > win.w THEN None
     ELSE IF win.par = 0
          THEN LET x == col + win.col
                   y == row + win.row
               IN IF x < 0 \/ y < 0 \/ x >= cols \/ y >= rows THEN None ELSE <<x, y>>
     ELSE ISetStyle(wins, win.par, col + win.col, row + win.row, g, cols, rows, fx)

(* Window.Fill: the set of screen cells written. *)
IFill(wins, i, cols, rows, fx) ==
  {ISetCell(wins, i, c, r, 1, cols, rows, fx) : c \in 0..(wins[i].w - 1), r \in 0..(wins[i].h - 1)} \ {None}

----------------------------------------------------------------------------
(* Text helpers inside one window of size cols x rows: the sequence of      *)
(* SetCell calls [x, y, i, d] they make (i = index of the item, 0 = the      *)
(* ellipsis; d = the width stated in the cell).  items are already          *)
(* tab-expanded (Characters does that).                                     *)
Call(x, y, i, d) == [x |-> x, y |-> y, i |-> i, d |-> d]

RECURSIVE IPrint(_, _, _, _, _, _, _, _)
IPrint(items, i, col, row, calls, cols, rows, fx) ==
  IF i > Len(items) THEN calls
  ELSE LET it == items[i] IN
       IF it.k = "nl" THEN IPrint(items, i + 1, 0, row + 1, calls, cols, rows, fx)
       ELSE IF row > rows THEN calls
       ELSE LET wrapFirst == fx.wide /\ col + it.w > cols
                c0 == IF wrapFirst THEN 0 ELSE col
                r0 == IF wrapFirst THEN row + 1 ELSE row
                c1 == c0 + it.w
            IN IF c1 >= cols
               THEN IPrint(items, i + 1, 0, r0 + 1, Append(calls, Call(c0, r0, i, it.w)), cols, rows, fx)
               ELSE IPrint(items, i + 1, c1, r0, Append(calls, Call(c0, r0, i, it.w)), cols, rows, fx)

RECURSIVE IPrintlnFrom(_, _, _, _, _, _)
IPrintlnFrom(items, i, col, row, calls, cols) ==
  IF i > Len(items) THEN calls
  ELSE LET w == items[i].w IN
       IF col + w > cols THEN calls
       ELSE IPrintlnFrom(items, i + 1, col + w, row, Append(calls, Call(col, row, i, w)), cols)
IPrintln(items, row, cols, rows) == IF row >= rows THEN <<>> ELSE IPrintlnFrom(items, 1, 0, row, <<>>, cols)

RECURSIVE ITruncFrom(_, _, _, _, _, _)
ITruncFrom(items, i, col, row, calls, cols) ==
  IF i > Len(items) THEN calls
  ELSE LET w == items[i].w IN
       IF col + 1 + w > cols THEN Append(calls, Call(col, row, 0, 1))
       ELSE ITruncFrom(items, i + 1, col + w, row, Append(calls, Call(col, row, i, w)), cols)
ITrunc(items, row, cols, rows) == IF row >= rows THEN <<>> ELSE ITruncFrom(items, 1, 0, row, <<>>, cols)

(* Wrap: line segments end at a break opportunity (b = 1) or a line break.  *)
(* WW = the width Wrap works with: the terminal's when it measures, the     *)
(* Unicode tables' when its measurement is lost.                            *)
IEnds(it) == it.b = 1 \/ it.k = "nl"
WW(it, fx) == IF fx.measure THEN it.w ELSE UW(it)
RECURSIVE ISegTotal(_, _, _)
ISegTotal(items, i, fx) ==
  IF i > Len(items) THEN 0
  ELSE WW(items[i], fx) + (IF IEnds(items[i]) THEN 0 ELSE ISegTotal(items, i + 1, fx))

RECURSIVE IWrap(_, _, _, _, _, _, _, _)
IWrap(items, i, col, row, calls, cols, rows, fx) ==
  IF i > Len(items) THEN calls
  ELSE LET it == items[i]
           iw == WW(it, fx)
           first == i = 1 \/ IEnds(items[i - 1])
       IN IF first /\ row >= rows THEN calls
          ELSE LET total == ISegTotal(items, i, fx)
                   newline == first /\ ~(total > cols) /\ total + col > cols
                   c00 == IF newline THEN 0 ELSE col
                   r00 == IF newline THEN row + 1 ELSE row
               IN IF it.k = "nl" THEN IWrap(items, i + 1, 0, r00 + 1, calls, cols, rows, fx)
                  ELSE LET wrapFirst == fx.wide /\ c00 + iw > cols
                           c0 == IF wrapFirst THEN 0 ELSE c00
                           r0 == IF wrapFirst THEN r00 + 1 ELSE r00
                           c1 == c0 + iw
                       IN IF c1 >= cols
                          THEN IWrap(items, i + 1, 0, r0 + 1, Append(calls, Call(c0, r0, i, iw)), cols, rows, fx)
                          ELSE IWrap(items, i + 1, c1, r0, Append(calls, Call(c0, r0, i, iw)), cols, rows, fx)
=============================================================================
