---------------------------- MODULE WindowImpl ----------------------------
(* IMPLEMENTATION-SHAPED module (not an oracle, produces no verdicts): a    *)
(* transcription of the library's window code for exhaustive exploration    *)
(* against the Clip and TextLayout oracles.                                 *)
(*   window.go  Window.New (size clamping), Window.SetCell (per-level       *)
(*              bounds check, then delegation to the parent), Fill, Print,  *)
(*              Println, PrintTruncate, Wrap                                *)
(*   screen.go  screen.setCell (final bounds check)                         *)
(* It follows the repaired code: a cell wider than the columns left at a    *)
(* level is refused, and Print / Wrap start a new row before a cluster that *)
(* does not fit.  Setting Repaired to FALSE gives the code as it was found  *)
(* (TLC then exhibits the wide-cluster-in-the-last-column escape).          *)
EXTENDS Integers, Sequences

None == <<>>

(* A window value is [col, row, w, h, par]; par = index of the parent in    *)
(* the sequence of windows, 0 = no parent.  wins[1] is vx.Window().         *)
IRoot(cols, rows) == [col |-> 0, row |-> 0, w |-> cols, h |-> rows, par |-> 0]

INew(p, pi, c, r, cols, rows) ==
  [col |-> c, row |-> r,
   w |-> IF cols < 0 THEN p.w - c ELSE IF cols + c > p.w THEN p.w - c ELSE cols,
   h |-> IF rows < 0 THEN p.h - r ELSE IF rows + r > p.h THEN p.h - r ELSE rows,
   par |-> pi]

RECURSIVE IBuild(_, _, _)
IBuild(chain, i, wins) ==
  IF i > Len(chain) THEN wins
  ELSE LET lv == chain[i]
           n  == Len(wins)
           nw == CASE lv.m = "new" -> INew(wins[n], n, lv.c, lv.r, lv.w, lv.h)
                   [] lv.m = "raw" -> [col |-> lv.c, row |-> lv.r, w |-> lv.w, h |-> lv.h, par |-> n]
                   [] OTHER        -> [col |-> lv.c, row |-> lv.r, w |-> lv.w, h |-> lv.h, par |-> 0]
       IN IBuild(chain, i + 1, Append(wins, nw))

IScreenSet(x, y, cw, cols, rows, repaired) ==
  IF x < 0 \/ y < 0 THEN None
  ELSE IF x >= cols THEN None
  ELSE IF y >= rows THEN None
  ELSE IF repaired /\ cw > 1 /\ x + cw > cols THEN None
  ELSE <<x, y>>

(* Window.SetCell of window i with a cell cw columns wide: where the cell   *)
(* lands on the screen, or None.                                            *)
RECURSIVE ISetCell(_, _, _, _, _, _, _, _)
ISetCell(wins, i, col, row, cw, cols, rows, repaired) ==
  LET win == wins[i] IN
  IF row >= win.h \/ col >= win.w THEN None
  ELSE IF row < 0 \/ col < 0 THEN None
  ELSE IF repaired /\ cw > 1 /\ col + cw > win.w THEN None
  ELSE IF win.par = 0 THEN IScreenSet(col + win.col, row + win.row, cw, cols, rows, repaired)
  ELSE ISetCell(wins, win.par, col + win.col, row + win.row, cw, cols, rows, repaired)

(* Window.Fill: the set of screen cells written. *)
IFill(wins, i, cols, rows, repaired) ==
  {ISetCell(wins, i, c, r, 1, cols, rows, repaired) : c \in 0..(wins[i].w - 1), r \in 0..(wins[i].h - 1)} \ {None}

----------------------------------------------------------------------------
(* Text helpers inside one window of size cols x rows: the sequence of      *)
(* SetCell calls [x, y, i] they make (i = index of the item, 0 = ellipsis). *)
(* items are already tab-expanded (Characters does that).                   *)
Call(x, y, i) == [x |-> x, y |-> y, i |-> i]

RECURSIVE IPrint(_, _, _, _, _, _, _, _)
IPrint(items, i, col, row, calls, cols, rows, repaired) ==
  IF i > Len(items) THEN calls
  ELSE LET it == items[i] IN
       IF it.k = "nl" THEN IPrint(items, i + 1, 0, row + 1, calls, cols, rows, repaired)
       ELSE IF row > rows THEN calls
       ELSE LET wrapFirst == repaired /\ col + it.w > cols
                c0 == IF wrapFirst THEN 0 ELSE col
                r0 == IF wrapFirst THEN row + 1 ELSE row
                c1 == c0 + it.w
            IN IF c1 >= cols
               THEN IPrint(items, i + 1, 0, r0 + 1, Append(calls, Call(c0, r0, i)), cols, rows, repaired)
               ELSE IPrint(items, i + 1, c1, r0, Append(calls, Call(c0, r0, i)), cols, rows, repaired)

RECURSIVE IPrintlnFrom(_, _, _, _, _, _)
IPrintlnFrom(items, i, col, row, calls, cols) ==
  IF i > Len(items) THEN calls
  ELSE LET w == items[i].w IN
       IF col + w > cols THEN calls
       ELSE IPrintlnFrom(items, i + 1, col + w, row, Append(calls, Call(col, row, i)), cols)
IPrintln(items, row, cols, rows) == IF row >= rows THEN <<>> ELSE IPrintlnFrom(items, 1, 0, row, <<>>, cols)

RECURSIVE ITruncFrom(_, _, _, _, _, _)
ITruncFrom(items, i, col, row, calls, cols) ==
  IF i > Len(items) THEN calls
  ELSE LET w == items[i].w IN
       IF col + 1 + w > cols THEN Append(calls, Call(col, row, 0))
       ELSE ITruncFrom(items, i + 1, col + w, row, Append(calls, Call(col, row, i)), cols)
ITrunc(items, row, cols, rows) == IF row >= rows THEN <<>> ELSE ITruncFrom(items, 1, 0, row, <<>>, cols)

(* Wrap: line segments end at a break opportunity (b = 1) or a line break. *)
IEnds(it) == it.b = 1 \/ it.k = "nl"
RECURSIVE ISegTotal(_, _)
ISegTotal(items, i) ==
  IF i > Len(items) THEN 0
  ELSE items[i].w + (IF IEnds(items[i]) THEN 0 ELSE ISegTotal(items, i + 1))

RECURSIVE IWrap(_, _, _, _, _, _, _, _)
IWrap(items, i, col, row, calls, cols, rows, repaired) ==
  IF i > Len(items) THEN calls
  ELSE LET it == items[i]
           first == i = 1 \/ IEnds(items[i - 1])
       IN IF first /\ row >= rows THEN calls
          ELSE LET total == ISegTotal(items, i)
                   newline == first /\ ~(total > cols) /\ total + col > cols
                   c00 == IF newline THEN 0 ELSE col
                   r00 == IF newline THEN row + 1 ELSE row
               IN IF it.k = "nl" THEN IWrap(items, i + 1, 0, r00 + 1, calls, cols, rows, repaired)
                  ELSE LET wrapFirst == repaired /\ c00 + it.w > cols
                           c0 == IF wrapFirst THEN 0 ELSE c00
                           r0 == IF wrapFirst THEN r00 + 1 ELSE r00
                           c1 == c0 + it.w
                       IN IF c1 >= cols
                          THEN IWrap(items, i + 1, 0, r0 + 1, Append(calls, Call(c0, r0, i)), cols, rows, repaired)
                          ELSE IWrap(items, i + 1, c1, r0, Append(calls, Call(c0, r0, i)), cols, rows, repaired)
=============================================================================
