--------------------------- MODULE Surface_Trace ---------------------------
(* Trace validation for C14.  One shard holds many scenarios separated by   *)
(* "reset".  Scenario kinds:                                                *)
(*   surf  - NewSurface / WriteCell / AddChild calls with the observed      *)
(*           buffer length and the set of buffer positions that changed;    *)
(*   draw  - Draw of a (nested) built-in widget under a constraint with the *)
(*           returned surface tree and the constraint/size pairs seen by    *)
(*           probe widgets wrapped around every child;                      *)
(*   paint - a surface tree rendered by the real App.Run onto a fake        *)
(*           console: the terminal commands are stepped through the RefTerm *)
(*           oracle and at "paint" the reference screen must conform to     *)
(*           Surface!Want(tree) (Surface!ScreenConforms).                   *)
(* A panic anywhere is a rejection, and so is a Draw that does not return   *)
(* (LayoutRel!Returns).                                                     *)
EXTENDS RefTerm, TLC, Json, IOUtils

S == INSTANCE Surface
L == INSTANCE LayoutRel

Trace == ndJsonDeserialize(IOEnv.TRACE)

VARIABLES l, t, failed
vars == <<l, t, failed>>

Init == l = 1 /\ t = InitTerm(1, 1, FALSE) /\ failed = FALSE

ToSet(seq) == {seq[i] : i \in 1..Len(seq)}

(* what the reference terminal displays, in the vocabulary of Surface!CellConforms *)
Shown(tt) ==
  [y \in 1..tt.rows |-> [x \in 1..tt.cols |->
     LET c == tt.grid[y][x] IN
     IF c.k = "g" THEN [k |-> "g", g |-> c.g, w |-> c.w, fg |-> c.st.fg,
                        plain |-> (c.st.bg = 0 /\ c.st.ul = 0 /\ c.st.us = 0 /\ c.st.at = 0 /\ c.ln = 0)]
     ELSE [k |-> c.k]]]

(* a painted frame: the flush is clean, the cursor hidden, and every cell   *)
(* conforms to Surface!Want(tree); a row that holds a cell the property     *)
(* says nothing about (Surface!RowJudged) is not judged                     *)
PaintWhy(e, tt) ==
  LET want == S!Want(e.tree, tt.rows, tt.cols) IN
  IF tt.pen # DefaultPen THEN "pen-not-reset"
  ELSE IF tt.link # 0 THEN "hyperlink-open"
  ELSE IF tt.sync THEN "sync-unbalanced"
  ELSE IF ~CursorOK(tt, <<0, 0, 0, 0>>) THEN "cursor"
  ELSE IF S!ScreenConformsJ(Shown(tt), want, tt.rows, tt.cols) THEN ""
  ELSE "cells"

(* verdict of one observation: "" = conforms, otherwise the failing clause  *)
Why(e, tt) ==
  IF e.panic THEN "panic"
  ELSE CASE e.ev = "new"      -> IF e.len >= S!Cells(e.w, e.h) THEN "" ELSE "buffer-too-small"
         [] e.ev = "write"    -> IF ToSet(e.changed) = S!WriteEffect(e.w, e.h, e.c, e.r) THEN ""
                                 ELSE IF S!Inside(e.w, e.h, e.c, e.r) THEN "wrong-cell" ELSE "not-ignored"
         [] e.ev = "addchild" -> IF S!AddChildOK(e.before, e.col, e.row, e.after, e.ox, e.oy) THEN "" ELSE "origin"
         [] e.ev = "draw"     -> IF ~L!Returns(e) THEN "does-not-return"
                                 ELSE IF ~L!SizeOK(e.root.w, e.root.h, e.maxw, e.maxh) THEN "larger-than-max"
                                 ELSE IF ~L!ProbesOK(e.probes) THEN "child-larger-than-max"
                                 ELSE IF ~L!TreeOK(e.root) THEN "not-centred"
                                 ELSE ""
         [] e.ev = "paint"    -> PaintWhy(e, tt)
         [] OTHER             -> "unknown-event"

Detail(e, tt) ==
  CASE e.ev = "paint" -> [bad |-> S!FirstBad(Shown(tt), S!Want(e.tree, tt.rows, tt.cols), tt.rows, tt.cols)]
    [] e.ev = "draw"  -> [kinds |-> L!BadKinds(e.root) \cup L!BadProbes(e.probes),
                          maxw |-> e.maxw, maxh |-> e.maxh, w |-> e.root.w, h |-> e.root.h, pmsg |-> e.pmsg]
    [] e.ev = "write" -> [w |-> e.w, h |-> e.h, c |-> e.c, r |-> e.r, changed |-> e.changed, pmsg |-> e.pmsg]
    [] e.ev = "new"   -> [w |-> e.w, h |-> e.h, len |-> e.len, pmsg |-> e.pmsg]
    [] OTHER          -> [x |-> 0]

Checked == {"new", "write", "addchild", "draw", "paint"}

Next ==
  /\ l <= Len(Trace)
  /\ l' = l + 1
  /\ LET e == Trace[l] IN
     IF e.ev = "reset" THEN
        /\ t' = InitTerm(e.rows, e.cols, FALSE)
        /\ failed' = FALSE
     ELSE IF failed THEN UNCHANGED <<t, failed>>
     ELSE IF e.ev \in Checked \/ e.ev = "panic" THEN
        /\ UNCHANGED t
        /\ LET why == IF e.ev = "panic" THEN "panic" ELSE Why(e, t) IN
           IF why = "" THEN UNCHANGED failed
           ELSE /\ failed' = TRUE
                /\ PrintT("REJECT " \o ToJson([scn |-> e.scn, line |-> l, op |-> e.ev, why |-> why,
                                               d |-> IF e.ev = "panic" THEN [pmsg |-> e.pmsg] ELSE Detail(e, t)]))
     ELSE
        /\ t' = Step(t, e)
        /\ UNCHANGED failed

Spec == Init /\ [][Next]_vars

Consumed == TLCGet("stats").diameter - 1 = Len(Trace)
=============================================================================
