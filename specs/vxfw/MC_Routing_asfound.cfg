CONSTANTS
  StalePath = TRUE
  AllSiblings = TRUE
  EnterOnFocusIn = TRUE
  StaleTarget = FALSE
  FastPath = FALSE
  Depth = 3
  Shapes = {"A"}
SPECIFICATION Spec
INVARIANTS Conforms
CHECK_DEADLOCK FALSE
