CONSTANTS
  StalePath = TRUE
  AllSiblings = TRUE
  EnterOnFocusIn = TRUE
  StaleTarget = FALSE
  FastPath = FALSE
  Reentrant = FALSE
  LiveTarget = FALSE
  BubbleSkipsLast = FALSE
  ConsumeLeak = FALSE
  DupSelf = FALSE
  Answers = FALSE
  Depth = 3
  Shapes = {"A"}
SPECIFICATION Spec
INVARIANTS Conforms
CHECK_DEADLOCK FALSE
