----------------------------- MODULE MC_Surface -----------------------------
(* Exhaustive bounded model for C14.                                        *)
(*  (1) Oracle sanity theorems of Surface.tla over all sizes in Sizes^2 and *)
(*      all coordinates in Coords^2: the index of an inside cell is inside  *)
(*      the buffer, distinct inside cells have distinct indices, an outside *)
(*      write changes nothing.                                              *)
(*  (2) The implementation-shaped transcription (SurfaceImpl) agrees with   *)
(*      the oracle on every such write, and its painter's-algorithm render  *)
(*      through clipped windows agrees with the oracle's declarative        *)
(*      Screen on every tree of a bounded family (root, two overlapping     *)
(*      children in either list order with every z relation, a grandchild   *)
(*      hanging over its parent's edge, negative and overflowing origins).  *)
(* MC_Surface_u16.cfg instantiates the transcription with the arithmetic of *)
(* the code as found (uint16, row <= Height): TLC must refute AddrConforms. *)
(*  (3) The same for trees with wide graphemes (WTrees).  MC_Surface_wide   *)
(*      .cfg instantiates the painter as found (WideFix = FALSE: a wide     *)
(*      cell whose right half was painted over stays in the screen buffer): *)
(*      TLC must refute PaintConforms.                                      *)
EXTENDS Integers, Sequences, FiniteSets, TLC
CONSTANTS Bits, RowIncl, RootClip, WideFix, Sizes, Coords, Rows, Cols, XS, YS, WS, HS, ZS, GXS

O == INSTANCE Surface
I == INSTANCE SurfaceImpl

VARIABLES a, tr
vars == <<a, tr>>

(* TLC integers are 32 bit: keep w*h below 2^31 *)
AddrCases == {x \in [w : Sizes, h : Sizes, c : Coords, r : Coords] : x.w <= 1000 \/ x.h <= 1000}
NoCase == [w |-> 0, h |-> 0, c |-> 0, r |-> 0]

Leaf(w, h, id) == [w |-> w, h |-> h, fg |-> id,
                   cells |-> IF w > 0 /\ h > 0 THEN <<<<0, 0, id, 1>>, <<w - 1, h - 1, id + 10, 1>>>> ELSE <<>>,
                   kids |-> <<>>]
Kid(x, y, z, s) == [x |-> x, y |-> y, z |-> z, s |-> s]

Trees ==
  {LET g == Kid(gx, 0, 0, Leaf(2, 2, 4))
       ka == Kid(x, y, z, [Leaf(w, h, 2) EXCEPT !.kids = <<g>>])
       kb == Kid(1, 0, 0, Leaf(2, 2, 3))
   IN [Leaf(rw, Rows, 1) EXCEPT !.kids = IF first THEN <<ka, kb>> ELSE <<kb, ka>>]
   : x \in XS, y \in YS, w \in WS, h \in HS, z \in ZS, gx \in GXS, rw \in {Cols - 1, Cols + 1}, first \in BOOLEAN}
NoTree == Leaf(0, 0, 0)

(* Trees with wide graphemes (one row, WCols columns): a root with a wide   *)
(* cell of its own, a child A holding narrow (n) and wide (W) cells in      *)
(* every arrangement of four columns, and a child B (narrow, wide, mixed or *)
(* unwritten) at every column, below or above A, in either list order: B    *)
(* (or A) lands on the left half, the right half or both halves of a wide   *)
(* cell of the surface under it.  Wide cells never hang over the edge of    *)
(* their surface, and every surface is inside the root (Surface!Want has    *)
(* nothing to say otherwise).                                               *)
WCols == 6
N(c, id) == <<c, 0, id, 1>>
W(c, id) == <<c, 0, id, 2>>
APats == {<<W(0, 20), W(2, 21)>>, <<N(0, 22), W(1, 20), N(3, 23)>>, <<N(0, 22), N(1, 23), W(2, 20)>>,
          <<W(0, 20), N(2, 22), N(3, 23)>>, <<N(0, 22), N(1, 23), N(2, 24), N(3, 25)>>}
BPats == {[w |-> 1, cells |-> <<N(0, 30)>>], [w |-> 2, cells |-> <<W(0, 31)>>],
          [w |-> 3, cells |-> <<N(0, 30), W(1, 31)>>], [w |-> 3, cells |-> <<W(0, 31), N(2, 30)>>],
          [w |-> 2, cells |-> <<>>]}
WTree(pa, pb, x, z, first) ==
  LET ka == Kid(1, 0, 0, [w |-> 4, h |-> 1, fg |-> 2, cells |-> pa, kids |-> <<>>])
      kb == Kid(x, 0, z, [w |-> pb.w, h |-> 1, fg |-> 3, cells |-> pb.cells, kids |-> <<>>])
  IN [w |-> WCols, h |-> 1, fg |-> 1, cells |-> <<W(0, 10), N(2, 11), N(3, 12), W(4, 13)>>,
      kids |-> IF first THEN <<ka, kb>> ELSE <<kb, ka>>]
WTrees == UNION {{WTree(pa, pb, x, z, first) : pa \in APats, x \in 0..(WCols - pb.w), z \in {-1, 1}, first \in BOOLEAN}
                 : pb \in BPats}

Init == \/ a \in AddrCases /\ tr = NoTree
        \/ a = NoCase /\ tr \in Trees \cup WTrees
Next == UNCHANGED vars
Spec == Init /\ [][Next]_vars

(* constant sets with negative members (not expressible in a .cfg) *)
XSq == {-1, 0, 1, 2, 3}
YSq == {-1, 0, 1, 2}
ZSq == {-1, 0, 1}
GXSq == {-1, 0, 1}
XSd == {-2, -1, 0, 1, 2, 3}
YSd == {-2, -1, 0, 1, 2, 3}
GXSd == {-2, -1, 0, 1, 2}

(* (1) oracle sanity *)
IndexInBuffer == O!Inside(a.w, a.h, a.c, a.r) => O!Index(a.w, a.c, a.r) \in 0..(O!Cells(a.w, a.h) - 1)
IndexInjective ==
  O!Inside(a.w, a.h, a.c, a.r) =>
    \A c2 \in Coords, r2 \in Coords :
      (O!Inside(a.w, a.h, c2, r2) /\ O!Index(a.w, c2, r2) = O!Index(a.w, a.c, a.r)) => (c2 = a.c /\ r2 = a.r)
OutsideIgnored == ~O!Inside(a.w, a.h, a.c, a.r) => O!WriteEffect(a.w, a.h, a.c, a.r) = {}
EffectSmall == Cardinality(O!WriteEffect(a.w, a.h, a.c, a.r)) <= 1

(* (2) transcription against oracle *)
AddrConforms ==
  /\ I!ImplLen(a.w, a.h) >= O!Cells(a.w, a.h)
  /\ LET res == I!ImplWrite(a.w, a.h, a.c, a.r)
     IN ~res.panic /\ res.changed = O!WriteEffect(a.w, a.h, a.c, a.r)
IsWide == tr.w = WCols               \* the roots of Trees are Cols - 1 or Cols + 1 wide
ScrRows == IF IsWide THEN 1 ELSE Rows
ScrCols == IF IsWide THEN WCols ELSE Cols
(* (bound variables instead of LET: TLC evaluates them once) *)
PaintConforms ==
  \A want \in {O!Want(tr, ScrRows, ScrCols)} : \A shown \in {I!ImplScreen(tr, ScrRows, ScrCols)} :
    O!Judged(want, ScrRows, ScrCols) =>
       \A y \in 1..ScrRows : \A x \in 1..ScrCols : O!CellConforms(shown[y][x], want[y][x])
(* the wide family is inside what the oracle states (nothing is skipped) *)
WideJudged == IsWide => O!Judged(O!Want(tr, 1, WCols), 1, WCols)
=============================================================================
