----------------------------- MODULE MC_Surface -----------------------------
(* Exhaustive bounded model for C14.                                        *)
(*  (1) Oracle sanity theorems of Surface.tla over all sizes in Sizes^2 and *)
(*      all coordinates in Coords^2: the index of an inside cell is inside  *)
(*      the buffer, distinct inside cells have distinct indices, an outside *)
(*      write changes nothing.                                              *)
(*  (2) The implementation-shaped transcription (SurfaceImpl) agrees with   *)
(*      the oracle on every such write, and its painter's-algorithm render  *)
(*      through clipped windows agrees with the oracle's declarative        *)
(*      Screen on every tree of a bounded family (root, two overlapping     *)
(*      children in either list order with every z relation, a grandchild   *)
(*      hanging over its parent's edge, negative and overflowing origins).  *)
(* MC_Surface_u16.cfg instantiates the transcription with the arithmetic of *)
(* the code as found (uint16, row <= Height): TLC must refute AddrConforms. *)
EXTENDS Integers, Sequences, FiniteSets, TLC
CONSTANTS Bits, RowIncl, RootClip, Sizes, Coords, Rows, Cols, XS, YS, WS, HS, ZS, GXS

O == INSTANCE Surface
I == INSTANCE SurfaceImpl

VARIABLES a, tr
vars == <<a, tr>>

(* TLC integers are 32 bit: keep w*h below 2^31 *)
AddrCases == {x \in [w : Sizes, h : Sizes, c : Coords, r : Coords] : x.w <= 1000 \/ x.h <= 1000}
NoCase == [w |-> 0, h |-> 0, c |-> 0, r |-> 0]

Leaf(w, h, id) == [w |-> w, h |-> h, fg |-> id,
                   cells |-> IF w > 0 /\ h > 0 THEN <<<<0, 0, id>>, <<w - 1, h - 1, id + 10>>>> ELSE <<>>,
                   kids |-> <<>>]
Kid(x, y, z, s) == [x |-> x, y |-> y, z |-> z, s |-> s]

Trees ==
  {LET g == Kid(gx, 0, 0, Leaf(2, 2, 4))
       ka == Kid(x, y, z, [Leaf(w, h, 2) EXCEPT !.kids = <<g>>])
       kb == Kid(1, 0, 0, Leaf(2, 2, 3))
   IN [Leaf(rw, Rows, 1) EXCEPT !.kids = IF first THEN <<ka, kb>> ELSE <<kb, ka>>]
   : x \in XS, y \in YS, w \in WS, h \in HS, z \in ZS, gx \in GXS, rw \in {Cols - 1, Cols + 1}, first \in BOOLEAN}
NoTree == Leaf(0, 0, 0)

Init == \/ a \in AddrCases /\ tr = NoTree
        \/ a = NoCase /\ tr \in Trees
Next == UNCHANGED vars
Spec == Init /\ [][Next]_vars

(* constant sets with negative members (not expressible in a .cfg) *)
XSq == {-1, 0, 1, 2, 3}
YSq == {-1, 0, 1, 2}
ZSq == {-1, 0, 1}
GXSq == {-1, 0, 1}
XSd == {-2, -1, 0, 1, 2, 3}
YSd == {-2, -1, 0, 1, 2, 3}
GXSd == {-2, -1, 0, 1, 2}

(* (1) oracle sanity *)
IndexInBuffer == O!Inside(a.w, a.h, a.c, a.r) => O!Index(a.w, a.c, a.r) \in 0..(O!Cells(a.w, a.h) - 1)
IndexInjective ==
  O!Inside(a.w, a.h, a.c, a.r) =>
    \A c2 \in Coords, r2 \in Coords :
      (O!Inside(a.w, a.h, c2, r2) /\ O!Index(a.w, c2, r2) = O!Index(a.w, a.c, a.r)) => (c2 = a.c /\ r2 = a.r)
OutsideIgnored == ~O!Inside(a.w, a.h, a.c, a.r) => O!WriteEffect(a.w, a.h, a.c, a.r) = {}
EffectSmall == Cardinality(O!WriteEffect(a.w, a.h, a.c, a.r)) <= 1

(* (2) transcription against oracle *)
AddrConforms ==
  /\ I!ImplLen(a.w, a.h) >= O!Cells(a.w, a.h)
  /\ LET res == I!ImplWrite(a.w, a.h, a.c, a.r)
     IN ~res.panic /\ res.changed = O!WriteEffect(a.w, a.h, a.c, a.r)
PaintConforms == I!ImplScreen(tr, Rows, Cols) = O!Screen(tr, Rows, Cols)
=============================================================================
