----------------------------- MODULE LayoutRel -----------------------------
(* Oracle for the "layout contract" half of C14, from the property text and *)
(* the documentation of vxfw.DrawContext ("Max: the maximum size the widget *)
(* must render as; math.MaxUint16 in either dimension means no limit"):     *)
(*   - a widget returns a surface no larger than the maximum it was given;  *)
(*   - a centring widget places a child that fits fully inside itself with  *)
(*     margins equal to within one cell.                                    *)
(*   - a widget RETURNS a surface for zero, tiny and very large constraints *)
(*     and contents: a Draw that never comes back is no better than one     *)
(*     that panics. An observation carries ret = FALSE when the call did    *)
(*     not come back within the observer's budget (a list that is still     *)
(*     asking for further rows after thousands of times the number of lines *)
(*     of its viewport).                                                    *)
(* A drawn node is [kind, w, h, kids] with kids = sequence of [x, y, n].    *)
EXTENDS Integers, Sequences

Unbounded == 65535

DimOK(v, m) == m = Unbounded \/ v <= m
SizeOK(w, h, mw, mh) == DimOK(w, mw) /\ DimOK(h, mh)

Returns(obs) == obs.ret

Abs(x) == IF x < 0 THEN -x ELSE x

(* child of extent c at offset off inside parent extent p *)
Centred(p, c, off) == /\ off >= 0 /\ off + c <= p
                      /\ Abs(off - (p - c - off)) <= 1

Fits(n, p) == n.w <= p.w /\ n.h <= p.h

CentringKinds == {"center", "button"}

KidOK(p, k) == (p.kind \in CentringKinds /\ Fits(k.n, p)) =>
                  (Centred(p.w, k.n.w, k.x) /\ Centred(p.h, k.n.h, k.y))

RECURSIVE TreeOK(_)
TreeOK(n) == \A i \in 1..Len(n.kids) : KidOK(n, n.kids[i]) /\ TreeOK(n.kids[i].n)

(* first failing clause, for the signature *)
RECURSIVE BadKinds(_)
BadKinds(n) ==
  UNION {(IF KidOK(n, n.kids[i]) THEN {} ELSE {n.kind}) \cup BadKinds(n.kids[i].n) : i \in 1..Len(n.kids)}

ProbesOK(ps) == \A i \in 1..Len(ps) : SizeOK(ps[i].w, ps[i].h, ps[i].mw, ps[i].mh)
BadProbes(ps) == {ps[i].kind : i \in {j \in 1..Len(ps) : ~SizeOK(ps[j].w, ps[j].h, ps[j].mw, ps[j].mh)}}
=============================================================================
