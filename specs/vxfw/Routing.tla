------------------------------ MODULE Routing ------------------------------
(* Oracle for C15, written from the property text and the vxfw public       *)
(* documentation (Widget.HandleEvent(event, phase), EventCapturer           *)
(* ("captures events before they are delivered to the target; must be an    *)
(* ancestor of the target"), the Command types).  No implementation         *)
(* identifier appears here.                                                 *)
(*                                                                          *)
(* A widget tree is T = [n, parent, caps]: widgets 1..n, 1 is the root,     *)
(* parent[w] (0 for the root), caps[w] = w implements EventCapturer.        *)
(* A session has one such tree per layout (a widget may be drawn by         *)
(* different parents in different layouts): S = [n, pars, caps, lays],      *)
(* At(S, k) is the tree of layout k.  The tree that counts for the chain    *)
(* under the pointer, the hover set, the route of a mouse event and the     *)
(* path to the focused widget is the tree of the LAST DRAWN FRAME.          *)
(* A layout L is a sequence of [x, y, w, h, z, hid] per widget: origin      *)
(* relative to the parent, size, z-index (the last drawn frame); hid = the  *)
(* widget is not drawn by its parent in that layout (it and its subtree are *)
(* not part of the frame).                                                  *)
(* An offer is [w, ph, cls, ret]: widget, phase "cap"/"tgt"/"bub", event    *)
(* class, and the command tree the handler returned.                        *)
(*                                                                          *)
(* What is demanded (and nothing else):                                     *)
(*  R1 a non-mouse event is offered to the capturing proper ancestors of    *)
(*     the focused widget root-first, then to the focused widget, then to   *)
(*     its ancestors nearest-first; it stops at the first consume.          *)
(*     Whether a capturing *target* also sees the event in the capture      *)
(*     phase is left open (the statement says "ancestors"; DOM-like         *)
(*     frameworks differ), so that offer is optional.                       *)
(*     R1u When the widget holding the focus is not part of the last drawn  *)
(*     frame (focused before a frame containing it was drawn) its ancestors *)
(*     are not defined, so only this much is demanded: the phases come in   *)
(*     the order capture, target, bubble; the one target-phase offer goes   *)
(*     to the focused widget and to nobody else; nothing follows a consume. *)
(*     Who gets capture / bubble offers is left open, except that it is ONE *)
(*     set of ancestors in both phases: whoever (other than the focused     *)
(*     widget) is offered the event in the capture phase is offered it in   *)
(*     the bubble phase unless it was consumed, the capturing widgets among *)
(*     those bubbled to were offered it in the capture phase, in the        *)
(*     opposite order, and the focused widget is not bubbled to.            *)
(*     R1m A handler may move the focus while the event is being routed     *)
(*     (a focus command without consume).  The property speaks of "the      *)
(*     focused widget" and ITS ancestors, so the whole route is that of one *)
(*     widget that held the focus at some moment of the dispatch (at its    *)
(*     start or after one of the changes made during it); which of them is  *)
(*     left open.  Only the handlers offered the event itself can consume   *)
(*     it: a consume returned for a notification (focus-in/out, mouse       *)
(*     enter/leave) sent meanwhile concerns that notification.              *)
(*     R1o On one route a widget is offered the event at most once as a     *)
(*     capturing ancestor and at most once as the target or a bubbling      *)
(*     ancestor (it is one or the other).                                   *)
(*  R2 a mouse event is routed the same way along the chain root ->         *)
(*     topmost child containing the point -> ... ; the deepest is the       *)
(*     target.                                                              *)
(*     R2t The statement orders overlapping children by z-order only: among *)
(*     children of EQUAL z-index that contain the point, which one is on    *)
(*     top is left open.  But "the chain of widgets under the pointer" is   *)
(*     ONE chain for one drawn frame and one point: the chain a frame       *)
(*     establishes under a resting pointer (its hover set) is the chain     *)
(*     along which every mouse event at that point is routed until the next *)
(*     frame, a mouse event at the point of the previous one is routed      *)
(*     along the same chain, and a frame drawn again from the same tree and *)
(*     layout under a resting pointer leaves the chain as it is (neither    *)
(*     the pointer nor any widget moved: nobody is entered or left).        *)
(*  R3 every focus command naming a widget other than the focused one       *)
(*     yields exactly one focus-out to the old and one focus-in to the new  *)
(*     widget (order between the two left open); naming the focused widget  *)
(*     yields nothing.  Nobody else changes the focus, except: when a       *)
(*     frame has been laid out that does not contain the focused widget,    *)
(*     the framework may (need not) move the focus elsewhere, which is a    *)
(*     focus change like any other (one out, one in).                       *)
(*     When the handler of a focus-out / focus-in notification itself       *)
(*     returns a focus command, the order in which competing commands take  *)
(*     effect is left open; demanded is then only: the notifications come   *)
(*     in pairs, each pair one focus-out to the widget focused so far and   *)
(*     one focus-in to another widget, which from then on is the focused    *)
(*     one (so: per widget in/out alternate, at most one widget is focused),*)
(*     each change is the effect of one focus command returned before it    *)
(*     naming its new widget, no command is used for two changes, and at    *)
(*     least one change happens when some command names a widget other      *)
(*     than the one focused at the start.                                   *)
(*  R4 per widget, mouse-enter and mouse-leave alternate starting with      *)
(*     enter; after a mouse event exactly the chain is hovered; after       *)
(*     the pointer leaves the root or the terminal loses focus nothing is.  *)
(*  R5 redraw: a pending redraw is followed by a frame before the next      *)
(*     event, and the frame clears it (frames for other reasons, e.g. the   *)
(*     start-up resize, are not forbidden);                                 *)
(*     refresh: exactly the next frame is a full repaint; quit: the run     *)
(*     ends after the event being handled (or the frame whose notification  *)
(*     handler asked for it: no further event is dispatched) and not        *)
(*     otherwise; consume: R1;                                              *)
(*     batches (of either kind, nested) are the concatenation of their      *)
(*     members.                                                             *)
EXTENDS Integers, Sequences, FiniteSets

Rev(s)   == [i \in 1..Len(s) |-> s[Len(s) + 1 - i]]
Front(s) == SubSeq(s, 1, Len(s) - 1)
Last(s)  == s[Len(s)]
Range(s) == {s[i] : i \in 1..Len(s)}

(* ---- commands -------------------------------------------------------------*)
RECURSIVE Flat(_), FlatSeq(_)
Flat(c) == IF c.c \in {"batch", "slice"} THEN FlatSeq(c.l) ELSE <<c>>
FlatSeq(l) == IF l = <<>> THEN <<>> ELSE Flat(Head(l)) \o FlatSeq(Tail(l))

Has(ret, name) == \E i \in 1..Len(Flat(ret)) : Flat(ret)[i].c = name
(* widgets named by the focus commands of a returned tree, in order *)
FocusCmds(ret) == LET f == SelectSeq(Flat(ret), LAMBDA c : c.c = "focus")
                  IN [i \in 1..Len(f) |-> f[i].w]

(* ---- paths and chains -------------------------------------------------------*)
At(S, k) == [n |-> S.n, parent |-> S.pars[k], caps |-> S.caps, lays |-> S.lays]
RECURSIVE PathTo(_, _)
PathTo(T, w) == IF w = 0 THEN <<>> ELSE Append(PathTo(T, T.parent[w]), w)

In(g, px, py) == ~g.hid /\ px >= g.x /\ px < g.x + g.w /\ py >= g.y /\ py < g.y + g.h
(* w is part of the frame drawn from layout L *)
Present(T, L, w) == \A i \in 1..Len(PathTo(T, w)) : ~L[PathTo(T, w)[i]].hid
(* painted later = on top: higher z-index, then later sibling *)
OnTop(L, k, j) == L[k].z > L[j].z \/ (L[k].z = L[j].z /\ k >= j)

RECURSIVE ChainFrom(_, _, _, _, _)
ChainFrom(T, L, w, px, py) ==       \* (px,py) relative to w's origin and inside w
  LET kids == {k \in 1..T.n : T.parent[k] = w /\ In(L[k], px, py)}
  IN IF kids = {} THEN <<w>>
     ELSE LET top == CHOOSE k \in kids : \A j \in kids : OnTop(L, k, j)
          IN <<w>> \o ChainFrom(T, L, top, px - L[top].x, py - L[top].y)

(* chain of widgets under screen point (x,y); <<>> when outside the root *)
HitChain(T, L, x, y) ==
  IF x >= 0 /\ y >= 0 /\ x < L[1].w /\ y < L[1].h THEN ChainFrom(T, L, 1, x, y) ELSE <<>>

(* R2t: all chains under (x,y) when ties among equal z-indices are left open *)
Tops(T, L, w, px, py) ==
  LET kids == {k \in 1..T.n : T.parent[k] = w /\ In(L[k], px, py)}
  IN {k \in kids : \A j \in kids : L[k].z >= L[j].z}
RECURSIVE ChainsFrom(_, _, _, _, _)
ChainsFrom(T, L, w, px, py) ==
  IF Tops(T, L, w, px, py) = {} THEN {<<w>>}
  ELSE UNION {{<<w>> \o c : c \in ChainsFrom(T, L, k, px - L[k].x, py - L[k].y)} : k \in Tops(T, L, w, px, py)}
HitChains(T, L, x, y) ==
  IF x >= 0 /\ y >= 0 /\ x < L[1].w /\ y < L[1].h THEN ChainsFrom(T, L, 1, x, y) ELSE {<<>>}

(* ---- R1/R2: the route of an event whose chain (root..target) is ch ----------*)
Route(T, ch) ==
  LET tgt == Last(ch)
      anc == Front(ch)
      cap == SelectSeq(anc, LAMBDA a : T.caps[a])
      up  == Rev(anc)
  IN [i \in 1..Len(cap) |-> [w |-> cap[i], ph |-> "cap", opt |-> FALSE]]
     \o (IF T.caps[tgt] THEN <<[w |-> tgt, ph |-> "cap", opt |-> TRUE]>> ELSE <<>>)
     \o <<[w |-> tgt, ph |-> "tgt", opt |-> FALSE]>>
     \o [i \in 1..Len(up) |-> [w |-> up[i], ph |-> "bub", opt |-> FALSE]]

(* Check the observed offers of one event against its route.  "" = conforms. *)
RECURSIVE WalkWhy(_, _)
WalkWhy(obs, route) ==
  IF obs = <<>> THEN
     IF \A i \in 1..Len(route) : route[i].opt THEN "" ELSE "offer-missing-" \o route[1].ph
  ELSE IF route = <<>> THEN "offer-extra-" \o obs[1].ph
  ELSE IF obs[1].w = route[1].w /\ obs[1].ph = route[1].ph THEN
     IF Has(obs[1].ret, "consume")
     THEN (IF Len(obs) = 1 THEN "" ELSE "offer-after-consume")
     ELSE WalkWhy(Tail(obs), Tail(route))
  ELSE IF route[1].opt THEN WalkWhy(obs, Tail(route))
  ELSE "offer-wrong-" \o route[1].ph

(* R1u: the focused widget f is not part of the last drawn frame *)
PhaseRank(ph) == CASE ph = "cap" -> 1 [] ph = "tgt" -> 2 [] ph = "bub" -> 3 [] OTHER -> 0
InSeq(q, x) == \E i \in 1..Len(q) : q[i] = x
UndrawnWhy(caps, obs, f) ==
  LET tg == {i \in 1..Len(obs) : obs[i].ph = "tgt"}
      capO == SelectSeq(obs, LAMBDA o : o.ph = "cap" /\ o.w # f)
      bubO == SelectSeq(obs, LAMBDA o : o.ph = "bub")
      C  == [i \in 1..Len(capO) |-> capO[i].w]      \* offered in the capture phase as ancestors, root first
      B  == [i \in 1..Len(bubO) |-> bubO[i].w]      \* bubbled to, nearest first
      BC == SelectSeq(Rev(B), LAMBDA w : caps[w])
      consumed == obs # <<>> /\ Has(Last(obs).ret, "consume")
  IN
  IF \E i \in 1..Len(obs) : PhaseRank(obs[i].ph) = 0 THEN "offer-wrong-phase"
  ELSE IF \E i \in tg : obs[i].w # f THEN "offer-wrong-tgt"
  ELSE IF \E i \in 1..(Len(obs) - 1) : Has(obs[i].ret, "consume") THEN "offer-after-consume"
  ELSE IF Cardinality(tg) > 1 THEN "offer-extra-tgt"
  ELSE IF tg = {} /\ ~(obs # <<>> /\ Has(Last(obs).ret, "consume")) THEN "offer-missing-tgt"
  ELSE IF \E i \in 1..(Len(obs) - 1) : PhaseRank(obs[i].ph) > PhaseRank(obs[i + 1].ph) THEN "offer-phase-order"
  ELSE IF InSeq(B, f) THEN "offer-extra-bub"
  ELSE IF ~consumed /\ \E i \in 1..Len(C) : ~InSeq(B, C[i]) THEN "offer-missing-bub"
  ELSE IF B # <<>> /\ \E i \in 1..Len(BC) : ~InSeq(C, BC[i]) THEN "offer-missing-cap"
  ELSE IF ~consumed /\ C # BC THEN "offer-path-order"
  ELSE ""

(* ---- R3: focus notifications ---------------------------------------------------*)
(* fold the focus commands of all offers (in order) from the current focus:   *)
(* result [cur, notes] with notes = sequence of <<old, new>> changes          *)
RECURSIVE FocusFold(_, _, _)
FocusFold(targets, cur, acc) ==
  IF targets = <<>> THEN [cur |-> cur, changes |-> acc]
  ELSE IF Head(targets) = cur THEN FocusFold(Tail(targets), cur, acc)
  ELSE FocusFold(Tail(targets), Head(targets), Append(acc, <<cur, Head(targets)>>))

RECURSIVE AllFocusCmds(_)
AllFocusCmds(offers) == IF offers = <<>> THEN <<>>
                        ELSE FocusCmds(Head(offers).ret) \o AllFocusCmds(Tail(offers))

(* observed focus notifications (offers of class fin/fout, in order) must be  *)
(* one out(old)+in(new) pair per change, pairs in order                       *)
FocusNotesOK(notes, changes) ==
  /\ Len(notes) = 2 * Len(changes)
  /\ \A j \in 1..Len(changes) :
       {<<notes[2 * j - 1].cls, notes[2 * j - 1].w>>, <<notes[2 * j].cls, notes[2 * j].w>>}
         = {<<"fout", changes[j][1]>>, <<"fin", changes[j][2]>>}

(* The focus after the commands (fold) and, where a frame was just laid out   *)
(* (spont) that does not contain it, possibly one more change away from it.   *)
FocusOK(T, L, notes, fold, spont) ==
  \/ FocusNotesOK(notes, fold.changes)
  \/ /\ spont /\ ~Present(T, L, fold.cur)
     /\ \E x \in 1..T.n : x # fold.cur /\ FocusNotesOK(notes, Append(fold.changes, <<fold.cur, x>>))
FocusAfter(notes, fold) ==
  IF Len(notes) = 2 * Len(fold.changes) + 2
  THEN (IF notes[Len(notes)].cls = "fin" THEN notes[Len(notes)].w ELSE notes[Len(notes) - 1].w)
  ELSE fold.cur

(* A focus-out / focus-in handler itself answered with a focus command: the   *)
(* order in which the competing commands take effect is open (see R3).        *)
Nested(offers) == \E i \in 1..Len(offers) : offers[i].cls \in {"fin", "fout"} /\ FocusCmds(offers[i].ret) # <<>>

RECURSIVE Without(_, _)
Without(bag, x) == IF bag = <<>> THEN <<>> ELSE IF Head(bag) = x THEN Tail(bag) ELSE <<Head(bag)>> \o Without(Tail(bag), x)

(* s = [cur, bag (targets of the focus commands returned so far and not used), *)
(*      pend (first half of a pair), n (changes), sp (a change nobody asked    *)
(*      for is still allowed, away from a widget not in the frame), ok]        *)
RECURSIVE ChainFold(_, _, _, _)
ChainFold(T, L, offers, s) ==
  IF offers = <<>> \/ ~s.ok THEN s
  ELSE LET o  == Head(offers)
           s1 == IF o.cls \notin {"fin", "fout"} THEN s
                 ELSE IF s.pend = <<>> THEN [s EXCEPT !.pend = <<o.cls, o.w>>]
                 ELSE IF s.pend[1] = o.cls THEN [s EXCEPT !.ok = FALSE]
                 ELSE LET out   == IF o.cls = "fout" THEN o.w ELSE s.pend[2]
                          in    == IF o.cls = "fin" THEN o.w ELSE s.pend[2]
                          named == InSeq(s.bag, in)
                          spont == ~named /\ s.sp /\ ~Present(T, L, s.cur)
                      IN IF out # s.cur \/ in = s.cur \/ ~(named \/ spont) THEN [s EXCEPT !.ok = FALSE]
                         ELSE [s EXCEPT !.cur = in, !.pend = <<>>, !.n = @ + 1,
                                        !.bag = IF named THEN Without(@, in) ELSE @,
                                        !.sp = IF named THEN @ ELSE FALSE]
       IN ChainFold(T, L, Tail(offers), [s1 EXCEPT !.bag = @ \o FocusCmds(o.ret)])

(* verdict on the focus notifications among offers, and the focus afterwards *)
FocusJudge(T, L, offers, cur0, spont) ==
  IF Nested(offers) THEN
     LET s   == ChainFold(T, L, offers, [cur |-> cur0, bag |-> <<>>, pend |-> <<>>, n |-> 0, sp |-> spont, ok |-> TRUE])
         all == AllFocusCmds(offers)
     IN [ok |-> s.ok /\ s.pend = <<>> /\ ((\E i \in 1..Len(all) : all[i] # cur0) => s.n >= 1), cur |-> s.cur]
  ELSE LET notes == SelectSeq(offers, LAMBDA o : o.cls \in {"fin", "fout"})
           fold  == FocusFold(AllFocusCmds(offers), cur0, <<>>)
       IN [ok |-> FocusOK(T, L, notes, fold, spont), cur |-> IF spont THEN FocusAfter(notes, fold) ELSE fold.cur]

(* ---- R4: hover ------------------------------------------------------------------*)
(* per-widget alternation of the observed enter/leave notifications starting  *)
(* from the current hover set; returns the resulting set, or {0} on a breach  *)
RECURSIVE HoverFold(_, _)
HoverFold(notes, hov) ==
  IF notes = <<>> THEN hov
  ELSE LET o == Head(notes) IN
       IF o.cls = "enter" THEN (IF o.w \in hov THEN {0} ELSE HoverFold(Tail(notes), hov \cup {o.w}))
       ELSE (IF o.w \notin hov THEN {0} ELSE HoverFold(Tail(notes), hov \ {o.w}))

(* ---- R5: flags -------------------------------------------------------------------*)
AnyHas(offers, name) == \E i \in 1..Len(offers) : Has(offers[i].ret, name)

(* ---- session semantics: one oracle state, events applied to it -----------------*)
(* st = [focus, hover, redraw, refresh, quit, ptr, lay, nframes, over, moved, tfin] *)
(* e (step)  = [in |-> [t, cls (, x, y)], offers |-> Seq(offer)]                    *)
(* e (frame) = [items |-> Seq(offer or draw marker), lay, full]                     *)
St0 == [focus |-> 1, hover |-> {}, redraw |-> FALSE, refresh |-> FALSE, quit |-> FALSE,
        ptr |-> <<>>, lay |-> 1, nframes |-> 0, over |-> FALSE,
        moved |-> FALSE,    \* context for signatures: focus moved since the last frame
        tfin |-> FALSE,     \* context for signatures: terminal focus-in seen since the last mouse event
        relaid |-> FALSE,   \* context for signatures: a frame with another parent relation drawn since the last mouse event
        qtick |-> FALSE]    \* context for signatures: the quit command was returned by a notification handler during a frame

Notif == {"enter", "leave", "fin", "fout"}
Sel(offers, S) == SelectSeq(offers, LAMBDA o : o.cls \in S)

StepHover(st, e) == HoverFold(Sel(e.offers, {"enter", "leave"}), st.hover)

(* R2t: the chains a mouse event at (x,y) may be routed along in the last drawn frame *)
MouseChains(T, st, x, y) == HitChains(At(T, st.lay), T.lays[st.lay], x, y)
(* the pointer rests at (x,y) and the chain under it in the last drawn frame is established (it is the hover set) *)
Settled(T, st, x, y) == st.ptr = <<x, y>> /\ \E c \in MouseChains(T, st, x, y) : Range(c) = st.hover
MouseWalk(T, disp, c) == IF c = <<>> THEN (IF disp = <<>> THEN "" ELSE "offer-extra-" \o disp[1].ph) ELSE WalkWhy(disp, Route(T, c))
(* the chain the event is judged against: the established one; else one that explains the offers and the hover *)
(* set; else (for the reason given) the one with the later sibling on top among equals                       *)
MouseChain(T, st, e) ==
  LET all   == MouseChains(T, st, e.in.x, e.in.y)
      cands == IF Settled(T, st, e.in.x, e.in.y) THEN {c \in all : Range(c) = st.hover} ELSE all
      disp  == Sel(e.offers, {e.in.cls})
      ok1   == {c \in cands : MouseWalk(T, disp, c) = ""}
      ok2   == {c \in ok1 : StepHover(st, e) = Range(c)}
  IN IF ok2 # {} THEN CHOOSE c \in ok2 : TRUE
     ELSE IF ok1 # {} THEN CHOOSE c \in ok1 : TRUE
     ELSE IF Cardinality(cands) = 1 THEN CHOOSE c \in cands : TRUE
     ELSE HitChain(At(T, st.lay), T.lays[st.lay], e.in.x, e.in.y)

StepChain(T, st, e) ==
  CASE e.in.t \in {"key", "custom", "init"} -> PathTo(At(T, st.lay), st.focus)
    [] e.in.t = "mouse" -> MouseChain(T, st, e)
    [] OTHER -> <<>>

(* the start-up step ends with the first layout (no frame is drawn from it yet) *)
StepJudge(T, st, e) == FocusJudge(At(T, st.lay), T.lays[st.lay], e.offers, st.focus, e.in.t = "init")
StepFocusAfter(T, st, e) == StepJudge(T, st, e).cur
(* a non-mouse event while the focused widget is not part of the last drawn frame *)
Undrawn(T, st, e) == e.in.t \in {"key", "custom", "init"} /\ ~Present(At(T, st.lay), T.lays[st.lay], st.focus)
(* R1m: the widgets that held the focus at some moment of this dispatch *)
Held(st, e) == {st.focus} \cup {e.offers[i].w : i \in {j \in 1..Len(e.offers) : e.offers[j].cls = "fin"}}
RouteWhy(T, st, disp, f) ==
  IF ~Present(At(T, st.lay), T.lays[st.lay], f) THEN UndrawnWhy(T.caps, disp, f)
  ELSE WalkWhy(disp, Route(T, PathTo(At(T, st.lay), f)))

(* on one route a widget is a capturing ancestor at most once, and either the target or one bubbling ancestor *)
Twice(disp) == \E i, j \in 1..Len(disp) : i < j /\ disp[i].w = disp[j].w /\ ((disp[i].ph = "cap") <=> (disp[j].ph = "cap"))

StepWhy(T, st, e) ==
  LET disp  == Sel(e.offers, {e.in.cls})
      other == SelectSeq(e.offers, LAMBDA o : o.cls \notin (Notif \cup {e.in.cls}))
      chain == StepChain(T, st, e)
      walk  == IF e.in.t \in {"key", "custom", "init"}
               THEN (IF \E f \in Held(st, e) : RouteWhy(T, st, disp, f) = "" THEN "" ELSE RouteWhy(T, st, disp, st.focus))
               ELSE MouseWalk(T, disp, chain)
      hv    == StepHover(st, e)
      want  == CASE e.in.t = "mouse" -> Range(chain)
                 [] e.in.t = "tfout" -> {}
                 [] e.in.t = "tfin"  -> hv
                 [] OTHER            -> st.hover
  IN IF st.over \/ st.quit THEN "event-after-quit"
     ELSE IF st.redraw /\ e.in.cls # "S" THEN "redraw-lost"   \* the driver waits for the frame after its sentinel
     ELSE IF other # <<>> THEN "foreign-offer"
     ELSE IF Twice(disp) THEN "offer-twice"
     ELSE IF walk # "" THEN walk
     ELSE IF ~StepJudge(T, st, e).ok THEN "focus-notifications"
     ELSE IF hv = {0} THEN "hover-alternation"
     ELSE IF hv # want THEN "hover-set"
     ELSE ""

StepNext(T, st, e) ==
  [st EXCEPT !.focus = StepFocusAfter(T, st, e),
             !.hover = StepHover(st, e),
             !.redraw = @ \/ AnyHas(e.offers, "redraw"),
             !.refresh = @ \/ AnyHas(e.offers, "refresh"),
             !.quit = @ \/ AnyHas(e.offers, "quit"),
             !.ptr = IF e.in.t = "mouse" THEN <<e.in.x, e.in.y>>
                     ELSE IF e.in.t = "tfout" THEN <<>> ELSE @,
             !.moved = @ \/ StepFocusAfter(T, st, e) # st.focus,
             !.tfin = IF e.in.t = "tfin" THEN TRUE ELSE IF e.in.t = "mouse" THEN FALSE ELSE @,
             !.relaid = IF e.in.t = "mouse" THEN FALSE ELSE @]

RECURSIVE Pending(_, _)
Pending(items, p) ==
  IF items = <<>> THEN p
  ELSE IF Head(items).cls = "draw" THEN Pending(Tail(items), FALSE)
  ELSE Pending(Tail(items), p \/ Has(Head(items).ret, "redraw"))

FrameHover(st, e) == HoverFold(Sel(e.items, {"enter", "leave"}), st.hover)

(* R2t: the hover sets a frame may leave behind.  No pointer: as before.  The same tree and layout as the frame  *)
(* before under a resting pointer whose chain is established: that chain.  Else: any chain under the pointer.    *)
FrameChains(T, st, e) == IF st.ptr = <<>> THEN {} ELSE HitChains(At(T, e.lay), T.lays[e.lay], st.ptr[1], st.ptr[2])
FrameRests(T, st, e) == st.ptr # <<>> /\ e.lay = st.lay /\ \E c \in FrameChains(T, st, e) : Range(c) = st.hover
FrameWants(T, st, e) ==
  IF st.ptr = <<>> \/ FrameRests(T, st, e) THEN {st.hover}
  ELSE {Range(c) : c \in FrameChains(T, st, e)}

FrameWhy(T, st, e) ==
  LET offers == SelectSeq(e.items, LAMBDA o : o.cls # "draw")
      other  == SelectSeq(offers, LAMBDA o : o.cls \notin Notif)
      wants  == FrameWants(T, st, e)
      hv     == FrameHover(st, e)
  IN IF st.over THEN "frame-after-exit"
     ELSE IF e.items = <<>> \/ e.items[1].cls # "draw" THEN "frame-without-draw"
     ELSE IF other # <<>> THEN "foreign-offer"
     ELSE IF ~FocusJudge(At(T, e.lay), T.lays[e.lay], offers, st.focus, TRUE).ok THEN "focus-notifications"
     ELSE IF hv = {0} THEN "hover-alternation"
     ELSE IF hv \notin wants THEN "hover-set"
     ELSE IF e.full >= 0 /\ st.nframes > 0 /\ (e.full = 1) # st.refresh THEN "refresh"
     ELSE ""

FrameNext(T, st, e) ==
  LET offers == SelectSeq(e.items, LAMBDA o : o.cls # "draw") IN
  [st EXCEPT !.hover = FrameHover(st, e),
             !.focus = FocusJudge(At(T, e.lay), T.lays[e.lay], offers, st.focus, TRUE).cur,
             !.redraw = Pending(e.items, FALSE),
             !.refresh = AnyHas(offers, "refresh"),
             !.quit = @ \/ AnyHas(offers, "quit"),
             !.qtick = @ \/ AnyHas(offers, "quit"),
             !.lay = e.lay,
             !.moved = FALSE,
             !.relaid = @ \/ T.pars[e.lay] # T.pars[st.lay],
             !.nframes = @ + 1]
=============================================================================
