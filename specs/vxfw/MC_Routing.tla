----------------------------- MODULE MC_Routing -----------------------------
(* Exhaustive bounded model for C15.                                        *)
(*  (1) Sanity theorems of the Routing oracle on every tree of the family:  *)
(*      a route offers each widget at most once per phase, captures         *)
(*      root-first among proper ancestors, has exactly one target offer,    *)
(*      bubbles nearest-first; a hit chain is a parent chain of widgets     *)
(*      containing the point.                                               *)
(*  (2) The implementation-shaped transcription (RoutingImpl) is run        *)
(*      through every event history of length <= Depth (keys with every     *)
(*      single consumer, focus keys, frames, pointer positions incl. a      *)
(*      point over two overlapping siblings and one outside the root,       *)
(*      terminal focus out/in) and every step it produces must be accepted  *)
(*      by the oracle (Routing!StepWhy = "").  From oracle states the       *)
(*      alternation of enter/leave follows.                                 *)
(*      Shape "H" is tree A with widget 2 (and so its child 4) left out of  *)
(*      the frame: focus on an undrawn widget, and the refocus at a frame.  *)
(*      Shape "P" is a tab view: the root draws page 2 (layout 1) or page 3 *)
(*      (layout 2) at the same place, and the page drawn wraps the shared   *)
(*      leaf 4: frames may switch the layout under a resting pointer.       *)
(* MC_Routing_fastpath.cfg: the hit list is kept when the deepest hit is    *)
(* unchanged; must be refuted on shape "P".                                 *)
(*      Shape "W" is tree A in which widget 2 draws a surface of its own    *)
(*      inside its surface.  Keys of class kM make one handler on the way   *)
(*      answer with a focus command (with or without consume); with Answers *)
(*      the two widgets of that focus change may answer their notifications *)
(*      with a focus command or a consume (MC_Routing_nested.cfg).          *)
(* Negative controls, one per as-found shape, each must be refuted:         *)
(* MC_Routing_reentrant.cfg (focus-notifications), _livetarget.cfg          *)
(* (offer-wrong-tgt), _bubbleskip.cfg (offer-missing-bub on shape "H"),     *)
(* _consumeleak.cfg (offer-missing-bub), _dupself.cfg (shape "W").          *)
(* MC_Routing_asfound.cfg switches the transcription to the code as found;  *)
(* MC_Routing_staletarget.cfg to a dispatch whose target is the end of the  *)
(* path; TLC must refute Conforms in both.                                  *)
EXTENDS Integers, Sequences, FiniteSets, TLC
CONSTANTS StalePath, AllSiblings, EnterOnFocusIn, StaleTarget, FastPath,
          Reentrant, LiveTarget, BubbleSkipsLast, ConsumeLeak, DupSelf, Answers, Depth, Shapes

R == INSTANCE Routing
I == INSTANCE RoutingImpl

VARIABLES T, im, st, n, why
vars == <<T, im, st, n, why>>

G(x, y, w, h, z) == [x |-> x, y |-> y, w |-> w, h |-> h, z |-> z, hid |-> FALSE]

(* 1 -> {2 -> {4}, 3}; 3 overlaps 2 (and 4) and is above it *)
NoWraps == <<FALSE, FALSE, FALSE, FALSE>>
TreeA(caps) == [n |-> 4, pars |-> <<<<0, 1, 1, 2>>>>, caps |-> caps, wraps |-> NoWraps,
                lays |-> <<<<G(0, 0, 8, 4, 0), G(1, 1, 4, 3, 0), G(3, 1, 4, 2, 1), G(1, 0, 3, 2, 0)>>>>]
(* tree A in a layout that does not draw 2 (nor, hence, its child 4) *)
TreeH(caps) == [TreeA(caps) EXCEPT !.lays[1][2].hid = TRUE]
(* tree A in which widget 2 draws a surface of its own inside its surface *)
TreeW(caps) == [TreeA(caps) EXCEPT !.wraps[2] = TRUE]
(* a chain 1 -> 2 -> 3 *)
TreeB(caps) == [n |-> 3, pars |-> <<<<0, 1, 2>>>>, caps |-> SubSeq(caps, 1, 3), wraps |-> NoWraps,
                lays |-> <<<<G(0, 0, 6, 3, 0), G(1, 1, 4, 2, 0), G(1, 0, 2, 2, 0)>>>>]
(* the root shows page 2 or page 3 on the same rectangle; the page shown holds leaf 4 *)
GH(x, y, w, h, z) == [G(x, y, w, h, z) EXCEPT !.hid = TRUE]
TreeP(caps) == [n |-> 4, pars |-> <<<<0, 1, 1, 2>>, <<0, 1, 1, 3>>>>, caps |-> caps, wraps |-> NoWraps,
                lays |-> << <<G(0, 0, 8, 4, 0), G(1, 1, 6, 3, 0), GH(1, 1, 6, 3, 0), G(1, 1, 3, 2, 0)>>,
                            <<G(0, 0, 8, 4, 0), GH(1, 1, 6, 3, 0), G(1, 1, 6, 3, 0), G(1, 1, 3, 2, 0)>> >>]
Points == {<<0, 0>>, <<1, 1>>, <<2, 1>>, <<4, 2>>, <<6, 2>>, <<9, 9>>}

(* on the tab view only the pages' capture bits matter (root and leaf do not capture) *)
Trees == {CASE s = "A" -> TreeA(c) [] s = "H" -> TreeH(c) [] s = "W" -> TreeW(c) [] s = "P" -> TreeP([c EXCEPT ![1] = FALSE, ![4] = FALSE]) [] OTHER -> TreeB(c) :
            s \in Shapes, c \in [1..4 -> BOOLEAN]}

Consumers(t) == {<<>>} \cup {<<w, ph>> : w \in 1..t.n, ph \in {"cap", "tgt", "bub"}}

(* scripted answers to the notifications of the focus change im.focused -> f *)
NoteAnswers(f) ==
  IF ~Answers THEN {{}}
  ELSE {{}} \cup {{[w |-> im.focused, cls |-> "fout", k |-> "focus", a |-> c]} : c \in 1..T.n}
            \cup {{[w |-> f, cls |-> "fin", k |-> "focus", a |-> c]} : c \in 1..T.n}
            \cup {{[w |-> im.focused, cls |-> "fout", k |-> "consume", a |-> 0]}, {[w |-> f, cls |-> "fin", k |-> "consume", a |-> 0]}}
            \cup {{[w |-> im.focused, cls |-> "fout", k |-> "focus", a |-> c], [w |-> f, cls |-> "fin", k |-> "focus", a |-> d]} :
                     c \in 1..T.n, d \in 1..T.n}

Init == /\ T \in Trees /\ im = I!Im0 /\ st = R!St0 /\ n = 0 /\ why = ""

StepRec(in, offers) == [in |-> in, offers |-> offers]

Do(in, res) ==
  LET e == StepRec(in, res.offers) IN
  /\ why' = R!StepWhy(T, st, e)
  /\ st' = R!StepNext(T, st, e)
  /\ im' = res.im

Next ==
  /\ n < Depth /\ why = ""
  /\ n' = n + 1
  /\ UNCHANGED T
  /\ \/ \E c \in Consumers(T) : Do([t |-> "key", cls |-> "ka"], I!Key(T, im, "ka", c, 0))
     \/ \E f \in 1..T.n : Do([t |-> "key", cls |-> "kF"], I!Key(T, im, "kF", <<>>, f))
     \/ \* a handler on the way answers with a focus command, with or without consume; the widget losing the
        \* focus (the one gaining it) may answer its notification with a focus command or a consume
        \E hw \in 1..T.n, hph \in {"cap", "tgt", "bub"}, f \in 1..T.n, wc \in BOOLEAN : \E a \in NoteAnswers(f) :
          I!OnRoute(T, im, hw, hph) /\ Do([t |-> "key", cls |-> "kM"], I!KeyMove(T, im, "kM", hw, hph, f, wc, a))
     \/ \E p \in Points, c \in Consumers(T) :
          Do([t |-> "mouse", cls |-> "mp0", x |-> p[1], y |-> p[2]], I!Mouse(T, im, p[1], p[2], "mp0", c))
     \/ Do([t |-> "tfout", cls |-> "tfout"], I!TFocusOut(im))
     \/ Do([t |-> "tfin", cls |-> "tfin"], I!TFocusIn(im))
     \/ \* a frame (forced by a redraw nobody else sees) drawn from any of the layouts
        \E k \in 1..Len(T.lays) :
        LET fr == I!Frame(T, im, k)
            e  == [items |-> <<[w |-> 0, ph |-> "", cls |-> "draw", ret |-> I!Nil]>> \o fr.offers, lay |-> k, full |-> -1]
        IN /\ why' = R!FrameWhy(T, st, e) /\ st' = R!FrameNext(T, st, e) /\ im' = fr.im

Spec == Init /\ [][Next]_vars

(* (2) *)
Conforms == why = ""

(* (1) oracle sanity, evaluated in every reached state for every widget/point *)
Seq2Set(s) == {s[i] : i \in 1..Len(s)}
RouteSane ==
  \A k \in 1..Len(T.lays) : \A f \in 1..T.n :
    LET t  == R!At(T, k)
        ch == R!PathTo(t, f)
        rt == R!Route(t, ch)
        of(ph) == SelectSeq(rt, LAMBDA r : r.ph = ph)
    IN /\ ch[1] = 1 /\ ch[Len(ch)] = f
       /\ \A i \in 2..Len(ch) : t.parent[ch[i]] = ch[i - 1]
       /\ Len(of("tgt")) = 1 /\ of("tgt")[1].w = f
       /\ \A i \in 1..Len(of("bub")) : of("bub")[i].w = ch[Len(ch) - i]
       /\ Len(of("bub")) = Len(ch) - 1
       /\ \A i \in 1..Len(of("cap")) : T.caps[of("cap")[i].w]
       /\ \A i, j \in 1..Len(of("cap")) : i < j => Len(R!PathTo(t, of("cap")[i].w)) <= Len(R!PathTo(t, of("cap")[j].w))
       /\ {w \in Seq2Set(R!Front(ch)) : T.caps[w]} \subseteq {of("cap")[i].w : i \in 1..Len(of("cap"))}
       /\ \A i \in 1..Len(rt) : rt[i].opt => (rt[i].w = f /\ rt[i].ph = "cap")
ChainSane ==
  \A k \in 1..Len(T.lays) : \A p \in Points :
    LET ch == R!HitChain(R!At(T, k), T.lays[k], p[1], p[2]) IN
    /\ ch # <<>> => /\ ch[1] = 1
                    /\ \A i \in 2..Len(ch) : T.pars[k][ch[i]] = ch[i - 1]
                    /\ \A i \in 1..Len(ch) : ~T.lays[k][ch[i]].hid
    \* R2t: the chain with the later sibling on top is one of the chains with ties left open, each of which is a path of drawn widgets
    /\ ch \in R!HitChains(R!At(T, k), T.lays[k], p[1], p[2])
    /\ \A c \in R!HitChains(R!At(T, k), T.lays[k], p[1], p[2]) :
         (c = <<>>) = (ch = <<>>) /\ \A i \in 2..Len(c) : T.pars[k][c[i]] = c[i - 1] /\ ~T.lays[k][c[i]].hid
(* hover kept by the oracle is always a chain prefix-closed set of the last drawn frame's tree *)
HoverClosed == \A w \in st.hover : w = 1 \/ T.pars[st.lay][w] \in st.hover
=============================================================================
