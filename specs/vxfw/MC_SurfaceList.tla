--------------------------- MODULE MC_SurfaceList ---------------------------
(* Implementation-shaped model (exploration only, no verdict about the     *)
(* code) of the row loop of a list that draws rows from a builder that     *)
(* never runs out: row k has the height pat[k mod Len(pat)], the loop adds *)
(* height + gap to the accumulated height ah (which starts at or above     *)
(* -Above: rows scrolled out at the top) and ends when ah reaches the      *)
(* height mh of the viewport. StallGuard = TRUE adds the proposed repair:  *)
(* after more than mh consecutive rows that added nothing the loop ends.   *)
(* Invariant Returns: the loop ends within Bound(mh) rows - what           *)
(* LayoutRel!Returns observes on the real Draw. StallGuard = FALSE (the    *)
(* loop as found) is the negative control: TLC refutes Returns with a      *)
(* pattern of rows without height.                                         *)
EXTENDS Integers, Sequences

CONSTANTS StallGuard, MaxH, MaxRow, Above

Pats == UNION {[1..n -> 0..MaxRow] : n \in 1..3}

VARIABLES pat, mh, gap, i, ah, stalled, done
vars == <<pat, mh, gap, i, ah, stalled, done>>

Init == /\ pat \in Pats /\ mh \in 0..MaxH /\ gap \in 0..1
        /\ ah \in (0 - Above)..0
        /\ i = 0 /\ stalled = 0 /\ done = FALSE

Row(k) == pat[(k % Len(pat)) + 1]

Next == /\ ~done
        /\ UNCHANGED <<pat, mh, gap>>
        /\ LET adv == Row(i) + gap IN
           /\ i' = i + 1
           /\ ah' = ah + adv
           /\ IF ah + adv >= mh THEN done' = TRUE /\ UNCHANGED stalled
              ELSE IF adv > 0 THEN stalled' = 0 /\ done' = FALSE
              ELSE /\ stalled' = stalled + 1
                   /\ done' = (StallGuard /\ stalled + 1 > mh)

Spec == Init /\ [][Next]_vars

(* at most mh + Above rows add height before the viewport is full, each    *)
(* after at most mh rows that add none, and a last run of mh + 1 of those  *)
Bound(h) == (h + Above) * (h + 1) + h + 1

Returns == i <= Bound(mh)
=============================================================================
