CONSTANTS
  Bits = 0
  RowIncl = TRUE
  RootClip = TRUE
  WideFix = TRUE
  Sizes = {0, 1, 2, 3, 255, 256, 257, 300}
  Coords = {0, 1, 2, 3, 254, 255, 256, 257, 299, 300, 301, 65535}
  Rows = 2
  Cols = 3
  XS <- XSq
  YS <- YSq
  WS = {0, 1, 2, 5}
  HS = {1, 3}
  ZS <- ZSq
  GXS <- GXSq
SPECIFICATION Spec
INVARIANTS IndexInBuffer IndexInjective OutsideIgnored EffectSmall AddrConforms PaintConforms WideJudged
CHECK_DEADLOCK FALSE
