CONSTANTS
  StalePath = FALSE
  AllSiblings = FALSE
  EnterOnFocusIn = FALSE
  StaleTarget = TRUE
  FastPath = FALSE
  Reentrant = FALSE
  LiveTarget = FALSE
  BubbleSkipsLast = FALSE
  ConsumeLeak = FALSE
  DupSelf = FALSE
  Answers = FALSE
  Depth = 2
  Shapes = {"H"}
SPECIFICATION Spec
INVARIANTS Conforms
CHECK_DEADLOCK FALSE
