CONSTANTS
  StalePath = FALSE
  AllSiblings = FALSE
  EnterOnFocusIn = FALSE
  StaleTarget = TRUE
  FastPath = FALSE
  Depth = 2
  Shapes = {"H"}
SPECIFICATION Spec
INVARIANTS Conforms
CHECK_DEADLOCK FALSE
