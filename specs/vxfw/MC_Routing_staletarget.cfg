CONSTANTS
  StalePath = FALSE
  AllSiblings = FALSE
  EnterOnFocusIn = FALSE
  StaleTarget = TRUE
  Depth = 2
  Shapes = {"H"}
SPECIFICATION Spec
INVARIANTS Conforms
CHECK_DEADLOCK FALSE
