CONSTANTS
  StalePath = FALSE
  AllSiblings = FALSE
  EnterOnFocusIn = FALSE
  StaleTarget = FALSE
  FastPath = TRUE
  Reentrant = FALSE
  LiveTarget = FALSE
  BubbleSkipsLast = FALSE
  ConsumeLeak = FALSE
  DupSelf = FALSE
  Answers = FALSE
  Depth = 2
  Shapes = {"P"}
SPECIFICATION Spec
INVARIANTS Conforms
CHECK_DEADLOCK FALSE
