CONSTANTS
  StalePath = FALSE
  AllSiblings = FALSE
  EnterOnFocusIn = FALSE
  StaleTarget = FALSE
  FastPath = TRUE
  Depth = 2
  Shapes = {"P"}
SPECIFICATION Spec
INVARIANTS Conforms
CHECK_DEADLOCK FALSE
