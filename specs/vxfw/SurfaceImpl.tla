---------------------------- MODULE SurfaceImpl ----------------------------
(* Implementation-shaped transcription of vxfw.NewSurface / WriteCell /     *)
(* Surface.render and of the vaxis.Window clipping arithmetic they paint    *)
(* through (Window.New, Window.SetCell).  NOT an oracle: it exists to be    *)
(* composed with Surface.tla in MC_Surface, where TLC compares the two over *)
(* every case of a bounded family.                                          *)
(*   Bits      = 0: sizes and indices are computed in unbounded integers    *)
(*                  (the repaired code); 16: in uint16 (the code as found)  *)
(*   RowIncl   = TRUE : a write with row >= Height is ignored (repaired)    *)
(*               FALSE: only row > Height is ignored (the code as found)    *)
(*   RootClip  = TRUE : App.Run renders the root surface into a window of   *)
(*                  the root surface's size (repaired); FALSE: into the     *)
(*                  full-screen window (the code as found)                  *)
EXTENDS Integers, Sequences, FiniteSets
CONSTANTS Bits, RowIncl, RootClip

Wrap(n) == IF Bits = 0 THEN n ELSE n % (2 ^ Bits)

ImplLen(w, h) == Wrap(w * h)

(* result of WriteCell: which buffer positions change / index panic *)
ImplWrite(w, h, c, r) ==
  IF c >= w \/ (IF RowIncl THEN r >= h ELSE r > h)
  THEN [panic |-> FALSE, changed |-> {}]
  ELSE LET i == Wrap(Wrap(r * w) + c)
       IN IF i >= ImplLen(w, h) THEN [panic |-> TRUE, changed |-> {}]
          ELSE [panic |-> FALSE, changed |-> {i}]

(* ---- render ---------------------------------------------------------------*)
(* A window stack is a sequence of [col, row, w, h]; element 1 is the       *)
(* full-screen window (col = row = 0).  Window.New clamps the size to the   *)
(* parent (only towards the right/bottom); Window.SetCell drops a cell that *)
(* is outside its window and hands the translated cell to its parent.       *)
NewDim(pdim, off, dim) == IF dim < 0 THEN pdim - off
                          ELSE IF dim + off > pdim THEN pdim - off ELSE dim
WinNew(p, col, row, cols, rows) ==
  [col |-> col, row |-> row, w |-> NewDim(p.w, col, cols), h |-> NewDim(p.h, row, rows)]

(* Where does cell (c, r) of the innermost window land on the screen?       *)
(* <<>> when some window on the way drops it.                               *)
RECURSIVE Land(_, _, _, _)
Land(stack, k, c, r) ==
  LET win == stack[k] IN
  IF r >= win.h \/ c >= win.w \/ r < 0 \/ c < 0 THEN <<>>
  ELSE IF k = 1 THEN <<c + win.col, r + win.row>>
  ELSE Land(stack, k - 1, c + win.col, r + win.row)

(* buffer content of a surface at position i: the driver-visible writes     *)
BufCell(s, i) ==
  LET c == i % s.w
      r == i \div s.w
      hits == {j \in 1..Len(s.cells) : s.cells[j][1] = c /\ s.cells[j][2] = r}
  IN IF hits = {} THEN <<0, s.fg>>
     ELSE <<s.cells[CHOOSE m \in hits : \A o \in hits : o <= m][3], s.fg>>

(* indices of kids in painting order: sort.Slice by ZIndex (insertion sort  *)
(* for short slices: stable)                                                *)
Before(kids, i, j) == kids[i].z < kids[j].z \/ (kids[i].z = kids[j].z /\ i < j)
RECURSIVE Order(_, _)
Order(kids, todo) ==
  IF todo = {} THEN <<>>
  ELSE LET f == CHOOSE i \in todo : \A j \in todo \ {i} : Before(kids, i, j)
       IN <<f>> \o Order(kids, todo \ {f})

(* paint the surface's own buffer through the window stack onto grid, a     *)
(* function from <<x, y>> (0-based screen coordinates) to cells             *)
PaintOwn(grid, s, stack) ==
  LET n == ImplLen(s.w, s.h)
      land == [i \in 0..(n - 1) |-> Land(stack, Len(stack), i % s.w, i \div s.w)]
  IN [p \in DOMAIN grid |->
        LET src == {i \in 0..(n - 1) : land[i] = p}
        IN IF src = {} THEN grid[p] ELSE BufCell(s, CHOOSE i \in src : TRUE)]

RECURSIVE Render(_, _, _), RenderKids(_, _, _, _)
Render(grid, s, stack) == RenderKids(PaintOwn(grid, s, stack), s, stack, Order(s.kids, 1..Len(s.kids)))
RenderKids(grid, s, stack, ord) ==
  IF ord = <<>> THEN grid
  ELSE LET k == s.kids[ord[1]]
           win == WinNew(stack[Len(stack)], k.x, k.y, k.s.w, k.s.h)
       IN RenderKids(Render(grid, k.s, Append(stack, win)), s, stack, Tail(ord))

(* App.Run: clear the full-screen window, render the root surface into it   *)
ImplScreen(root, rows, cols) ==
  LET clear == [p \in (0..(cols - 1)) \X (0..(rows - 1)) |-> <<0, 0>>]
      full == [col |-> 0, row |-> 0, w |-> cols, h |-> rows]
      rootwin == WinNew(full, 0, 0, root.w, root.h)
      g == Render(clear, root, IF RootClip THEN <<full, rootwin>> ELSE <<full>>)
  IN [y \in 1..rows |-> [x \in 1..cols |-> g[<<x - 1, y - 1>>]]]
=============================================================================
