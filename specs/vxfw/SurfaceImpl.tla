---------------------------- MODULE SurfaceImpl ----------------------------
(* Implementation-shaped transcription of vxfw.NewSurface / WriteCell /     *)
(* Surface.render and of the vaxis.Window clipping arithmetic they paint    *)
(* through (Window.New, Window.SetCell).  NOT an oracle: it exists to be    *)
(* composed with Surface.tla in MC_Surface, where TLC compares the two over *)
(* every case of a bounded family.                                          *)
(*   Bits      = 0: sizes and indices are computed in unbounded integers    *)
(*                  (the repaired code); 16: in uint16 (the code as found)  *)
(*   RowIncl   = TRUE : a write with row >= Height is ignored (repaired)    *)
(*               FALSE: only row > Height is ignored (the code as found)    *)
(*   RootClip  = TRUE : App.Run renders the root surface into a window of   *)
(*                  the root surface's size (repaired); FALSE: into the     *)
(*                  full-screen window (the code as found)                  *)
(*   WideFix   = TRUE : a surface painted over the right half of a wide     *)
(*                  cell of an earlier surface blanks that cell (proposed   *)
(*                  repair); FALSE: it is left in the screen buffer, where  *)
(*                  the renderer lets it hide its right neighbour (as found)*)
EXTENDS Integers, Sequences, FiniteSets
CONSTANTS Bits, RowIncl, RootClip, WideFix

Wrap(n) == IF Bits = 0 THEN n ELSE n % (2 ^ Bits)

ImplLen(w, h) == Wrap(w * h)

(* result of WriteCell: which buffer positions change / index panic *)
ImplWrite(w, h, c, r) ==
  IF c >= w \/ (IF RowIncl THEN r >= h ELSE r > h)
  THEN [panic |-> FALSE, changed |-> {}]
  ELSE LET i == Wrap(Wrap(r * w) + c)
       IN IF i >= ImplLen(w, h) THEN [panic |-> TRUE, changed |-> {}]
          ELSE [panic |-> FALSE, changed |-> {i}]

(* ---- render ---------------------------------------------------------------*)
(* A window stack is a sequence of [col, row, w, h]; element 1 is the       *)
(* full-screen window (col = row = 0).  Window.New clamps the size to the   *)
(* parent (only towards the right/bottom); Window.SetCell drops a cell that *)
(* is outside its window, or wide and hanging over its right edge, and      *)
(* hands the translated cell to its parent (the screen does the same).      *)
NewDim(pdim, off, dim) == IF dim < 0 THEN pdim - off
                          ELSE IF dim + off > pdim THEN pdim - off ELSE dim
WinNew(p, col, row, cols, rows) ==
  [col |-> col, row |-> row, w |-> NewDim(p.w, col, cols), h |-> NewDim(p.h, row, rows)]

(* Where does cell (c, r), gw columns wide, of the innermost window land on *)
(* the screen?  <<>> when some window on the way drops it.                  *)
RECURSIVE Land(_, _, _, _, _)
Land(stack, k, c, r, gw) ==
  LET win == stack[k] IN
  IF r >= win.h \/ c >= win.w \/ r < 0 \/ c < 0 \/ (gw > 1 /\ c + gw > win.w) THEN <<>>
  ELSE IF k = 1 THEN <<c + win.col, r + win.row>>
  ELSE Land(stack, k - 1, c + win.col, r + win.row, gw)

(* buffer content of a surface at position i: the driver-visible writes     *)
BufCell(s, i) ==
  LET c == i % s.w
      r == i \div s.w
      hits == {j \in 1..Len(s.cells) : s.cells[j][1] = c /\ s.cells[j][2] = r}
      m == CHOOSE m \in hits : \A o \in hits : o <= m
  IN IF hits = {} THEN [g |-> 0, fg |-> s.fg, w |-> 1]
     ELSE [g |-> s.cells[m][3], fg |-> s.fg, w |-> s.cells[m][4]]

(* indices of kids in painting order: sort.Slice by ZIndex (insertion sort  *)
(* for short slices: stable)                                                *)
Before(kids, i, j) == kids[i].z < kids[j].z \/ (kids[i].z = kids[j].z /\ i < j)
RECURSIVE Order(_, _)
Order(kids, todo) ==
  IF todo = {} THEN <<>>
  ELSE LET f == CHOOSE i \in todo : \A j \in todo \ {i} : Before(kids, i, j)
       IN <<f>> \o Order(kids, todo \ {f})

(* paint the surface's own buffer through the window stack onto grid, a     *)
(* function from <<x, y>> (0-based screen coordinates) to cells [g, fg, w].  *)
(* WideFix: a cell that lands in the column right of a wide cell painted by *)
(* another surface replaces that wide cell by a blank of its style (the     *)
(* cells of one surface are painted left to right, so the cell left of a    *)
(* landed cell is this surface's own exactly when it landed as well).       *)
PaintOwn(grid, s, stack) ==
  LET n == ImplLen(s.w, s.h)
      buf == [i \in 0..(n - 1) |-> BufCell(s, i)]
      land == [i \in 0..(n - 1) |-> Land(stack, Len(stack), i % s.w, i \div s.w, buf[i].w)]
      landed == {land[i] : i \in 0..(n - 1)}
  IN [p \in DOMAIN grid |->
        IF p \in landed THEN buf[CHOOSE i \in 0..(n - 1) : land[i] = p]
        ELSE IF WideFix /\ grid[p].w > 1 /\ <<p[1] + 1, p[2]>> \in landed
             THEN [g |-> 0, fg |-> grid[p].fg, w |-> 1]
        ELSE grid[p]]

RECURSIVE Render(_, _, _), RenderKids(_, _, _, _)
Render(grid, s, stack) == RenderKids(PaintOwn(grid, s, stack), s, stack, Order(s.kids, 1..Len(s.kids)))
RenderKids(grid, s, stack, ord) ==
  IF ord = <<>> THEN grid
  ELSE LET k == s.kids[ord[1]]
           win == WinNew(stack[Len(stack)], k.x, k.y, k.s.w, k.s.h)
       IN RenderKids(Render(grid, k.s, Append(stack, win)), s, stack, Tail(ord))

(* Vaxis.render: the cells of a row are sent left to right, a cell w        *)
(* columns wide is followed by skipping the next w - 1 cells of the buffer. *)
(* The result is what the terminal displays: [k |-> "g", g, w, fg, plain]   *)
(* or [k |-> "c"] (see Surface!CellConforms).                               *)
RECURSIVE ShowRow(_, _, _, _, _)
ShowRow(g, y, cols, x, acc) ==
  IF x >= cols THEN acc
  ELSE LET a == g[<<x, y>>]
           n == IF a.w - 1 < cols - 1 - x THEN a.w - 1 ELSE cols - 1 - x
       IN ShowRow(g, y, cols, x + 1 + n,
                  Append(acc, [k |-> "g", g |-> a.g, w |-> a.w, fg |-> a.fg, plain |-> TRUE])
                    \o [i \in 1..n |-> [k |-> "c"]])

(* App.Run: clear the full-screen window, render the root surface into it   *)
ImplScreen(root, rows, cols) ==
  LET clear == [p \in (0..(cols - 1)) \X (0..(rows - 1)) |-> [g |-> 0, fg |-> 0, w |-> 1]]
      full == [col |-> 0, row |-> 0, w |-> cols, h |-> rows]
      rootwin == WinNew(full, 0, 0, root.w, root.h)
      g == Render(clear, root, IF RootClip THEN <<full, rootwin>> ELSE <<full>>)
  IN [y \in 1..rows |-> ShowRow(g, y - 1, cols, 0, <<>>)]
=============================================================================
