CONSTANTS
  Bits = 0
  RowIncl = TRUE
  RootClip = TRUE
  WideFix = FALSE
  Sizes = {0}
  Coords = {0}
  Rows = 2
  Cols = 3
  XS <- XSq
  YS <- YSq
  WS = {0, 1, 2, 5}
  HS = {1, 3}
  ZS <- ZSq
  GXS <- GXSq
SPECIFICATION Spec
INVARIANTS PaintConforms
CHECK_DEADLOCK FALSE
