CONSTANTS
  StalePath = FALSE
  AllSiblings = FALSE
  EnterOnFocusIn = FALSE
  StaleTarget = FALSE
  FastPath = FALSE
  Reentrant = FALSE
  LiveTarget = FALSE
  BubbleSkipsLast = TRUE
  ConsumeLeak = FALSE
  DupSelf = FALSE
  Answers = FALSE
  Depth = 2
  Shapes = {"H"}
SPECIFICATION Spec
INVARIANTS Conforms
CHECK_DEADLOCK FALSE
