CONSTANTS
  StalePath = FALSE
  AllSiblings = FALSE
  EnterOnFocusIn = FALSE
  Depth = 4
  Shapes = {"A", "B"}
SPECIFICATION Spec
INVARIANTS Conforms RouteSane ChainSane HoverClosed
CHECK_DEADLOCK FALSE
