CONSTANTS
  StalePath = FALSE
  AllSiblings = FALSE
  EnterOnFocusIn = FALSE
  StaleTarget = FALSE
  Depth = 4
  Shapes = {"A", "B", "H"}
SPECIFICATION Spec
INVARIANTS Conforms RouteSane ChainSane HoverClosed
CHECK_DEADLOCK FALSE
