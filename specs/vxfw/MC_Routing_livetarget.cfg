CONSTANTS
  StalePath = FALSE
  AllSiblings = FALSE
  EnterOnFocusIn = FALSE
  StaleTarget = FALSE
  FastPath = FALSE
  Reentrant = FALSE
  LiveTarget = TRUE
  BubbleSkipsLast = FALSE
  ConsumeLeak = FALSE
  DupSelf = FALSE
  Answers = FALSE
  Depth = 2
  Shapes = {"A"}
SPECIFICATION Spec
INVARIANTS Conforms
CHECK_DEADLOCK FALSE
