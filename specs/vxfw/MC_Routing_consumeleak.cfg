CONSTANTS
  StalePath = FALSE
  AllSiblings = FALSE
  EnterOnFocusIn = FALSE
  StaleTarget = FALSE
  FastPath = FALSE
  Reentrant = FALSE
  LiveTarget = FALSE
  BubbleSkipsLast = FALSE
  ConsumeLeak = TRUE
  DupSelf = FALSE
  Answers = TRUE
  Depth = 2
  Shapes = {"B"}
SPECIFICATION Spec
INVARIANTS Conforms
CHECK_DEADLOCK FALSE
