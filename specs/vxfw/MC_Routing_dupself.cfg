CONSTANTS
  StalePath = FALSE
  AllSiblings = FALSE
  EnterOnFocusIn = FALSE
  StaleTarget = FALSE
  FastPath = FALSE
  Reentrant = FALSE
  LiveTarget = FALSE
  BubbleSkipsLast = FALSE
  ConsumeLeak = FALSE
  DupSelf = TRUE
  Answers = FALSE
  Depth = 2
  Shapes = {"W"}
SPECIFICATION Spec
INVARIANTS Conforms
CHECK_DEADLOCK FALSE
