CONSTANTS
  StalePath = FALSE
  AllSiblings = FALSE
  EnterOnFocusIn = FALSE
  StaleTarget = FALSE
  FastPath = FALSE
  Reentrant = FALSE
  LiveTarget = FALSE
  BubbleSkipsLast = FALSE
  ConsumeLeak = FALSE
  DupSelf = FALSE
  Answers = FALSE
  Depth = 3
  Shapes = {"A", "H", "P"}
SPECIFICATION Spec
INVARIANTS Conforms RouteSane ChainSane HoverClosed
CHECK_DEADLOCK FALSE
