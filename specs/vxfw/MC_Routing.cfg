CONSTANTS
  StalePath = FALSE
  AllSiblings = FALSE
  EnterOnFocusIn = FALSE
  Depth = 3
  Shapes = {"A"}
SPECIFICATION Spec
INVARIANTS Conforms RouteSane ChainSane HoverClosed
CHECK_DEADLOCK FALSE
