CONSTANTS
  StalePath = FALSE
  AllSiblings = FALSE
  EnterOnFocusIn = FALSE
  StaleTarget = FALSE
  FastPath = FALSE
  Depth = 3
  Shapes = {"A", "H", "P"}
SPECIFICATION Spec
INVARIANTS Conforms RouteSane ChainSane HoverClosed
CHECK_DEADLOCK FALSE
