CONSTANTS
  StalePath = FALSE
  AllSiblings = FALSE
  EnterOnFocusIn = FALSE
  StaleTarget = FALSE
  FastPath = FALSE
  Reentrant = FALSE
  LiveTarget = FALSE
  BubbleSkipsLast = FALSE
  ConsumeLeak = FALSE
  DupSelf = FALSE
  Answers = TRUE
  Depth = 2
  Shapes = {"B", "H"}
SPECIFICATION Spec
INVARIANTS Conforms HoverClosed
CHECK_DEADLOCK FALSE
