CONSTANTS
  Bits = 16
  RowIncl = FALSE
  RootClip = FALSE
  WideFix = FALSE
  Sizes = {0, 1, 2, 3, 255, 256, 257, 300}
  Coords = {0, 1, 2, 3, 254, 255, 256, 257, 299, 300, 301, 65535}
  Rows = 2
  Cols = 3
  XS = {0}
  YS = {0}
  WS = {1}
  HS = {1}
  ZS = {0}
  GXS = {0}
SPECIFICATION Spec
INVARIANTS AddrConforms
CHECK_DEADLOCK FALSE
