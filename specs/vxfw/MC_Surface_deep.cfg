CONSTANTS
  Bits = 0
  RowIncl = TRUE
  RootClip = TRUE
  WideFix = TRUE
  Sizes = {0, 1, 2, 3, 16, 181, 182, 255, 256, 257, 300, 1000, 32768, 65535}
  Coords = {0, 1, 2, 3, 15, 16, 17, 180, 181, 182, 254, 255, 256, 257, 299, 300, 301, 999, 1000, 32767, 32768, 65534, 65535}
  Rows = 3
  Cols = 3
  XS <- XSd
  YS <- YSd
  WS = {0, 1, 2, 3, 6}
  HS = {0, 1, 2, 5}
  ZS <- ZSq
  GXS <- GXSd
SPECIFICATION Spec
INVARIANTS IndexInBuffer IndexInjective OutsideIgnored EffectSmall AddrConforms PaintConforms WideJudged
CHECK_DEADLOCK FALSE
