CONSTANTS
  StallGuard = TRUE
  MaxH = 3
  MaxRow = 2
  Above = 2
SPECIFICATION Spec
INVARIANTS Returns
CHECK_DEADLOCK FALSE
