---------------------------- MODULE RoutingImpl ----------------------------
(* Implementation-shaped transcription of vxfw's focusHandler, mouseHandler *)
(* and the event switch of App.Run, one operator per handler.  NOT an       *)
(* oracle: MC_Routing composes it with Routing.tla and lets TLC compare the *)
(* two over every short event history on small trees.                       *)
(*   StalePath      TRUE : the focus path is recomputed only at a frame     *)
(*                         (the code as found); FALSE: also when focus      *)
(*                         moves (repaired)                                 *)
(*   AllSiblings    TRUE : the hit test descends into every child that      *)
(*                         contains the point (as found); FALSE: only the   *)
(*                         topmost (repaired)                               *)
(*   EnterOnFocusIn TRUE : terminal focus-in sends MouseEnter to the root   *)
(*                         without recording it (as found)                  *)
(*   StaleTarget    TRUE : the target phase goes to the last widget of the  *)
(*                         path instead of the focused widget (a regression *)
(*                         that only shows when the focused widget is not   *)
(*                         part of the last frame: the path is then just    *)
(*                         the root)                                        *)
(*   FastPath       TRUE : the enter/leave diff is skipped and the old hit  *)
(*                         list kept when the deepest hit and the depth are *)
(*                         unchanged (a regression that shows when an       *)
(*                         ancestor was replaced between two frames)        *)
(* T is a session [n, pars, caps, lays] (one parent relation per layout);   *)
(* im.lay is the layout of the last frame.                                  *)
(* Handlers are modelled by a table: cons = <<w, ph>> (that handler         *)
(* consumes the event) or <<>>.                                             *)
EXTENDS Integers, Sequences, FiniteSets
CONSTANTS StalePath, AllSiblings, EnterOnFocusIn, StaleTarget, FastPath

R == INSTANCE Routing

Nil == [c |-> "nil"]
Offer(w, ph, cls, ret) == [w |-> w, ph |-> ph, cls |-> cls, ret |-> ret]
Consume == [c |-> "consume"]

Im0 == [focused |-> 1, path |-> <<1>>, hits |-> <<>>, mouse |-> <<>>, lay |-> 1]

(* focusHandler.findPath on the frame drawn from layout k: the path to f     *)
(* when f is part of that frame, else just the root                          *)
FindPath(T, k, f) == IF R!Present(R!At(T, k), T.lays[k], f) THEN R!PathTo(R!At(T, k), f) ELSE <<1>>

(* the three loops shared by focusHandler.handleEvent and                    *)
(* mouseHandler.handleEvent: capture over the whole list (the last element   *)
(* included), target, bubble from the last but one                           *)
RetOf(w, ph, cons, ret) == IF cons = <<w, ph>> THEN ret ELSE Nil
Stops(w, ph, cons, ret) == cons = <<w, ph>> /\ R!Has(ret, "consume")

RECURSIVE Cap(_, _, _, _, _, _)
Cap(T, list, i, cls, cons, ret) ==   \* offers of the capture loop from position i; flag = consumed
  IF i > Len(list) THEN [offers |-> <<>>, stop |-> FALSE]
  ELSE IF ~T.caps[list[i]] THEN Cap(T, list, i + 1, cls, cons, ret)
  ELSE LET o == Offer(list[i], "cap", cls, RetOf(list[i], "cap", cons, ret)) IN
       IF Stops(list[i], "cap", cons, ret) THEN [offers |-> <<o>>, stop |-> TRUE]
       ELSE LET rest == Cap(T, list, i + 1, cls, cons, ret) IN [offers |-> <<o>> \o rest.offers, stop |-> rest.stop]

RECURSIVE Bub(_, _, _, _, _)
Bub(list, i, cls, cons, ret) ==
  IF i < 1 THEN <<>>
  ELSE LET o == Offer(list[i], "bub", cls, RetOf(list[i], "bub", cons, ret)) IN
       IF Stops(list[i], "bub", cons, ret) THEN <<o>> ELSE <<o>> \o Bub(list, i - 1, cls, cons, ret)

Dispatch(T, list, target, cls, cons, ret) ==
  LET c == Cap(T, list, 1, cls, cons, ret) IN
  IF c.stop THEN c.offers
  ELSE LET t == Offer(target, "tgt", cls, RetOf(target, "tgt", cons, ret)) IN
       IF Stops(target, "tgt", cons, ret) THEN c.offers \o <<t>>
       ELSE c.offers \o <<t>> \o Bub(list, Len(list) - 1, cls, cons, ret)

(* focusHandler.focusWidget *)
Focus(T, im, f) ==
  IF im.focused = f THEN [im |-> im, offers |-> <<>>]
  ELSE [im |-> [im EXCEPT !.focused = f, !.path = IF StalePath THEN @ ELSE FindPath(T, im.lay, f)],
        offers |-> <<Offer(im.focused, "tgt", "fout", Nil), Offer(f, "tgt", "fin", Nil)>>]

(* a key: cons consumes it; when fkey > 0 the target handler answers with    *)
(* focus(fkey) + consume instead                                             *)
Key(T, im, cls, cons, fkey) ==
  LET ret == IF fkey > 0 THEN [c |-> "batch", l |-> <<[c |-> "focus", w |-> fkey], Consume>>] ELSE Consume
      cs  == IF fkey > 0 THEN <<IF StaleTarget THEN im.path[Len(im.path)] ELSE im.focused, "tgt">> ELSE cons
      d   == Dispatch(T, im.path, IF StaleTarget THEN im.path[Len(im.path)] ELSE im.focused, cls, cs, ret)
      foc == IF fkey > 0 /\ \E i \in 1..Len(d) : d[i].ph = "tgt" THEN Focus(T, im, fkey) ELSE [im |-> im, offers |-> <<>>]
  IN [im |-> foc.im, offers |-> d \o foc.offers]

(* hitTest on one tree t = [n, parent, ...] *)
RECURSIVE Hits(_, _, _, _, _)
Hits(t, L, w, px, py) ==
  LET kids == {k \in 1..t.n : t.parent[k] = w /\ R!In(L[k], px, py)}
      RECURSIVE Each(_)
      Each(S) == IF S = {} THEN <<>>
                 ELSE LET k == CHOOSE m \in S : \A o \in S : m <= o
                      IN Hits(t, L, k, px - L[k].x, py - L[k].y) \o Each(S \ {k})
  IN IF kids = {} THEN <<<<w, px, py>>>>
     ELSE IF AllSiblings THEN <<<<w, px, py>>>> \o Each(kids)
     ELSE LET top == CHOOSE k \in kids : \A j \in kids : R!OnTop(L, k, j)
          IN <<<<w, px, py>>>> \o Hits(t, L, top, px - L[top].x, py - L[top].y)

(* mouseHandler.update against the frame drawn from layout k *)
Update(T, im, k) ==
  IF im.mouse = <<>> THEN [im |-> im, offers |-> <<>>]
  ELSE
  LET L == T.lays[k]
      x == im.mouse[1]
      y == im.mouse[2]
      hits == IF x >= 0 /\ y >= 0 /\ x < L[1].w /\ y < L[1].h THEN Hits(R!At(T, k), L, 1, x, y) ELSE <<>>
      fast == FastPath /\ hits # <<>> /\ Len(hits) = Len(im.hits) /\ hits[Len(hits)] = im.hits[Len(hits)]
      gone == SelectSeq(im.hits, LAMBDA h : \A i \in 1..Len(hits) : hits[i] # h)
      come == SelectSeq(hits, LAMBDA h : \A i \in 1..Len(im.hits) : im.hits[i] # h)
      notes == [i \in 1..Len(gone) |-> Offer(gone[i][1], "tgt", "leave", Nil)]
               \o [i \in 1..Len(come) |-> Offer(come[i][1], "tgt", "enter", Nil)]
  IN IF fast THEN [im |-> im, offers |-> <<>>] ELSE [im |-> [im EXCEPT !.hits = hits], offers |-> notes]

(* mouseHandler.handleEvent: update against the last frame, then the three loops *)
Mouse(T, im, x, y, cls, cons) ==
  LET u  == Update(T, [im EXCEPT !.mouse = <<x, y>>], im.lay)
      ws == [i \in 1..Len(u.im.hits) |-> u.im.hits[i][1]]
  IN [im |-> u.im,
      offers |-> u.offers \o (IF ws = <<>> THEN <<>> ELSE Dispatch(T, ws, ws[Len(ws)], cls, cons, Consume))]

TFocusOut(im) ==
  [im |-> [im EXCEPT !.hits = <<>>, !.mouse = <<>>],
   offers |-> [i \in 1..Len(im.hits) |-> Offer(im.hits[i][1], "tgt", "leave", Nil)]]

TFocusIn(im) ==
  [im |-> im, offers |-> IF EnterOnFocusIn THEN <<Offer(1, "tgt", "enter", Nil)>> ELSE <<>>]

(* one frame drawn from layout k: layout, mouse update, render, updatePath    *)
(* (refocus the root when the focused widget is not in the frame)             *)
Frame(T, im, k) ==
  LET u == Update(T, im, k)
      m == [u.im EXCEPT !.lay = k]
  IN IF R!Present(R!At(T, k), T.lays[k], m.focused)
     THEN [im |-> [m EXCEPT !.path = R!PathTo(R!At(T, k), m.focused)], offers |-> u.offers]
     ELSE [im |-> [m EXCEPT !.focused = 1, !.path = <<1>>],
           offers |-> u.offers \o <<Offer(m.focused, "tgt", "fout", Nil), Offer(1, "tgt", "fin", Nil)>>]
=============================================================================
