---------------------------- MODULE RoutingImpl ----------------------------
(* Implementation-shaped transcription of vxfw's focusHandler, mouseHandler *)
(* and the event switch of App.Run, one operator per handler.  NOT an       *)
(* oracle: MC_Routing composes it with Routing.tla and lets TLC compare the *)
(* two over every short event history on small trees.                       *)
(*   StalePath      TRUE : the focus path is recomputed only at a frame     *)
(*                         (the code as found); FALSE: also when focus      *)
(*                         moves (repaired)                                 *)
(*   AllSiblings    TRUE : the hit test descends into every child that      *)
(*                         contains the point (as found); FALSE: only the   *)
(*                         topmost (repaired)                               *)
(*   EnterOnFocusIn TRUE : terminal focus-in sends MouseEnter to the root   *)
(*                         without recording it (as found)                  *)
(*   StaleTarget    TRUE : the target phase goes to the last widget of the  *)
(*                         path instead of the focused widget (a regression *)
(*                         that only shows when the focused widget is not   *)
(*                         part of the last frame: the path is then just    *)
(*                         the root)                                        *)
(*   FastPath       TRUE : the enter/leave diff is skipped and the old hit  *)
(*                         list kept when the deepest hit and the depth are *)
(*                         unchanged (a regression that shows when an       *)
(*                         ancestor was replaced between two frames)        *)
(*   Reentrant      TRUE : focusWidget interprets the command returned for  *)
(*                         the focus-out before it switches the focus (as   *)
(*                         found: a focus command among them re-enters with *)
(*                         the old widget still focused); FALSE: both       *)
(*                         notifications are delivered, then their answers  *)
(*                         interpreted (repaired)                           *)
(*   LiveTarget     TRUE : the target phase goes to whoever holds the focus *)
(*                         when it starts (as found); FALSE: to the widget  *)
(*                         focused when the event arrived (repaired)        *)
(*   BubbleSkipsLast TRUE: the bubble loop starts below the last widget of  *)
(*                         the path whoever the target is (as found: a root *)
(*                         that is the whole path of an undrawn focus is    *)
(*                         never bubbled to); FALSE: it skips the target    *)
(*   ConsumeLeak    TRUE : a consume returned for a focus notification      *)
(*                         stops the event being routed (as found)          *)
(*   DupSelf        TRUE : a widget that draws a surface of its own inside  *)
(*                         its surface (T.wraps) is listed once per surface *)
(*                         in the hit list and in the focus path (as found) *)
(* T is a session [n, pars, caps, wraps, lays] (one parent relation per     *)
(* layout);                                                                 *)
(* im.lay is the layout of the last frame.                                  *)
(* Handlers are modelled by a table: cons = <<w, ph>> (that handler         *)
(* consumes the event) or <<>>.                                             *)
EXTENDS Integers, Sequences, FiniteSets
CONSTANTS StalePath, AllSiblings, EnterOnFocusIn, StaleTarget, FastPath,
          Reentrant, LiveTarget, BubbleSkipsLast, ConsumeLeak, DupSelf

R == INSTANCE Routing

Nil == [c |-> "nil"]
Offer(w, ph, cls, ret) == [w |-> w, ph |-> ph, cls |-> cls, ret |-> ret]
Consume == [c |-> "consume"]

Im0 == [focused |-> 1, path |-> <<1>>, hits |-> <<>>, mouse |-> <<>>, lay |-> 1]

(* focusHandler.findPath on the frame drawn from layout k: the path to f     *)
(* when f is part of that frame, else just the root                          *)
RECURSIVE Dup(_, _)
Dup(T, q) == IF q = <<>> THEN <<>>
             ELSE (IF DupSelf /\ T.wraps[Head(q)] THEN <<Head(q), Head(q)>> ELSE <<Head(q)>>) \o Dup(T, Tail(q))
DrawnPath(T, k, f) == LET q == R!PathTo(R!At(T, k), f) IN Dup(T, R!Front(q)) \o <<f>>
FindPath(T, k, f) == IF R!Present(R!At(T, k), T.lays[k], f) THEN DrawnPath(T, k, f) ELSE <<1>>

(* the three loops shared by focusHandler.handleEvent and                    *)
(* mouseHandler.handleEvent: capture over the whole list (the last element   *)
(* included), target, bubble from the last but one                           *)
RetOf(w, ph, cons, ret) == IF cons = <<w, ph>> THEN ret ELSE Nil
Stops(w, ph, cons, ret) == cons = <<w, ph>> /\ R!Has(ret, "consume")

RECURSIVE Cap(_, _, _, _, _, _)
Cap(T, list, i, cls, cons, ret) ==   \* offers of the capture loop from position i; flag = consumed
  IF i > Len(list) THEN [offers |-> <<>>, stop |-> FALSE]
  ELSE IF ~T.caps[list[i]] THEN Cap(T, list, i + 1, cls, cons, ret)
  ELSE LET o == Offer(list[i], "cap", cls, RetOf(list[i], "cap", cons, ret)) IN
       IF Stops(list[i], "cap", cons, ret) THEN [offers |-> <<o>>, stop |-> TRUE]
       ELSE LET rest == Cap(T, list, i + 1, cls, cons, ret) IN [offers |-> <<o>> \o rest.offers, stop |-> rest.stop]

RECURSIVE Bub(_, _, _, _, _)
Bub(list, i, cls, cons, ret) ==
  IF i < 1 THEN <<>>
  ELSE LET o == Offer(list[i], "bub", cls, RetOf(list[i], "bub", cons, ret)) IN
       IF Stops(list[i], "bub", cons, ret) THEN <<o>> ELSE <<o>> \o Bub(list, i - 1, cls, cons, ret)

(* where the bubble loop starts *)
BubFrom(list, target) == IF BubbleSkipsLast \/ list[Len(list)] = target THEN Len(list) - 1 ELSE Len(list)

Dispatch(T, list, target, cls, cons, ret) ==
  LET c == Cap(T, list, 1, cls, cons, ret) IN
  IF c.stop THEN c.offers
  ELSE LET t == Offer(target, "tgt", cls, RetOf(target, "tgt", cons, ret)) IN
       IF Stops(target, "tgt", cons, ret) THEN c.offers \o <<t>>
       ELSE c.offers \o <<t>> \o Bub(list, BubFrom(list, target), cls, cons, ret)

(* focusHandler.focusWidget.  left = the scripted answers to focus notifications *)
(* not given yet: records [w, cls ("fout"/"fin"), k ("focus"/"consume"), a     *)
(* (widget named by the focus command)], each given once.  Result: [im,         *)
(* offers, left, consumed (some answer was a consume: the shared flag is set)]  *)
AnsFor(left, w, cls) == {r \in left : r.w = w /\ r.cls = cls}
One(S) == CHOOSE x \in S : TRUE
RetOfAns(S) == IF S = {} THEN Nil ELSE IF One(S).k = "focus" THEN [c |-> "focus", w |-> One(S).a] ELSE Consume

RECURSIVE FocusW(_, _, _, _)
FocusW(T, im, f, left) ==
  IF im.focused = f THEN [im |-> im, offers |-> <<>>, left |-> left, consumed |-> FALSE]
  ELSE
  LET old == im.focused
      Interp(S, imx, l) ==       \* handleCommand on the answer S
        IF S # {} /\ One(S).k = "focus" THEN FocusW(T, imx, One(S).a, l)
        ELSE [im |-> imx, offers |-> <<>>, left |-> l, consumed |-> S # {}]
      Switched(imx) == [imx EXCEPT !.focused = f, !.path = IF StalePath THEN @ ELSE FindPath(T, imx.lay, f)]
      aO == AnsFor(left, old, "fout")
      oO == Offer(old, "tgt", "fout", RetOfAns(aO))
  IN IF Reentrant THEN
       LET r1 == Interp(aO, im, left \ aO)
           aI == AnsFor(r1.left, f, "fin")
           r2 == Interp(aI, Switched(r1.im), r1.left \ aI)
       IN [im |-> r2.im, offers |-> <<oO>> \o r1.offers \o <<Offer(f, "tgt", "fin", RetOfAns(aI))>> \o r2.offers,
           left |-> r2.left, consumed |-> r1.consumed \/ r2.consumed]
     ELSE
       LET aI == AnsFor(left \ aO, f, "fin")
           r1 == Interp(aO, Switched(im), (left \ aO) \ aI)
           r2 == Interp(aI, r1.im, r1.left)
       IN [im |-> r2.im, offers |-> <<oO, Offer(f, "tgt", "fin", RetOfAns(aI))>> \o r1.offers \o r2.offers,
           left |-> r2.left, consumed |-> r1.consumed \/ r2.consumed]

Focus(T, im, f) == FocusW(T, im, f, {})

(* a key: cons consumes it; when fkey > 0 the target handler answers with    *)
(* focus(fkey) + consume instead                                             *)
Key(T, im, cls, cons, fkey) ==
  LET ret == IF fkey > 0 THEN [c |-> "batch", l |-> <<[c |-> "focus", w |-> fkey], Consume>>] ELSE Consume
      cs  == IF fkey > 0 THEN <<IF StaleTarget THEN im.path[Len(im.path)] ELSE im.focused, "tgt">> ELSE cons
      d   == Dispatch(T, im.path, IF StaleTarget THEN im.path[Len(im.path)] ELSE im.focused, cls, cs, ret)
      foc == IF fkey > 0 /\ \E i \in 1..Len(d) : d[i].ph = "tgt" THEN Focus(T, im, fkey) ELSE [im |-> im, offers |-> <<>>]
  IN [im |-> foc.im, offers |-> d \o foc.offers]

(* a key whose handler (hw, hph) answers with a focus command for f (and a    *)
(* consume when wc) while the event is on its way; ans = scripted answers to   *)
(* the focus notifications.  The route is the path as it was when the event    *)
(* arrived; the target is read when the target phase starts.                   *)
PlainOffers(ws, ph, cls) == [i \in 1..Len(ws) |-> Offer(ws[i], ph, cls, Nil)]
IndexOf(q, x) == CHOOSE i \in 1..Len(q) : q[i] = x
(* the handler (hw, hph) is offered a key that nobody consumes *)
OnRoute(T, im, hw, hph) ==
  LET tgt0 == IF StaleTarget THEN im.path[Len(im.path)] ELSE im.focused IN
  CASE hph = "cap" -> T.caps[hw] /\ R!InSeq(im.path, hw)
    [] hph = "tgt" -> hw = tgt0
    [] OTHER       -> R!InSeq(SubSeq(im.path, 1, BubFrom(im.path, tgt0)), hw)
KeyMove(T, im, cls, hw, hph, f, wc, ans) ==
  LET path == im.path
      tgt0 == IF StaleTarget THEN path[Len(path)] ELSE im.focused
      fc   == [c |-> "focus", w |-> f]
      ret  == IF wc THEN [c |-> "batch", l |-> <<fc, Consume>>] ELSE fc
      capL == SelectSeq(path, LAMBDA w : T.caps[w])
      foc  == FocusW(T, im, f, ans)
      stop == wc \/ (ConsumeLeak /\ foc.consumed)
      tgtA == IF LiveTarget THEN foc.im.focused ELSE tgt0      \* target when the focus moved during the capture phase
      BubL(tg) == R!Rev(SubSeq(path, 1, BubFrom(path, tg)))
  IN IF hph = "cap" /\ R!InSeq(capL, hw) THEN
        LET i == IndexOf(capL, hw) IN
        [im |-> foc.im,
         offers |-> PlainOffers(SubSeq(capL, 1, i - 1), "cap", cls) \o <<Offer(hw, "cap", cls, ret)>> \o foc.offers
                    \o (IF stop THEN <<>> ELSE PlainOffers(SubSeq(capL, i + 1, Len(capL)), "cap", cls)
                                               \o <<Offer(tgtA, "tgt", cls, Nil)>> \o PlainOffers(BubL(tgtA), "bub", cls))]
     ELSE IF hph = "tgt" /\ hw = tgt0 THEN
        [im |-> foc.im,
         offers |-> PlainOffers(capL, "cap", cls) \o <<Offer(hw, "tgt", cls, ret)>> \o foc.offers
                    \o (IF stop THEN <<>> ELSE PlainOffers(BubL(tgt0), "bub", cls))]
     ELSE IF hph = "bub" /\ R!InSeq(BubL(tgt0), hw) THEN
        LET i == IndexOf(BubL(tgt0), hw) IN
        [im |-> foc.im,
         offers |-> PlainOffers(capL, "cap", cls) \o <<Offer(tgt0, "tgt", cls, Nil)>> \o PlainOffers(SubSeq(BubL(tgt0), 1, i - 1), "bub", cls)
                    \o <<Offer(hw, "bub", cls, ret)>> \o foc.offers
                    \o (IF stop THEN <<>> ELSE PlainOffers(SubSeq(BubL(tgt0), i + 1, Len(BubL(tgt0))), "bub", cls))]
     ELSE [im |-> im, offers |-> Dispatch(T, path, tgt0, cls, <<>>, Nil)]

(* hitTest on one tree t = [n, parent, ...]; wr[w] = w draws a surface of its  *)
(* own inside its surface                                                      *)
RECURSIVE Hits(_, _, _, _, _, _)
Hits(t, wr, L, w, px, py) ==
  LET kids == {k \in 1..t.n : t.parent[k] = w /\ R!In(L[k], px, py)}
      RECURSIVE Each(_)
      Each(S) == IF S = {} THEN <<>>
                 ELSE LET k == CHOOSE m \in S : \A o \in S : m <= o
                      IN Hits(t, wr, L, k, px - L[k].x, py - L[k].y) \o Each(S \ {k})
      own == IF DupSelf /\ wr[w] THEN <<<<w, px, py>>, <<w, px, py>>>> ELSE <<<<w, px, py>>>>
  IN IF kids = {} THEN own
     ELSE IF AllSiblings THEN own \o Each(kids)
     ELSE LET top == CHOOSE k \in kids : \A j \in kids : R!OnTop(L, k, j)
          IN own \o Hits(t, wr, L, top, px - L[top].x, py - L[top].y)

(* mouseHandler.update against the frame drawn from layout k *)
Update(T, im, k) ==
  IF im.mouse = <<>> THEN [im |-> im, offers |-> <<>>]
  ELSE
  LET L == T.lays[k]
      x == im.mouse[1]
      y == im.mouse[2]
      hits == IF x >= 0 /\ y >= 0 /\ x < L[1].w /\ y < L[1].h THEN Hits(R!At(T, k), T.wraps, L, 1, x, y) ELSE <<>>
      fast == FastPath /\ hits # <<>> /\ Len(hits) = Len(im.hits) /\ hits[Len(hits)] = im.hits[Len(hits)]
      gone == SelectSeq(im.hits, LAMBDA h : \A i \in 1..Len(hits) : hits[i] # h)
      come == SelectSeq(hits, LAMBDA h : \A i \in 1..Len(im.hits) : im.hits[i] # h)
      notes == [i \in 1..Len(gone) |-> Offer(gone[i][1], "tgt", "leave", Nil)]
               \o [i \in 1..Len(come) |-> Offer(come[i][1], "tgt", "enter", Nil)]
  IN IF fast THEN [im |-> im, offers |-> <<>>] ELSE [im |-> [im EXCEPT !.hits = hits], offers |-> notes]

(* mouseHandler.handleEvent: update against the last frame, then the three loops *)
Mouse(T, im, x, y, cls, cons) ==
  LET u  == Update(T, [im EXCEPT !.mouse = <<x, y>>], im.lay)
      ws == [i \in 1..Len(u.im.hits) |-> u.im.hits[i][1]]
  IN [im |-> u.im,
      offers |-> u.offers \o (IF ws = <<>> THEN <<>> ELSE Dispatch(T, ws, ws[Len(ws)], cls, cons, Consume))]

TFocusOut(im) ==
  [im |-> [im EXCEPT !.hits = <<>>, !.mouse = <<>>],
   offers |-> [i \in 1..Len(im.hits) |-> Offer(im.hits[i][1], "tgt", "leave", Nil)]]

TFocusIn(im) ==
  [im |-> im, offers |-> IF EnterOnFocusIn THEN <<Offer(1, "tgt", "enter", Nil)>> ELSE <<>>]

(* one frame drawn from layout k: layout, mouse update, render, updatePath    *)
(* (refocus the root when the focused widget is not in the frame)             *)
Frame(T, im, k) ==
  LET u == Update(T, im, k)
      m == [u.im EXCEPT !.lay = k]
  IN IF R!Present(R!At(T, k), T.lays[k], m.focused)
     THEN [im |-> [m EXCEPT !.path = DrawnPath(T, k, m.focused)], offers |-> u.offers]
     ELSE [im |-> [m EXCEPT !.focused = 1, !.path = <<1>>],
           offers |-> u.offers \o <<Offer(m.focused, "tgt", "fout", Nil), Offer(1, "tgt", "fin", Nil)>>]
=============================================================================
