------------------------------ MODULE Surface ------------------------------
(* Oracle for the "surface addressing" half of C14, written from the public *)
(* documentation of vxfw (a Surface is a Size, a row-major Buffer of cells  *)
(* "large enough for Size", and a list of child SubSurfaces each with an    *)
(* Origin relative to its parent and a ZIndex) and from the property text:  *)
(*   - a cell write lands in precisely the addressed cell when it is inside *)
(*     the surface and is ignored otherwise, for all sizes (unbounded       *)
(*     naturals here: no word size appears in this module);                 *)
(*   - rendering a surface tree paints each child at its offset, clipped to *)
(*     its parent, in z-order: what a terminal shows in a column is the     *)
(*     cell of the surface painted last over that column.  A grapheme that  *)
(*     takes two columns is shown when both columns are its surface's; it   *)
(*     cannot be shown in half, and the cells of the surface painted over   *)
(*     its other column are demanded like any others.                       *)
(* Pure operators only; shared by MC_Surface and Surface_Trace.             *)
EXTENDS Integers, Sequences, FiniteSets

(* ---- addressing ---------------------------------------------------------*)
Cells(w, h)       == w * h                      \* cells a w x h surface owns
Inside(w, h, c, r) == c >= 0 /\ r >= 0 /\ c < w /\ r < h
Index(w, c, r)    == r * w + c                  \* row-major position of (c,r)
(* set of buffer positions a write to (c,r) may change *)
WriteEffect(w, h, c, r) == IF Inside(w, h, c, r) THEN {Index(w, c, r)} ELSE {}

(* ---- painting -----------------------------------------------------------*)
(* A surface is [w, h, fg, cells, kids]:                                    *)
(*   cells = sequence of <<c, r, g, gw>> writes that landed (later wins);   *)
(*           gw = number of columns the grapheme g takes on a terminal      *)
(*           (a logged fact: 1, or 2 for a wide grapheme),                  *)
(*   kids  = sequence of [x, y, z, s] (origin relative to this surface,     *)
(*           z-index, child surface).  fg is the fill colour of every cell. *)
(* g = 0 is a blank.                                                        *)
BlankG == 0

SetMax(S) == CHOOSE m \in S : \A o \in S : o <= m

Covers(k, px, py) == /\ px >= k.x /\ px < k.x + k.s.w
                     /\ py >= k.y /\ py < k.y + k.s.h

(* Children are painted in ascending z-index; among equal z-indices in list *)
(* order.  The child painted last over a point is the one that shows there. *)
Above(kids, i, j) == kids[i].z > kids[j].z \/ (kids[i].z = kids[j].z /\ i >= j)
TopKid(s, px, py) ==
  LET c == {i \in 1..Len(s.kids) : Covers(s.kids[i], px, py)}
  IN IF c = {} THEN 0 ELSE CHOOSE i \in c : \A j \in c : Above(s.kids, i, j)

Hits(s, px, py) == {i \in 1..Len(s.cells) : s.cells[i][1] = px /\ s.cells[i][2] = py}
OwnCell(s, px, py) ==
  LET hits == Hits(s, px, py)
  IN IF hits = {} THEN [g |-> BlankG, w |-> 1, fg |-> s.fg]
     ELSE LET m == s.cells[SetMax(hits)] IN [g |-> m[3], w |-> m[4], fg |-> s.fg]

(* Which surface shows at point (px,py) of surface s, (px,py) being inside  *)
(* s: the topmost child covering the point, recursively (a child covers its *)
(* whole rectangle, written or not; it is visible only inside its parent    *)
(* because only points inside the parent are ever asked for: clipping).     *)
(* path = the child indices leading to it, (x, y) = the point in its own    *)
(* coordinates.                                                             *)
RECURSIVE Owner(_, _, _, _)
Owner(s, px, py, path) ==
  LET k == TopKid(s, px, py)
  IN IF k = 0 THEN [path |-> path, s |-> s, x |-> px, y |-> py]
     ELSE Owner(s.kids[k].s, px - s.kids[k].x, py - s.kids[k].y, Append(path, k))

(* Is the point inside every surface on the way down path (none of them     *)
(* clips it away)?                                                          *)
RECURSIVE InsideAll(_, _, _, _)
InsideAll(s, path, px, py) ==
  /\ Inside(s.w, s.h, px, py)
  /\ path # <<>> => LET k == s.kids[path[1]]
                    IN Covers(k, px, py) /\ InsideAll(k.s, Tail(path), px - k.x, py - k.y)

(* What is demanded of one screen cell:                                     *)
(*   [k |-> "g", g, w, fg]  exactly this grapheme, shown w columns wide, in *)
(*                          colour fg and no other styling;                 *)
(*   [k |-> "c"]            the right part of the wide glyph demanded to    *)
(*                          its left;                                       *)
(*   [k |-> "b"]            the column belongs to a surface whose wide      *)
(*                          glyph there has another of its columns under a  *)
(*                          surface painted later: that surface's cells are *)
(*                          demanded exactly in their columns, so the glyph *)
(*                          cannot be shown; the column must show a narrow  *)
(*                          cell (no part of any wide glyph);               *)
(*   [k |-> "u"]            not stated by the property (a wide glyph cut by *)
(*                          the edge of its own surface, of an ancestor or  *)
(*                          of the screen, or a surface that wrote a cell   *)
(*                          of its own under its own wide glyph): a frame   *)
(*                          with such a cell is not judged.                 *)
WantG(a) == [k |-> "g", g |-> a.g, w |-> a.w, fg |-> a.fg]
WantC == [k |-> "c"]
WantB == [k |-> "b"]
WantU == [k |-> "u"]
Visible(root, cols, px, py) == px < cols /\ Inside(root.w, root.h, px, py)

(* One screen row (0-based y), laid out from column x (0-based) on: every   *)
(* column shows the cell of the surface that owns it; a wide glyph needs    *)
(* all its columns to be owned by the same surface.                         *)
RECURSIVE WantRow(_, _, _, _, _)
WantRow(root, cols, y, x, acc) ==
  IF x >= cols THEN acc
  ELSE IF ~Inside(root.w, root.h, x, y)
       THEN WantRow(root, cols, y, x + 1, Append(acc, [k |-> "g", g |-> BlankG, w |-> 1, fg |-> 0]))
  ELSE
    LET o == Owner(root, x, y, <<>>)
        a == OwnCell(o.s, o.x, o.y)
        rest == (x + 1)..(x + a.w - 1)           \* the further columns of a wide glyph
        whole == \A q \in rest : Visible(root, cols, q, y) /\ Owner(root, q, y, <<>>).path = o.path
        cut == \E q \in rest : \/ ~Visible(root, cols, q, y)
                                \/ ~InsideAll(root, o.path, q, y)
        ownUnder == \E q \in rest : Hits(o.s, o.x + (q - x), o.y) # {}
    IN IF a.w < 1 THEN WantRow(root, cols, y, x + 1, Append(acc, WantU))
       ELSE IF a.w = 1 THEN WantRow(root, cols, y, x + 1, Append(acc, WantG(a)))
       ELSE IF cut \/ ownUnder THEN WantRow(root, cols, y, x + 1, Append(acc, WantU))
       ELSE IF whole THEN WantRow(root, cols, y, x + a.w, Append(acc, WantG(a)) \o [i \in 1..(a.w - 1) |-> WantC])
       ELSE WantRow(root, cols, y, x + 1, Append(acc, WantB))

(* The demand on the screen (1-based rows of 1-based columns) after the     *)
(* root surface has been rendered at the origin of a cleared rows x cols    *)
(* screen.                                                                  *)
Want(root, rows, cols) == [y \in 1..rows |-> WantRow(root, cols, y - 1, 0, <<>>)]

Judged(want, rows, cols) == \A y \in 1..rows : \A x \in 1..cols : want[y][x].k # "u"
(* A row that holds a cell the property says nothing about is not judged (what a terminal shows  *)
(* behind a glyph it was never given whole is not stated either); every other row is.          *)
RowJudged(want, y, cols) == \A x \in 1..cols : want[y][x].k # "u"

(* A displayed cell is [k |-> "g", g, w, fg, plain] (plain: no background,  *)
(* attribute, underline or hyperlink), [k |-> "c"] (covered by the wide     *)
(* glyph to its left) or [k |-> "x"] (not determined by what was sent).     *)
CellConforms(shown, want) ==
  CASE want.k = "g" -> /\ shown.k = "g" /\ shown.g = want.g /\ shown.w = want.w
                       /\ shown.fg = want.fg /\ shown.plain
    [] want.k = "c" -> shown.k = "c"
    [] want.k = "b" -> shown.k = "g" /\ shown.w = 1
    [] OTHER        -> TRUE

ScreenConforms(shown, want, rows, cols) ==
  \A y \in 1..rows : \A x \in 1..cols : CellConforms(shown[y][x], want[y][x])
ScreenConformsJ(shown, want, rows, cols) ==
  \A y \in 1..rows : RowJudged(want, y, cols) => \A x \in 1..cols : CellConforms(shown[y][x], want[y][x])

(* names of the failing clauses, for the rejection signature *)
BadFields(shown, want) ==
  IF want.k = "b" THEN {"partly-covered-wide-glyph-shown"}
  ELSE IF shown.k # want.k THEN {"kind:" \o shown.k \o "/" \o want.k}
  ELSE IF want.k # "g" THEN {}
  ELSE (IF shown.g # want.g THEN {"grapheme"} ELSE {})
       \cup (IF shown.w # want.w THEN {"width"} ELSE {})
       \cup (IF shown.fg # want.fg THEN {"fg"} ELSE {})
       \cup (IF ~shown.plain THEN {"style"} ELSE {})

BadCells(shown, want, rows, cols) ==
  {<<y, x>> \in (1..rows) \X (1..cols) : RowJudged(want, y, cols) /\ ~CellConforms(shown[y][x], want[y][x])}
FirstBad(shown, want, rows, cols) ==
  LET b == BadCells(shown, want, rows, cols)
  IN IF b = {} THEN <<>>
     ELSE LET p == CHOOSE p \in b : \A q \in b : p[1] < q[1] \/ (p[1] = q[1] /\ p[2] <= q[2])
          IN <<p, shown[p[1]][p[2]], want[p[1]][p[2]], BadFields(shown[p[1]][p[2]], want[p[1]][p[2]])>>

(* ---- AddChild -----------------------------------------------------------*)
(* Appending a child records exactly the requested origin.                  *)
AddChildOK(before, col, row, after, ox, oy) == after = before + 1 /\ ox = col /\ oy = row
=============================================================================
