------------------------------ MODULE Surface ------------------------------
(* Oracle for the "surface addressing" half of C14, written from the public *)
(* documentation of vxfw (a Surface is a Size, a row-major Buffer of cells  *)
(* "large enough for Size", and a list of child SubSurfaces each with an    *)
(* Origin relative to its parent and a ZIndex) and from the property text:  *)
(*   - a cell write lands in precisely the addressed cell when it is inside *)
(*     the surface and is ignored otherwise, for all sizes (unbounded       *)
(*     naturals here: no word size appears in this module);                 *)
(*   - rendering a surface tree paints each child at its offset, clipped to *)
(*     its parent, in z-order.                                              *)
(* Pure operators only; shared by MC_Surface and Surface_Trace.             *)
EXTENDS Integers, Sequences, FiniteSets

(* ---- addressing ---------------------------------------------------------*)
Cells(w, h)       == w * h                      \* cells a w x h surface owns
Inside(w, h, c, r) == c >= 0 /\ r >= 0 /\ c < w /\ r < h
Index(w, c, r)    == r * w + c                  \* row-major position of (c,r)
(* set of buffer positions a write to (c,r) may change *)
WriteEffect(w, h, c, r) == IF Inside(w, h, c, r) THEN {Index(w, c, r)} ELSE {}

(* ---- painting -----------------------------------------------------------*)
(* A surface is [w, h, fg, cells, kids]:                                    *)
(*   cells = sequence of <<c, r, g>> writes that landed (later wins),       *)
(*   kids  = sequence of [x, y, z, s] (origin relative to this surface,     *)
(*           z-index, child surface).  fg is the fill colour of every cell. *)
(* A painted cell is <<g, fg>>; g = 0 is a blank.                           *)
BlankG == 0

SetMax(S) == CHOOSE m \in S : \A o \in S : o <= m

Covers(k, px, py) == /\ px >= k.x /\ px < k.x + k.s.w
                     /\ py >= k.y /\ py < k.y + k.s.h

(* Children are painted in ascending z-index; among equal z-indices in list *)
(* order.  The child painted last over a point is the one that shows there. *)
Above(kids, i, j) == kids[i].z > kids[j].z \/ (kids[i].z = kids[j].z /\ i >= j)
TopKid(s, px, py) ==
  LET c == {i \in 1..Len(s.kids) : Covers(s.kids[i], px, py)}
  IN IF c = {} THEN 0 ELSE CHOOSE i \in c : \A j \in c : Above(s.kids, i, j)

OwnCell(s, px, py) ==
  LET hits == {i \in 1..Len(s.cells) : s.cells[i][1] = px /\ s.cells[i][2] = py}
  IN IF hits = {} THEN <<BlankG, s.fg>> ELSE <<s.cells[SetMax(hits)][3], s.fg>>

(* What shows at point (px,py) of surface s, (px,py) being inside s: a      *)
(* child is visible only inside its parent because only points inside the   *)
(* parent are ever asked for (clipping), and a child covers its whole       *)
(* rectangle, written or not.                                               *)
RECURSIVE CellAt(_, _, _)
CellAt(s, px, py) ==
  LET k == TopKid(s, px, py)
  IN IF k = 0 THEN OwnCell(s, px, py)
     ELSE CellAt(s.kids[k].s, px - s.kids[k].x, py - s.kids[k].y)

(* The screen (1-based rows of 1-based columns) after the root surface has  *)
(* been rendered at the origin of a cleared rows x cols screen.             *)
Screen(root, rows, cols) ==
  [y \in 1..rows |-> [x \in 1..cols |->
     IF Inside(root.w, root.h, x - 1, y - 1) THEN CellAt(root, x - 1, y - 1)
     ELSE <<BlankG, 0>>]]

(* ---- AddChild -----------------------------------------------------------*)
(* Appending a child records exactly the requested origin.                  *)
AddChildOK(before, col, row, after, ox, oy) == after = before + 1 /\ ox = col /\ oy = row
=============================================================================
