--------------------------- MODULE Routing_Trace ---------------------------
(* Trace validation for C15: instrumented widgets run under the real        *)
(* vxfw.App.Run on a fake console log every CaptureEvent / HandleEvent call *)
(* (widget, phase, event class, returned command tree) and every root Draw. *)
(* The driver cuts the log at its in-band sentinel keys into                *)
(*   step   - one injected event and the offers it caused,                  *)
(*   frame  - one frame: draws and the notifications issued in it,          *)
(*   exit / noframe / noexit / nosync / panic - run-level observations,     *)
(* and this spec steps the Routing oracle (Routing!StepWhy / FrameWhy)      *)
(* through them.  The reset event also names the widgets that draw a        *)
(* surface tagged with themselves inside their own surface (wraps): the     *)
(* oracle knows widgets only, it is context for the rejection signatures.   *)
EXTENDS Routing, TLC, Json, IOUtils

Trace == ndJsonDeserialize(IOEnv.TRACE)

VARIABLES l, T, st, failed
vars == <<l, T, st, failed>>

NoTree == [n |-> 1, pars |-> <<<<0>>>>, caps |-> <<FALSE>>, wraps |-> <<FALSE>>, lays |-> <<<<[x |-> 0, y |-> 0, w |-> 0, h |-> 0, z |-> 0, hid |-> FALSE]>>>>]

Init == l = 1 /\ T = NoTree /\ st = St0 /\ failed = FALSE

Why(e) ==
  CASE e.ev = "step"    -> StepWhy(T, st, e)
    [] e.ev = "frame"   -> FrameWhy(T, st, e)
    [] e.ev = "exit"    -> IF st.quit /\ ~st.over THEN "" ELSE "exit-without-quit"
    [] e.ev = "noframe" -> "redraw-lost"
    [] e.ev = "noexit"  -> "quit-lost"
    [] e.ev = "nosync"  -> "event-lost"
    [] e.ev = "panic"   -> "panic"
    [] OTHER            -> "unknown-event"

Apply(e) ==
  CASE e.ev = "step"  -> StepNext(T, st, e)
    [] e.ev = "frame" -> FrameNext(T, st, e)
    [] e.ev = "exit"  -> [st EXCEPT !.over = TRUE]
    [] OTHER          -> st

(* context for signatures: some widget on the way has two children under the point *)
RECURSIVE Ambiguous(_, _, _, _, _)
Ambiguous(par, L, w, px, py) ==
  LET kids == {k \in 1..T.n : par[k] = w /\ In(L[k], px, py)}
  IN IF kids = {} THEN FALSE
     ELSE Cardinality(kids) > 1 \/
          (LET top == CHOOSE k \in kids : \A j \in kids : OnTop(L, k, j)
           IN Ambiguous(par, L, top, px - L[top].x, py - L[top].y))
Overlap(k, p) == p # <<>> /\ HitChain(At(T, k), T.lays[k], p[1], p[2]) # <<>> /\ Ambiguous(T.pars[k], T.lays[k], 1, p[1], p[2])

Expect(e) ==
  CASE e.ev = "step" -> [chain |-> StepChain(T, st, e), focus |-> st.focus, hover |-> st.hover,
                         route |-> IF StepChain(T, st, e) = <<>> \/ Undrawn(T, st, e) THEN <<>> ELSE Route(T, StepChain(T, st, e)),
                         moved |-> st.moved, tfin |-> st.tfin, undrawn |-> Undrawn(T, st, e),
                         relaid |-> st.relaid, qtick |-> st.qtick,
                         \* context for signatures: the focus moved while the event was being routed;
                         \* a widget on the route draws a surface of its own inside its surface
                         held |-> Held(st, e) # {st.focus},
                         selfnest |-> \E w \in Range(StepChain(T, st, e)) : T.wraps[w],
                         overlap |-> e.in.t = "mouse" /\ Overlap(st.lay, <<e.in.x, e.in.y>>),
                         \* context for signatures: siblings of equal z-index overlap under the pointer (which is on top is open);
                         \* the chain under the resting pointer had been established for the last drawn frame
                         tie |-> e.in.t = "mouse" /\ Cardinality(MouseChains(T, st, e.in.x, e.in.y)) > 1,
                         rest |-> e.in.t = "mouse" /\ Settled(T, st, e.in.x, e.in.y)]
    [] e.ev = "frame" -> [focus |-> st.focus, hover |-> st.hover, ptr |-> st.ptr, redraw |-> st.redraw, refresh |-> st.refresh,
                          moved |-> st.moved, tfin |-> st.tfin, overlap |-> Overlap(e.lay, st.ptr),
                          relaid |-> st.relaid \/ T.pars[e.lay] # T.pars[st.lay],
                          tie |-> Cardinality(FrameChains(T, st, e)) > 1, rest |-> FrameRests(T, st, e),
                          selfnest |-> st.ptr # <<>> /\ \E w \in Range(HitChain(At(T, e.lay), T.lays[e.lay], st.ptr[1], st.ptr[2])) : T.wraps[w],
                          undrawn |-> ~Present(At(T, e.lay), T.lays[e.lay], st.focus)]
    [] OTHER -> [focus |-> st.focus]

Next ==
  /\ l <= Len(Trace)
  /\ l' = l + 1
  /\ LET e == Trace[l] IN
     IF e.ev = "reset" THEN
        /\ T' = [n |-> e.n, pars |-> e.pars, caps |-> e.caps, wraps |-> e.wraps, lays |-> e.lays]
        /\ st' = St0
        /\ failed' = FALSE
     ELSE IF failed THEN UNCHANGED <<T, st, failed>>
     ELSE IF e.ev = "desync" THEN      \* the driver could not attribute the log (timing): judge nothing further
        /\ UNCHANGED <<T, st>>
        /\ failed' = TRUE
     ELSE LET why == Why(e) IN
        /\ UNCHANGED T
        /\ IF why = "" THEN st' = Apply(e) /\ UNCHANGED failed
           ELSE /\ failed' = TRUE
                /\ UNCHANGED st
                /\ PrintT("REJECT " \o ToJson([scn |-> e.scn, line |-> l, op |-> e.ev, why |-> why,
                                               in |-> IF e.ev = "step" THEN e.in ELSE [t |-> e.ev],
                                               exp |-> Expect(e), ev |-> e]))

Spec == Init /\ [][Next]_vars

Consumed == TLCGet("stats").diameter - 1 = Len(Trace)
=============================================================================
