------------------------------ MODULE KeyCodec ------------------------------
(* Oracle for keyboard reports and key bindings.                            *)
(*                                                                          *)
(* Sources: the kitty keyboard protocol specification ("Comprehensive       *)
(* keyboard handling in terminals": the CSI u report format, the functional *)
(* key table, the legacy text-key / ctrl mapping section), xterm ctlseqs    *)
(* ("PC-Style Function Keys", "VT220-Style Function Keys", modifier         *)
(* parameter = 1 + bit mask), ECMA-48 (which bytes after ESC introduce a    *)
(* longer control function), and - for matching - the documentation of      *)
(* Key.Matches / Key.MatchString (the "documented rules").                  *)
(*                                                                          *)
(* Functional core only: every operator is a pure function of its           *)
(* arguments, so the exhaustive models (MC_KeyMatch, MC_KeyCodec) and the   *)
(* trace specification (KeyCodec_Trace) share one definition.  The module   *)
(* has two directions, Decode (report -> set of meanings) and Encode        *)
(* (chord -> report), so that it also serves for checking an emulator that  *)
(* ENCODES keys for a child process (property C13).                         *)
(*                                                                          *)
(* Key identities: a Unicode code point 0..16r10FFFF, or, for keys without  *)
(* one, FKBase + position in FKeyNames.                                     *)
(* Character classes of non-ASCII code points are input facts (records      *)
(* [cp, L, U, Lo, G, P, up, lo] = letter, upper, lower, graphic, printable, *)
(* upper-case image, lower-case image); ASCII classes are defined here.     *)
EXTENDS Integers, Sequences, FiniteSets

MaxCP  == 1114111
FKBase == 1114112
IsCP(x) == x >= 0 /\ x <= MaxCP

(* ------------------------------------------------------------------ *)
(* Modifiers: kitty bit mask (the report carries 1 + mask).           *)
Shift == 1
Alt   == 2
Ctrl  == 4
Super == 8
Hyper == 16
Meta  == 32
Caps  == 64
Num   == 128

Has(m, b)    == (m \div b) % 2 = 1
NoLocks(m)   == m % 64
NoShift(m)   == IF m % 2 = 1 THEN m - 1 ELSE m
Core(m)      == NoShift(NoLocks(m))       \* Ctrl, Alt, Super, Hyper, Meta only
WithBit(m, b) == IF Has(m, b) THEN m ELSE m + b

(* Event types as in the report: 1 press, 2 repeat, 3 release.        *)
Press == 1

(* ------------------------------------------------------------------ *)
(* Functional keys without a code point.                              *)
FKeyNames == <<
  "INSERT", "DELETE", "LEFT", "RIGHT", "UP", "DOWN", "PAGE_UP", "PAGE_DOWN", "HOME", "END",
  "F1", "F2", "F3", "F4", "F5", "F6", "F7", "F8", "F9", "F10", "F11", "F12",
  "KP_BEGIN",
  "CAPS_LOCK", "SCROLL_LOCK", "NUM_LOCK", "PRINT_SCREEN", "PAUSE", "MENU",
  "F13", "F14", "F15", "F16", "F17", "F18", "F19", "F20", "F21", "F22", "F23", "F24", "F25",
  "F26", "F27", "F28", "F29", "F30", "F31", "F32", "F33", "F34", "F35",
  "KP_0", "KP_1", "KP_2", "KP_3", "KP_4", "KP_5", "KP_6", "KP_7", "KP_8", "KP_9",
  "KP_DECIMAL", "KP_DIVIDE", "KP_MULTIPLY", "KP_SUBTRACT", "KP_ADD", "KP_ENTER", "KP_EQUAL",
  "KP_SEPARATOR", "KP_LEFT", "KP_RIGHT", "KP_UP", "KP_DOWN", "KP_PAGE_UP", "KP_PAGE_DOWN",
  "KP_HOME", "KP_END", "KP_INSERT", "KP_DELETE",
  "MEDIA_PLAY", "MEDIA_PAUSE", "MEDIA_PLAY_PAUSE", "MEDIA_REVERSE", "MEDIA_STOP",
  "MEDIA_FAST_FORWARD", "MEDIA_REWIND", "MEDIA_TRACK_NEXT", "MEDIA_TRACK_PREVIOUS",
  "MEDIA_RECORD", "LOWER_VOLUME", "RAISE_VOLUME", "MUTE_VOLUME",
  "LEFT_SHIFT", "LEFT_CONTROL", "LEFT_ALT", "LEFT_SUPER", "LEFT_HYPER", "LEFT_META",
  "RIGHT_SHIFT", "RIGHT_CONTROL", "RIGHT_ALT", "RIGHT_SUPER", "RIGHT_HYPER", "RIGHT_META",
  "ISO_LEVEL3_SHIFT", "ISO_LEVEL5_SHIFT",
  \* terminfo-only keys: no encoding in scope, they occur only as binding targets
  "F0", "F36", "F37", "F38", "F39", "F40", "F41", "F42", "F43", "F44", "F45", "F46", "F47", "F48", "F49",
  "F50", "F51", "F52", "F53", "F54", "F55", "F56", "F57", "F58", "F59", "F60", "F61", "F62", "F63",
  "CLEAR", "DOWN_LEFT", "DOWN_RIGHT", "UP_LEFT", "UP_RIGHT", "CENTER", "BEGIN", "CANCEL", "CLOSE",
  "COMMAND", "COPY", "EXIT", "PRINT", "REFRESH" >>

FKIndex == [n \in {FKeyNames[i] : i \in 1..Len(FKeyNames)} |->
              CHOOSE i \in 1..Len(FKeyNames) : FKeyNames[i] = n]
FK(n) == FKBase + FKIndex[n]

\* The four keys that have both a dedicated key cap and a code point.
KEsc == 27
KEnter == 13
KTab == 9
KBackspace == 127

(* CSI <1> [; mods] <letter>  (xterm PC-style; kitty functional key table) *)
LetterFinals == {65, 66, 67, 68, 69, 70, 72, 80, 81, 82, 83}
LetterKey(fin) ==
  CASE fin = 65 -> "UP" [] fin = 66 -> "DOWN" [] fin = 67 -> "RIGHT" [] fin = 68 -> "LEFT"
    [] fin = 69 -> "KP_BEGIN" [] fin = 70 -> "END" [] fin = 72 -> "HOME"
    [] fin = 80 -> "F1" [] fin = 81 -> "F2" [] fin = 82 -> "F3" [] fin = 83 -> "F4"

(* SS3 <final>.  Application cursor keys (DECCKM: the CSI letter keys A-F, H *)
(* with SS3 in place of CSI; E is Begin, the keypad 5 without Num Lock),     *)
(* PF1-PF4, and the application keypad (DECKPAM; xterm ctlseqs "VT220-Style  *)
(* Function Keys", keypad table, column Application):                        *)
(*   Enter M   * j   + k   , l   - m   . n   / o   0..9 p..y   = X           *)
(* The keys are the keypad keys of the kitty functional key table (the comma *)
(* key is KP_SEPARATOR, the period key KP_DECIMAL).  The table also lists    *)
(* Space (SS3 SP) and Tab (SS3 I) "on the keypad"; no keyboard in the kitty  *)
(* table has such keys, so these two finals are left without a meaning here. *)
KeypadFinals == {77, 88} \cup (106..121)
KeypadKey(fin) ==
  CASE fin = 77 -> "KP_ENTER" [] fin = 88 -> "KP_EQUAL"
    [] fin = 106 -> "KP_MULTIPLY" [] fin = 107 -> "KP_ADD" [] fin = 108 -> "KP_SEPARATOR"
    [] fin = 109 -> "KP_SUBTRACT" [] fin = 110 -> "KP_DECIMAL" [] fin = 111 -> "KP_DIVIDE"
    [] fin >= 112 /\ fin <= 121 ->
         <<"KP_0", "KP_1", "KP_2", "KP_3", "KP_4", "KP_5", "KP_6", "KP_7", "KP_8", "KP_9">>[fin - 111]
SS3Finals == LetterFinals \cup KeypadFinals
SS3Key(fin) == IF fin \in LetterFinals THEN LetterKey(fin) ELSE KeypadKey(fin)
(* A final to which no table assigns a key: the report has no specified      *)
(* meaning, whatever is made of it is not judged (only a crash would be).    *)
SS3Unassigned == (32..126) \ SS3Finals

(* CSI <n> [; mods] ~  (xterm VT220-style editing/function keys, rxvt 7/8, *)
(* kitty 57427 ~).                                                         *)
TildeNums == {1, 2, 3, 4, 5, 6, 7, 8, 11, 12, 13, 14, 15, 17, 18, 19, 20, 21, 23, 24,
              25, 26, 28, 29, 31, 32, 33, 34, 57427}
TildeKey(n) ==
  CASE n = 1 -> "HOME" [] n = 2 -> "INSERT" [] n = 3 -> "DELETE" [] n = 4 -> "END"
    [] n = 5 -> "PAGE_UP" [] n = 6 -> "PAGE_DOWN" [] n = 7 -> "HOME" [] n = 8 -> "END"
    [] n = 11 -> "F1" [] n = 12 -> "F2" [] n = 13 -> "F3" [] n = 14 -> "F4" [] n = 15 -> "F5"
    [] n = 17 -> "F6" [] n = 18 -> "F7" [] n = 19 -> "F8" [] n = 20 -> "F9" [] n = 21 -> "F10"
    [] n = 23 -> "F11" [] n = 24 -> "F12"
    [] n = 25 -> "F13" [] n = 26 -> "F14" [] n = 28 -> "F15" [] n = 29 -> "F16"
    [] n = 31 -> "F17" [] n = 32 -> "F18" [] n = 33 -> "F19" [] n = 34 -> "F20"
    [] n = 57427 -> "KP_BEGIN"

(* CSI <number> ... u for keys in the Unicode private use area (kitty).     *)
PUA1 == <<"CAPS_LOCK", "SCROLL_LOCK", "NUM_LOCK", "PRINT_SCREEN", "PAUSE", "MENU">>      \* 57358..57363
PUA2 == <<"F13", "F14", "F15", "F16", "F17", "F18", "F19", "F20", "F21", "F22", "F23", "F24", "F25",
          "F26", "F27", "F28", "F29", "F30", "F31", "F32", "F33", "F34", "F35",
          "KP_0", "KP_1", "KP_2", "KP_3", "KP_4", "KP_5", "KP_6", "KP_7", "KP_8", "KP_9",
          "KP_DECIMAL", "KP_DIVIDE", "KP_MULTIPLY", "KP_SUBTRACT", "KP_ADD", "KP_ENTER", "KP_EQUAL",
          "KP_SEPARATOR", "KP_LEFT", "KP_RIGHT", "KP_UP", "KP_DOWN", "KP_PAGE_UP", "KP_PAGE_DOWN",
          "KP_HOME", "KP_END", "KP_INSERT", "KP_DELETE">>                                   \* 57376..57426
PUA3 == <<"MEDIA_PLAY", "MEDIA_PAUSE", "MEDIA_PLAY_PAUSE", "MEDIA_REVERSE", "MEDIA_STOP",
          "MEDIA_FAST_FORWARD", "MEDIA_REWIND", "MEDIA_TRACK_NEXT", "MEDIA_TRACK_PREVIOUS",
          "MEDIA_RECORD", "LOWER_VOLUME", "RAISE_VOLUME", "MUTE_VOLUME",
          "LEFT_SHIFT", "LEFT_CONTROL", "LEFT_ALT", "LEFT_SUPER", "LEFT_HYPER", "LEFT_META",
          "RIGHT_SHIFT", "RIGHT_CONTROL", "RIGHT_ALT", "RIGHT_SUPER", "RIGHT_HYPER", "RIGHT_META",
          "ISO_LEVEL3_SHIFT", "ISO_LEVEL5_SHIFT">>                                          \* 57428..57454
PUANums == (57358..57363) \cup (57376..57426) \cup (57428..57454)
PUAKey(n) == IF n <= 57363 THEN PUA1[n - 57357]
             ELSE IF n <= 57426 THEN PUA2[n - 57375]
             ELSE PUA3[n - 57427]
\* the whole private use block reserved by the protocol for functional keys
InPUABlock(n) == n >= 57344 /\ n <= 63743

(* ------------------------------------------------------------------ *)
(* Character facts.                                                    *)
AsciiFact(c) ==
  [cp |-> c,
   L  |-> (c >= 65 /\ c <= 90) \/ (c >= 97 /\ c <= 122),
   U  |-> c >= 65 /\ c <= 90,
   Lo |-> c >= 97 /\ c <= 122,
   G  |-> c >= 32 /\ c <= 126,
   P  |-> c >= 32 /\ c <= 126,
   up |-> IF c >= 97 /\ c <= 122 THEN c - 32 ELSE c,
   lo |-> IF c >= 65 /\ c <= 90 THEN c + 32 ELSE c]
NoFact(c) == [cp |-> c, L |-> FALSE, U |-> FALSE, Lo |-> FALSE, G |-> FALSE, P |-> FALSE, up |-> c, lo |-> c]
\* fs: sequence of fact records for the non-ASCII code points involved
FactOf(fs, c) ==
  IF ~IsCP(c) THEN NoFact(c)
  ELSE IF c < 128 THEN AsciiFact(c)
  ELSE LET i == CHOOSE j \in 1..Len(fs) : fs[j].cp = c IN fs[i]
FactsOK(fs) == \A j \in 1..Len(fs) : IsCP(fs[j].cp) /\ (fs[j].cp < 128 => fs[j] = AsciiFact(fs[j].cp))

(* ------------------------------------------------------------------ *)
(* A decoded key event.                                                *)
(*   code  key identity (lower-case / unshifted code point, or FK)     *)
(*   sh    shifted code point reported (0 = none)                      *)
(*   base  base-layout code point reported (0 = none)                  *)
(*   mods  8-bit modifier mask, type 1..3, text sequence of code points*)
K(code, sh, base, mods, type, text) ==
  [code |-> code, sh |-> sh, base |-> base, mods |-> mods, type |-> type, text |-> text]
Plain(code) == K(code, 0, 0, 0, Press, <<>>)
AddMods(k, m) == [k EXCEPT !.mods = IF Has(k.mods, m) THEN k.mods ELSE k.mods + m]

(* A chord: what the user pressed, up to lock state.                   *)
ChordOf(k) == [key |-> k.code, mods |-> NoLocks(k.mods)]

(* --- legacy text ---------------------------------------------------- *)
(* One grapheme cluster arriving as text.  An upper-case letter is the  *)
(* Shift chord of its lower-case key (kitty legacy section: shift+key   *)
(* sends the upper-case letter; the key code is always the lower-case   *)
(* code point).  DEL is the Backspace key.                              *)
DecodeText(cps, fs) ==
  LET c == cps[1]
      f == FactOf(fs, c)
  IN IF c = 127 /\ Len(cps) = 1 THEN Plain(KBackspace)
     ELSE IF f.U THEN K(f.lo, c, 0, Shift, Press, cps)
     ELSE K(c, 0, 0, 0, Press, cps)

(* --- C0 controls ---------------------------------------------------- *)
CtrlKey(c) == K(c, 0, 0, Ctrl, Press, <<>>)
(* Canonical meaning: the dedicated key where one exists, else Ctrl +   *)
(* the caret-notation character (letters lower-case).                   *)
C0Canon(b) ==
  CASE b = 8 -> Plain(KBackspace)
    [] b = 9 -> Plain(KTab)
    [] b = 13 -> Plain(KEnter)
    [] b = 27 -> Plain(KEsc)
    [] b = 0 -> CtrlKey(64)
    [] b >= 1 /\ b <= 26 /\ b \notin {8, 9, 13} -> CtrlKey(b + 96)
    [] b >= 28 /\ b <= 31 -> CtrlKey(b + 64)
(* Other chords the kitty legacy ctrl mapping sends as the same byte.   *)
C0Alts(b) ==
  CASE b = 0 -> {CtrlKey(32), CtrlKey(50)}
    [] b = 8 -> {CtrlKey(104), CtrlKey(KBackspace)}
    [] b = 9 -> {CtrlKey(105)}
    [] b = 13 -> {CtrlKey(109)}
    [] b = 27 -> {CtrlKey(91), CtrlKey(51)}
    [] b = 28 -> {CtrlKey(52)}
    [] b = 29 -> {CtrlKey(53)}
    [] b = 30 -> {CtrlKey(54), CtrlKey(126)}
    [] b = 31 -> {CtrlKey(55), CtrlKey(47)}
    [] OTHER -> {}
C0Unambiguous(b) == C0Alts(b) = {}

(* --- ESC prefix ----------------------------------------------------- *)
(* ESC followed by the byte of a text key is Alt + the key the byte     *)
(* alone would mean (kitty legacy section: "alt + key is ESC followed   *)
(* by the key's bytes"; xterm metaSendsEscape).  Alt chords generate no *)
(* text.  Excluded are the bytes with which a terminal's own reports    *)
(* start after ESC (O = SS3, P = DCS, X = SOS, [ = CSI, ] = OSC,        *)
(* ^ = PM, _ = APC): there the two readings cannot be told apart from   *)
(* the bytes.  02/00-02/15 (space and the punctuation ! " # ... /) are  *)
(* intermediate bytes of ECMA-48 escape sequences, but no keyboard      *)
(* report starts with ESC + intermediate: as input the two bytes are    *)
(* complete and mean Alt + the key.  (EscIntermediates names the class  *)
(* for reports.)                                                        *)
EscIntroducers == {79, 80, 88, 91, 93, 94, 95}
EscIntermediates == 32..47
EscDomain == (32..127) \ EscIntroducers
DecodeEsc(b, fs) ==
  LET k == DecodeText(<<b>>, fs) IN [AddMods(k, Alt) EXCEPT !.text = <<>>]

(* --- SS3 / CSI letter / CSI ~ --------------------------------------- *)
Sub(e, i, j) == IF i <= Len(e.ps) /\ j <= Len(e.ps[i]) THEN e.ps[i][j] ELSE -1
CSIMods(e) == IF Sub(e, 2, 1) = -1 THEN 0 ELSE Sub(e, 2, 1) - 1
CSIType(e) == IF Sub(e, 2, 2) = -1 THEN Press ELSE Sub(e, 2, 2)
ModTypeOK(e) ==
  /\ Sub(e, 2, 1) = -1 \/ (Sub(e, 2, 1) >= 1 /\ Sub(e, 2, 1) <= 256)
  /\ Sub(e, 2, 2) = -1 \/ (Sub(e, 2, 2) >= 1 /\ Sub(e, 2, 2) <= 3)
  /\ Len(e.ps) >= 2 => Len(e.ps[2]) \in {1, 2}

IsCSILetter(e) ==
  /\ e.fin \in LetterFinals
  /\ Len(e.ps) \in {0, 1, 2}
  /\ Len(e.ps) >= 1 => e.ps[1] = <<1>>
  /\ ModTypeOK(e)
IsCSITilde(e) ==
  /\ e.fin = 126
  /\ Len(e.ps) \in {1, 2}
  /\ Len(e.ps[1]) = 1 /\ e.ps[1][1] \in TildeNums
  /\ ModTypeOK(e)
IsBackTab(e) == e.fin = 90 /\ e.ps = <<>>

(* --- CSI u ---------------------------------------------------------- *)
(* CSI code[:shifted[:base]] [; mods[:type] [; text[:text...]]] u        *)
KittyCodeOK(c) == c \in {KTab, KEnter, KEsc, KBackspace} \/ c \in PUANums
                  \/ (c >= 32 /\ c <= MaxCP /\ c # 127 /\ ~InPUABlock(c))
AltCodeOK(c) == c = -1 \/ (c >= 32 /\ c <= MaxCP)
IsCSIu(e) ==
  /\ e.fin = 117
  /\ Len(e.ps) \in {1, 2, 3}
  /\ Len(e.ps[1]) \in {1, 2, 3}
  /\ KittyCodeOK(e.ps[1][1])
  /\ AltCodeOK(Sub(e, 1, 2)) /\ AltCodeOK(Sub(e, 1, 3))
  /\ ModTypeOK(e)
  /\ Len(e.ps) = 3 => \A j \in 1..Len(e.ps[3]) : e.ps[3][j] = -1 \/ IsCP(e.ps[3][j])
KittyKey(c) == IF c \in PUANums THEN FK(PUAKey(c)) ELSE c
Opt(v) == IF v = -1 THEN 0 ELSE v
KittyText(e) == IF Len(e.ps) < 3 THEN <<>> ELSE SelectSeq(e.ps[3], LAMBDA v : v # -1)

DecodeCSI(e) ==
  IF IsBackTab(e) THEN K(KTab, 0, 0, Shift, Press, <<>>)
  ELSE IF IsCSILetter(e) THEN K(FK(LetterKey(e.fin)), 0, 0, CSIMods(e), CSIType(e), <<>>)
  ELSE IF IsCSITilde(e) THEN K(FK(TildeKey(e.ps[1][1])), 0, 0, CSIMods(e), CSIType(e), <<>>)
  ELSE K(KittyKey(e.ps[1][1]), Opt(Sub(e, 1, 2)), Opt(Sub(e, 1, 3)), CSIMods(e), CSIType(e), KittyText(e))

(* --- the report as a whole ------------------------------------------ *)
(* e = [k, b, cps, ps, fin]                                              *)
InDomain(e) ==
  CASE e.k = "char" -> Len(e.cps) >= 1 /\ e.cps[1] >= 32 /\ \A i \in 1..Len(e.cps) : IsCP(e.cps[i])
    [] e.k = "c0" -> e.b >= 0 /\ e.b <= 31
    [] e.k = "esc" -> e.b \in EscDomain
    [] e.k = "escc0" -> e.b >= 0 /\ e.b <= 31 /\ e.b # 27
    [] e.k = "ss3" -> e.b \in SS3Finals
    [] e.k = "csi" -> IsBackTab(e) \/ IsCSILetter(e) \/ IsCSITilde(e) \/ IsCSIu(e)
    [] OTHER -> FALSE

Canon(e, fs) ==
  CASE e.k = "char" -> DecodeText(e.cps, fs)
    [] e.k = "c0" -> C0Canon(e.b)
    [] e.k = "esc" -> DecodeEsc(e.b, fs)
    [] e.k = "escc0" -> AddMods(C0Canon(e.b), Alt)
    [] e.k = "ss3" -> Plain(FK(SS3Key(e.b)))
    [] e.k = "csi" -> DecodeCSI(e)

Alts(e) ==
  CASE e.k = "c0" -> C0Alts(e.b)
    [] e.k = "escc0" -> {AddMods(k, Alt) : k \in C0Alts(e.b)}
    [] e.k = "char" -> IF e.cps = <<127>> THEN {CtrlKey(56), CtrlKey(63)} ELSE {}
    [] e.k = "esc" -> IF e.b = 127 THEN {AddMods(CtrlKey(56), Alt), AddMods(CtrlKey(63), Alt)} ELSE {}
    [] OTHER -> {}

Unambiguous(e) == Alts(e) = {}

(* Terminals that report Shift + a text key without the associated text *)
(* (the report has no text field): the application may supply the text  *)
(* the key would have produced - the reported shifted code if there is  *)
(* one, else the upper-case image of the key.  Both are allowed.        *)
ShiftText(k, fs) ==
  IF k.text = <<>> /\ NoLocks(k.mods) = Shift /\ IsCP(k.code) /\ FactOf(fs, k.code).P
  THEN {[k EXCEPT !.text = <<IF k.sh # 0 THEN k.sh ELSE FactOf(fs, k.code).up>>]}
  ELSE {}

Meanings(e, fs) ==
  LET base == {Canon(e, fs)} \cup Alts(e)
  IN base \cup UNION {ShiftText(k, fs) : k \in base}

(* ================================================================== *)
(* Matching: the documented rules of Key.Matches(key, mods).           *)
(* Lock bits are removed from both masks first.                        *)
(*  1 code = key, masks equal          2 text = key, masks equal       *)
(*  3 shifted = key, binding mask = event mask without Shift           *)
(*  4 base = key, masks equal                                          *)
(*  key a graphic non-letter:                                          *)
(*  5 code = key, masks equal up to Shift   6a shifted = key, ditto    *)
(*  binding has Shift and key is lower case (or not a letter):         *)
(*  6b text = upper(key), masks equal after removing Shift             *)
(* Where the wording admits two readings, Must is the narrow one and   *)
(* May the wide one; an implementation must satisfy Must => r => May.  *)
TextIs(k, key) == IsCP(key) /\ k.text = <<key>>
GNL(f) == f.G /\ ~f.L
NL(m) == NoLocks(m)

R1(k, key, m) == k.code = key /\ NL(m) = NL(k.mods)
R2(k, key, m) == TextIs(k, key) /\ NL(m) = NL(k.mods)
R3n(k, key, m) == k.sh = key /\ NL(m) = NoShift(NL(k.mods))
R3w(k, key, m) == k.sh = key /\ Core(m) = Core(k.mods)
R4(k, key, m) == k.base = key /\ NL(m) = NL(k.mods)
R5(k, key, m, f) == GNL(f) /\ k.code = key /\ Core(m) = Core(k.mods)
R6a(k, key, m, f) == GNL(f) /\ k.sh = key /\ Core(m) = Core(k.mods)
R6bn(k, key, m, f) == Has(m, Shift) /\ f.Lo /\ TextIs(k, f.up) /\ NoShift(NL(m)) = NL(k.mods)
R6bw(k, key, m, f) == Has(m, Shift) /\ (f.Lo \/ ~f.L) /\ TextIs(k, f.up) /\ Core(m) = Core(k.mods)

\* f = FactOf(fs, key)
Must(k, key, m, f) ==
  R1(k, key, m) \/ R2(k, key, m) \/ R3n(k, key, m) \/ R4(k, key, m)
  \/ R5(k, key, m, f) \/ R6a(k, key, m, f) \/ R6bn(k, key, m, f)
May(k, key, m, f) ==
  R1(k, key, m) \/ R2(k, key, m) \/ R3w(k, key, m) \/ R4(k, key, m)
  \/ R5(k, key, m, f) \/ R6a(k, key, m, f) \/ R6bw(k, key, m, f)
Within(r, k, key, m, f) == (Must(k, key, m, f) => r) /\ (r => May(k, key, m, f))

\* the rules that forgive a Shift difference
ShiftForgiving(k, key, m, f) ==
  R3w(k, key, m) \/ R5(k, key, m, f) \/ R6a(k, key, m, f) \/ R6bw(k, key, m, f)

\* how the binding key relates to the event (for reports)
Relation(k, key) ==
  IF key = k.code THEN "code"
  ELSE IF key = k.sh THEN "shifted"
  ELSE IF key = k.base THEN "base"
  ELSE IF TextIs(k, key) THEN "text"
  ELSE "other"

(* ================================================================== *)
(* Encoding: chord -> report (kitty legacy section, xterm).            *)
(* chord = [key, mods], mods within Shift..Meta.                       *)
Enc(kind, b, cps, ps, fin) == [k |-> kind, b |-> b, cps |-> cps, ps |-> ps, fin |-> fin]
NoEnc == Enc("none", 0, <<>>, <<>>, 0)

LegacyLetterFinal(name) ==
  CASE name = "UP" -> 65 [] name = "DOWN" -> 66 [] name = "RIGHT" -> 67 [] name = "LEFT" -> 68
    [] name = "KP_BEGIN" -> 69 [] name = "END" -> 70 [] name = "HOME" -> 72
    [] name = "F1" -> 80 [] name = "F2" -> 81 [] name = "F3" -> 82 [] name = "F4" -> 83
    [] OTHER -> 0
LegacyTildeNum(name) ==
  CASE name = "INSERT" -> 2 [] name = "DELETE" -> 3 [] name = "PAGE_UP" -> 5 [] name = "PAGE_DOWN" -> 6
    [] name = "F5" -> 15 [] name = "F6" -> 17 [] name = "F7" -> 18 [] name = "F8" -> 19 [] name = "F9" -> 20
    [] name = "F10" -> 21 [] name = "F11" -> 23 [] name = "F12" -> 24
    [] OTHER -> 0

CtrlByte(c) ==      \* kitty legacy ctrl mapping (only entries whose C0 byte has that chord as canonical meaning)
  IF c >= 97 /\ c <= 122 /\ c \notin {104, 105, 109} THEN c - 96
  ELSE IF c = 64 THEN 0
  ELSE IF c \in {92, 93, 94, 95} THEN c - 64
  ELSE -1

\* legacy report of a chord on a key with a code point; f = fact of the key
EncLegacyText(c, m, f) ==
  LET sh == Has(m, Shift)
      byte == IF sh THEN (IF f.Lo /\ f.up # c THEN f.up ELSE -1) ELSE c   \* Shift only expressible on cased letters
      rest == NoShift(m)
  IN IF c \in {KEnter, KTab, KEsc, KBackspace}
     THEN (IF m = 0 THEN (IF c = KBackspace THEN Enc("char", 0, <<127>>, <<>>, 0) ELSE Enc("c0", c, <<>>, <<>>, 0))
           ELSE IF m = Alt /\ c = KBackspace THEN Enc("esc", 127, <<>>, <<>>, 0)
           ELSE IF m = Alt /\ c # KEsc THEN Enc("escc0", c, <<>>, <<>>, 0)
           ELSE IF m = Shift /\ c = KTab THEN Enc("csi", 0, <<>>, <<>>, 90)
           ELSE NoEnc)
     ELSE IF c < 32 \/ f.U THEN NoEnc
     ELSE IF byte = -1 THEN NoEnc
     ELSE IF rest = 0 THEN Enc("char", 0, <<byte>>, <<>>, 0)
     ELSE IF rest = Alt THEN (IF byte \in EscDomain THEN Enc("esc", byte, <<>>, <<>>, 0) ELSE NoEnc)
     ELSE IF rest = Ctrl /\ ~sh /\ CtrlByte(c) # -1 THEN Enc("c0", CtrlByte(c), <<>>, <<>>, 0)
     ELSE IF rest = Ctrl + Alt /\ ~sh /\ CtrlByte(c) # -1 THEN Enc("escc0", CtrlByte(c), <<>>, <<>>, 0)
     ELSE NoEnc

\* legacy report of a chord on a functional key (keypad keys: application keypad mode)
LegacyKeypadFinal(name) ==
  IF \E f \in KeypadFinals : KeypadKey(f) = name THEN CHOOSE f \in KeypadFinals : KeypadKey(f) = name ELSE 0
EncLegacyFK(name, m) ==
  LET fin == LegacyLetterFinal(name)
      n == LegacyTildeNum(name)
      kp == LegacyKeypadFinal(name)
  IN IF fin # 0 THEN (IF m = 0 THEN Enc("csi", 0, <<>>, <<>>, fin) ELSE Enc("csi", 0, <<>>, <<<<1>>, <<m + 1>>>>, fin))
     ELSE IF n # 0 THEN (IF m = 0 THEN Enc("csi", 0, <<>>, <<<<n>>>>, 126) ELSE Enc("csi", 0, <<>>, <<<<n>>, <<m + 1>>>>, 126))
     ELSE IF kp # 0 /\ m = 0 THEN Enc("ss3", kp, <<>>, <<>>, 0)
     ELSE NoEnc

(* kitty report.  form = [alt, typ, txt] BOOLEANs: report alternate keys, *)
(* report the event type explicitly, report associated text.  sh/base are *)
(* the layout's shifted and base-layout code points (0 = none).           *)
KittyNumber(name) ==
  IF \E n \in PUANums : PUAKey(n) = name THEN CHOOSE n \in PUANums : PUAKey(n) = name ELSE 0
EncKittyCP(c, m, shc, basec, txt, form) ==
  LET p1 == IF form.alt /\ basec # 0 THEN <<c, IF Has(m, Shift) /\ shc # 0 THEN shc ELSE -1, basec>>
            ELSE IF form.alt /\ Has(m, Shift) /\ shc # 0 THEN <<c, shc>>
            ELSE <<c>>
      p2 == IF form.typ THEN <<m + 1, Press>> ELSE IF m # 0 THEN <<m + 1>> ELSE <<-1>>
      p3 == IF form.txt /\ txt # <<>> THEN txt ELSE <<>>
  IN IF p3 # <<>> THEN Enc("csi", 0, <<>>, <<p1, p2, p3>>, 117)
     ELSE IF p2 # <<-1>> THEN Enc("csi", 0, <<>>, <<p1, p2>>, 117)
     ELSE Enc("csi", 0, <<>>, <<p1>>, 117)
EncKittyFK(name, m, form) ==
  LET fin == LegacyLetterFinal(name)
      n == LegacyTildeNum(name)
      u == KittyNumber(name)
      p2 == IF form.typ THEN <<m + 1, Press>> ELSE <<m + 1>>
      bare == m = 0 /\ ~form.typ
  IN IF name = "F3" THEN (IF bare THEN Enc("csi", 0, <<>>, <<<<13>>>>, 126) ELSE Enc("csi", 0, <<>>, <<<<13>>, p2>>, 126))
     ELSE IF fin # 0 THEN (IF bare THEN Enc("csi", 0, <<>>, <<>>, fin) ELSE Enc("csi", 0, <<>>, <<<<1>>, p2>>, fin))
     ELSE IF n # 0 THEN (IF bare THEN Enc("csi", 0, <<>>, <<<<n>>>>, 126) ELSE Enc("csi", 0, <<>>, <<<<n>>, p2>>, 126))
     ELSE IF u # 0 THEN (IF bare THEN Enc("csi", 0, <<>>, <<<<u>>>>, 117) ELSE Enc("csi", 0, <<>>, <<<<u>>, p2>>, 117))
     ELSE NoEnc
=============================================================================
