CONSTANTS
  Bits = {1, 2, 4, 16, 64, 128}
SPECIFICATION Spec
INVARIANTS ModsSound LocksIrrelevant ShiftAsDocumented MustInMay OwnBinding ImplWithin
CHECK_DEADLOCK FALSE
