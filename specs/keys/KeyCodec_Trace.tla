--------------------------- MODULE KeyCodec_Trace ---------------------------
(* Trace validation for C09.  A scenario is one real Vaxis session on a     *)
(* fake console; each ITEM is one key report injected as bytes, followed by *)
(* what the library said about the resulting Key event:                     *)
(*                                                                          *)
(*  reset  fkeys            the driver's functional-key table (must equal   *)
(*                          FKeyNames: identities are positions in it)      *)
(*  key    enc facts got other   the report (structured), character facts,  *)
(*                          the Key events read from Events() before the    *)
(*                          sentinel, number of other events                *)
(*  match  bk bms res facts Key.Matches(bk, bms[i]) = res[i]                *)
(*  mstr   bk bm res facts  Key.MatchString(<string built from bk, bm>)     *)
(*  self   res              Key.MatchString(Key.String())                   *)
(*  xp     chord encs canon sids res   one chord under several encodings:   *)
(*                          String() ids and match vectors of each          *)
(*  panic                   the library panicked                            *)
(*                                                                          *)
(* The oracle is stateless between items, so a rejection skips the rest of  *)
(* the ITEM (failed = "item", cleared by the next key/xp event) rather than *)
(* the rest of the scenario; a bad table or a panic skips the scenario.     *)
EXTENDS KeyCodec, TLC, Json, IOUtils

Trace == ndJsonDeserialize(IOEnv.TRACE)

VARIABLES l, cur, failed
vars == <<l, cur, failed>>

NoKey == K(-1, 0, 0, 0, 0, <<>>)

Init == l = 1 /\ cur = NoKey /\ failed = "scn"

Rej(e, why, extra) == PrintT("REJECT " \o ToJson([scn |-> e.scn, line |-> l, why |-> why, item |-> e.item] @@ extra))

\* names of the fields in which a decoded key differs from the expectation
Diff(g, x) ==
  (IF g.code # x.code THEN "code+" ELSE "") \o (IF g.sh # x.sh THEN "sh+" ELSE "")
  \o (IF g.base # x.base THEN "base+" ELSE "") \o (IF g.mods # x.mods THEN "mods+" ELSE "")
  \o (IF g.type # x.type THEN "type+" ELSE "") \o (IF g.text # x.text THEN "text+" ELSE "")

EncKind(e) ==
  IF e.k # "csi" THEN e.k
  ELSE IF e.fin = 117 THEN "csi-u" ELSE IF e.fin = 126 THEN "csi-tilde" ELSE "csi-letter"

KeyClass(k) == IF IsCP(k.code) THEN "cp" ELSE "fk"

OnKey(e) ==
  IF ~FactsOK(e.facts) THEN
      /\ Rej(e, "facts", [enc |-> e.enc])
      /\ failed' = "item" /\ UNCHANGED cur
  ELSE IF ~InDomain(e.enc) THEN
      /\ Rej(e, "domain", [enc |-> e.enc])
      /\ failed' = "item" /\ UNCHANGED cur
  ELSE IF Len(e.got) # 1 \/ e.other # 0 THEN
      /\ Rej(e, "count", [kind |-> EncKind(e.enc), n |-> Len(e.got), other |-> e.other, enc |-> e.enc, got |-> e.got])
      /\ failed' = "item" /\ UNCHANGED cur
  ELSE IF e.got[1] \notin Meanings(e.enc, e.facts) THEN
      /\ Rej(e, "decode", [kind |-> EncKind(e.enc), diff |-> Diff(e.got[1], Canon(e.enc, e.facts)),
                           enc |-> e.enc, got |-> e.got[1], want |-> Canon(e.enc, e.facts)])
      /\ failed' = "item" /\ UNCHANGED cur
  ELSE
      /\ cur' = e.got[1]
      /\ failed' = "no"

BadIdx(e) == CHOOSE i \in 1..Len(e.bms) : ~Within(e.res[i], cur, e.bk, e.bms[i], FactOf(e.facts, e.bk))

Bound(r) == IF r THEN "may" ELSE "must"      \* which bound a wrong answer r violates
ShiftRel(km, bm) == IF Has(km, Shift) = Has(bm, Shift) THEN "same-shift" ELSE IF Has(bm, Shift) THEN "binding-shift" ELSE "event-shift"
CoreRel(km, bm) == IF Core(km) = Core(bm) THEN "same-core" ELSE "diff-core"

OnMatch(e) ==
  LET f == FactOf(e.facts, e.bk) IN
  IF ~FactsOK(e.facts) THEN Rej(e, "facts", [bk |-> e.bk]) /\ failed' = "item" /\ UNCHANGED cur
  ELSE IF \A i \in 1..Len(e.bms) : Within(e.res[i], cur, e.bk, e.bms[i], f) THEN UNCHANGED <<cur, failed>>
  ELSE LET i == BadIdx(e) IN
      /\ Rej(e, "match", [bound |-> Bound(e.res[i]), rel |-> Relation(cur, e.bk), shift |-> ShiftRel(cur.mods, e.bms[i]),
                          core |-> CoreRel(cur.mods, e.bms[i]), key |-> cur, bk |-> e.bk, bm |-> e.bms[i], res |-> e.res[i]])
      /\ failed' = "item" /\ UNCHANGED cur

OnMStr(e) ==
  LET f == FactOf(e.facts, e.bk) IN
  IF Within(e.res, cur, e.bk, e.bm, f) THEN UNCHANGED <<cur, failed>>
  ELSE /\ Rej(e, "mstr", [bound |-> Bound(e.res), rel |-> Relation(cur, e.bk), form |-> e.form, bkclass |-> e.bkclass,
                          modnames |-> e.modnames, key |-> cur, bk |-> e.bk, bm |-> e.bm, res |-> e.res])
       /\ failed' = "item" /\ UNCHANGED cur

\* The chord the user pressed matches the binding named by its own description.
OnSelf(e) ==
  IF cur.type \in {1, 2} /\ ~e.res
  THEN /\ Rej(e, "self", [cls |-> e.cls, key |-> cur, sid |-> e.sid])
       /\ failed' = "item" /\ UNCHANGED cur
  ELSE UNCHANGED <<cur, failed>>

\* which optional fields (shifted code, text) two reports of one chord do not share
OptDiff(ka, kb) ==
  IF ka.sh # kb.sh /\ ka.text # kb.text THEN "shifted+text"
  ELSE IF ka.sh # kb.sh THEN "shifted" ELSE IF ka.text # kb.text THEN "text" ELSE "none"

\* One chord, several encodings: every encoding must mean the chord (the
\* legacy ones canonically), and the library must describe and match all of
\* them alike.
XPEncOK(e, i) ==
  /\ InDomain(e.encs[i])
  /\ ChordOf(Canon(e.encs[i], e.facts)) = e.chord
  /\ Canon(e.encs[i], e.facts).type = Press
OnXP(e) ==
  LET n == Len(e.encs) IN
  IF ~FactsOK(e.facts) \/ \E i \in 1..n : ~XPEncOK(e, i) THEN
      /\ Rej(e, "xp-domain", [chord |-> e.chord, encs |-> e.encs])
      /\ failed' = "item" /\ UNCHANGED cur
  ELSE IF \E i \in 2..n : e.sids[i] # e.sids[1] THEN
      LET i == CHOOSE j \in 2..n : e.sids[j] # e.sids[1] IN
      /\ Rej(e, "xp-string", [chord |-> e.chord, a |-> EncKind(e.encs[1]), b |-> EncKind(e.encs[i]),
                              enca |-> e.encs[1], encb |-> e.encs[i], strs |-> <<e.strs[1], e.strs[i]>>])
      /\ failed' = "item" /\ UNCHANGED cur
  ELSE IF \E i \in 2..n : e.res[i] # e.res[1] THEN
      LET i == CHOOSE j \in 2..n : e.res[j] # e.res[1]
          p == CHOOSE q \in 1..Len(e.res[1]) : e.res[i][q] # e.res[1][q] IN
      /\ Rej(e, "xp-match", [chord |-> e.chord, a |-> EncKind(e.encs[1]), b |-> EncKind(e.encs[i]),
                             opt |-> OptDiff(Canon(e.encs[1], e.facts), Canon(e.encs[i], e.facts)),
                             enca |-> e.encs[1], encb |-> e.encs[i], bk |-> e.bks[p], bm |-> e.bms[p],
                             rel |-> e.rels[p], resa |-> e.res[1][p], resb |-> e.res[i][p]])
      /\ failed' = "item" /\ UNCHANGED cur
  ELSE failed' = "no" /\ UNCHANGED cur

Next ==
  /\ l <= Len(Trace)
  /\ l' = l + 1
  /\ LET e == Trace[l] IN
     IF e.ev = "reset" THEN
        IF e.fkeys = FKeyNames THEN cur' = NoKey /\ failed' = "no"
        ELSE /\ PrintT("REJECT " \o ToJson([scn |-> e.scn, line |-> l, why |-> "table", item |-> 0]))
             /\ cur' = NoKey /\ failed' = "scn"
     ELSE IF failed = "scn" THEN UNCHANGED <<cur, failed>>
     ELSE IF e.ev = "panic" THEN
        /\ Rej(e, "panic", [msg |-> e.msg])
        /\ failed' = "scn" /\ UNCHANGED cur
     ELSE IF e.ev = "key" THEN OnKey(e)
     ELSE IF e.ev = "xp" THEN OnXP(e)
     ELSE IF failed = "item" THEN UNCHANGED <<cur, failed>>
     ELSE IF e.ev = "match" THEN OnMatch(e)
     ELSE IF e.ev = "mstr" THEN OnMStr(e)
     ELSE IF e.ev = "self" THEN OnSelf(e)
     ELSE UNCHANGED <<cur, failed>>

Spec == Init /\ [][Next]_vars

Consumed == TLCGet("stats").diameter - 1 = Len(Trace)
=============================================================================
