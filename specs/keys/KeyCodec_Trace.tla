--------------------------- MODULE KeyCodec_Trace ---------------------------
(* Trace validation for C09.  A scenario is one real Vaxis session on a     *)
(* fake console; each ITEM is one key report injected as bytes, followed by *)
(* what the library said about the resulting Key event:                     *)
(*                                                                          *)
(*  reset  fkeys            the driver's functional-key table (must equal   *)
(*                          FKeyNames: identities are positions in it)      *)
(*  key    enc then facts got other   the report (structured) and the       *)
(*                          reports injected right behind it in the same    *)
(*                          read (mostly none), character facts, the Key    *)
(*                          events read from Events() before the sentinel,  *)
(*                          number of other events.  One event per report,  *)
(*                          each a meaning of its report.  An SS3 report    *)
(*                          with a final no table assigns is not judged.    *)
(*  match  bk bms res facts Key.Matches(bk, bms[i]) = res[i]                *)
(*  mstr   bk bm res facts  Key.MatchString(<string built from bk, bm>)     *)
(*  self   res              Key.MatchString(Key.String())                   *)
(*  xp     chord encs canon sids res   one chord under several encodings:   *)
(*                          String() ids and match vectors of each          *)
(*  panic                   the library panicked                            *)
(*                                                                          *)
(* The oracle is stateless between items, so a rejection skips the rest of  *)
(* the ITEM (failed = "item", cleared by the next key/xp event) rather than *)
(* the rest of the scenario; a bad table or a panic skips the scenario.     *)
EXTENDS KeyCodec, TLC, Json, IOUtils

Trace == ndJsonDeserialize(IOEnv.TRACE)

VARIABLES l, cur, failed
vars == <<l, cur, failed>>

NoKey == K(-1, 0, 0, 0, 0, <<>>)

Init == l = 1 /\ cur = NoKey /\ failed = "scn"

Rej(e, why, extra) == PrintT("REJECT " \o ToJson([scn |-> e.scn, line |-> l, why |-> why, item |-> e.item] @@ extra))

\* names of the fields in which a decoded key differs from the expectation
Diff(g, x) ==
  (IF g.code # x.code THEN "code+" ELSE "") \o (IF g.sh # x.sh THEN "sh+" ELSE "")
  \o (IF g.base # x.base THEN "base+" ELSE "") \o (IF g.mods # x.mods THEN "mods+" ELSE "")
  \o (IF g.type # x.type THEN "type+" ELSE "") \o (IF g.text # x.text THEN "text+" ELSE "")

EncKind(e) ==
  IF e.k = "esc" /\ e.b \in EscIntermediates THEN "esc-intermediate"
  ELSE IF e.k = "ss3" /\ e.b \in KeypadFinals THEN "ss3-keypad"
  ELSE IF e.k # "csi" THEN e.k
  ELSE IF e.fin = 117 THEN "csi-u" ELSE IF e.fin = 126 THEN "csi-tilde" ELSE "csi-letter"

KeyClass(k) == IF IsCP(k.code) THEN "cp" ELSE "fk"

\* the reports of an item in the order injected, and the name of their kinds
Reports(e) == <<e.enc>> \o e.then
RECURSIVE KindsFrom(_, _)
KindsFrom(rs, i) == IF i > Len(rs) THEN "" ELSE "+" \o EncKind(rs[i]) \o KindsFrom(rs, i + 1)
Kinds(e) == EncKind(e.enc) \o KindsFrom(e.then, 1)

Unjudged(e) == e.enc.k = "ss3" /\ e.enc.b \in SS3Unassigned /\ Len(e.then) = 0

OnKey(e) ==
  LET rs == Reports(e) IN
  IF ~FactsOK(e.facts) THEN
      /\ Rej(e, "facts", [enc |-> e.enc])
      /\ failed' = "item" /\ UNCHANGED cur
  ELSE IF Unjudged(e) THEN
      failed' = "item" /\ UNCHANGED cur        \* nothing to say, and nothing to probe
  ELSE IF \E i \in 1..Len(rs) : ~InDomain(rs[i]) THEN
      /\ Rej(e, "domain", [enc |-> e.enc, then |-> e.then])
      /\ failed' = "item" /\ UNCHANGED cur
  ELSE IF Len(e.got) # Len(rs) \/ e.other # 0 THEN
      /\ Rej(e, "count", [kind |-> EncKind(e.enc) \o (IF Len(e.then) > 0 THEN "+then" ELSE ""), kinds |-> Kinds(e), n |-> Len(e.got), other |-> e.other, enc |-> e.enc, then |-> e.then, got |-> e.got])
      /\ failed' = "item" /\ UNCHANGED cur
  ELSE IF \E i \in 1..Len(rs) : e.got[i] \notin Meanings(rs[i], e.facts) THEN
      LET i == CHOOSE j \in 1..Len(rs) : e.got[j] \notin Meanings(rs[j], e.facts) /\
                                          \A h \in 1..(j - 1) : e.got[h] \in Meanings(rs[h], e.facts) IN
      /\ Rej(e, "decode", [kind |-> IF i = 1 THEN EncKind(rs[1]) ELSE EncKind(rs[i - 1]) \o "+" \o EncKind(rs[i]), pos |-> i, diff |-> Diff(e.got[i], Canon(rs[i], e.facts)),
                           enc |-> rs[i], got |-> e.got[i], want |-> Canon(rs[i], e.facts)])
      /\ failed' = "item" /\ UNCHANGED cur
  ELSE
      /\ cur' = e.got[1]
      /\ failed' = "no"

BadIdx(e) == CHOOSE i \in 1..Len(e.bms) : ~Within(e.res[i], cur, e.bk, e.bms[i], FactOf(e.facts, e.bk))

Bound(r) == IF r THEN "may" ELSE "must"      \* which bound a wrong answer r violates
ShiftRel(km, bm) == IF Has(km, Shift) = Has(bm, Shift) THEN "same-shift" ELSE IF Has(bm, Shift) THEN "binding-shift" ELSE "event-shift"
CoreRel(km, bm) == IF Core(km) = Core(bm) THEN "same-core" ELSE "diff-core"

OnMatch(e) ==
  LET f == FactOf(e.facts, e.bk) IN
  IF ~FactsOK(e.facts) THEN Rej(e, "facts", [bk |-> e.bk]) /\ failed' = "item" /\ UNCHANGED cur
  ELSE IF \A i \in 1..Len(e.bms) : Within(e.res[i], cur, e.bk, e.bms[i], f) THEN UNCHANGED <<cur, failed>>
  ELSE LET i == BadIdx(e) IN
      /\ Rej(e, "match", [bound |-> Bound(e.res[i]), rel |-> Relation(cur, e.bk), shift |-> ShiftRel(cur.mods, e.bms[i]),
                          core |-> CoreRel(cur.mods, e.bms[i]), key |-> cur, bk |-> e.bk, bm |-> e.bms[i], res |-> e.res[i]])
      /\ failed' = "item" /\ UNCHANGED cur

OnMStr(e) ==
  LET f == FactOf(e.facts, e.bk) IN
  IF Within(e.res, cur, e.bk, e.bm, f) THEN UNCHANGED <<cur, failed>>
  ELSE /\ Rej(e, "mstr", [bound |-> Bound(e.res), rel |-> Relation(cur, e.bk), form |-> e.form, bkclass |-> e.bkclass,
                          modnames |-> e.modnames, key |-> cur, bk |-> e.bk, bm |-> e.bm, res |-> e.res])
       /\ failed' = "item" /\ UNCHANGED cur

\* The chord the user pressed matches the binding named by its own description.
OnSelf(e) ==
  IF cur.type \in {1, 2} /\ ~e.res
  THEN /\ Rej(e, "self", [cls |-> e.cls, key |-> cur, sid |-> e.sid])
       /\ failed' = "item" /\ UNCHANGED cur
  ELSE UNCHANGED <<cur, failed>>

\* which optional fields (shifted code, text) two reports of one chord do not share
OptDiff(ka, kb) ==
  IF ka.sh # kb.sh /\ ka.text # kb.text THEN "shifted+text"
  ELSE IF ka.sh # kb.sh THEN "shifted" ELSE IF ka.text # kb.text THEN "text" ELSE "none"

\* One chord, several encodings: every encoding must mean the chord (the
\* legacy ones canonically), and the library must describe and match all of
\* them alike.
XPEncOK(e, i) ==
  /\ InDomain(e.encs[i])
  /\ ChordOf(Canon(e.encs[i], e.facts)) = e.chord
  /\ Canon(e.encs[i], e.facts).type = Press
OnXP(e) ==
  LET n == Len(e.encs) IN
  IF ~FactsOK(e.facts) \/ \E i \in 1..n : ~XPEncOK(e, i) THEN
      /\ Rej(e, "xp-domain", [chord |-> e.chord, encs |-> e.encs])
      /\ failed' = "item" /\ UNCHANGED cur
  ELSE IF \E i \in 2..n : e.sids[i] # e.sids[1] THEN
      LET i == CHOOSE j \in 2..n : e.sids[j] # e.sids[1] IN
      /\ Rej(e, "xp-string", [chord |-> e.chord, a |-> EncKind(e.encs[1]), b |-> EncKind(e.encs[i]),
                              enca |-> e.encs[1], encb |-> e.encs[i], strs |-> <<e.strs[1], e.strs[i]>>])
      /\ failed' = "item" /\ UNCHANGED cur
  ELSE IF \E i \in 2..n : e.res[i] # e.res[1] THEN
      LET i == CHOOSE j \in 2..n : e.res[j] # e.res[1]
          p == CHOOSE q \in 1..Len(e.res[1]) : e.res[i][q] # e.res[1][q] IN
      /\ Rej(e, "xp-match", [chord |-> e.chord, a |-> EncKind(e.encs[1]), b |-> EncKind(e.encs[i]),
                             opt |-> OptDiff(Canon(e.encs[1], e.facts), Canon(e.encs[i], e.facts)),
                             enca |-> e.encs[1], encb |-> e.encs[i], bk |-> e.bks[p], bm |-> e.bms[p],
                             rel |-> e.rels[p], resa |-> e.res[1][p], resb |-> e.res[i][p]])
      /\ failed' = "item" /\ UNCHANGED cur
  ELSE failed' = "no" /\ UNCHANGED cur

Next ==
  /\ l <= Len(Trace)
  /\ l' = l + 1
  /\ LET e == Trace[l] IN
     IF e.ev = "reset" THEN
        IF e.fkeys = FKeyNames THEN cur' = NoKey /\ failed' = "no"
        ELSE /\ PrintT("REJECT " \o ToJson([scn |-> e.scn, line |-> l, why |-> "table", item |-> 0]))
             /\ cur' = NoKey /\ failed' = "scn"
     ELSE IF failed = "scn" THEN UNCHANGED <<cur, failed>>
     ELSE IF e.ev = "panic" THEN
        /\ Rej(e, "panic", [msg |-> e.msg])
        /\ failed' = "scn" /\ UNCHANGED cur
     ELSE IF e.ev = "key" THEN OnKey(e)
     ELSE IF e.ev = "xp" THEN OnXP(e)
     ELSE IF failed = "item" THEN UNCHANGED <<cur, failed>>
     ELSE IF e.ev = "match" THEN OnMatch(e)
     ELSE IF e.ev = "mstr" THEN OnMStr(e)
     ELSE IF e.ev = "self" THEN OnSelf(e)
     ELSE UNCHANGED <<cur, failed>>

Spec == Init /\ [][Next]_vars

Consumed == TLCGet("stats").diameter - 1 = Len(Trace)
=============================================================================
