------------------------------- MODULE KeyImpl -------------------------------
(* IMPLEMENTATION-SHAPED module (not an oracle, produces no verdicts): a     *)
(* transcription of Key.Matches as coded in key.go - the order of the tests, *)
(* which mask is stripped where - for exhaustive comparison with the         *)
(* documented rules of KeyCodec over all 256 x 256 mask pairs.               *)
(* Deliberate abstraction: Text is a sequence of code points; string(key)    *)
(* for a key outside Unicode is not a text any event can carry.              *)
EXTENDS KeyCodec

ImplMatches(k, key, m, f) ==
  LET mods   == NoLocks(m)               \* mods &^ (ModCapsLock|ModNumLock)
      kMods  == NoLocks(k.mods)
      ukMods == NoShift(kMods)
      uMods  == NoShift(mods)
  IN \/ k.code = key /\ mods = kMods                                   \* rule 1
     \/ IsCP(key) /\ k.text = <<key>> /\ mods = kMods                  \* rule 2
     \/ k.sh = key /\ mods = ukMods                                    \* rule 3
     \/ k.base = key /\ mods = kMods                                   \* rule 4
     \/ (~f.L /\ f.G) /\ (\/ k.code = key /\ ukMods = uMods            \* rule 5
                          \/ k.sh = key /\ ukMods = uMods)
     \/ Has(mods, Shift) /\ f.Lo /\ k.text = <<f.up>> /\ uMods = ukMods \* rule 6
=============================================================================
