CONSTANTS
  Bits = {1, 2, 4, 8, 16, 32, 64, 128}
SPECIFICATION Spec
INVARIANTS ModsSound LocksIrrelevant ShiftAsDocumented MustInMay OwnBinding ImplWithin
CHECK_DEADLOCK FALSE
