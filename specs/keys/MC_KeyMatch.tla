----------------------------- MODULE MC_KeyMatch -----------------------------
(* Exhaustive model of the matching relation: every pair of modifier masks   *)
(* (event mask km, binding mask bm, both over the bits in Bits) on every     *)
(* (event shape, binding key) pair of Cases - the relation classes same key, *)
(* shifted pair, base-layout equal, text equal, case pair, unrelated,        *)
(* functional key.  One state per (case, binding key, km); the binding mask  *)
(* is quantified inside the invariants, so a state stands for |Masks| pairs. *)
(*   ModsSound        a match implies equal Ctrl/Alt/Super/Hyper/Meta        *)
(*   LocksIrrelevant  Caps/Num on either side never change the answer        *)
(*   ShiftAsDocumented a match across a Shift difference is one of the       *)
(*                    forgiving rules (3, 5, 6a, 6b)                         *)
(*   MustInMay        the narrow reading implies the wide one                *)
(*   OwnBinding       an event matches (its code, its mask)                  *)
(*   ImplWithin       the transcription of the Go code lies between them     *)
EXTENDS KeyImpl, TLC
CONSTANT Bits          \* set of modifier bits the masks range over

\* non-ASCII facts used by the cases (Cyrillic ef: U+0444 / U+0424)
FS == << [cp |-> 1092, L |-> TRUE, U |-> FALSE, Lo |-> TRUE, G |-> TRUE, P |-> TRUE, up |-> 1060, lo |-> 1092],
         [cp |-> 1060, L |-> TRUE, U |-> TRUE, Lo |-> FALSE, G |-> TRUE, P |-> TRUE, up |-> 1060, lo |-> 1092],
         [cp |-> 65533, L |-> FALSE, U |-> FALSE, Lo |-> FALSE, G |-> TRUE, P |-> TRUE, up |-> 65533, lo |-> 65533] >>

Shape(code, sh, base, text) == [code |-> code, sh |-> sh, base |-> base, text |-> text]
\* <<event shape, set of binding keys>>
Cases == <<
  <<Shape(97, 65, 0, <<65>>), {97, 65, 113, 81, FK("UP")}>>,      \* Shift+a as kitty reports it in full
  <<Shape(97, 0, 0, <<>>), {97, 65, 113}>>,                       \* a, nothing else reported
  <<Shape(97, 0, 0, <<97>>), {97, 65}>>,                          \* a with its text
  <<Shape(97, 0, 0, <<65>>), {97, 65}>>,                          \* a with text A (caps lock, or legacy upper case)
  <<Shape(59, 58, 0, <<58>>), {59, 58, 49, 44}>>,                 \* ; with shifted :
  <<Shape(59, 0, 0, <<59>>), {59, 58}>>,
  <<Shape(58, 0, 0, <<58>>), {59, 58}>>,                          \* legacy ':'
  <<Shape(49, 33, 0, <<33>>), {49, 33}>>,                         \* 1 with shifted !
  <<Shape(1092, 1060, 97, <<1092>>), {97, 65, 1092, 1060}>>,      \* Cyrillic ef on a key whose base layout is a
  <<Shape(FK("UP"), 0, 0, <<>>), {FK("UP"), FK("F1"), 97}>>,
  <<Shape(FK("KP_0"), 0, 0, <<48>>), {FK("KP_0"), 48}>>,
  <<Shape(9, 0, 0, <<>>), {9, 105}>>,                             \* Tab
  <<Shape(32, 0, 0, <<32>>), {32}>>,
  <<Shape(97, 0, 0, <<65533>>), {FK("UP"), 65533, 97}>>           \* text U+FFFD against a functional key
>>

Masks == {m \in 0..255 : \A b \in {1, 2, 4, 8, 16, 32, 64, 128} : Has(m, b) => b \in Bits}
Locks == {l \in {0, 64, 128, 192} : \A b \in {64, 128} : Has(l, b) => b \in Bits}

VARIABLES ci, bk, km
vars == <<ci, bk, km>>

\* two levels so that TLC's workers share the enumeration: (case, binding key), then km;
\* the binding mask is quantified inside the invariants (one state = one row of the table)
Init == /\ ci \in 1..Len(Cases)
        /\ bk \in Cases[ci][2]
        /\ km = -1
Next == km = -1 /\ km' \in Masks /\ UNCHANGED <<ci, bk>>
Spec == Init /\ [][Next]_vars
Full == km # -1

Ev(m) == LET s == Cases[ci][1] IN K(s.code, s.sh, s.base, m, Press, s.text)
F == FactOf(FS, bk)

ModsSound == Full => \A bm \in Masks : May(Ev(km), bk, bm, F) => Core(km) = Core(bm)
\* every (km, bm) is a lock variant of a lock-free pair: compare each variant with it
LocksIrrelevant == (Full /\ NoLocks(km) = km) =>
  \A bm \in Masks : NoLocks(bm) = bm =>
    \A l1 \in Locks, l2 \in Locks :
       /\ May(Ev(km + l1), bk, bm + l2, F) = May(Ev(km), bk, bm, F)
       /\ Must(Ev(km + l1), bk, bm + l2, F) = Must(Ev(km), bk, bm, F)
ShiftAsDocumented == Full => \A bm \in Masks :
  (May(Ev(km), bk, bm, F) /\ Has(km, Shift) # Has(bm, Shift)) => ShiftForgiving(Ev(km), bk, bm, F)
MustInMay == Full => \A bm \in Masks : Must(Ev(km), bk, bm, F) => May(Ev(km), bk, bm, F)
OwnBinding == Full => Must(Ev(km), Ev(km).code, km, FactOf(FS, Ev(km).code))
ImplWithin == Full => \A bm \in Masks : Within(ImplMatches(Ev(km), bk, bm, F), Ev(km), bk, bm, F)
\* number of (event mask, binding mask) pairs covered per state, for the evidence
PairsPerState == Cardinality(Masks)
=============================================================================
