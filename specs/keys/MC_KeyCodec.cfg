CONSTANTS
  Keys = {97, 98, 104, 105, 109, 122, 49, 59, 45, 91, 92, 64, 32, 233, 1092, 9, 13, 27, 127,
          1114113, 1114117, 1114121, 1114123, 1114125, 1114129, 1114135, 1114136, 1114142, 1114165, 1114180, 1114193}
SPECIFICATION Spec
INVARIANTS LegacyRoundTrip KittyRoundTrip SelfMatch XPCompatible
CHECK_DEADLOCK FALSE
