----------------------------- MODULE MC_KeyCodec -----------------------------
(* Exhaustive sanity model of the codec half of the oracle: for every chord  *)
(* (key in Keys, modifier mask over Shift..Meta) and every report form,      *)
(* encoding then decoding gives the chord back, the event matches the        *)
(* chord's own binding under every lock state, and the legacy and kitty      *)
(* reports of one chord are described by the documented matching rules       *)
(* compatibly (no binding that one MUST match and the other MAY NOT) - or    *)
(* the combination is listed in XPExempt, the cases in which the documented  *)
(* rules themselves depend on the optional kitty fields.                     *)
EXTENDS KeyCodec, TLC
CONSTANTS Keys          \* key identities explored (code points must be ASCII or in FS)

FS == << [cp |-> 1092, L |-> TRUE, U |-> FALSE, Lo |-> TRUE, G |-> TRUE, P |-> TRUE, up |-> 1060, lo |-> 1092],
         [cp |-> 1060, L |-> TRUE, U |-> TRUE, Lo |-> FALSE, G |-> TRUE, P |-> TRUE, up |-> 1060, lo |-> 1092],
         [cp |-> 233, L |-> TRUE, U |-> FALSE, Lo |-> TRUE, G |-> TRUE, P |-> TRUE, up |-> 201, lo |-> 233],
         [cp |-> 201, L |-> TRUE, U |-> TRUE, Lo |-> FALSE, G |-> TRUE, P |-> TRUE, up |-> 201, lo |-> 233] >>

IsFK(k) == k > MaxCP
FKName(k) == FKeyNames[k - FKBase]
Forms == [alt : BOOLEAN, typ : BOOLEAN, txt : BOOLEAN]

VARIABLES key, mods
vars == <<key, mods>>
Init == key \in Keys /\ mods = -1
Next == mods = -1 /\ mods' \in 0..63 /\ UNCHANGED key
Spec == Init /\ [][Next]_vars
Full == mods # -1

F == FactOf(FS, key)
\* what a US-like layout would report for this chord
ShiftedOf == IF F.Lo /\ F.up # key THEN F.up ELSE IF key = 59 THEN 58 ELSE IF key = 49 THEN 33 ELSE 0
TextOf == IF IsFK(key) \/ key \in {KEsc, KEnter, KTab, KBackspace} \/ NoShift(mods) # 0 THEN <<>>
          ELSE IF Has(mods, Shift) THEN (IF ShiftedOf # 0 THEN <<ShiftedOf>> ELSE <<>>)
          ELSE <<key>>

Legacy == IF IsFK(key) THEN EncLegacyFK(FKName(key), mods) ELSE EncLegacyText(key, mods, F)
Kitty(form) == IF IsFK(key) THEN EncKittyFK(FKName(key), mods, form)
               ELSE EncKittyCP(key, mods, ShiftedOf, 0, TextOf, form)
Chord == [key |-> key, mods |-> mods]

\* every report the encoders produce is in the decoder's domain and means the chord
LegacyRoundTrip == Full =>
  (Legacy # NoEnc => /\ InDomain(Legacy)
                     /\ ChordOf(Canon(Legacy, FS)) = Chord
                     /\ Canon(Legacy, FS).type = Press)
KittyRoundTrip == Full =>
  \A form \in Forms : LET e == Kitty(form) IN
     e # NoEnc => /\ InDomain(e)
                  /\ Alts(e) = {}
                  /\ ChordOf(Canon(e, FS)) = Chord
                  /\ Canon(e, FS).type = Press
                  /\ (form.alt /\ Has(mods, Shift) /\ ~IsFK(key)) => Canon(e, FS).sh = ShiftedOf
                  /\ (form.txt /\ ~IsFK(key)) => Canon(e, FS).text = TextOf

\* the chord matches its own binding whatever the encoding, the meaning chosen
\* among the allowed ones that denote this chord, and the lock state
Reports == {Legacy} \cup {Kitty(form) : form \in Forms}
SelfMatch == Full =>
  \A e \in Reports \ {NoEnc} : \A k \in Meanings(e, FS) :
     ChordOf(k) = Chord => \A l1 \in {0, 64, 128, 192}, l2 \in {0, 64, 128, 192} :
        Must([k EXCEPT !.mods = NoLocks(k.mods) + l1], key, mods + l2, F)

\* Cross-protocol: bindings on which the documented rules force different
\* answers for two reports of the same chord.
BKeys == {key, F.up, ShiftedOf, 113, 59, FK("F5")} \ {0}
Conflict(ka, kb, bk, bm) ==
  LET f == FactOf(FS, bk) IN
  \/ Must(ka, bk, bm, f) /\ ~May(kb, bk, bm, f)
  \/ Must(kb, bk, bm, f) /\ ~May(ka, bk, bm, f)
\* The text-based rules (2, 6b) and the shifted-code rule (3, 6a) need the optional
\* fields: a report without them cannot satisfy them.
SameOptionalFields(ka, kb) == ka.sh = kb.sh /\ ka.text = kb.text
XPCompatible == (Full /\ Legacy # NoEnc /\ Unambiguous(Legacy)) =>
     \A form \in Forms : LET e == Kitty(form) IN
        e # NoEnc =>
          \A ka \in Meanings(Legacy, FS), kb \in Meanings(e, FS) :
             SameOptionalFields(ka, kb) =>
                \A bk \in BKeys, bm \in 0..63 : ~Conflict(ka, kb, bk, bm)
=============================================================================
