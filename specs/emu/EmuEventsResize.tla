-------------------------- MODULE EmuEventsResize --------------------------
(* Implementation-shaped model of a host calling Model.Resize while the PTY *)
(* goroutine processes child output (widgets/term term.go update, resize).  *)
(* update() runs under the model's mutex: it reads the cursor row and then   *)
(* indexes the active grid with it (print, scrollUp, erase ... all do).      *)
(* resize() resets the cursor, replaces the grids by new ones of the new     *)
(* height and re-prints the old text, which moves the cursor down again.     *)
(* Locked = TRUE: Resize holds the same mutex for all of that (the repaired  *)
(* code; Draw, the library's own caller, always did).  Locked = FALSE:       *)
(* Resize as exported before the repair takes no lock, so that its steps     *)
(* interleave with those of update(): the goroutine can index the new,       *)
(* smaller grid with a row it read from the old one.  TLC explores every     *)
(* interleaving ("all interleavings of resizes" of property C05).            *)
EXTENDS Integers

CONSTANTS MaxH,     \* heights range over 1..MaxH
          K,        \* sequences the child writes
          NRes,     \* Resize calls of the host
          Locked    \* whether Resize takes the mutex

VARIABLES h,        \* height of the active grid
          row,      \* cursor row (0-based)
          mu,       \* holder of the mutex: "none", "pty", "host"
          ppc, pr,  \* PTY goroutine: program counter; the cursor row it read
          hpc, hn,  \* host: program counter; the height it is resizing to
          k, n,     \* sequences processed, resizes done
          crashed   \* an index was out of range
vars == <<h, row, mu, ppc, pr, hpc, hn, k, n, crashed>>

Min(a, b) == IF a < b THEN a ELSE b

Init == /\ h = MaxH /\ row = MaxH - 1 /\ mu = "none" /\ ppc = "idle" /\ pr = 0
        /\ hpc = "idle" /\ hn = MaxH /\ k = 0 /\ n = 0 /\ crashed = FALSE

(* PTY goroutine: update(seq) for a line feed / printed character *)
PLock   == /\ ppc = "idle" /\ k < K /\ mu = "none" /\ ~crashed
           /\ mu' = "pty" /\ ppc' = "read" /\ UNCHANGED <<h, row, pr, hpc, hn, k, n, crashed>>
PRead   == /\ ppc = "read" /\ pr' = row /\ ppc' = "index"
           /\ UNCHANGED <<h, row, mu, hpc, hn, k, n, crashed>>
PIndex  == /\ ppc = "index"                       \* vt.activeScreen[vt.cursor.row]...
           /\ IF pr >= h THEN crashed' = TRUE /\ UNCHANGED row
              ELSE row' = Min(pr + 1, h - 1) /\ UNCHANGED crashed
           /\ ppc' = "unlock" /\ UNCHANGED <<h, mu, pr, hpc, hn, k, n>>
PUnlock == /\ ppc = "unlock" /\ mu' = "none" /\ ppc' = "idle" /\ k' = k + 1
           /\ UNCHANGED <<h, row, pr, hpc, hn, n, crashed>>

(* host: Resize(w, hn) *)
HStart  == /\ hpc = "idle" /\ n < NRes /\ ~crashed
           /\ \E x \in 1..MaxH : hn' = x
           /\ IF Locked THEN mu = "none" /\ mu' = "host" ELSE UNCHANGED mu
           /\ hpc' = "cursor" /\ UNCHANGED <<h, row, ppc, pr, k, n, crashed>>
HCursor == /\ hpc = "cursor" /\ row' = 0 /\ hpc' = "grid"      \* vt.cursor.row = 0
           /\ UNCHANGED <<h, mu, ppc, pr, hn, k, n, crashed>>
HGrid   == /\ hpc = "grid" /\ h' = hn /\ hpc' = "reflow"       \* vt.activeScreen = the new grid
           /\ UNCHANGED <<row, mu, ppc, pr, hn, k, n, crashed>>
HReflow == /\ hpc = "reflow"                                   \* re-printing the old rows moves the cursor down
           /\ \E r \in 0..(hn - 1) : row' = r
           /\ hpc' = "done" /\ UNCHANGED <<h, mu, ppc, pr, hn, k, n, crashed>>
HDone   == /\ hpc = "done" /\ hpc' = "idle" /\ n' = n + 1
           /\ IF Locked THEN mu' = "none" ELSE UNCHANGED mu
           /\ UNCHANGED <<h, row, ppc, pr, hn, k, crashed>>

Next == PLock \/ PRead \/ PIndex \/ PUnlock \/ HStart \/ HCursor \/ HGrid \/ HReflow \/ HDone
Spec == Init /\ [][Next]_vars

NoCrash == ~crashed
CursorIn == (ppc = "idle" /\ hpc = "idle") => row < h
TypeOK == /\ h \in 1..MaxH /\ row \in 0..(MaxH - 1) /\ mu \in {"none", "pty", "host"}
          /\ ppc \in {"idle", "read", "index", "unlock"} /\ hpc \in {"idle", "cursor", "grid", "reflow", "done"}
=============================================================================
