------------------------------ MODULE EmuImpl ------------------------------
(* IMPLEMENTATION-SHAPED model for C05 (not an oracle, produces no          *)
(* verdicts): a transcription of the cursor / margin / tab / wrap           *)
(* arithmetic of widgets/term (term.go print, resize, scrollUp, scrollDown; *)
(* csi.go; esc.go; c0.go; mode.go) as it stands after the repairs, one      *)
(* operator per Go function, 0-based like the code.  Cell contents are not  *)
(* modelled; instead every index expression the code evaluates on the grid  *)
(* is modelled as an explicit access that must be in range ("bad" becomes   *)
(* TRUE where the Go code would panic).  MC_EmuImpl composes it with the    *)
(* EmuSafe oracle and explores every operation sequence up to a bound on    *)
(* all small screens, parameters ranging over 0 (= omitted), 1, 2, size-1,  *)
(* size, size+1 and 65535 (what clampParam lets through).                   *)
(*                                                                          *)
(* Deliberate abstractions: resize's reflow loop re-prints the old cells;   *)
(* here it is an arbitrary sequence of print(w) / nel() steps on the fresh  *)
(* screen (explored step by step, see MC_EmuImpl); loops over cell ranges   *)
(* are represented by their extreme indices.                                *)
EXTENDS Integers, Sequences

CONSTANTS MaxTabs,       \* HTS stops adding tab stops at this many (keeps the exhaustive model finite)
          DefaultTabs    \* initial tab stops: the code creates 8, 16, ... 344; <<8, 16>> suffices on small screens

MaxParam == 65535

(* m: [R, C, r, c, lc, top, bot, left, right, awm, irm, alt, tabs, sp, sa,  *)
(*     bad]; sp/sa = cursor state <<r, c, awm>> saved for the normal /      *)
(*     alternate screen (awm as 0/1)                                        *)
NewM(R, C) ==
  [R |-> R, C |-> C, r |-> 0, c |-> 0, lc |-> FALSE, top |-> 0, bot |-> R - 1, left |-> 0, right |-> C - 1,
   awm |-> TRUE, irm |-> FALSE, alt |-> FALSE, tabs |-> DefaultTabs, sp |-> <<0, 0, 1>>, sa |-> <<0, 0, 1>>, bad |-> FALSE]

(* an indexing activeScreen[y][x]; RowAt = activeScreen[y] alone *)
At(m, y, x) == IF y >= 0 /\ y < m.R /\ x >= 0 /\ x < m.C THEN m ELSE [m EXCEPT !.bad = TRUE]
RowAt(m, y) == IF y >= 0 /\ y < m.R THEN m ELSE [m EXCEPT !.bad = TRUE]
(* for x := a; x <= b; x++ { activeScreen[y][x] } *)
Span(m, y, a, b) == IF a > b THEN m ELSE At(At(m, y, a), y, b)

Dflt(p) == IF p = 0 THEN 1 ELSE p
MaxOf(a, b) == IF a > b THEN a ELSE b
MinOf(a, b) == IF a < b THEN a ELSE b

(* term.go scrollUp(n) *)
ScrollUp(m, n) ==
  LET rows == {y \in 0..(m.R - 1) : y >= m.top /\ y <= m.bot}      \* rows that are not skipped
      erased == {y \in rows : y + n > m.bot}
      copied == rows \ erased
  IN IF (\E y \in erased : m.left <= m.right /\ (m.left < 0 \/ m.right >= m.C))
        \/ (\E y \in copied : y + n >= m.R)
     THEN [m EXCEPT !.bad = TRUE] ELSE m
(* term.go scrollDown(n): for r := bottom; r >= top; r-- *)
ScrollDown(m, n) ==
  LET rows == {y \in m.top..m.bot : TRUE}
      erased == {y \in rows : y - n < m.top}
      copied == rows \ erased
  IN IF (\E y \in rows : y < 0 \/ y >= m.R)
        \/ (\E y \in erased : m.left <= m.right /\ (m.left < 0 \/ m.right >= m.C))
        \/ (\E y \in copied : y - n < 0)
     THEN [m EXCEPT !.bad = TRUE] ELSE m

(* esc.go *)
Ind(m0) ==
  LET m == [m0 EXCEPT !.lc = FALSE] IN
  IF m.r = m.bot THEN ScrollUp(m, 1)
  ELSE IF m.r >= m.R - 1 THEN m
  ELSE [m EXCEPT !.r = @ + 1]
Nel(m) == [Ind(m) EXCEPT !.c = m.left]
Ri(m0) ==
  LET m == [m0 EXCEPT !.lc = FALSE] IN
  IF m.r = m.top THEN ScrollDown(m, 1)
  ELSE IF m.r <= 0 THEN m
  ELSE [m EXCEPT !.r = @ - 1]

(* term.go splitWide *)
SplitWide(m) == IF m.r < 0 \/ m.r >= m.R \/ m.c < 1 \/ m.c >= m.C THEN m ELSE At(m, m.r, m.c - 1)

(* term.go print, w = width of the character *)
PrintCh(m0, w) ==
  LET wrap == (m0.lc \/ m0.c + w - 1 > m0.right) /\ m0.awm
      m1 == IF wrap THEN Nel(At([m0 EXCEPT !.lc = FALSE], m0.r, m0.C - 1)) ELSE m0
      col0 == m1.c
      rw0  == m1.r
      m2 == SplitWide(m1)
      m3 == IF m2.irm THEN      \* line := activeScreen[rw]; line[i] = line[i-w] for i = right .. col+w
               LET a == RowAt(m2, rw0) IN
               IF a.right >= col0 + w THEN At(At(a, rw0, a.right), rw0, col0) ELSE a
            ELSE m2
      col == IF col0 > m3.C - 1 THEN m3.C - 1 ELSE col0
      rw  == IF rw0 > m3.R - 1 THEN m3.R - 1 ELSE rw0
  IN IF w = 0 THEN m3
     ELSE
       LET m4 == At(m3, rw, col)
           m5 == IF w = 2 /\ col + 1 <= m4.right THEN At(m4, rw, col + 1) ELSE m4
           nc == m5.c + w
       IN IF nc > m5.right THEN [m5 EXCEPT !.c = m5.right, !.lc = m5.awm] ELSE [m5 EXCEPT !.c = nc]

(* c0.go *)
Bs(m0) ==
  LET m == [m0 EXCEPT !.lc = FALSE] IN
  IF m.c = m.left THEN (IF m.r = m.top \/ m.r = 0 THEN m ELSE [m EXCEPT !.c = m.right, !.r = @ - 1])
  ELSE [m EXCEPT !.c = @ - 1]
Cr(m) == [m EXCEPT !.lc = FALSE, !.c = m.left]

(* csi.go *)
Cuu(m, p) == LET ps == Dflt(p)
                 clamp == IF m.r >= m.top THEN m.top ELSE 0
                 nr == m.r - ps
             IN [m EXCEPT !.lc = FALSE, !.r = IF nr < clamp THEN clamp ELSE nr]
Cud(m, p) == LET ps == Dflt(p)
                 clamp == IF m.r <= m.bot THEN m.bot ELSE m.R - 1
                 nr == m.r + ps
             IN [m EXCEPT !.lc = FALSE, !.r = IF nr > clamp THEN clamp ELSE nr]
Cuf(m, p) == LET nc == m.c + Dflt(p) IN [m EXCEPT !.lc = FALSE, !.c = IF nc > m.right THEN m.right ELSE nc]
Cub(m, p) == LET nc == m.c - Dflt(p) IN [m EXCEPT !.lc = FALSE, !.c = IF nc < m.left THEN m.left ELSE nc]
Cnl(m, p) == [Cud(m, p) EXCEPT !.c = m.left]
Cpl(m, p) == [Cuu(m, p) EXCEPT !.c = m.left]
Cha(m, p) == LET nc == Dflt(p) - 1
                 a == IF nc > m.right THEN m.right ELSE nc
             IN [m EXCEPT !.lc = FALSE, !.c = IF a < m.left THEN m.left ELSE a]
Hpa(m, p) == LET nc == Dflt(p) - 1 IN [m EXCEPT !.lc = FALSE, !.c = IF nc > m.C - 1 THEN m.C - 1 ELSE nc]
Hpr(m, p) == LET nc == m.c + Dflt(p) IN [m EXCEPT !.lc = FALSE, !.c = IF nc > m.C - 1 THEN m.C - 1 ELSE nc]
Vpa(m, p) == LET nr == Dflt(p) - 1 IN [m EXCEPT !.lc = FALSE, !.r = IF nr > m.R - 1 THEN m.R - 1 ELSE nr]
Vpr(m, p) == LET nr == m.r + Dflt(p) IN [m EXCEPT !.lc = FALSE, !.r = IF nr > m.R - 1 THEN m.R - 1 ELSE nr]
Cup(m, p1, p2) ==
  LET nr == Dflt(p1) - 1
      nc == Dflt(p2) - 1
  IN [m EXCEPT !.lc = FALSE, !.r = IF nr > m.R - 1 THEN m.R - 1 ELSE nr, !.c = IF nc > m.C - 1 THEN m.C - 1 ELSE nc]

(* cht: for _, ts := range tabStop { if n == ps {break}; if col > ts {continue}; col = ts; n++ } *)
RECURSIVE ChtLoop(_, _, _, _, _)
ChtLoop(tabs, i, col, n, ps) ==
  IF i > Len(tabs) \/ n = ps THEN col
  ELSE IF col > tabs[i] THEN ChtLoop(tabs, i + 1, col, n, ps)
  ELSE ChtLoop(tabs, i + 1, tabs[i], n + 1, ps)
Cht(m, p) == LET nc == ChtLoop(m.tabs, 1, m.c, 0, Dflt(p))
             IN [m EXCEPT !.lc = FALSE, !.c = IF nc > m.right THEN m.right ELSE nc]
RECURSIVE CbtLoop(_, _, _, _, _)
CbtLoop(tabs, i, col, n, ps) ==
  IF i < 1 \/ n = ps THEN col
  ELSE IF col < tabs[i] THEN col
  ELSE CbtLoop(tabs, i - 1, tabs[i], n + 1, ps)
Cbt(m, p) == [m EXCEPT !.lc = FALSE, !.c = CbtLoop(m.tabs, Len(m.tabs), m.c, 0, Dflt(p))]
Hts(m) == IF Len(m.tabs) >= MaxTabs THEN m ELSE [m EXCEPT !.tabs = Append(@, m.c)]
Tbc(m, p) == IF p = 3 THEN [m EXCEPT !.tabs = <<>>]
             ELSE IF p = 0 THEN [m EXCEPT !.tabs = SelectSeq(@, LAMBDA t : t # m.c)] ELSE m

Ed(m0, p) ==
  CASE p = 0 -> LET m == SplitWide([m0 EXCEPT !.lc = FALSE]) IN
                IF m.r < m.R THEN Span(Span(m, m.r, m.c, m.C - 1), m.R - 1, 0, m.C - 1) ELSE m
    [] p = 1 -> LET m == [m0 EXCEPT !.lc = FALSE] IN
                IF m.r >= 0 THEN Span(Span(m, m.r, 0, IF m.c > m.C - 1 THEN m.C - 1 ELSE m.c), 0, 0, 0) ELSE m
    [] p = 2 -> [m0 EXCEPT !.lc = FALSE]
    [] OTHER -> m0
El(m0, p) ==
  LET m == [m0 EXCEPT !.lc = FALSE] IN
  CASE p = 0 -> LET s == SplitWide(m) IN IF s.c < s.C THEN Span(s, s.r, s.c, s.C - 1) ELSE s
    [] p = 1 -> Span(m, m.r, 0, m.c)
    [] p = 2 -> Span(m, m.r, 0, m.C - 1)
    [] OTHER -> m
InRegion(m) == m.r >= m.top /\ m.r <= m.bot /\ m.c >= m.left /\ m.c <= m.right
Il(m0, p) ==
  LET m == [m0 EXCEPT !.lc = FALSE] IN
  IF ~InRegion(m) THEN m
  ELSE LET rem == m.bot - m.r + 1
           ps == IF Dflt(p) > rem THEN rem ELSE Dflt(p)
           \* copy(screen[r], screen[r-ps]) for r = bot .. r+ps ; erase rows r .. r+ps-1
           a == IF m.bot >= m.r + ps THEN RowAt(RowAt(m, m.bot), m.r) ELSE m
           b == IF ps >= 1 THEN Span(Span(a, m.r, m.left, m.right), m.r + ps - 1, m.left, m.right) ELSE a
       IN [b EXCEPT !.c = m.left]
Dl(m0, p) ==
  LET m == [m0 EXCEPT !.lc = FALSE] IN
  IF ~InRegion(m) THEN m
  ELSE LET rem == m.bot - m.r + 1
           ps == IF Dflt(p) > rem THEN rem ELSE Dflt(p)
           \* for r = row .. bot: r <= bot-ps ? copy(screen[r], screen[r+ps]) : erase
           a == IF m.r <= m.bot - ps THEN RowAt(RowAt(m, m.r), m.bot) ELSE m
           b == Span(Span(a, MaxOf(m.r, m.bot - ps + 1), m.left, m.right), m.bot, m.left, m.right)
       IN [b EXCEPT !.c = m.left]
Dch(m0, p) ==
  LET m == SplitWide([m0 EXCEPT !.lc = FALSE])
      ps == Dflt(p)
  IN IF m.c > m.right THEN m
     ELSE \* for col = c .. right: col+ps > right ? erase [row][col] : [row][col] = [row][col+ps]
          Span(m, m.r, m.c, m.right)
Ech(m0, p) ==
  LET m == SplitWide([m0 EXCEPT !.lc = FALSE])
      ps == Dflt(p)
      \* for i = 0 .. ps-1: if c+i == C {return}; access [r][c+i]
      last == IF m.c <= m.C THEN (IF m.c + ps - 1 >= m.C THEN m.C - 1 ELSE m.c + ps - 1) ELSE m.c + ps - 1
  IN Span(m, m.r, m.c, last)
Ich(m0, p) ==
  LET ps == Dflt(p)
      m == SplitWide(RowAt(m0, m0.r))
      \* for i = right; i > c; i--: if i-ps < 0 {continue}; line[i] = line[i-ps]
      a == IF m.right > m.c /\ m.right - ps >= 0 THEN At(m, m.r, m.right) ELSE m
      \* for i = 0 .. ps-1: if c+i >= C {break}; line[c+i].erase
      b == IF m.c < m.C THEN At(a, m.r, m.c) ELSE a
  IN At(b, m.r, m.right)
Rep(m0, p) ==
  LET m == [m0 EXCEPT !.lc = FALSE] IN
  IF m.c = 0 THEN m
  ELSE LET a == At(m, m.r, m.c - 1) IN
       \* for i = 0 .. ps-1: if c+i == right {return}; access [r][c+i]
       IF p = 0 \/ m.c = m.right THEN a
       ELSE IF m.c < m.right THEN Span(a, m.r, m.c, MinOf(m.c + p - 1, m.right - 1))
       ELSE Span(a, m.r, m.c, m.c + p - 1)
Su(m, p) == ScrollUp(m, Dflt(p))
Sd(m, p) == ScrollDown(m, Dflt(p))
Decstbm(m, p1, p2) ==
  LET t == Dflt(p1)
      b == IF p2 # 0 /\ p2 < m.R THEN p2 ELSE m.R
  IN IF t - 1 >= b - 1 THEN m
     ELSE [m EXCEPT !.lc = FALSE, !.top = t - 1, !.bot = b - 1, !.r = 0, !.c = 0]

(* esc.go decsc / decrc, mode.go 1049 *)
B01(b) == IF b THEN 1 ELSE 0
Decsc(m) == IF m.alt THEN [m EXCEPT !.sa = <<m.r, m.c, B01(m.awm)>>] ELSE [m EXCEPT !.sp = <<m.r, m.c, B01(m.awm)>>]
Decrc(m) == LET v == IF m.alt THEN m.sa ELSE m.sp
            IN [m EXCEPT !.lc = FALSE, !.r = IF v[1] > m.R - 1 THEN m.R - 1 ELSE v[1],
                         !.c = IF v[2] > m.C - 1 THEN m.C - 1 ELSE v[2], !.awm = (v[3] = 1)]
AltOn(m)  == [Decsc(m) EXCEPT !.alt = TRUE, !.lc = FALSE]
AltOff(m) == Decrc([m EXCEPT !.alt = FALSE, !.lc = FALSE])
Ris(m) == [m EXCEPT !.bot = m.R - 1, !.right = m.C - 1, !.r = 0, !.c = 0, !.lc = FALSE, !.alt = FALSE,
                    !.awm = TRUE, !.irm = FALSE, !.tabs = DefaultTabs]

(* term.go resize: fresh grids, margins and cursor; the reflow that follows *)
(* is a sequence of Print / Nel steps                                       *)
Resize(m, R, C) ==
  [m EXCEPT !.R = R, !.C = C, !.top = 0, !.bot = R - 1, !.left = 0, !.right = C - 1, !.r = 0, !.c = 0, !.lc = FALSE]

(* One operation; op = [f, p, q] with f the function and p, q its first two *)
(* numeric parameters (0 = omitted).                                        *)
Apply(m, op) ==
  LET f == op.f  p == op.p  q == op.q IN
  CASE f = "print" -> PrintCh(m, p)
    [] f = "bs" -> Bs(m)   [] f = "ht" -> Cht(m, 1)  [] f = "lf" -> Ind(m)  [] f = "cr" -> Cr(m)
    [] f = "ind" -> Ind(m) [] f = "nel" -> Nel(m)    [] f = "ri" -> Ri(m)   [] f = "hts" -> Hts(m)
    [] f = "decsc" -> Decsc(m) [] f = "decrc" -> Decrc(m) [] f = "ris" -> Ris(m)
    [] f = "alton" -> AltOn(m) [] f = "altoff" -> AltOff(m)
    [] f = "irm" -> [m EXCEPT !.irm = (p = 1)]
    [] f = "awm" -> [m EXCEPT !.awm = (p = 1), !.lc = FALSE]
    [] f = "ich" -> Ich(m, p) [] f = "cuu" -> Cuu(m, p) [] f = "cud" -> Cud(m, p) [] f = "cuf" -> Cuf(m, p)
    [] f = "cub" -> Cub(m, p) [] f = "cnl" -> Cnl(m, p) [] f = "cpl" -> Cpl(m, p) [] f = "cha" -> Cha(m, p)
    [] f = "cup" -> Cup(m, p, q) [] f = "cht" -> Cht(m, p) [] f = "ed" -> Ed(m, p) [] f = "el" -> El(m, p)
    [] f = "il" -> Il(m, p) [] f = "dl" -> Dl(m, p) [] f = "dch" -> Dch(m, p) [] f = "su" -> Su(m, p)
    [] f = "sd" -> Sd(m, p) [] f = "ech" -> Ech(m, p) [] f = "cbt" -> Cbt(m, p) [] f = "hpa" -> Hpa(m, p)
    [] f = "hpr" -> Hpr(m, p) [] f = "rep" -> Rep(m, p) [] f = "vpa" -> Vpa(m, p) [] f = "vpr" -> Vpr(m, p)
    [] f = "tbc" -> Tbc(m, p) [] f = "decstbm" -> Decstbm(m, p, q)

(* the observation EmuSafe judges *)
ObsOf(m) == [r |-> m.r, c |-> m.c, top |-> m.top, bot |-> m.bot, left |-> m.left, right |-> m.right,
             hs |-> <<m.R, m.R, m.R>>, ws |-> <<m.C>>]
=============================================================================
