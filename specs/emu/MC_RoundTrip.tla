---------------------------- MODULE MC_RoundTrip ----------------------------
(* Sanity model of the C12 oracle pieces in RoundTrip: over every reference  *)
(* terminal state reachable by short command sequences on a small screen,    *)
(* Landing names exactly the cell PrintG writes the glyph's head to; and the *)
(* classification operators behave as documented on their corner cases.      *)
EXTENDS RoundTrip, TLC
CONSTANTS Rows, Cols, MaxSteps

VARIABLES t, n
vars == <<t, n>>

Cmds ==
  {[ev |-> "print", g |-> g, w |-> w] : g \in {1}, w \in {0, 1, 2}}
  \cup {[ev |-> "cup", r |-> r, c |-> c] : r \in 1..Rows, c \in 1..Cols}
  \cup {[ev |-> "sgr", ps |-> ps] : ps \in {<<>>, <<<<1>>>>}}
  \cup {[ev |-> "ed2"], [ev |-> "cr"]}

Init == t = ED2(InitTerm(Rows, Cols, FALSE)) /\ n = 0
Next == n < MaxSteps /\ n' = n + 1 /\ \E c \in Cmds : t' = Step(t, c)
Spec == Init /\ [][Next]_vars

LandingIsHead ==
  \A w \in 1..2 : w <= t.cols =>
    LET p == Landing(t, w)
        u == PrintG(t, 7, w)
    IN /\ p[1] \in 1..t.rows /\ p[2] \in 1..t.cols
       /\ u.grid[p[1]][p[2]] = G(7, w, t.pen, t.link)
       /\ \A i \in 1..(w - 1) : u.grid[p[1]][p[2] + i] = Cont

I(p, at, sent, got) == [proto |-> p, at |-> at, sent |-> sent, got |-> got]
ASSUME ThmCut ==
  /\ ~CutExplains({}, {})
  /\ ~CutExplains({}, {<<1, 1>>})
  /\ CutExplains({<<1, 2>>}, {<<1, 2>>, <<1, 3>>})
  /\ ~CutExplains({<<1, 2>>}, {<<1, 1>>})
  /\ ~CutExplains({<<1, 2>>}, {<<1, 2>>, <<2, 3>>})
  /\ CutExplains({<<1, 2>>, <<2, 1>>}, {<<1, 2>>, <<2, 3>>})
ASSUME ThmImages ==
  LET S == {"sixel", "unicodeCore"} IN
  /\ ImagesWhy(S, I("sixel", <<<<1, 2>>>>, 1, <<<<1, 2>>>>)) = "ok"
  /\ ImagesWhy(S, I("sixel", <<<<1, 2>>, <<3, 0>>>>, 2, <<<<3, 0>>, <<1, 2>>>>)) = "ok"
  /\ ImagesWhy(S, I("sixel", <<<<1, 2>>>>, 1, <<>>)) = "graphics-lost"
  /\ ImagesWhy(S, I("sixel", <<<<1, 2>>>>, 1, <<<<1, 3>>>>)) = "graphics-position"
  /\ ImagesWhy(S, I("sixel", <<<<1, 2>>>>, 0, <<>>)) = "graphics-not-sent"
  /\ ImagesWhy(S, I("kitty", <<<<1, 2>>>>, 0, <<>>)) = "graphics-protocol-not-advertised"
  /\ ImagesWhy(S, I("cells", <<<<1, 2>>>>, 0, <<>>)) = "graphics-protocol-not-advertised"
  /\ ImagesWhy({"unicodeCore"}, I("cells", <<<<1, 2>>>>, 0, <<>>)) = "ok"
  /\ ImagesWhy(S, I("sixel", <<>>, 0, <<>>)) = "ok"
=============================================================================
