CONSTANTS
  K = 7
  OutCap = 2
  InCap = 2
  QCap = 2
  Queued = FALSE
SPECIFICATION Spec
INVARIANTS TypeOK NoBlock
CHECK_DEADLOCK FALSE
