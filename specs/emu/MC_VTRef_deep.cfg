CONSTANTS
  Rows = 3
  Cols = 3
  MaxSteps = 5
SPECIFICATION Spec
INVARIANTS Inv Theorems
CHECK_DEADLOCK FALSE
