CONSTANTS
  K = 6
  Cap = 2
  Drain = TRUE
SPECIFICATION Spec
INVARIANTS TypeOK NoStall
PROPERTIES AllShown
CHECK_DEADLOCK FALSE
