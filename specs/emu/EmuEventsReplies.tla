-------------------------- MODULE EmuEventsReplies --------------------------
(* Implementation-shaped model of the embedded terminal answering queries   *)
(* of its child (widgets/term csi.go DA1 / DA2 / DSR / CPR, mode.go DECRQM, *)
(* osc.go OSC 11).  The child and the terminal are joined by the two kernel *)
(* buffers of a pseudo terminal: out (what the child wrote and the terminal *)
(* has not read yet, at most OutCap sequences) and inp (what the terminal   *)
(* wrote and the child has not read yet, at most InCap replies).  A write   *)
(* into a full buffer blocks the writer.  The child writes K sequences, any *)
(* pattern of queries and plain ones; it reads its input only once it has   *)
(* written all of them (Reads = TRUE), or never (Reads = FALSE: a program   *)
(* that is not interested in the answers).                                  *)
(*   Queued = FALSE: the PTY goroutine - the only reader of the child's     *)
(* output - writes each reply itself, from inside update(), with the        *)
(* model's mutex held (the code as it was).  When inp is full it blocks;    *)
(* the child, which does not read (yet), can then fill out and block too.   *)
(*   Queued = TRUE: update() appends the reply to a queue of at most QCap   *)
(* replies (a full queue drops it) and a second goroutine writes the queue  *)
(* to the pseudo terminal (the repaired code).                              *)
(* Property C05: the terminal processes ANY byte stream written by the      *)
(* child without blocking.                                                  *)
EXTENDS Integers

CONSTANTS K,        \* sequences the child writes
          OutCap,   \* capacity child -> terminal
          InCap,    \* capacity terminal -> child
          QCap,     \* capacity of the reply queue
          Queued    \* replies go through the queue

VARIABLES isq,      \* isq[i]: the i-th sequence is a query
          reads,    \* the child reads its input after its last write
          cw,       \* sequences the child has written
          out,      \* sequences in the child -> terminal buffer
          inp,      \* replies in the terminal -> child buffer
          pc,       \* PTY goroutine: "select" or "write" (inside update, writing a reply)
          q,        \* replies in the queue
          shown,    \* sequences whose effect reached the screen
          dropped   \* replies dropped because the queue was full
vars == <<isq, reads, cw, out, inp, pc, q, shown, dropped>>

Init == /\ isq \in [1..K -> BOOLEAN] /\ reads \in BOOLEAN
        /\ cw = 0 /\ out = 0 /\ inp = 0 /\ pc = "select" /\ q = 0 /\ shown = 0 /\ dropped = 0

(* the child *)
ChildWrite == /\ cw < K /\ out < OutCap /\ cw' = cw + 1 /\ out' = out + 1
              /\ UNCHANGED <<isq, reads, inp, pc, q, shown, dropped>>
ChildRead  == /\ reads /\ cw = K /\ inp > 0 /\ inp' = inp - 1
              /\ UNCHANGED <<isq, reads, cw, out, pc, q, shown, dropped>>

(* the PTY goroutine: the next sequence in out is number shown + 1 *)
Take == /\ pc = "select" /\ out > 0 /\ out' = out - 1
        /\ IF ~isq[shown + 1] THEN shown' = shown + 1 /\ UNCHANGED <<pc, q, dropped>>
           ELSE IF ~Queued THEN pc' = "write" /\ UNCHANGED <<shown, q, dropped>>
           ELSE /\ shown' = shown + 1 /\ UNCHANGED pc
                /\ IF q < QCap THEN q' = q + 1 /\ UNCHANGED dropped
                   ELSE dropped' = dropped + 1 /\ UNCHANGED q
        /\ UNCHANGED <<isq, reads, cw, inp>>
Write == /\ pc = "write" /\ inp < InCap          \* vt.pty.WriteString(reply) returns
         /\ inp' = inp + 1 /\ shown' = shown + 1 /\ pc' = "select"
         /\ UNCHANGED <<isq, reads, cw, out, q, dropped>>

(* the goroutine that writes the queue *)
Flush == /\ Queued /\ q > 0 /\ inp < InCap /\ q' = q - 1 /\ inp' = inp + 1
         /\ UNCHANGED <<isq, reads, cw, out, pc, shown, dropped>>

Next == ChildWrite \/ ChildRead \/ Take \/ Write \/ Flush
Spec == Init /\ [][Next]_vars /\ WF_vars(ChildWrite) /\ WF_vars(ChildRead) /\ WF_vars(Take) /\ WF_vars(Write) /\ WF_vars(Flush)

(* The block: the PTY goroutine waits for room in inp, which only a read of *)
(* the child can make, and the child does not read: not at all, or not      *)
(* before it has written everything, which it cannot do while out is full   *)
(* and nobody reads that.                                                   *)
Blocked == pc = "write" /\ inp = InCap /\ (~reads \/ (cw < K /\ out = OutCap))
NoBlock == ~Blocked
(* Everything the child wrote eventually reaches the screen. *)
AllShown == <>(shown = K)
TypeOK == /\ cw \in 0..K /\ out \in 0..OutCap /\ inp \in 0..InCap /\ q \in 0..QCap
          /\ shown \in 0..K /\ dropped \in 0..K /\ pc \in {"select", "write"}
=============================================================================
