----------------------------- MODULE EmuEvents -----------------------------
(* Implementation-shaped model of the embedded terminal's PTY goroutine     *)
(* (widgets/term StartWithSize): ONE goroutine selects over                 *)
(*   - the parser's next sequence        (Take: update() runs under the     *)
(*     model's mutex; a BEL / title / notification / APC sequence posts an  *)
(*     event into a channel of capacity Cap from inside update()),          *)
(*   - the event channel                 (Deliver: hand one event to the    *)
(*     host's handler),                                                     *)
(*   - the redraw timer                  (Tick).                            *)
(* The goroutine that posts is the only one that receives, so a post into a *)
(* full channel can never complete: that is the stall of property C05       *)
(* ("events it raises never stall further processing however many occur").  *)
(* Drain = TRUE models the repaired loop, which empties the channel after   *)
(* every update(); Drain = FALSE the loop as it was.  TLC explores every    *)
(* order in which the select may pick ready cases ("all orders in which     *)
(* raised events are consumed").                                            *)
EXTENDS Integers, Sequences

CONSTANTS K,        \* number of sequences the child writes
          Cap,      \* capacity of the event channel
          Drain     \* whether the loop drains the channel after update()

VARIABLES pc,       \* "select", "post" (inside update, about to send), "drain", "exit"
          todo,     \* sequences not yet taken; each raises an event iff its entry is TRUE
          ch,       \* number of events in the channel
          shown,    \* number of sequences whose effect reached the screen
          delivered \* events handed to the handler
vars == <<pc, todo, ch, shown, delivered>>

Inputs == [1..K -> BOOLEAN]            \* every pattern of event-raising / plain sequences

Init == pc = "select" /\ todo \in Inputs /\ ch = 0 /\ shown = 0 /\ delivered = 0

Remaining == K - shown

Take ==        \* select picked the parser: update(seq)
  /\ pc = "select" /\ Remaining > 0
  /\ IF todo[shown + 1] THEN pc' = "post" /\ UNCHANGED <<todo, ch, shown, delivered>>
     ELSE /\ shown' = shown + 1 /\ pc' = (IF Drain THEN "drain" ELSE "select")
          /\ UNCHANGED <<todo, ch, delivered>>
Post ==        \* vt.events <- ev, executed by update() with the mutex held
  /\ pc = "post" /\ ch < Cap
  /\ ch' = ch + 1 /\ shown' = shown + 1 /\ pc' = (IF Drain THEN "drain" ELSE "select")
  /\ UNCHANGED <<todo, delivered>>
DrainStep ==   \* after update(): receive while the channel is not empty
  /\ pc = "drain"
  /\ IF ch > 0 THEN ch' = ch - 1 /\ delivered' = delivered + 1 /\ UNCHANGED <<pc, todo, shown>>
     ELSE pc' = "select" /\ UNCHANGED <<todo, ch, shown, delivered>>
Deliver ==     \* select picked the event channel
  /\ pc = "select" /\ ch > 0
  /\ ch' = ch - 1 /\ delivered' = delivered + 1 /\ UNCHANGED <<pc, todo, shown>>
Tick ==        \* select picked the timer: nothing the property depends on
  /\ pc = "select" /\ UNCHANGED vars
Eof ==         \* the parser delivered EOF: the goroutine returns
  /\ pc = "select" /\ Remaining = 0 /\ pc' = "exit" /\ UNCHANGED <<todo, ch, shown, delivered>>

Next == Take \/ Post \/ DrainStep \/ Deliver \/ Tick \/ Eof
Spec == Init /\ [][Next]_vars /\ WF_vars(Take \/ Post \/ DrainStep \/ Eof)

(* The stall: blocked in Post for ever (nobody else receives). *)
Stalled == pc = "post" /\ ch = Cap
NoStall == ~Stalled
(* Everything the child wrote eventually reaches the screen. *)
AllShown == <>(shown = K)
TypeOK == pc \in {"select", "post", "drain", "exit"} /\ ch \in 0..Cap /\ shown \in 0..K /\ delivered \in 0..K
=============================================================================
