----------------------------- MODULE MC_VTRef -----------------------------
(* Exhaustive sanity model of the VTRef oracle: every operation sequence up *)
(* to MaxSteps over the boundary parameter alphabet on a small screen.      *)
(* Invariants: structural well-formedness of every reachable state, and     *)
(* "theorems" relating the control functions to one another as DEC STD 070  *)
(* / ECMA-48 describe them (Pn-fold functions are Pn single steps, LF at    *)
(* the bottom margin is SU 1, ED 2 = ED 0 then ED 1, save/restore and       *)
(* alternate-screen round trips, ...).  No verdict about the code comes     *)
(* from here; it guards the oracle that produces the verdicts.              *)
EXTENDS VTRef, TLC
CONSTANTS Rows, Cols, MaxSteps

VARIABLES s, n
vars == <<s, n>>

NumPs == {<<>>, <<0>>, <<1>>, <<2>>, <<Cols + 1>>}
Ops ==
  {[op |-> o] : o \in {"CR", "LF", "RI", "NEL", "DECSC", "DECRC", "ALTON", "ALTOFF",
                       "ALT47ON", "ALT47OFF", "ALT1047OFF", "RC1048"}}
  \cup {[op |-> "PRINT", g |-> p[1], w |-> p[2]] : p \in {<<1, 1>>, <<2, 2>>}}
  \cup {[op |-> o, ps |-> ps] : o \in {"CUU", "CUD", "CUF", "CUB", "CNL", "CPL", "CHA", "VPA", "ECH", "ICH",
                                       "DCH", "IL", "DL", "SU", "SD"}, ps \in NumPs}
  \cup {[op |-> o, ps |-> ps] : o \in {"ED", "EL"}, ps \in {<<>>, <<0>>, <<1>>, <<2>>}}
  \cup {[op |-> "CUP", ps |-> ps] : ps \in {<<>>, <<0, 0>>, <<2>>, <<1, 2>>, <<Rows, Cols>>,
                                            <<Rows + 1, Cols + 1>>, <<-1, 2>>}}
  \cup {[op |-> "DECSTBM", ps |-> ps] : ps \in {<<>>, <<0, 0>>, <<1, 2>>, <<2, Rows>>, <<2, 2>>,
                                                <<1, Rows + 1>>, <<2>>, <<Rows, 1>>}}
  \cup {[op |-> "SGR", sgr |-> x] : x \in {<<>>, <<<<41>>>>, <<<<7>>>>, <<<<21>>>>}}

(* every way of resolving what an outcome leaves open *)
Resolve(o) == {t \in {[o.s EXCEPT !.c = c, !.pw = p] : c \in o.cs, p \in (IF o.pwf THEN {o.s.pw, FALSE} ELSE {o.s.pw})}
                 : PwAtEdge(t)}

Init == s = InitVT(Rows, Cols) /\ n = 0
Next == /\ n < MaxSteps /\ n' = n + 1
        /\ \E e \in Ops : \E o \in Outcomes(s, e) : s' \in Resolve(o)
Spec == Init /\ [][Next]_vars

Inv == WellFormedVT(s)

RECURSIVE Iter(_, _, _)
Iter(F(_), k, t) == IF k = 0 THEN t ELSE Iter(F, k - 1, F(t))
IL1(t) == IL(t, 1)    DL1(t) == DL(t, 1)    SU1(t) == SU(t, 1)    SD1(t) == SD(t, 1)
ICH1(t) == ICH(t, 1)  DCH1(t) == DCH(t, 1)
CUU1(t) == CUU(t, 1)  CUD1(t) == CUD(t, 1)  CUF1(t) == CUF(t, 1)  CUB1(t) == CUB(t, 1)

Ks == 1..(MaxI(Rows, Cols) + 1)
q == [s EXCEPT !.pw = FALSE]

ThmIter ==
  \A k \in Ks :
    /\ IL(q, k) = Iter(IL1, k, q)   /\ DL(q, k) = Iter(DL1, k, q)
    /\ SU(q, k) = Iter(SU1, k, q)   /\ SD(q, k) = Iter(SD1, k, q)
    /\ ICH(q, k) = Iter(ICH1, k, q) /\ DCH(q, k) = Iter(DCH1, k, q)
    /\ CUU(q, k) = Iter(CUU1, k, q) /\ CUD(q, k) = Iter(CUD1, k, q)
    /\ CUF(q, k) = Iter(CUF1, k, q) /\ CUB(q, k) = Iter(CUB1, k, q)
ThmIndex ==
  /\ q.r = q.bot => Ind(q) = SU(q, 1)
  /\ q.r = q.top => Ri(q) = SD(q, 1)
  /\ (q.r # q.bot /\ q.r + 1 # q.top) => Ri(Ind(q)).grid = q.grid
ThmErase ==
  /\ ED(q, 2).grid = BlankGrid(Rows, Cols, q.pen.bg)
  /\ ED(ED(q, 0), 1).grid = ED(q, 2).grid
  /\ EL(EL(q, 0), 1).grid = EL(q, 2).grid
  /\ \A k \in Ks : k >= Cols - q.c + 1 => ECH(q, k) = EL(q, 0)
  /\ ED(q, 0).r = q.r /\ ED(q, 0).c = q.c
  /\ \A y \in 1..(q.r - 1) : ED(q, 0).grid[y] = q.grid[y]
  /\ \A y \in (q.r + 1)..Rows : ED(q, 1).grid[y] = q.grid[y]
ThmSaveRestore ==
  /\ \A pr \in 1..Rows : \A pc \in 1..Cols :
       LET t == DECRC(CUP(DECSC(q), pr, pc)) IN t.r = q.r /\ t.c = q.c /\ t.pen = q.pen /\ t.grid = q.grid
  /\ ~q.alt => LET t == AltOff(AltOn(q)) IN t.grid = q.grid /\ t.r = q.r /\ t.c = q.c /\ t.pen = q.pen /\ ~t.alt
  /\ AltOn(q).grid = BlankGrid(Rows, Cols, q.pen.bg) /\ AltOn(q).r = q.r /\ AltOn(q).c = q.c
ThmAltBuffers ==   \* modes 47 / 1047: only the displayed buffer changes; a buffer that is not displayed keeps its contents
  /\ ~q.alt => /\ Alt47Off(Alt47On(q)) = q /\ Alt47Off(q) = q /\ Alt1047Off(q) = q
               /\ LET a == Alt47On(q) IN
                    /\ a.alt /\ a.grid = q.other /\ a.r = q.r /\ a.c = q.c /\ a.pen = q.pen /\ a.saved = q.saved
                    /\ Alt47On(a) = a
                    /\ Alt47On(Alt47Off(PrintG(a, 1, 1))).grid = PrintG(a, 1, 1).grid
                    /\ Alt1047Off(a).grid = q.grid
                    /\ Alt47On(Alt1047Off(PrintG(a, 1, 1))).grid = BlankGrid(Rows, Cols, q.pen.bg)
                    /\ AltOn(a).grid = BlankGrid(Rows, Cols, q.pen.bg)         \* 1049 clears even when already there
                    /\ AltOff(a).grid = q.grid /\ ~AltOff(a).alt
ThmSgr21 ==
  /\ ApplyVT(q.pen, <<<<21>>>>).us = 2 /\ ApplyVT(ApplyVT(q.pen, <<<<21>>>>), <<<<24>>>>).us = 0
  /\ ApplyVT(q.pen, <<<<21>>>>) = Apply(q.pen, <<<<4, 2>>>>)
  /\ ApplyVT(q.pen, <<<<38>>, <<5>>, <<21>>>>) = Apply(q.pen, <<<<38>>, <<5>>, <<21>>>>)   \* 21 as a colour index is not a rendition
  /\ \A x \in {<<>>, <<<<41>>>>, <<<<7>>>>, <<<<1>>, <<4, 3>>, <<0>>>>} : ApplyVT(q.pen, x) = Apply(q.pen, x)
ThmPrint ==
  /\ q.c < Cols => LET t == PrintG(q, 1, 1) IN
                     t.c = q.c + 1 /\ t.r = q.r /\ ~t.pw /\ t.grid[q.r][q.c] = Glyph(1, 1, q.pen, 0)
  /\ q.c = Cols => LET t == PrintG(q, 1, 1) IN t.c = Cols /\ t.r = q.r /\ t.pw
  /\ LET t == PrintG([q EXCEPT !.pw = (q.c = Cols)], 1, 1) IN     \* printing with a wrap pending
       q.c = Cols => /\ t.c = MinI(2, Cols) /\ t.r = (IF q.r = q.bot THEN q.r ELSE MinI(q.r + 1, Rows))
                     /\ t.grid[t.r][1] = Glyph(1, 1, q.pen, 0)
  /\ LET t == PrintG(q, 2, 2) IN t.grid[t.r][IF q.c + 1 > Cols THEN 1 ELSE q.c].k \in {"g"}
ThmRegion ==
  \A k \in Ks : InRegion(q) => InRegion(CUU(q, k)) /\ InRegion(CUD(q, k))
ThmOutside ==   \* nothing outside the scrolling region moves when the region scrolls
  \A k \in Ks : \A y \in 1..Rows : (y < q.top \/ y > q.bot) =>
     /\ SU(q, k).grid[y] = q.grid[y] /\ SD(q, k).grid[y] = q.grid[y]
     /\ IL(q, k).grid[y] = q.grid[y] /\ DL(q, k).grid[y] = q.grid[y]
(* A cluster measured wider than two columns is shown as a narrow or as a   *)
(* wide glyph, and in every other respect like a cluster of that width.     *)
(* (That, and ThmHuge, is why Ops needs no such print and no such value:    *)
(* their outcomes are outcomes of operations that are in Ops.)              *)
ThmOddWidth ==
  /\ \A w \in {3, 4} : Outcomes(s, [op |-> "PRINT", g |-> 3, w |-> w])
                         = Outcomes(s, [op |-> "PRINT", g |-> 3, w |-> 1]) \cup Outcomes(s, [op |-> "PRINT", g |-> 3, w |-> 2])
  /\ \A w \in {1, 2} : Outcomes(s, [op |-> "PRINT", g |-> 3, w |-> w]) = One(PrintG(s, 3, w))
  /\ Outcomes(s, [op |-> "PRINTS", gs |-> <<<<1, 1>>, <<2, 2>>>>]) = One(PrintG(PrintG(s, 1, 1), 2, 2))
  /\ Outcomes(s, [op |-> "PRINTS", gs |-> <<<<3, 3>>, <<1, 1>>>>])
       = {Out(PrintG(PrintG(s, 3, v), 1, 1), FALSE) : v \in {1, 2}}
  /\ \A o \in Outcomes(s, [op |-> "PRINTS", gs |-> <<<<3, 4>>, <<3, 3>>>>]) : WellFormedVT(o.s)
(* A huge parameter acts like any value just beyond the screen: counts and  *)
(* positions saturate, an unknown selection does nothing.                   *)
Beyond == MaxI(Rows, Cols) + 1
ThmHuge ==
  /\ \A o \in {"CUU", "CUD", "CUF", "CUB", "CNL", "CPL", "CHA", "HPA", "VPA", "ECH", "ICH", "DCH", "IL", "DL", "SU", "SD"} :
       Outcomes(s, [op |-> o, ps |-> <<HugeParam>>]) = Outcomes(s, [op |-> o, ps |-> <<Beyond>>])
  /\ \A o \in {"CUP", "HVP"} : \A a, b \in {-1, 1, HugeParam} :
       LET f(v) == IF v = HugeParam THEN Beyond ELSE v IN
       Outcomes(s, [op |-> o, ps |-> <<a, b>>]) = Outcomes(s, [op |-> o, ps |-> <<f(a), f(b)>>])
  /\ \A a, b \in {-1, 1, HugeParam} :
       LET f(v) == IF v = HugeParam THEN Rows + 1 ELSE v IN
       Outcomes(s, [op |-> "DECSTBM", ps |-> <<a, b>>]) = Outcomes(s, [op |-> "DECSTBM", ps |-> <<f(a), f(b)>>])
  /\ \A o \in {"ED", "EL"} : Outcomes(s, [op |-> o, ps |-> <<HugeParam>>]) = One(q)
Theorems == ThmOddWidth /\ ThmHuge /\ ThmIter /\ ThmIndex /\ ThmErase /\ ThmSaveRestore /\ ThmAltBuffers /\ ThmSgr21 /\ ThmPrint /\ ThmRegion /\ ThmOutside
=============================================================================
