CONSTANTS
  K = 6
  Cap = 2
  Drain = FALSE
SPECIFICATION Spec
INVARIANTS TypeOK NoStall
CHECK_DEADLOCK FALSE
