CONSTANTS
  MaxTabs = 1000000
  DefaultTabs <- TraceTabs
SPECIFICATION Spec
POSTCONDITION Consumed
CHECK_DEADLOCK FALSE
