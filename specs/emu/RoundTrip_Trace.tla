--------------------------- MODULE RoundTrip_Trace ---------------------------
(* Trace validation for C12: a real Vaxis application whose terminal is the  *)
(* embedded emulator.  Three views must agree with what the application set  *)
(* after every frame:                                                        *)
(*   frame   the RefTerm oracle fed the bytes the application wrote          *)
(*           (RefTerm!FrameOK: the emulator received a correct stream);      *)
(*   emu     the emulator's own grid and cursor (recorded snapshot);         *)
(*   hframe  the host terminal after the emulator was drawn into a host      *)
(*           Vaxis of the same size (host bytes through a second RefTerm);   *)
(*   hplain  the window of a host that measures text per code point: the     *)
(*           emulator drawn into it and the cells of the emulator's snapshot *)
(*           set in the window of a second such host, with their widths,     *)
(*           make both Vaxis write the same bytes (same = the logged result  *)
(*           of that comparison; the cells a window holds cannot be read).   *)
(* And at "ready" the capabilities the application derived from the          *)
(* emulator's replies must be exactly those the emulator implements (adv),   *)
(* and a graphics feature among them must take what the application then     *)
(* sends ("images": every picture the application drew with the protocol it  *)
(* chose is held by the emulator, at the cell it was drawn at).              *)
(*                                                                           *)
(* Transport fact: a print command marked "cut" is a grapheme cluster that   *)
(* the emulator's parser received in two reads.  A byte-stream parser cannot *)
(* wait for the rest of a cluster, so such a cluster reaches the emulator in *)
(* parts; what that does to the cells at and to the right of the cluster in  *)
(* its row is classified apart (why = "emulator-cells-cut-cluster") from     *)
(* every other difference.  Nothing else is excused: a frame without a cut   *)
(* cluster, and every cell not to the right of one, is judged as usual.      *)
EXTENDS RoundTrip, Caps, TLC, Json, IOUtils

Trace == ndJsonDeserialize(IOEnv.TRACE)
VARIABLES l, t, th, adv, failed, cuts
vars == <<l, t, th, adv, failed, cuts>>

Init == l = 1 /\ t = InitTerm(1, 1, FALSE) /\ th = InitTerm(1, 1, FALSE) /\ adv = {} /\ failed = FALSE /\ cuts = {}

Reject(e, why, detail) ==
  /\ failed' = TRUE
  /\ PrintT("REJECT " \o ToJson([scn |-> e.scn, line |-> l, why |-> why, detail |-> detail]))

(* The emulator's snapshot as a RefTerm grid. *)
EmuCell(c) == IF c[1] = 1 THEN Cont
              ELSE G(c[2], c[3], [fg |-> c[4], bg |-> c[5], ul |-> c[6], us |-> c[7], at |-> c[8]], c[9])
EmuTerm(e, base) ==
  [base EXCEPT !.grid = [y \in 1..Len(e.grid) |-> [x \in 1..Len(e.grid[y]) |-> EmuCell(e.grid[y][x])]],
               !.vis = (e.ecur[1] = 1), !.r = e.ecur[2], !.c = e.ecur[3], !.shape = e.ecur[4], !.pw = FALSE]
EmuShape(e, base) == Len(e.grid) = base.rows /\ \A y \in 1..Len(e.grid) : Len(e.grid[y]) = base.cols

IsCut(e) == e.ev = "print" /\ "cut" \in DOMAIN e

Next ==
  /\ l <= Len(Trace)
  /\ l' = l + 1
  /\ LET e == Trace[l] IN
     IF e.ev = "reset" THEN
        /\ t' = InitTerm(e.rows, e.cols, e.xw) /\ th' = InitTerm(e.rows, e.cols, FALSE)
        /\ adv' = SeqToSet(e.adv) /\ failed' = FALSE /\ cuts' = {}
     ELSE IF failed THEN UNCHANGED <<t, th, adv, failed, cuts>>
     ELSE IF e.ev = "ready" THEN
        /\ UNCHANGED <<t, th, adv, cuts>>
        /\ IF e.can = Established(adv) THEN UNCHANGED failed
           ELSE Reject(e, "capabilities", {f \in DOMAIN e.can : e.can[f] # Established(adv)[f]})
     ELSE IF e.ev = "images" THEN
        /\ UNCHANGED <<t, th, adv, cuts>>
        /\ IF ImagesWhy(adv, e) = "ok" THEN UNCHANGED failed
           ELSE Reject(e, ImagesWhy(adv, e), [proto |-> e.proto, at |-> e.at, sent |-> e.sent, got |-> e.got])
     ELSE IF e.ev = "frame" THEN
        /\ UNCHANGED <<t, th, adv, cuts>>
        /\ IF FrameOK(t, e) THEN UNCHANGED failed ELSE Reject(e, "stream-" \o FrameWhy(t, e), FirstBad(t, e))
     ELSE IF e.ev = "emu" THEN
        /\ UNCHANGED <<t, th, adv, cuts>>
        /\ IF ~EmuShape(e, t) THEN Reject(e, "emulator-grid-shape", <<>>)
           ELSE LET et == EmuTerm(e, t) IN
                IF ScreenOK(et, e.app, e.rgb, e.su) /\ CursorOK(et, e.cur) THEN UNCHANGED failed
                ELSE Reject(e, IF ~CursorOK(et, e.cur) THEN "emulator-cursor"
                               ELSE IF CutExplains(cuts, BadCells(et, e)) THEN "emulator-cells-cut-cluster"
                               ELSE "emulator-cells", FirstBad(et, e))
     ELSE IF e.ev = "hframe" THEN
        /\ UNCHANGED <<t, th, adv>> /\ cuts' = {}
        /\ IF ScreenOK(th, e.app, e.rgb, e.su) /\ CursorOK(th, e.cur) /\ FlushClean(th) THEN UNCHANGED failed
           ELSE Reject(e, IF ~ScreenOK(th, e.app, e.rgb, e.su) THEN "host-cells" ELSE "host-cursor", FirstBad(th, e))
     ELSE IF e.ev = "hplain" THEN
        /\ UNCHANGED <<t, th, adv, cuts>>
        /\ IF e.same THEN UNCHANGED failed ELSE Reject(e, "host-window-cells", <<>>)
     ELSE IF e.ev = "host" THEN
        /\ th' = Step(th, e.c) /\ UNCHANGED <<t, adv, failed, cuts>>
     ELSE IF e.ev = "panic" THEN
        /\ UNCHANGED <<t, th, adv, cuts>> /\ Reject(e, "panic", e.msg)
     ELSE
        /\ t' = Step(t, e) /\ UNCHANGED <<th, adv, failed>>
        /\ cuts' = IF IsCut(e) THEN cuts \cup {Landing(t, e.w)} ELSE cuts

Spec == Init /\ [][Next]_vars
Consumed == TLCGet("stats").diameter - 1 = Len(Trace)
=============================================================================
