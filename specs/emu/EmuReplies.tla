----------------------------- MODULE EmuReplies -----------------------------
(* Specification growth beyond the listed properties: what the embedded      *)
(* terminal answers when its child asks.  From xterm ctlseqs / DEC STD 070:  *)
(*   DSR 5  -> CSI 0 n                                                       *)
(*   DSR 6  -> CSI r ; c R  (CPR) with r relative to the top margin when     *)
(*             origin mode (DECOM) is set, otherwise absolute; 1-based       *)
(*   DA1    -> CSI ? Ps ; ... c  with a non-empty parameter list             *)
(*   DECRQM -> CSI ? Pd ; Ps $ y  with Ps = 1 (set) / 2 (reset) agreeing     *)
(*             with the DECSET/DECRST history for the modes the terminal     *)
(*             recognises, 0 for a mode it does not recognise, 3/4 for a     *)
(*             permanently set/reset mode                                    *)
(* The mode table is the oracle's own (driven by the logged mode changes);   *)
(* the cursor and margins are the ones the emulator reports in its snapshot  *)
(* (their correctness is C06's business).  Disagreements are reported as     *)
(* extension findings in the evidence of C13, never as violations.           *)
EXTENDS Integers, Sequences

(* xterm's initial state: autowrap and cursor visible set, the rest reset. *)
InitialModes == {7, 25}
(* Modes whose state the emulator keeps and C13 relies on. *)
Judged == {1, 6, 7, 25, 1000, 1002, 1003, 1006, 1049, 2004}

SetModes(ms, list, v) == IF v THEN ms \cup {list[i] : i \in 1..Len(list)} ELSE ms \ {list[i] : i \in 1..Len(list)}

DecrqmWhy(ms, m, reply) ==
  IF reply = <<>> THEN "no-reply"
  ELSE IF Len(reply) # 2 \/ reply[1] # m THEN "malformed"
  ELSE IF reply[2] \notin 0..4 THEN "status-out-of-range"
  ELSE IF m \in Judged /\ reply[2] \in {1, 3} /\ m \notin ms THEN "reported-set-but-reset"
  ELSE IF m \in Judged /\ reply[2] \in {2, 4} /\ m \in ms THEN "reported-reset-but-set"
  ELSE IF m \in Judged /\ reply[2] = 0 THEN "judged-mode-not-recognised"
  ELSE "ok"

CprWhy(s, reply) ==
  LET row == IF s.decom THEN s.r - s.top + 1 ELSE s.r + 1
      col == s.c + 1
  IN IF reply = <<>> THEN "no-reply"
     ELSE IF Len(reply) # 2 THEN "malformed"
     ELSE IF reply[1] # row THEN (IF s.decom THEN "row-not-relative-to-origin" ELSE "row")
     ELSE IF reply[2] # col THEN "column"
     ELSE "ok"

Da1Why(reply) == IF reply = <<>> THEN "no-reply" ELSE IF \E i \in 1..Len(reply) : reply[i] < 0 THEN "malformed" ELSE "ok"
Dsr5Why(reply) == IF reply = <<0>> THEN "ok" ELSE IF reply = <<>> THEN "no-reply" ELSE "not-ok-status"
=============================================================================
