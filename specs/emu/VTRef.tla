------------------------------- MODULE VTRef -------------------------------
(* ORACLE for C06: the display semantics of a DEC VT / xterm-compatible     *)
(* terminal for the core vocabulary                                         *)
(*   printable text (narrow, wide), CR, LF, CUP HVP CHA HPA VPA, CUU CUD    *)
(*   CUF CUB CNL CPL, ED EL ECH ICH DCH IL DL SU SD, DECSTBM, IND RI NEL,   *)
(*   DECSC DECRC (and xterm's private mode 1048), alternate screen (xterm   *)
(*   private modes 47, 1047, 1049), SGR.                                    *)
(* Written from DEC STD 070 / the VT510 programmer's reference (control     *)
(* function descriptions), ECMA-48 (8.3.x) and xterm's ctlseqs; SGR from    *)
(* module SGR.  No identifier of the code under test occurs here.           *)
(*                                                                          *)
(* Functional core: a terminal state is a record, every control function a  *)
(* pure operator on it; Outcomes(s, e) is the SET of results the standards  *)
(* allow for operation e (more than one only where DEC and xterm differ).   *)
(*                                                                          *)
(* Conventions.  Positions are 1-based.  Autowrap is on, insert mode and    *)
(* origin mode are off, there are no left/right margins (none of them is in *)
(* the vocabulary).  "Omitted or zero parameters mean the default value":   *)
(* a parameter list is a sequence of integers, -1 = omitted.                *)
(* An erased cell is a space with every attribute off except the background *)
(* colour in force when it was erased (xterm "erase uses the current        *)
(* background", VT510 "erased cells take the current background").          *)
(* Wide glyphs: a width-2 glyph occupies a head cell and a continuation     *)
(* cell carrying the same serial number.  What is shown when an operation   *)
(* removes exactly one half is terminal-specific: the surviving half        *)
(* becomes Unknown, which constrains nothing.                               *)
(* Deferred wrap (pw): after a glyph is placed in the last column the       *)
(* cursor stays on that column and pw is set.  Only printing, CR and        *)
(* absolute positioning are prescribed in that state (see Kind below).      *)
EXTENDS Integers, Sequences, FiniteSets, SGR

Space == 0                      \* grapheme id 0 is U+0020 (trace convention)

Glyph(g, w, st, id) == [k |-> "g", g |-> g, w |-> w, st |-> st, id |-> id]
Cont(id)  == [k |-> "c", id |-> id]
Unknown   == [k |-> "x"]
Blank(bg) == Glyph(Space, 1, [DefaultPen EXCEPT !.bg = bg], 0)

BlankRow(C, bg)     == [x \in 1..C |-> Blank(bg)]
BlankGrid(R, C, bg) == [y \in 1..R |-> BlankRow(C, bg)]

Home == [r |-> 1, c |-> 1, pen |-> DefaultPen]

(* grid = the screen being displayed, other = the one that is not; slot 1   *)
(* of saved belongs to the normal screen, slot 2 to the alternate one.      *)
InitVT(R, C) ==
  [rows |-> R, cols |-> C, alt |-> FALSE,
   grid |-> BlankGrid(R, C, 0), other |-> BlankGrid(R, C, 0),
   r |-> 1, c |-> 1, pw |-> FALSE, pen |-> DefaultPen,
   top |-> 1, bot |-> R, saved |-> <<Home, Home>>, ser |-> 1]

MinI(a, b) == IF a < b THEN a ELSE b
MaxI(a, b) == IF a > b THEN a ELSE b
ClampI(v, lo, hi) == MaxI(lo, MinI(v, hi))

(* i-th numeric parameter; omitted (absent or -1) or zero means def.        *)
(* A parameter is a number however many digits it is written with: the      *)
(* control functions compare it with positions and sizes of the screen, so  *)
(* every value beyond them acts alike (xterm saturates at 65535, a VT at    *)
(* 9999 or 16383).  Traces carry HugeParam for values of seven digits and   *)
(* more (TLC integers have 32 bits).                                        *)
HugeParam == 1073741824
P(ps, i, def) == IF i > Len(ps) THEN def ELSE IF ps[i] <= 0 THEN def ELSE ps[i]
(* selective parameter (ED, EL): omitted means 0                            *)
PSel(ps) == IF Len(ps) = 0 THEN 0 ELSE IF ps[1] < 0 THEN 0 ELSE ps[1]

----------------------------------------------------------------------------
(* Wide-glyph integrity of one row *)
Heal(row, C) ==
  [x \in 1..C |->
     LET cl == row[x] IN
     IF cl.k = "g" /\ cl.w = 2
       THEN (IF x < C /\ row[x + 1].k = "c" /\ row[x + 1].id = cl.id THEN cl ELSE Unknown)
     ELSE IF cl.k = "c"
       THEN (IF x > 1 /\ row[x - 1].k = "g" /\ row[x - 1].w = 2 /\ row[x - 1].id = cl.id THEN cl ELSE Unknown)
     ELSE cl]

SetRow(s, y, row) == [s EXCEPT !.grid[y] = Heal(row, s.cols)]

(* Scrolling of the lines t..b by n (n >= 1); vacated lines are erased.     *)
ScrollUpIn(s, t, b, n) ==
  [s EXCEPT !.grid = [y \in 1..s.rows |->
      IF y < t \/ y > b THEN s.grid[y]
      ELSE IF y + n <= b THEN s.grid[y + n] ELSE BlankRow(s.cols, s.pen.bg)]]
ScrollDownIn(s, t, b, n) ==
  [s EXCEPT !.grid = [y \in 1..s.rows |->
      IF y < t \/ y > b THEN s.grid[y]
      ELSE IF y - n >= t THEN s.grid[y - n] ELSE BlankRow(s.cols, s.pen.bg)]]

(* IND (ESC D), LF: DEC STD 070 "index": at the bottom margin the region    *)
(* scrolls up, otherwise the cursor moves down unless on the last line.     *)
Ind(s) == IF s.r = s.bot THEN ScrollUpIn(s, s.top, s.bot, 1)
          ELSE IF s.r < s.rows THEN [s EXCEPT !.r = @ + 1] ELSE s
(* RI (ESC M): reverse index. *)
Ri(s)  == IF s.r = s.top THEN ScrollDownIn(s, s.top, s.bot, 1)
          ELSE IF s.r > 1 THEN [s EXCEPT !.r = @ - 1] ELSE s

(* Printing one grapheme cluster of width w \in {1,2} (autowrap on).        *)
PrintG(s0, g, w) ==
  LET s1 == IF s0.pw \/ s0.c + w - 1 > s0.cols
            THEN [Ind(s0) EXCEPT !.c = 1, !.pw = FALSE]     \* wrap: index + CR
            ELSE s0
      id  == IF w = 2 THEN s1.ser ELSE 0
      row == s1.grid[s1.r]
      new == [x \in 1..s1.cols |->
                IF x = s1.c THEN Glyph(g, w, s1.pen, id)
                ELSE IF w = 2 /\ x = s1.c + 1 THEN Cont(id)
                ELSE row[x]]
      nc  == s1.c + w
  IN [SetRow(s1, s1.r, new) EXCEPT
        !.c = IF nc > s1.cols THEN s1.cols ELSE nc,
        !.pw = nc > s1.cols,
        !.ser = IF w = 2 THEN @ + 1 ELSE @]

(* The columns a printed cluster takes.  A character cell of a VT / xterm is  *)
(* one column wide, a wide glyph takes two of them ("printable text (narrow  *)
(* and wide)"); nothing on the reference terminal is wider.  The measured     *)
(* width of a cluster is a logged Unicode fact.  Some width tables give a few *)
(* characters (U+2E3A, U+2E3B) three or four columns where xterm's wcwidth     *)
(* gives them one: which of the two glyph sizes the reference terminal shows  *)
(* for such a cluster is a matter of its width table, so both are accepted -  *)
(* a cell of three or more columns is not.                                    *)
GlyphWidths(w) == IF w > 2 THEN {1, 2} ELSE {w}
PrintGs(s, g, w) == {PrintG(s, g, v) : v \in GlyphWidths(w)}

RECURSIVE PrintAll(_, _, _)      \* S = set of states; one state unless a cluster is measured wider than 2
PrintAll(S, gs, i) == IF i > Len(gs) THEN S
                      ELSE PrintAll(UNION {PrintGs(t, gs[i][1], gs[i][2]) : t \in S}, gs, i + 1)

(* Erase the cells a..b of line y. *)
EraseIn(s, y, a, b) ==
  SetRow(s, y, [x \in 1..s.cols |-> IF x >= a /\ x <= b THEN Blank(s.pen.bg) ELSE s.grid[y][x]])
EraseLines(s, a, b) ==
  [s EXCEPT !.grid = [y \in 1..s.rows |-> IF y >= a /\ y <= b THEN BlankRow(s.cols, s.pen.bg) ELSE s.grid[y]]]

(* ED (CSI Ps J): 0 cursor to end, 1 start to cursor, 2 whole display. *)
ED(s, p) ==
  CASE p = 0 -> EraseLines(EraseIn(s, s.r, s.c, s.cols), s.r + 1, s.rows)
    [] p = 1 -> EraseLines(EraseIn(s, s.r, 1, s.c), 1, s.r - 1)
    [] p = 2 -> EraseLines(s, 1, s.rows)
    [] OTHER -> s
(* EL (CSI Ps K) *)
EL(s, p) ==
  CASE p = 0 -> EraseIn(s, s.r, s.c, s.cols)
    [] p = 1 -> EraseIn(s, s.r, 1, s.c)
    [] p = 2 -> EraseIn(s, s.r, 1, s.cols)
    [] OTHER -> s
(* ECH (CSI Pn X): erase n cells from the cursor, no shifting. *)
ECH(s, n) == EraseIn(s, s.r, s.c, MinI(s.cols, s.c + n - 1))
(* ICH (CSI Pn @): n blanks at the cursor, rest of the line shifts right,   *)
(* cells pushed past the last column are lost.                              *)
ICH(s, n) ==
  SetRow(s, s.r, [x \in 1..s.cols |->
     IF x < s.c THEN s.grid[s.r][x]
     ELSE IF x < s.c + n THEN Blank(s.pen.bg)
     ELSE s.grid[s.r][x - n]])
(* DCH (CSI Pn P): delete n cells at the cursor, rest shifts left, erased   *)
(* cells enter at the end of the line.                                      *)
DCH(s, n) ==
  SetRow(s, s.r, [x \in 1..s.cols |->
     IF x < s.c THEN s.grid[s.r][x]
     ELSE IF x + n <= s.cols THEN s.grid[s.r][x + n]
     ELSE Blank(s.pen.bg)])

InRegion(s) == s.r >= s.top /\ s.r <= s.bot
(* IL / DL (CSI Pn L / M): ignored outside the scrolling region; inside,    *)
(* lines from the cursor line to the bottom margin move down / up.          *)
IL(s, n) == IF InRegion(s) THEN ScrollDownIn(s, s.r, s.bot, n) ELSE s
DL(s, n) == IF InRegion(s) THEN ScrollUpIn(s, s.r, s.bot, n) ELSE s
(* SU / SD (CSI Pn S / T) *)
SU(s, n) == ScrollUpIn(s, s.top, s.bot, n)
SD(s, n) == ScrollDownIn(s, s.top, s.bot, n)

(* CUU / CUD stop at the margin when they start inside it, else at the      *)
(* edge of the screen (DEC STD 070; xterm CursorUp/CursorDown).             *)
CUU(s, n) == [s EXCEPT !.r = MaxI(IF s.r >= s.top THEN s.top ELSE 1, s.r - n)]
CUD(s, n) == [s EXCEPT !.r = MinI(IF s.r <= s.bot THEN s.bot ELSE s.rows, s.r + n)]
CUF(s, n) == [s EXCEPT !.c = MinI(s.cols, s.c + n)]
CUB(s, n) == [s EXCEPT !.c = MaxI(1, s.c - n)]
(* absolute positioning (origin mode off): clamped to the screen *)
CUP(s, pr, pc) == [s EXCEPT !.r = ClampI(pr, 1, s.rows), !.c = ClampI(pc, 1, s.cols), !.pw = FALSE]

Slot(s) == IF s.alt THEN 2 ELSE 1
(* DECSC / DECRC (ESC 7 / ESC 8): position and rendition; nothing saved     *)
(* means home position with default rendition.                              *)
DECSC(s) == [s EXCEPT !.saved[Slot(s)] = [r |-> s.r, c |-> s.c, pen |-> s.pen]]
DECRC(s) == LET v == s.saved[Slot(s)] IN [s EXCEPT !.r = v.r, !.c = v.c, !.pen = v.pen]

(* DEC private mode 1049 (xterm): set = save cursor as DECSC, switch to the *)
(* alternate screen, clear it; reset = switch to the normal screen, restore *)
(* cursor as DECRC.  The cursor does not move when the screen is switched.  *)
AltOn(s) ==
  LET s1 == DECSC(s) IN
  IF s1.alt THEN [s1 EXCEPT !.grid = BlankGrid(s.rows, s.cols, s.pen.bg)]
  ELSE [s1 EXCEPT !.alt = TRUE, !.other = s1.grid, !.grid = BlankGrid(s.rows, s.cols, s.pen.bg)]
(* Nothing says what the alternate buffer holds after it was left through   *)
(* mode 1049 (xterm keeps its contents, other terminals clear it): its cells *)
(* are Unknown until something prescribed is written there.                 *)
UnknownGrid(R, C) == [y \in 1..R |-> [x \in 1..C |-> Unknown]]
AltOff(s) ==
  DECRC(IF s.alt THEN [s EXCEPT !.alt = FALSE, !.grid = s.other, !.other = UnknownGrid(s.rows, s.cols)]
        ELSE s)

(* DEC private modes 47 and 1047 (xterm ctlseqs): set = "use Alternate      *)
(* Screen Buffer", reset = "use Normal Screen Buffer", 1047 "clearing screen *)
(* first if in the Alternate Screen Buffer".  Only the displayed buffer     *)
(* changes: cursor, rendition and saved cursors stay, nothing is cleared on *)
(* entry, and a buffer that is not displayed keeps its contents.            *)
Alt47On(s)    == IF s.alt THEN s ELSE [s EXCEPT !.alt = TRUE, !.grid = s.other, !.other = s.grid]
Alt47Off(s)   == IF s.alt THEN [s EXCEPT !.alt = FALSE, !.grid = s.other, !.other = s.grid] ELSE s
Alt1047Off(s) == IF s.alt THEN [s EXCEPT !.alt = FALSE, !.grid = s.other,
                                         !.other = BlankGrid(s.rows, s.cols, s.pen.bg)]
                 ELSE s
(* DEC private mode 1048 (xterm): set = save cursor as in DECSC, reset =    *)
(* restore cursor as in DECRC.                                              *)

(* SGR: module SGR leaves parameter 21 open; ECMA-48 8.3.117 and xterm's    *)
(* ctlseqs ("Ps = 2 1  => Doubly-underlined, ECMA-48 2nd") define it, and   *)
(* SGR 24 ("not underlined") ends it like any underline.                    *)
SimpleVT(pen, p) == IF Len(p) = 1 /\ p[1] = 21 THEN [pen EXCEPT !.us = 2] ELSE Simple(pen, p)
RECURSIVE ApplyFromVT(_, _, _)
ApplyFromVT(pen, ps, i) ==
  IF i > Len(ps) THEN pen
  ELSE IF IsExt(ps[i]) THEN
     LET e == ExtColour(ps, i)
         c == ps[i][1]
     IN IF ~e.ok THEN pen
        ELSE ApplyFromVT(CASE c = 38 -> [pen EXCEPT !.fg = e.col]
                           [] c = 48 -> [pen EXCEPT !.bg = e.col]
                           [] c = 58 -> [pen EXCEPT !.ul = e.col], ps, i + e.n)
  ELSE ApplyFromVT(SimpleVT(pen, ps[i]), ps, i + 1)
ApplyVT(pen, ps) == IF Len(ps) = 0 THEN DefaultPen ELSE ApplyFromVT(pen, ps, 1)

(* DECSTBM (CSI Pt ; Pb r): defaults 1 and the last line; needs Pt < Pb,    *)
(* otherwise ignored; a valid setting homes the cursor.                     *)
STBMSet(s, t, b) == [s EXCEPT !.top = t, !.bot = b, !.r = 1, !.c = 1, !.pw = FALSE]

----------------------------------------------------------------------------
(* Which part of the behaviour is prescribed while a wrap is pending:       *)
(*  "A" printing, CR, absolute positioning: fully prescribed, pw cleared    *)
(*      (printing sets it again when it reaches the last column);           *)
(*  "B" functions that do not act relative to the cursor column: their      *)
(*      result is prescribed, what becomes of pw is not;                    *)
(*  "C" everything else: not constrained while pw holds.                    *)
Kind(op) ==
  IF op \in {"PRINT", "PRINTS", "CR", "CUP", "HVP", "CHA", "HPA", "VPA"} THEN "A"
  ELSE IF op \in {"NOP", "SGR", "DECSC", "DECRC", "ALTON", "ALTOFF", "DECSTBM", "SU", "SD",
                  "ALT47ON", "ALT47OFF", "ALT1047ON", "ALT1047OFF", "SC1048", "RC1048"} THEN "B"
  ELSE "C"

(* An outcome: resulting state s, the set cs of acceptable cursor columns   *)
(* and whether the pending-wrap flag is left open (pwf).                    *)
Out(s2, pwf) == [s |-> s2, cs |-> {s2.c}, pwf |-> pwf]
One(s2)      == {Out(s2, FALSE)}
Each(S)      == {Out(s2, FALSE) : s2 \in S}
OneB(s, s2)  == {Out(s2, s.pw)}                  \* class B: pw open iff it was set
(* IL and DL: the VT510 manual resets the cursor to the first column,       *)
(* xterm leaves the column alone; both are accepted when the function acts. *)
ColFree(s, s2) == {[s |-> s2, cs |-> IF InRegion(s) THEN {s.c, 1} ELSE {s.c}, pwf |-> FALSE]}

(* e.op names the function; e.ps its numeric parameters; e.g, e.w the       *)
(* grapheme for PRINT; e.sgr the SGR parameter list.                        *)
Outcomes(s, e) ==
  LET op == e.op
      n  == IF "ps" \in DOMAIN e THEN P(e.ps, 1, 1) ELSE 1
      q  == [s EXCEPT !.pw = FALSE]      \* class C is only prescribed when no wrap is pending
  IN
  CASE op = "NOP"   -> OneB(s, s)
    [] op = "PRINT" -> Each(PrintGs(s, e.g, e.w))
    [] op = "PRINTS" -> Each(PrintAll({s}, e.gs, 1))
    [] op = "CR"    -> One([s EXCEPT !.c = 1, !.pw = FALSE])
    [] op \in {"CUP", "HVP"} -> One(CUP(s, P(e.ps, 1, 1), P(e.ps, 2, 1)))
    [] op \in {"CHA", "HPA"} -> One(CUP(s, s.r, n))
    [] op = "VPA"   -> One(CUP(s, n, s.c))
    [] op = "SGR"   -> OneB(s, [s EXCEPT !.pen = ApplyVT(s.pen, e.sgr)])
    [] op \in {"DECSC", "SC1048"} -> OneB(s, DECSC(s))
    [] op \in {"DECRC", "RC1048"} -> OneB(s, DECRC(s))
    [] op = "ALTON" -> OneB(s, AltOn(s))
    [] op = "ALTOFF" -> OneB(s, AltOff(s))
    [] op \in {"ALT47ON", "ALT1047ON"} -> OneB(s, Alt47On(s))
    [] op = "ALT47OFF" -> OneB(s, Alt47Off(s))
    [] op = "ALT1047OFF" -> OneB(s, Alt1047Off(s))
    [] op = "SU"    -> OneB(s, SU(s, n))
    [] op = "SD"    -> OneB(s, SD(s, n))
    [] op = "DECSTBM" ->
         LET t  == P(e.ps, 1, 1)
             b0 == P(e.ps, 2, s.rows)
             b  == MinI(b0, s.rows)
             xt == IF t < b THEN One(STBMSet(s, t, b)) ELSE OneB(s, s)
         IN IF b0 > s.rows THEN xt \cup OneB(s, s)    \* bottom beyond the page: xterm clamps; ignoring is accepted too
            ELSE xt
    [] op \in {"LF", "IND"} -> One(Ind(q))
    [] op = "RI"    -> One(Ri(q))
    [] op = "NEL"   -> One([Ind(q) EXCEPT !.c = 1])
    [] op = "CUU"   -> One(CUU(q, n))
    [] op = "CUD"   -> One(CUD(q, n))
    [] op = "CUF"   -> One(CUF(q, n))
    [] op = "CUB"   -> One(CUB(q, n))
    [] op = "CNL"   -> One([CUD(q, n) EXCEPT !.c = 1])
    [] op = "CPL"   -> One([CUU(q, n) EXCEPT !.c = 1])
    [] op = "ED"    -> One(ED(q, PSel(e.ps)))
    [] op = "EL"    -> One(EL(q, PSel(e.ps)))
    [] op = "ECH"   -> One(ECH(q, n))
    [] op = "ICH"   -> One(ICH(q, n))
    [] op = "DCH"   -> One(DCH(q, n))
    [] op = "IL"    -> ColFree(q, IL(q, n))
    [] op = "DL"    -> ColFree(q, DL(q, n))

OpNames == {"NOP", "PRINT", "PRINTS", "CR", "CUP", "HVP", "CHA", "HPA", "VPA", "SGR", "DECSC", "DECRC", "ALTON", "ALTOFF",
            "ALT47ON", "ALT47OFF", "ALT1047ON", "ALT1047OFF", "SC1048", "RC1048",
            "SU", "SD", "DECSTBM", "LF", "IND", "RI", "NEL", "CUU", "CUD", "CUF", "CUB", "CNL", "CPL",
            "ED", "EL", "ECH", "ICH", "DCH", "IL", "DL"}

----------------------------------------------------------------------------
(* Structural facts about oracle states (checked exhaustively by MC_VTRef   *)
(* and relied upon by the trace specification).                             *)
CursorIn(s)  == s.r \in 1..s.rows /\ s.c \in 1..s.cols
MarginsOK(s) == 1 <= s.top /\ s.top <= s.bot /\ s.bot <= s.rows /\ (s.top < s.bot \/ s.rows = 1)
PwAtEdge(s)  == s.pw => s.c = s.cols
Shape(s)     == /\ DOMAIN s.grid = 1..s.rows /\ DOMAIN s.other = 1..s.rows
                /\ \A y \in 1..s.rows : DOMAIN s.grid[y] = 1..s.cols /\ DOMAIN s.other[y] = 1..s.cols
WideIntactRow(row, C) ==
  \A x \in 1..C :
    /\ (row[x].k = "g" /\ row[x].w = 2) => (x < C /\ row[x + 1].k = "c" /\ row[x + 1].id = row[x].id)
    /\ row[x].k = "c" => (x > 1 /\ row[x - 1].k = "g" /\ row[x - 1].w = 2 /\ row[x - 1].id = row[x].id)
WideIntact(s) == \A y \in 1..s.rows : WideIntactRow(s.grid[y], s.cols) /\ WideIntactRow(s.other[y], s.cols)
SavedIn(s)   == \A i \in 1..2 : s.saved[i].r \in 1..s.rows /\ s.saved[i].c \in 1..s.cols
CellWidths(s) == \A y \in 1..s.rows : \A x \in 1..s.cols :
                    /\ s.grid[y][x].k = "g" => s.grid[y][x].w \in {1, 2}
                    /\ s.other[y][x].k = "g" => s.other[y][x].w \in {1, 2}
WellFormedVT(s) == CursorIn(s) /\ MarginsOK(s) /\ PwAtEdge(s) /\ Shape(s) /\ WideIntact(s) /\ SavedIn(s) /\ CellWidths(s)
=============================================================================
