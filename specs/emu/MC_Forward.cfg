SPECIFICATION Spec
INVARIANTS Monotone SgrAloneEnablesNothing RoundTrip
CHECK_DEADLOCK FALSE
