--------------------------- MODULE EmuImpl_Trace ---------------------------
(* MODEL CONFORMANCE (no verdict about the code): the implementation-shaped *)
(* model EmuImpl, whose exhaustive exploration MC_EmuImpl reports, is run   *)
(* along the traces of the real emulator recorded for C05.  For every       *)
(* sequence the driver names the model operation ("m" = <<f, p, q>>); the   *)
(* model's prediction of cursor, wrap flag, margins, modes, saved cursors   *)
(* and tab stops must equal the observation, and the model must predict a   *)
(* panic exactly when the code panicked.  A disagreement is printed as      *)
(* REJECT ... why = "drift" and reported by the check as MODEL-DRIFT in the *)
(* evidence; the rest of that scenario is skipped.  Operations outside the  *)
(* model (f = "?") and resizes (whose reflow the model abstracts)           *)
(* re-synchronise the model from the observation.                           *)
EXTENDS EmuImpl, TLC, Json, IOUtils

Trace == ndJsonDeserialize(IOEnv.TRACE)
TraceTabs == [i \in 1..43 |-> 8 * i]          \* setDefaultTabStops: 8, 16, ... 344

VARIABLES l, m, failed
vars == <<l, m, failed>>

Init == l = 1 /\ m = NewM(1, 1) /\ failed = FALSE

Sync(s, R, C, o) ==
  [s EXCEPT !.R = R, !.C = C, !.r = o.r, !.c = o.c, !.lc = o.lc, !.top = o.top, !.bot = o.bot, !.left = o.left,
            !.right = o.right, !.awm = o.awm, !.irm = o.irm, !.alt = o.alt, !.sp = o.sp, !.sa = o.sa,
            !.tabs = (IF "tabs" \in DOMAIN o THEN o.tabs ELSE s.tabs), !.bad = FALSE]
Proj(s) == <<s.r, s.c, s.lc, s.top, s.bot, s.left, s.right, s.awm, s.irm, s.alt, s.sp, s.sa, s.tabs>>

OpOf(e) == [f |-> e.m[1], p |-> e.m[2], q |-> e.m[3]]
Drift(e, what, want, got) ==
  PrintT("REJECT " \o ToJson([scn |-> e.scn, line |-> l, why |-> "drift", k |-> e.k, m |-> e.m, what |-> what,
                              want |-> want, got |-> got]))

Next ==
  /\ l <= Len(Trace)
  /\ l' = l + 1
  /\ LET e == Trace[l] IN
     IF e.ev = "reset" THEN
        /\ m' = Sync(NewM(e.rows, e.cols), e.rows, e.cols, e.o) /\ failed' = FALSE
     ELSE IF failed THEN UNCHANGED <<m, failed>>
     ELSE IF e.ev = "resize" THEN
        /\ m' = Sync(m, e.rows, e.cols, e.o) /\ UNCHANGED failed
     ELSE IF e.ev = "seq" THEN
        LET got == Sync(m, m.R, m.C, e.o) IN
        IF e.m[1] = "?" THEN m' = got /\ UNCHANGED failed
        ELSE LET pred == IF e.m[1] = "nop" THEN m ELSE Apply(m, OpOf(e)) IN
             IF pred.bad THEN
                /\ Drift(e, "model predicts a panic", <<>>, Proj(got)) /\ failed' = TRUE /\ m' = got
             ELSE IF Proj(pred) # Proj(got) THEN
                /\ Drift(e, "state", Proj(pred), Proj(got)) /\ failed' = TRUE /\ m' = got
             ELSE m' = pred /\ UNCHANGED failed
     ELSE IF e.ev = "panic" /\ "m" \in DOMAIN e THEN
        /\ UNCHANGED m
        /\ failed' = TRUE
        /\ IF e.m[1] \notin {"?", "nop"} /\ Apply(m, OpOf(e)).bad THEN TRUE
           ELSE Drift(e, "code panicked, model does not", <<>>, <<>>)
     ELSE UNCHANGED <<m, failed>>

Spec == Init /\ [][Next]_vars

Consumed == TLCGet("stats").diameter - 1 = Len(Trace)
=============================================================================
