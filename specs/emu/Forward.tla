------------------------------- MODULE Forward -------------------------------
(* Oracle for C13: what the embedded terminal must write to its child when   *)
(* the host hands it a key, a paste boundary or a mouse event.  From xterm   *)
(* ctlseqs: "PC-Style Function Keys" (CSI 1;m X / CSI n;m ~ with m = 1 +     *)
(* shift 1 + alt 2 + ctrl 4), DECCKM (cursor keys SS3 vs CSI), DECKPAM        *)
(* (keypad SS3 codes vs digits), bracketed paste (2004), mouse tracking       *)
(* (1000 press/release, 1002 + motion while a button is down, 1003 + any      *)
(* motion; 1006 only selects the SGR encoding) and Reports!MouseEvent.        *)
(* A chord is "expressible" when the xterm legacy encoding can carry it; for  *)
(* those the bytes written must decode (by Vaxis's own input pipeline, whose  *)
(* decoding is C09's subject) to exactly one key event matching the chord.   *)
EXTENDS Integers, Sequences, Reports

Shift == 1  Alt == 2  Ctrl == 4

Cursor == {"UP", "DOWN", "RIGHT", "LEFT", "HOME", "END"}
Editing == {"INSERT", "DELETE", "PAGE_UP", "PAGE_DOWN"}
FKeys == {"F1", "F2", "F3", "F4", "F5", "F6", "F7", "F8", "F9", "F10", "F11", "F12"}
Controls == {"ENTER", "TAB", "BACKSPACE", "ESCAPE"}
Keypad == {"KP_0", "KP_1", "KP_2", "KP_3", "KP_4", "KP_5", "KP_6", "KP_7", "KP_8", "KP_9"}
(* xterm ctlseqs, "PC-Style Function Keys", the keypad table: operators (with Num Lock on they send  *)
(* their character, in application mode SS3 j-o and SS3 X), Enter (CR / SS3 M), and the keys the      *)
(* keypad has with Num Lock off, which xterm sends as the cursor / editing key of the same name       *)
(* (Begin: CSI E).                                                                                    *)
KeypadOps == {"KP_DECIMAL", "KP_DIVIDE", "KP_MULTIPLY", "KP_SUBTRACT", "KP_ADD", "KP_EQUAL", "KP_SEPARATOR"}
KeypadNav == {"KP_LEFT", "KP_RIGHT", "KP_UP", "KP_DOWN", "KP_HOME", "KP_END", "KP_PAGE_UP", "KP_PAGE_DOWN", "KP_INSERT", "KP_DELETE"}
Twin(n) == CASE n = "KP_LEFT" -> "LEFT" [] n = "KP_RIGHT" -> "RIGHT" [] n = "KP_UP" -> "UP" [] n = "KP_DOWN" -> "DOWN"
             [] n = "KP_HOME" -> "HOME" [] n = "KP_END" -> "END" [] n = "KP_PAGE_UP" -> "PAGE_UP" [] n = "KP_PAGE_DOWN" -> "PAGE_DOWN"
             [] n = "KP_INSERT" -> "INSERT" [] n = "KP_DELETE" -> "DELETE"

(* UTF-8 of a code point (RFC 3629). *)
Utf8(c) == IF c < 128 THEN <<c>>
           ELSE IF c < 2048 THEN <<192 + (c \div 64), 128 + (c % 64)>>
           ELSE IF c < 65536 THEN <<224 + (c \div 4096), 128 + ((c \div 64) % 64), 128 + (c % 64)>>
           ELSE <<240 + (c \div 262144), 128 + ((c \div 4096) % 64), 128 + ((c \div 64) % 64), 128 + (c % 64)>>

(* A printable key that carries the text it produced (no Ctrl, no Alt): the legacy encoding of such *)
(* a key IS that text (xterm sends what the key press produced), whatever the code of the key: a    *)
(* grapheme cluster, the third-level character of a layout (AltGr), the capital under Caps Lock,     *)
(* composed text that belongs to no key.  e.text: its code points.                                   *)
TextKey(e) == e.name = "" /\ e.text # <<>> /\ e.mods \in {0, Shift}

(* e: [name, code, mods, lower (has an upper-case image), shifted (that image)] *)
Expressible(e) ==
  IF e.name \in Cursor \cup Editing \cup FKeys \cup {"KP_BEGIN"} THEN TRUE   \* CSI 1;m X / CSI n;m ~ carry every modifier set (keypad Begin: CSI 1;m E)
  ELSE IF e.name \in Controls THEN
       \/ e.mods = 0
       \/ (e.mods = Alt /\ e.name # "ESCAPE")
       \/ (e.mods = Shift /\ e.name = "TAB")                          \* CSI Z
  ELSE IF e.name \in Keypad \cup KeypadOps \cup {"KP_ENTER"} THEN FALSE   \* in numeric mode the legacy encoding cannot tell a keypad digit from the digit key: the mode rule and KeypadArrives below are what is demanded
  ELSE IF e.name = "" THEN                                            \* a key with a code point
       \/ e.mods = 0
       \/ (e.mods = Shift /\ e.lower)                                 \* the upper-case letter
       \* xterm (metaSendsEscape): "the character itself preceded by ESC" - every character, unless ESC + that byte
       \* is a 7-bit C1 introducer (SS3, DCS, SOS, CSI, OSC, PM, APC), which only a timer could tell from the key
       \/ (e.mods = Alt /\ e.code >= 32 /\ e.code \notin {79, 80, 88, 91, 93, 94, 95})
       \/ (e.mods = Alt + Shift /\ e.lower /\ e.shifted \notin {79, 80, 88})
       \/ (e.mods = Ctrl /\ e.code \in (97..122) \ {104, 105, 109})   \* C0 byte (not BS/HT/CR, which are other keys)
       \/ (e.mods = Ctrl + Alt /\ e.code \in (97..122) \ {104, 105, 109})
  ELSE FALSE

(* Control codes that several keys share in the legacy encoding (xterm): Ctrl with any key of a  *)
(* class sends the class's code, so the chord arrives as Ctrl + SOME key of its class - which one *)
(* the decoder names is its choice (C09).  ESC (Ctrl+3, Ctrl+[) and DEL (Ctrl+8, Ctrl+?) are the   *)
(* Escape and Backspace keys themselves and are left out.                                          *)
CtrlClasses == {{32, 50, 64}, {52, 92}, {53, 93}, {54, 94}, {55, 47, 95}}     \* NUL, FS, GS, RS, US
CtrlClassOf(c) == IF \E K \in CtrlClasses : c \in K THEN CHOOSE K \in CtrlClasses : c \in K ELSE {}
(* Ctrl applies to the character the chord produces (X11 XLookupString, on which xterm's legacy     *)
(* encoding rests): where NUL, RS and US have a key of their own it is the SHIFTED one of a US       *)
(* layout - Ctrl+@ is typed Ctrl+Shift+2, Ctrl+^ Ctrl+Shift+6, Ctrl+_ Ctrl+Shift+- - and a host       *)
(* reports such a chord as the unshifted key, its shifted code and Ctrl+Shift.  It is Ctrl + the      *)
(* shifted character, which the legacy encoding expresses (these are the chords the control codes     *)
(* are named after: ^@ ^^ ^_), so it must arrive as Ctrl + some key of that character's class.        *)
CtrlChar(e) == IF e.mods = Ctrl THEN e.code ELSE IF e.mods = Ctrl + Shift /\ e.shifted \in {64, 94, 95} THEN e.shifted ELSE 0
SharedCtrl(e) == e.name = "" /\ CtrlClassOf(CtrlChar(e)) # {}

(* Ctrl with a key beyond ASCII: the control codes belong to ASCII characters (ECMA-48 / X11: Ctrl    *)
(* changes @ A-Z [ \ ] ^ _ and a few more ASCII keys), such a key has none, xterm sends the character *)
(* itself and the chord is not expressible: its modifiers may be lost.  The KEY may not be replaced:  *)
(* what is written must not be a control code (a single C0 or DEL byte, a C1 control in UTF-8,        *)
(* possibly after Alt's ESC) - those are other keys (DEL is Backspace) or terminal controls - and,    *)
(* when it decodes to one key event, that event must be the same key with some of the modifiers.      *)
NoControlCode(e) == e.name = "" /\ e.code > 127 /\ e.mods \in {Ctrl, Ctrl + Shift, Ctrl + Alt, Ctrl + Alt + Shift}
ControlBytes(b) == LET t == IF Len(b) >= 2 /\ b[1] = 27 THEN Tail(b) ELSE b IN
                   \/ (Len(t) = 1 /\ (t[1] < 32 \/ t[1] = 127))
                   \/ (Len(t) = 2 /\ t[1] = 194 /\ t[2] \in 128..159)

CursorFinal(n) == CASE n = "UP" -> 65 [] n = "DOWN" -> 66 [] n = "RIGHT" -> 67 [] n = "LEFT" -> 68 [] n = "HOME" -> 72 [] n = "END" -> 70
KeypadFinal(n) == CASE n = "KP_0" -> 112 [] n = "KP_1" -> 113 [] n = "KP_2" -> 114 [] n = "KP_3" -> 115 [] n = "KP_4" -> 116
                    [] n = "KP_5" -> 117 [] n = "KP_6" -> 118 [] n = "KP_7" -> 119 [] n = "KP_8" -> 120 [] n = "KP_9" -> 121
                    [] n = "KP_MULTIPLY" -> 106 [] n = "KP_ADD" -> 107 [] n = "KP_SEPARATOR" -> 108 [] n = "KP_SUBTRACT" -> 109
                    [] n = "KP_DECIMAL" -> 110 [] n = "KP_DIVIDE" -> 111 [] n = "KP_EQUAL" -> 88 [] n = "KP_ENTER" -> 77
KeypadChar(n) == CASE n \in Keypad -> KeypadFinal(n) - 112 + 48
                   [] n = "KP_MULTIPLY" -> 42 [] n = "KP_ADD" -> 43 [] n = "KP_SEPARATOR" -> 44 [] n = "KP_SUBTRACT" -> 45
                   [] n = "KP_DECIMAL" -> 46 [] n = "KP_DIVIDE" -> 47 [] n = "KP_EQUAL" -> 61 [] n = "KP_ENTER" -> 13

(* Byte strings the child's cursor-key / keypad modes allow (unmodified keys); {} = no constraint. *)
(* A keypad digit or operator that carries text was typed with Num Lock on: xterm then sends the   *)
(* character even in application keypad mode ("num_lock, force keypad_mode off"), a VT100 sends    *)
(* SS3 j-y: both are accepted under DECKPAM, only the character under DECKPNM.  Keypad Enter is CR  *)
(* in numeric mode and SS3 M (or, under xterm's Num Lock rule, CR) in application mode.             *)
(* The same keys WITHOUT text are what a host without the kitty protocol delivers (Vaxis puts the  *)
(* host into application keypad mode, the terminal sends SS3 p-y / j-o / X, which name the key and  *)
(* carry no text): the same table applies - the character in numeric mode (VT100: "the numeric      *)
(* keypad keys send the same characters as the main keyboard"), the SS3 code (or the character) in  *)
(* application mode.  Nothing written is not in the table for either.                               *)
ModeBytes(e) ==
  IF e.name \in Cursor /\ e.mods = 0 THEN
     (IF e.decckm THEN {<<27, 79, CursorFinal(e.name)>>} ELSE {<<27, 91, CursorFinal(e.name)>>})
  ELSE IF e.name \in Keypad \cup KeypadOps \cup {"KP_ENTER"} /\ e.mods = 0 THEN
     \* a key that carries no text was not typed with Num Lock on (Enter never carries any): in application keypad
     \* mode - the encoding the child asked for - it is its SS3 code and nothing else
     (IF e.deckpam THEN (IF e.text = <<>> THEN {<<27, 79, KeypadFinal(e.name)>>}
                         ELSE {<<27, 79, KeypadFinal(e.name)>>, <<KeypadChar(e.name)>>})
      ELSE {<<KeypadChar(e.name)>>})
  ELSE {}

(* A keypad digit, operator or Enter written in a form its mode allows must also ARRIVE: parsed by *)
(* Vaxis's pipeline, the SS3 code is one key event naming that keypad key; the character is one key *)
(* event carrying that character as its text (Enter: the Enter key).                                *)
KeypadArrives(e) ==
  IF e.n # 1 THEN "not-one-key-event"
  ELSE IF Len(e.bytes) = 3 THEN (IF e.gotname = e.name THEN "ok" ELSE "keypad-code-not-decoded-as-its-key")
  ELSE IF e.name = "KP_ENTER" THEN (IF e.gotname = "ENTER" THEN "ok" ELSE "keypad-character-not-decoded")
  ELSE IF e.gottext = e.bytes THEN "ok" ELSE "keypad-character-not-decoded"

KeyWhy(e) ==
  \* the legacy encoding has no report for the release of a key: bytes written for one reach the child as a key press that never happened
  IF e.etype = "release" THEN (IF e.bytes = <<>> THEN "ok" ELSE "key-release-written")
  ELSE IF ModeBytes(e) # {} /\ e.bytes = <<>> THEN "nothing-written"
  ELSE IF ModeBytes(e) # {} /\ e.bytes \notin ModeBytes(e) THEN "mode-selected-encoding"
  ELSE IF e.name \in Keypad \cup KeypadOps \cup {"KP_ENTER"} /\ e.mods = 0 THEN KeypadArrives(e)
  ELSE IF e.name \in KeypadNav THEN                \* arrives as the cursor / editing key of the same name (either form of it)
       (IF e.bytes = <<>> THEN "nothing-written"
        ELSE IF e.n # 1 THEN "not-one-key-event"
        ELSE IF e.gotname = Twin(e.name) /\ e.gotmods = e.mods THEN "ok"
        ELSE "keypad-key-not-decoded-as-its-main-key")
  ELSE IF TextKey(e) THEN                           \* the text arrives: the decoded events are keys and their texts, joined, are the text
       (IF e.bytes = <<>> THEN "nothing-written"
        ELSE IF e.n < 1 \/ ~e.allkeys THEN "not-key-events"
        ELSE IF e.gottext # e.text THEN "text-of-key-not-forwarded"
        ELSE "ok")
  ELSE IF SharedCtrl(e) THEN
       (IF e.bytes = <<>> THEN "nothing-written"
        ELSE IF e.n # 1 THEN "not-one-key-event"
        ELSE IF \E c \in CtrlClassOf(CtrlChar(e)) : \E k \in 1..Len(e.ctrlm) : e.ctrlm[k] = c THEN "ok"
        ELSE "decoded-key-not-in-shared-control-class")
  ELSE IF NoControlCode(e) THEN
       (IF ControlBytes(e.bytes) THEN "control-code-written-for-key-without-one"
        ELSE IF e.n = 1 /\ ~e.samekey THEN "arrives-as-another-key"
        ELSE "ok")
  ELSE IF ~Expressible(e) THEN "ok"
  ELSE IF e.bytes = <<>> THEN "nothing-written"
  \* ESC + 2/0-2/15 and ESC + a character beyond ASCII are the right legacy encodings of Alt + that key; Vaxis's decoder
  \* (the VT500 state machine, made for output) collects the former as an escape intermediate and drops the latter: no event
  ELSE IF e.n = 0 /\ e.mods = Alt /\ e.code \in 32..47 /\ e.bytes = <<27, e.code>> THEN "alt-lost-decoding-esc-intermediate"
  \* (or, should the decoder keep the character: the key without its Alt)
  ELSE IF (e.n = 0 \/ (e.n = 1 /\ ~e.rt /\ e.rtnoalt)) /\ e.mods \in {Alt, Alt + Shift} /\ e.code > 127
          /\ e.bytes = <<27>> \o Utf8(IF e.mods = Alt THEN e.code ELSE e.shifted) THEN "alt-lost-decoding-esc-nonascii"
  ELSE IF e.n # 1 THEN "not-one-key-event"
  \* ESC + C0 is the right legacy encoding of Alt + that control; Vaxis's decoder drops the Alt (C09's known finding)
  ELSE IF ~e.rt /\ e.rtnoalt /\ Len(e.bytes) = 2 /\ e.bytes[1] = 27 /\ e.bytes[2] < 32 THEN "alt-lost-decoding-esc-c0"
  ELSE IF ~e.rt THEN "decoded-key-does-not-match"
  ELSE "ok"

PasteWhy(e) ==
  LET want == IF ~e.pastemode THEN <<>> ELSE IF e.start THEN <<27, 91, 50, 48, 48, 126>> ELSE <<27, 91, 50, 48, 49, 126>>
  IN IF e.bytes = want THEN "ok" ELSE IF e.pastemode THEN "paste-bracket-wrong" ELSE "paste-not-enabled-but-written"

(* xterm: which events each tracking mode reports. *)
MouseEnabled(e) ==
  LET any == e.m1000 \/ e.m1002 \/ e.m1003 IN
  IF e.type \in {"press", "release"} THEN any
  ELSE IF e.button # 3 THEN e.m1002 \/ e.m1003          \* motion with a button down
  ELSE e.m1003                                          \* plain motion

(* Alternate scroll (xterm mode 1007): on the alternate screen, while no tracking mode reports the   *)
(* mouse, a wheel step is sent as one or more cursor-up / cursor-down keys (CSI or SS3 form); every *)
(* other mouse event writes nothing, and so does the wheel when 1007 is reset or the normal screen  *)
(* is active.  They are cursor keys: the child's cursor-key mode selects their form like that of   *)
(* the keys themselves (SS3 under DECCKM, CSI otherwise).                                          *)
RECURSIVE Repeats(_, _)
Repeats(b, unit) == IF b = <<>> THEN TRUE
                    ELSE Len(b) >= 3 /\ SubSeq(b, 1, 3) = unit /\ Repeats(SubSeq(b, 4, Len(b)), unit)
ArrowKeys(b, final) == b # <<>> /\ (Repeats(b, <<27, 79, final>>) \/ Repeats(b, <<27, 91, final>>))
AltScrollWhy(e) ==
  IF e.alt /\ e.m1007 /\ e.type = "press" /\ e.button \in {64, 65} THEN
       (LET final == IF e.button = 64 THEN 65 ELSE 66 IN
        IF ~ArrowKeys(e.bytes, final) THEN "alternate-scroll-wheel-not-sent-as-cursor-keys"
        ELSE IF ~Repeats(e.bytes, <<27, IF e.decckm THEN 79 ELSE 91, final>>) THEN "alternate-scroll-cursor-key-mode"
        ELSE "ok")
  ELSE IF e.bytes = <<>> THEN "ok" ELSE "mouse-not-enabled-but-written"

MouseWhy(e) ==
  IF ~MouseEnabled(e) THEN AltScrollWhy(e)
  ELSE IF ~e.m1006 THEN "ok"                                           \* legacy encodings: not constrained by C13
  ELSE IF e.bytes = <<>> THEN "mouse-enabled-but-nothing-written"
  ELSE IF ~e.sgr.ok THEN "mouse-not-sgr-encoded"
  ELSE LET d == MouseEvent([pb |-> e.sgr.pb, x |-> e.sgr.x, y |-> e.sgr.y, final |-> e.sgr.final]) IN
       IF ~(d.button = e.button /\ d.type = e.type /\ d.col = e.col /\ d.row = e.row) THEN "mouse-sgr-fields"
       \* ... and what Vaxis's own decoder made of the same bytes
       ELSE IF ~e.dec.ok THEN "mouse-not-decoded-by-vaxis"
       ELSE IF ~(e.dec.button = e.button /\ e.dec.type = e.type /\ e.dec.col = e.col /\ e.dec.row = e.row) THEN "mouse-decoded-differs"
       ELSE "ok"
=============================================================================
