--------------------------- MODULE EmuDraw_Trace ---------------------------
(* Trace validation for the Draw clause of C05: "drawing [the embedded      *)
(* terminal] into a host window writes only inside that window".            *)
(* The host is a real Vaxis on a fake console whose whole screen the driver *)
(* first fills with a sentinel cell.  The console output is lexed into the  *)
(* command vocabulary of the RefTerm reference terminal (module RefTerm,    *)
(* property C01) and stepped through it; at every "drawn" event             *)
(*   - every cell outside the window's rectangle must still show the        *)
(*     sentinel (a wide glyph spilling over the edge damages it),           *)
(*   - a visible cursor must lie inside the rectangle,                      *)
(*   - the emulator, which Draw resizes to the window, must satisfy the     *)
(*     state oracle EmuSafe for the window's size.                          *)
(*   reset rows cols xw | RefTerm commands | drawn rect sent w h focus o    *)
(*   panic k msg | skip (scenario not applicable)                           *)
(* rect = <<x0, y0, x1, y1>> 0-based, half-open, in host coordinates;       *)
(* sent = <<g, fg, bg, ul, us, at>>.                                        *)
EXTENDS RefTerm, TLC, Json, IOUtils

ES == INSTANCE EmuSafe

Trace == ndJsonDeserialize(IOEnv.TRACE)

VARIABLES l, t, failed
vars == <<l, t, failed>>

Init == l = 1 /\ t = InitTerm(1, 1, FALSE) /\ failed = FALSE

Sentinel(s) == G(s[1], 1, [fg |-> s[2], bg |-> s[3], ul |-> s[4], us |-> s[5], at |-> s[6]], 0)
Inside(rc, y, x) == x - 1 >= rc[1] /\ x - 1 < rc[3] /\ y - 1 >= rc[2] /\ y - 1 < rc[4]
Spilled(e) == {p \in (1..t.rows) \X (1..t.cols) : ~Inside(e.rect, p[1], p[2]) /\ t.grid[p[1]][p[2]] # Sentinel(e.sent)}
CursorInside(e) == ~t.vis \/ Inside(e.rect, t.r, t.c)

Reject(e, why, det) ==
  PrintT("REJECT " \o ToJson([scn |-> e.scn, line |-> l, why |-> why, k |-> "draw", det |-> det]))

Next ==
  /\ l <= Len(Trace)
  /\ l' = l + 1
  /\ LET e == Trace[l] IN
     IF e.ev = "reset" THEN
        /\ t' = InitTerm(e.rows, e.cols, e.xw) /\ failed' = FALSE
     ELSE IF failed \/ e.ev = "skip" THEN UNCHANGED <<t, failed>>
     ELSE IF e.ev = "panic" THEN
        /\ Reject(e, "panic", [msg |-> e.msg]) /\ failed' = TRUE /\ UNCHANGED t
     ELSE IF e.ev = "drawn" THEN
        /\ UNCHANGED t
        /\ IF Spilled(e) # {} THEN
              /\ Reject(e, "outside-window", [cells |-> Spilled(e), rect |-> e.rect]) /\ failed' = TRUE
           ELSE IF ~CursorInside(e) THEN
              /\ Reject(e, "cursor-outside-window", [cur |-> <<t.r, t.c>>, rect |-> e.rect]) /\ failed' = TRUE
           ELSE IF ~ES!Safe(e.o, e.h, e.w) THEN
              /\ Reject(e, "after-draw:" \o ES!Why(e.o, e.h, e.w), [o |-> e.o, size |-> <<e.h, e.w>>]) /\ failed' = TRUE
           ELSE UNCHANGED failed
     ELSE
        /\ t' = Step(t, e) /\ UNCHANGED failed

Spec == Init /\ [][Next]_vars

Consumed == TLCGet("stats").diameter - 1 = Len(Trace)
=============================================================================
