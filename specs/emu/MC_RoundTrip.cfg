CONSTANTS
  Rows = 2
  Cols = 3
  MaxSteps = 4
SPECIFICATION Spec
INVARIANTS LandingIsHead
CHECK_DEADLOCK FALSE
