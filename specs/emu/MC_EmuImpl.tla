---------------------------- MODULE MC_EmuImpl ----------------------------
(* EmuImpl composed with the EmuSafe oracle: from a fresh emulator of every *)
(* size up to MaxR x MaxC, every sequence of modelled operations (including *)
(* resizes to every such size, each followed by up to MaxReflow reflow      *)
(* steps) with every boundary parameter.  MaxSteps = 0 means no bound on    *)
(* the length: the whole (finite) reachable state space is explored.        *)
(* Invariant: no grid access out of range (no panic) and EmuSafe!Safe.      *)
EXTENDS EmuImpl, TLC
CONSTANTS MaxR, MaxC, MaxSteps, MaxReflow      \* MaxTabs is EmuImpl's

ES == INSTANCE EmuSafe
MCTabs == <<8, 16>>          \* DefaultTabs of the exhaustive model

VARIABLES m, n, rf       \* rf > 0: inside resize's reflow loop, rf steps may still follow
vars == <<m, n, rf>>

Params(s) == {0, 1, 2, s.R - 1, s.R, s.R + 1, s.C - 1, s.C, s.C + 1, MaxParam} \ {-1}
Params2(s) == {0, 1, 2, s.R, s.R + 1, MaxParam}

Nullary == {"bs", "ht", "lf", "cr", "ind", "nel", "ri", "hts", "decsc", "decrc", "ris", "alton", "altoff"}
Unary == {"ich", "cuu", "cud", "cuf", "cub", "cnl", "cpl", "cha", "cht", "il", "dl", "dch", "su", "sd", "ech",
          "cbt", "hpa", "hpr", "rep", "vpa", "vpr"}
Ops(s) ==
  {[f |-> f, p |-> 0, q |-> 0] : f \in Nullary}
  \cup {[f |-> f, p |-> p, q |-> 0] : f \in Unary, p \in Params(s)}
  \cup {[f |-> f, p |-> p, q |-> 0] : f \in {"ed", "el"}, p \in 0..3}
  \cup {[f |-> "print", p |-> w, q |-> 0] : w \in 0..2}
  \cup {[f |-> f, p |-> p, q |-> 0] : f \in {"irm", "awm"}, p \in 0..1}
  \cup {[f |-> "tbc", p |-> p, q |-> 0] : p \in {0, 3}}
  \cup {[f |-> f, p |-> p, q |-> q] : f \in {"cup", "decstbm"}, p \in Params2(s), q \in Params2(s)}

Init == \E R \in 1..MaxR, C \in 1..MaxC : m = NewM(R, C) /\ n = 0 /\ rf = 0

Bound == MaxSteps = 0 \/ n < MaxSteps
Count == n' = IF MaxSteps = 0 THEN 0 ELSE n + 1

DoOp     == rf = 0 /\ Bound /\ Count /\ UNCHANGED rf /\ \E op \in Ops(m) : m' = Apply(m, op)
DoResize == rf = 0 /\ Bound /\ Count /\ rf' = MaxReflow /\ \E R \in 1..MaxR, C \in 1..MaxC : m' = Resize(m, R, C)
Reflow   == rf > 0 /\ UNCHANGED n /\
            \/ (rf' = rf - 1 /\ \E w \in 0..2 : m' = PrintCh(m, w))
            \/ (rf' = rf - 1 /\ m' = Nel(m))
            \/ (rf' = 0 /\ UNCHANGED m)
Next == DoOp \/ DoResize \/ Reflow
Spec == Init /\ [][Next]_vars

NoPanic == ~m.bad
Safe    == ES!Safe(ObsOf(m), m.R, m.C)
SavedOK == m.sp[1] >= 0 /\ m.sp[2] >= 0 /\ m.sa[1] >= 0 /\ m.sa[2] >= 0
=============================================================================
