---------------------------- MODULE Forward_Trace ----------------------------
(* Trace validation for C13: one event per key / paste boundary / mouse      *)
(* event handed to the real emulator (Model.Update) under a chosen set of    *)
(* child modes, with the bytes it wrote to the child and what a real Vaxis   *)
(* decoded from them.                                                        *)
EXTENDS Forward, TLC, Json, IOUtils
Trace == ndJsonDeserialize(IOEnv.TRACE)
VARIABLES l
Init == l = 1
Why(e) == CASE e.ev = "key" -> KeyWhy(e) [] e.ev = "paste" -> PasteWhy(e) [] e.ev = "mouse" -> MouseWhy(e)
            [] e.ev = "panic" -> "panic" [] OTHER -> "ok"
Next ==
  /\ l <= Len(Trace) /\ l' = l + 1
  /\ LET e == Trace[l] IN
     IF Why(e) # "ok" THEN PrintT("REJECT " \o ToJson([scn |-> e.scn, line |-> l, why |-> Why(e), what |-> e.what, bytes |-> e.bytes, got |-> IF e.ev = "key" THEN e.got ELSE ""])) ELSE TRUE
Spec == Init /\ [][Next]_<<l>>
Consumed == TLCGet("stats").diameter - 1 = Len(Trace)
=============================================================================
