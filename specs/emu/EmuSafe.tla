------------------------------ MODULE EmuSafe ------------------------------
(* ORACLE for C05 (state part): what must hold of the embedded terminal's   *)
(* state after every sequence of child output, whatever the bytes were, on  *)
(* a screen of R rows and C columns (R, C >= 1; positions 0-based as a      *)
(* host would index the grid):                                              *)
(*   - the cursor lies within the screen,                                   *)
(*   - the scroll margins are ordered and within the screen,                *)
(*   - every row of every grid has exactly the terminal's width, and every  *)
(*     grid has the terminal's height.                                      *)
(* An observation o is a record [r, c, top, bot, left, right, hs, ws]:      *)
(* cursor, margins, hs = heights of the normal, alternate and displayed     *)
(* grid, ws = the distinct row lengths over all three, ascending.           *)
(* Written from the property statement alone.                               *)
EXTENDS Integers, Sequences

CursorRowIn(o, R) == o.r >= 0 /\ o.r <= R - 1
CursorColIn(o, C) == o.c >= 0 /\ o.c <= C - 1
VMarginsIn(o, R)  == o.top >= 0 /\ o.bot <= R - 1
VMarginsOrd(o)    == o.top <= o.bot
HMarginsIn(o, C)  == o.left >= 0 /\ o.right <= C - 1
HMarginsOrd(o)    == o.left <= o.right
RowsOK(o, R, C)   == o.hs = <<R, R, R>> /\ o.ws = <<C>>

Safe(o, R, C) == /\ RowsOK(o, R, C)
                 /\ CursorRowIn(o, R) /\ CursorColIn(o, C)
                 /\ VMarginsOrd(o) /\ VMarginsIn(o, R)
                 /\ HMarginsOrd(o) /\ HMarginsIn(o, C)

(* name of the first clause that fails *)
Why(o, R, C) ==
  IF ~RowsOK(o, R, C) THEN "rows"
  ELSE IF ~CursorRowIn(o, R) THEN "cursor-row"
  ELSE IF ~CursorColIn(o, C) THEN "cursor-col"
  ELSE IF ~VMarginsOrd(o) THEN "margins-order"
  ELSE IF ~VMarginsIn(o, R) THEN "margins-range"
  ELSE IF ~HMarginsOrd(o) \/ ~HMarginsIn(o, C) THEN "margins-lr"
  ELSE ""
=============================================================================
