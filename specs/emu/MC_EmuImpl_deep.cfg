CONSTANTS
  MaxR = 3
  MaxC = 3
  MaxSteps = 6
  MaxReflow = 3
  MaxTabs = 3
  DefaultTabs <- MCTabs
SPECIFICATION Spec
INVARIANTS NoPanic Safe SavedOK
CHECK_DEADLOCK FALSE
