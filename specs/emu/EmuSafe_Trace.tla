--------------------------- MODULE EmuSafe_Trace ---------------------------
(* Trace validation for C05.  The driver writes byte streams (grammar       *)
(* generated control sequences with boundary parameters, raw fuzzed bytes)  *)
(* to the real emulator, resizing it in between, and logs after EVERY       *)
(* parsed sequence and every resize the observation of module EmuSafe; a    *)
(* panic or a sequence that does not return is logged as such.  The event-  *)
(* stall clause is logged by runs on the real PTY goroutine (ev = "stall"). *)
(*   reset  rows cols o      new scenario (o = state of the fresh emulator) *)
(*   seq    k o              one sequence of kind k was processed           *)
(*   resize rows cols o      the emulator was resized                       *)
(*   panic  k msg            processing panicked                            *)
(*   hang   k ms             processing of a sequence of kind k did not     *)
(*                           return within the deadline of ms milliseconds  *)
(*                           (sixel strings, whose raster attributes and    *)
(*                           repeat counts are numbers the child chooses:   *)
(*                           a deadline per sequence, in a process that is  *)
(*                           replaced afterwards; elsewhere 15 s)           *)
(*   stall  what n consumer done   a child raised n events then printed a   *)
(*                           marker; done = the marker reached the screen.  *)
(*                           what = "query:x", consumer = "noread": a child *)
(*                           in raw mode wrote n requests for a report and  *)
(*                           never read the answers, then printed a marker  *)
(*   conc   n done how       the host resized the terminal n times while a  *)
(*                           child wrote without pause (the scheduler, not  *)
(*                           the driver, interleaves them); the child then  *)
(*                           printed a marker; done = it reached the screen *)
(*                           (how = the way processing ended otherwise: a   *)
(*                           panic, a dead process, no more progress)       *)
EXTENDS EmuSafe, TLC, Json, IOUtils

Trace == ndJsonDeserialize(IOEnv.TRACE)

VARIABLES l, R, C, failed
vars == <<l, R, C, failed>>

Init == l = 1 /\ R = 1 /\ C = 1 /\ failed = FALSE

KindOf(e) == IF "k" \in DOMAIN e THEN e.k ELSE e.ev
Reject(e, why, det) ==
  PrintT("REJECT " \o ToJson([scn |-> e.scn, line |-> l, why |-> why, k |-> KindOf(e), det |-> det]))

Check(e, rows, cols) ==
  IF Safe(e.o, rows, cols) THEN UNCHANGED failed
  ELSE /\ Reject(e, Why(e.o, rows, cols), [o |-> e.o, size |-> <<rows, cols>>]) /\ failed' = TRUE

Next ==
  /\ l <= Len(Trace)
  /\ l' = l + 1
  /\ LET e == Trace[l] IN
     IF e.ev = "reset" THEN
        /\ R' = e.rows /\ C' = e.cols
        /\ IF Safe(e.o, e.rows, e.cols) THEN failed' = FALSE
           ELSE /\ Reject(e, Why(e.o, e.rows, e.cols), [o |-> e.o, size |-> <<e.rows, e.cols>>]) /\ failed' = TRUE
     ELSE IF failed THEN UNCHANGED <<R, C, failed>>
     ELSE IF e.ev = "resize" THEN
        /\ R' = e.rows /\ C' = e.cols /\ Check(e, e.rows, e.cols)
     ELSE IF e.ev = "seq" THEN
        /\ UNCHANGED <<R, C>> /\ Check(e, R, C)
     ELSE IF e.ev = "panic" THEN
        /\ Reject(e, "panic", [msg |-> e.msg]) /\ failed' = TRUE /\ UNCHANGED <<R, C>>
     ELSE IF e.ev = "hang" THEN
        /\ Reject(e, "hang", [ms |-> e.ms]) /\ failed' = TRUE /\ UNCHANGED <<R, C>>
     ELSE IF e.ev = "stall" THEN
        /\ UNCHANGED <<R, C>>
        /\ IF e.done THEN UNCHANGED failed
           ELSE /\ Reject(e, "stall", [what |-> e.what, n |-> e.n, consumer |-> e.consumer]) /\ failed' = TRUE
     ELSE IF e.ev = "conc" THEN
        /\ UNCHANGED <<R, C>>
        /\ IF e.done THEN UNCHANGED failed
           ELSE /\ Reject(e, "stopped", [n |-> e.n, how |-> e.how]) /\ failed' = TRUE
     ELSE UNCHANGED <<R, C, failed>>

Spec == Init /\ [][Next]_vars

Consumed == TLCGet("stats").diameter - 1 = Len(Trace)
=============================================================================
