SPECIFICATION Spec
POSTCONDITION Consumed
CHECK_DEADLOCK FALSE
