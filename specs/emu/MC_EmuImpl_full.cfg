CONSTANTS
  MaxR = 2
  MaxC = 2
  MaxSteps = 0
  MaxReflow = 2
  MaxTabs = 3
  DefaultTabs <- MCTabs
SPECIFICATION Spec
INVARIANTS NoPanic Safe SavedOK
CHECK_DEADLOCK FALSE
