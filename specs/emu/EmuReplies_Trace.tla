-------------------------- MODULE EmuReplies_Trace --------------------------
EXTENDS EmuReplies, TLC, Json, IOUtils
Trace == ndJsonDeserialize(IOEnv.TRACE)
VARIABLES l, ms
Init == l = 1 /\ ms = InitialModes
Why(e) == CASE e.q = "decrqm" -> DecrqmWhy(ms, e.m, e.reply)
            [] e.q = "cpr" -> CprWhy(e.snap, e.reply)
            [] e.q = "da1" -> Da1Why(e.reply)
            [] e.q = "dsr5" -> Dsr5Why(e.reply)
            [] OTHER -> "ok"
Next ==
  /\ l <= Len(Trace) /\ l' = l + 1
  /\ LET e == Trace[l] IN
     IF e.ev = "reset" THEN ms' = InitialModes
     ELSE IF e.ev = "mode" THEN ms' = SetModes(ms, e.ms, e.v)
     ELSE IF e.ev = "ris" THEN ms' = InitialModes
     ELSE IF e.ev = "query" THEN
        /\ UNCHANGED ms
        /\ IF Why(e) # "ok" THEN PrintT("REJECT " \o ToJson([scn |-> e.scn, line |-> l, why |-> Why(e), q |-> e.q, m |-> e.m, reply |-> e.reply])) ELSE TRUE
     ELSE UNCHANGED ms
Spec == Init /\ [][Next]_<<l, ms>>
Consumed == TLCGet("stats").diameter - 1 = Len(Trace)
=============================================================================
