CONSTANTS
  MaxH = 3
  K = 4
  NRes = 3
  Locked = TRUE
SPECIFICATION Spec
INVARIANTS TypeOK NoCrash CursorIn
CHECK_DEADLOCK FALSE
