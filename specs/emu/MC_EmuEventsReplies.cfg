CONSTANTS
  K = 7
  OutCap = 2
  InCap = 2
  QCap = 2
  Queued = TRUE
SPECIFICATION Spec
INVARIANTS TypeOK NoBlock
PROPERTIES AllShown
CHECK_DEADLOCK FALSE
