CONSTANTS
  MaxH = 3
  K = 4
  NRes = 3
  Locked = FALSE
SPECIFICATION Spec
INVARIANTS TypeOK NoCrash CursorIn
CHECK_DEADLOCK FALSE
