------------------------------ MODULE RoundTrip ------------------------------
(* Oracle pieces of C12 that are not already RefTerm / Caps (pure operators, *)
(* shared by the trace specification RoundTrip_Trace and the sanity model    *)
(* MC_RoundTrip).                                                            *)
(*                                                                           *)
(* 1. Transport.  The property quantifies over what the application writes;  *)
(*    how the bytes are cut into reads on their way to the emulator is the   *)
(*    environment's choice.  A grapheme cluster that reaches a byte-stream   *)
(*    parser in two reads cannot be delivered as one cluster (the parser     *)
(*    cannot wait).  The cell such a cluster starts in (Landing, by the      *)
(*    reference terminal's own placement rule) and the cells to its right in *)
(*    the same row are where the effect of the cut can show; CutExplains     *)
(*    holds when every differing cell is one of those.                       *)
(* 2. Graphics.  "The replies ... are understood by Vaxis as exactly the     *)
(*    features the emulator implements": a graphics protocol the application *)
(*    derived from the replies must take what the application then sends -   *)
(*    every picture drawn is held by the emulator, at the cell it was drawn  *)
(*    at (DEC sixel: the picture starts at the cursor's cell).               *)
EXTENDS RefTerm

SeqToSet(s) == {s[k] : k \in 1..Len(s)}

(* The cell a glyph of width w >= 1 printed now starts in (PrintG's placement). *)
Landing(t0, w) ==
  LET u == Unwrap(t0)
      v == IF u.c + w - 1 > u.cols THEN (IF u.r < u.rows THEN [u EXCEPT !.r = u.r + 1, !.c = 1] ELSE [u EXCEPT !.c = 1])
           ELSE u
  IN <<v.r, v.c>>

(* cuts, bad: sets of <<row, col>>. *)
CutExplains(cuts, bad) == cuts # {} /\ \A p \in bad : \E q \in cuts : q[1] = p[1] /\ q[2] <= p[2]

(* e = [proto, at, sent, got]: the protocol the application's image          *)
(* constructor chose ("sixel", "kitty", or "cells" for character graphics),  *)
(* the cells <<row, col>> it drew pictures at, the number of sixel strings   *)
(* in its output and the cells the emulator holds pictures at.               *)
GfxFeature(p) == CASE p = "sixel" -> "sixel" [] p = "kitty" -> "kittyGraphics" [] OTHER -> "none"
ImagesWhy(adv, e) ==
  IF e.at = <<>> THEN "ok"
  ELSE IF adv \cap {"sixel", "kittyGraphics"} = {} THEN "ok"       \* nothing advertised: cells, judged by the frames
  ELSE IF GfxFeature(e.proto) \notin adv THEN "graphics-protocol-not-advertised"
  ELSE IF e.proto = "sixel" /\ e.sent # Len(e.at) THEN "graphics-not-sent"
  ELSE IF Len(e.got) # Len(e.at) THEN "graphics-lost"
  ELSE IF SeqToSet(e.got) # SeqToSet(e.at) THEN "graphics-position"
  ELSE "ok"
=============================================================================
