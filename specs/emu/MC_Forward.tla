------------------------------ MODULE MC_Forward ------------------------------
(* Sanity of the Forward oracle: the mouse enabling rules are monotone in the *)
(* tracking modes (1003 reports everything 1002 reports, 1002 everything 1000 *)
(* reports), 1006 alone enables nothing, and every SGR report built from an   *)
(* enabled event decodes back to it (oracle encode/decode round trip).        *)
(* Constant-level sanity of the key rules (ASSUME, evaluated once): UTF-8     *)
(* samples; whatever the numeric keypad mode allows the application mode      *)
(* allows too (Num Lock rule) and the application mode allows the SS3 code;   *)
(* an ideal encoding of every key class is accepted and the characteristic    *)
(* wrong one (truncated text, bytes for a release, dropped keypad key, the    *)
(* other cursor-key form for a wheel step) is rejected.                       *)
EXTENDS Forward, TLC
VARIABLE e
Types == {"press", "release", "motion"}
Init == e \in [button : {0, 1, 2, 3, 64, 65}, type : Types, mods : 0..7, col : {0, 94, 222}, row : {0, 5},
               m1000 : BOOLEAN, m1002 : BOOLEAN, m1003 : BOOLEAN, m1006 : BOOLEAN]
Next == UNCHANGED e
Spec == Init /\ [][Next]_e
With(f, v) == [e EXCEPT ![f] = v]
Monotone == /\ MouseEnabled(With("m1003", FALSE)) => MouseEnabled(With("m1003", TRUE))
            /\ MouseEnabled(With("m1002", FALSE)) => MouseEnabled(With("m1002", TRUE))
            /\ MouseEnabled([[e EXCEPT !.m1002 = FALSE] EXCEPT !.m1000 = TRUE]) => MouseEnabled([[e EXCEPT !.m1002 = TRUE] EXCEPT !.m1000 = FALSE])
SgrAloneEnablesNothing == (~e.m1000 /\ ~e.m1002 /\ ~e.m1003) => ~MouseEnabled(e)
Pb == e.button + (IF e.type = "motion" THEN 32 ELSE 0) + (IF Bit(e.mods, 1) THEN 4 ELSE 0) + (IF Bit(e.mods, 2) THEN 8 ELSE 0) + (IF Bit(e.mods, 4) THEN 16 ELSE 0)
RoundTrip == LET d == MouseEvent([pb |-> Pb, x |-> e.col + 1, y |-> e.row + 1, final |-> IF e.type = "release" THEN "m" ELSE "M"])
             IN d.button = e.button /\ d.type = e.type /\ d.col = e.col /\ d.row = e.row /\ d.mods = e.mods

ASSUME /\ Utf8(65) = <<65>> /\ Utf8(233) = <<195, 169>> /\ Utf8(19990) = <<228, 184, 150>> /\ Utf8(128512) = <<240, 159, 152, 128>>
       /\ \A c \in {127, 128, 2047, 2048, 65535, 65536, 1114111} : \A i \in 1..Len(Utf8(c)) : Utf8(c)[i] \in 0..255

K0 == [ev |-> "key", name |-> "", code |-> 101, mods |-> 0, lower |-> TRUE, shifted |-> 69, etype |-> "press", text |-> <<>>,
       decckm |-> FALSE, deckpam |-> FALSE, bytes |-> <<101>>, n |-> 1, rt |-> TRUE, rtnoalt |-> TRUE, ctrlm |-> <<>>,
       allkeys |-> TRUE, gottext |-> <<101>>, gotname |-> "", gotmods |-> 0, samekey |-> TRUE]
KP(n, pam, b) == [K0 EXCEPT !.name = n, !.code = 0, !.deckpam = pam, !.bytes = b]
ASSUME \A n \in Keypad \cup KeypadOps \cup {"KP_ENTER"} :
          /\ ModeBytes(KP(n, FALSE, <<>>)) = {<<KeypadChar(n)>>}
          \* without text (Num Lock not on; Enter never has any) application mode means the SS3 code alone; with
          \* text (Num Lock on) xterm keeps sending the character, a VT100 the code: both
          /\ ModeBytes(KP(n, TRUE, <<>>)) = {<<27, 79, KeypadFinal(n)>>}
          /\ ModeBytes([KP(n, TRUE, <<>>) EXCEPT !.text = <<KeypadChar(n)>>]) = {<<27, 79, KeypadFinal(n)>>, <<KeypadChar(n)>>}
          /\ KeyWhy(KP(n, TRUE, <<>>)) = "nothing-written" /\ KeyWhy(KP(n, FALSE, <<27, 79, KeypadFinal(n)>>)) = "mode-selected-encoding"
          \* (the records carry no text: the keys as a host without the kitty protocol delivers them; with text the same holds)
          /\ \A t \in {<<>>, <<KeypadChar(n)>>} :
               LET chr == [KP(n, TRUE, <<KeypadChar(n)>>) EXCEPT !.text = t, !.gottext = <<KeypadChar(n)>>, !.gotname = IF n = "KP_ENTER" THEN "ENTER" ELSE ""]
                   ss3 == [KP(n, TRUE, <<27, 79, KeypadFinal(n)>>) EXCEPT !.text = t, !.gotname = n, !.gottext = <<>>] IN
               /\ KeyWhy(ss3) = "ok" /\ KeyWhy([chr EXCEPT !.deckpam = FALSE]) = "ok"
               /\ KeyWhy(chr) = (IF t = <<>> THEN "mode-selected-encoding" ELSE "ok")
               /\ KeyWhy([ss3 EXCEPT !.deckpam = FALSE]) = "mode-selected-encoding"
               /\ KeyWhy([ss3 EXCEPT !.gotname = "KP_BEGIN"]) = "keypad-code-not-decoded-as-its-key"
               /\ KeyWhy([ss3 EXCEPT !.n = 0]) = "not-one-key-event"
               /\ KeyWhy([chr EXCEPT !.deckpam = FALSE, !.gottext = <<>>, !.gotname = ""]) = "keypad-character-not-decoded"
               /\ KeyWhy([chr EXCEPT !.bytes = <<>>]) = "nothing-written" /\ KeyWhy([chr EXCEPT !.bytes = <<>>, !.deckpam = FALSE]) = "nothing-written"
ASSUME \A n \in KeypadNav : \A m \in 0..7 :
          /\ KeyWhy([KP(n, FALSE, <<27, 91, 68>>) EXCEPT !.mods = m, !.gotname = Twin(n), !.gotmods = m]) = "ok"
          /\ KeyWhy([KP(n, FALSE, <<>>) EXCEPT !.mods = m]) = "nothing-written"
          /\ KeyWhy([KP(n, FALSE, <<27, 91, 68>>) EXCEPT !.mods = m, !.gotname = n, !.gotmods = m]) # "ok"
Cluster == <<101, 769>>
ASSUME /\ KeyWhy([K0 EXCEPT !.text = Cluster, !.bytes = <<101, 204, 129>>, !.gottext = Cluster]) = "ok"
       /\ KeyWhy([K0 EXCEPT !.text = Cluster, !.bytes = <<101>>, !.gottext = <<101>>]) = "text-of-key-not-forwarded"
       /\ KeyWhy([K0 EXCEPT !.code = 113, !.text = <<64>>, !.bytes = <<64>>, !.gottext = <<64>>, !.rt = FALSE]) = "ok"      \* AltGr: the text decides, not the key code
       /\ KeyWhy([K0 EXCEPT !.code = 0, !.text = <<233>>, !.bytes = <<0>>, !.gottext = <<>>]) = "text-of-key-not-forwarded"
       /\ \A et \in {"press", "repeat", "paste"} : KeyWhy([K0 EXCEPT !.etype = et, !.text = <<101>>]) = "ok"
       /\ KeyWhy([K0 EXCEPT !.etype = "release", !.text = <<101>>]) = "key-release-written"
       /\ KeyWhy([K0 EXCEPT !.etype = "release", !.bytes = <<>>, !.n = 0]) = "ok"
\* Alt chords: the right bytes with no event decoded are told apart from everything else
ASSUME /\ KeyWhy([K0 EXCEPT !.code = 46, !.mods = Alt, !.lower = FALSE, !.bytes = <<27, 46>>, !.n = 0]) = "alt-lost-decoding-esc-intermediate"
       /\ KeyWhy([K0 EXCEPT !.code = 46, !.mods = Alt, !.lower = FALSE, !.bytes = <<46>>, !.n = 1, !.rt = FALSE, !.rtnoalt = TRUE]) = "decoded-key-does-not-match"
       /\ KeyWhy([K0 EXCEPT !.code = 46, !.mods = Alt, !.lower = FALSE, !.bytes = <<27, 46>>, !.n = 2]) = "not-one-key-event"
       /\ KeyWhy([K0 EXCEPT !.code = 233, !.mods = Alt, !.shifted = 201, !.bytes = <<27, 195, 169>>, !.n = 0]) = "alt-lost-decoding-esc-nonascii"
       /\ KeyWhy([K0 EXCEPT !.code = 233, !.mods = Alt + Shift, !.shifted = 201, !.bytes = <<27, 195, 137>>, !.n = 0]) = "alt-lost-decoding-esc-nonascii"
       /\ KeyWhy([K0 EXCEPT !.code = 233, !.mods = Alt, !.shifted = 201, !.bytes = <<195, 169>>, !.n = 0]) = "not-one-key-event"
       /\ KeyWhy([K0 EXCEPT !.code = 233, !.mods = Alt, !.shifted = 201, !.bytes = <<27, 195, 169>>, !.n = 1, !.rt = FALSE, !.rtnoalt = TRUE]) = "alt-lost-decoding-esc-nonascii"
       /\ KeyWhy([K0 EXCEPT !.code = 233, !.mods = Alt, !.shifted = 201, !.bytes = <<27, 195, 169>>, !.n = 1, !.rt = FALSE, !.rtnoalt = FALSE]) = "decoded-key-does-not-match"
       /\ KeyWhy([K0 EXCEPT !.code = 233, !.mods = Alt, !.shifted = 201, !.bytes = <<>>, !.n = 0]) = "nothing-written"
\* Ctrl + a key whose control code several keys share, typed with or without Shift: any key of the class is accepted, the bare key is not
CS(c, sh, m, b, cm) == [K0 EXCEPT !.code = c, !.shifted = sh, !.lower = FALSE, !.mods = m, !.bytes = b, !.ctrlm = cm, !.rt = FALSE]
ASSUME /\ KeyWhy(CS(45, 95, Ctrl + Shift, <<31>>, <<47, 55, 95>>)) = "ok" /\ KeyWhy(CS(45, 95, Ctrl + Shift, <<31>>, <<95>>)) = "ok"
       /\ KeyWhy(CS(45, 95, Ctrl + Shift, <<45>>, <<>>)) = "decoded-key-not-in-shared-control-class"
       /\ KeyWhy(CS(45, 95, Ctrl + Shift, <<>>, <<>>)) = "nothing-written"
       /\ KeyWhy(CS(50, 64, Ctrl + Shift, <<0>>, <<32>>)) = "ok" /\ KeyWhy(CS(54, 94, Ctrl + Shift, <<30>>, <<94>>)) = "ok"
       /\ KeyWhy(CS(54, 94, Ctrl + Shift, <<30>>, <<95>>)) = "decoded-key-not-in-shared-control-class"
       /\ KeyWhy(CS(45, 95, Ctrl, <<45>>, <<>>)) = "ok"                  \* Ctrl+- has no control code: not expressible, nothing demanded
       /\ KeyWhy(CS(49, 33, Ctrl + Shift, <<49>>, <<>>)) = "ok"          \* Ctrl+! neither
       /\ KeyWhy(CS(55, 38, Ctrl, <<31>>, <<47>>)) = "ok" /\ KeyWhy(CS(55, 38, Ctrl, <<55>>, <<>>)) = "decoded-key-not-in-shared-control-class"
\* Ctrl + a key beyond ASCII: the character itself (with or without Alt's ESC) or nothing is accepted, a control code or another key is not
NA(m, b, k, same) == [K0 EXCEPT !.code = 233, !.shifted = 201, !.mods = m, !.bytes = b, !.n = k, !.rt = FALSE, !.samekey = same]
ASSUME \A m \in {Ctrl, Ctrl + Shift, Ctrl + Alt, Ctrl + Alt + Shift} :
          /\ KeyWhy(NA(m, <<195, 169>>, 1, TRUE)) = "ok" /\ KeyWhy(NA(m, <<27, 195, 169>>, 1, TRUE)) = "ok" /\ KeyWhy(NA(m, <<>>, 0, FALSE)) = "ok"
          /\ KeyWhy(NA(m, <<194, 137>>, 0, FALSE)) = "control-code-written-for-key-without-one"
          /\ KeyWhy(NA(m, <<27, 194, 137>>, 0, FALSE)) = "control-code-written-for-key-without-one"
          /\ KeyWhy(NA(m, <<127>>, 1, FALSE)) = "control-code-written-for-key-without-one"
          /\ KeyWhy(NA(m, <<207, 161>>, 1, FALSE)) = "arrives-as-another-key"
ASSUME KeyWhy(NA(Alt, <<27, 195, 169>>, 0, FALSE)) = "alt-lost-decoding-esc-nonascii" /\ KeyWhy([NA(Ctrl, <<1>>, 1, TRUE) EXCEPT !.code = 97, !.rt = TRUE]) = "ok"
W(btn, ckm, b) == [button |-> btn, type |-> "press", alt |-> TRUE, m1007 |-> TRUE, m1000 |-> FALSE, m1002 |-> FALSE, m1003 |-> FALSE, m1006 |-> FALSE,
                   decckm |-> ckm, bytes |-> b]
ASSUME \A btn \in {64, 65} : \A ckm \in BOOLEAN : \A k \in 1..3 :
          LET f == IF btn = 64 THEN 65 ELSE 66
              rep(u) == IF k = 1 THEN u ELSE IF k = 2 THEN u \o u ELSE u \o u \o u IN
          /\ MouseWhy(W(btn, ckm, rep(<<27, IF ckm THEN 79 ELSE 91, f>>))) = "ok"
          /\ MouseWhy(W(btn, ckm, rep(<<27, IF ckm THEN 91 ELSE 79, f>>))) = "alternate-scroll-cursor-key-mode"
          /\ MouseWhy(W(btn, ckm, <<>>)) = "alternate-scroll-wheel-not-sent-as-cursor-keys"
=============================================================================
