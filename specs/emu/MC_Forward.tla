------------------------------ MODULE MC_Forward ------------------------------
(* Sanity of the Forward oracle: the mouse enabling rules are monotone in the *)
(* tracking modes (1003 reports everything 1002 reports, 1002 everything 1000 *)
(* reports), 1006 alone enables nothing, and every SGR report built from an   *)
(* enabled event decodes back to it (oracle encode/decode round trip).        *)
EXTENDS Forward, TLC
VARIABLE e
Types == {"press", "release", "motion"}
Init == e \in [button : {0, 1, 2, 3, 64, 65}, type : Types, mods : 0..7, col : {0, 94, 222}, row : {0, 5},
               m1000 : BOOLEAN, m1002 : BOOLEAN, m1003 : BOOLEAN, m1006 : BOOLEAN]
Next == UNCHANGED e
Spec == Init /\ [][Next]_e
With(f, v) == [e EXCEPT ![f] = v]
Monotone == /\ MouseEnabled(With("m1003", FALSE)) => MouseEnabled(With("m1003", TRUE))
            /\ MouseEnabled(With("m1002", FALSE)) => MouseEnabled(With("m1002", TRUE))
            /\ MouseEnabled([[e EXCEPT !.m1002 = FALSE] EXCEPT !.m1000 = TRUE]) => MouseEnabled([[e EXCEPT !.m1002 = TRUE] EXCEPT !.m1000 = FALSE])
SgrAloneEnablesNothing == (~e.m1000 /\ ~e.m1002 /\ ~e.m1003) => ~MouseEnabled(e)
Pb == e.button + (IF e.type = "motion" THEN 32 ELSE 0) + (IF Bit(e.mods, 1) THEN 4 ELSE 0) + (IF Bit(e.mods, 2) THEN 8 ELSE 0) + (IF Bit(e.mods, 4) THEN 16 ELSE 0)
RoundTrip == LET d == MouseEvent([pb |-> Pb, x |-> e.col + 1, y |-> e.row + 1, final |-> IF e.type = "release" THEN "m" ELSE "M"])
             IN d.button = e.button /\ d.type = e.type /\ d.col = e.col /\ d.row = e.row /\ d.mods = e.mods
=============================================================================
