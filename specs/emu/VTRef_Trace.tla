---------------------------- MODULE VTRef_Trace ----------------------------
(* Trace validation for C06.  Every operation the driver fed to the real    *)
(* emulator is logged with the emulator's complete display state after it   *)
(* (grid rows that changed, cursor, deferred-wrap flag, pen, margins, active *)
(* screen, saved cursors).  The VTRef oracle is stepped through the same    *)
(* operations; the observed state must be one of the oracle's outcomes.     *)
(*                                                                          *)
(* Events:                                                                  *)
(*   reset  rows cols                        new scenario, fresh terminal   *)
(*   op     op [ps | g w | sgr] cls o        o = observation (0-based)      *)
(*   panic  op cls                           the emulator panicked          *)
(* ps = numeric parameters (-1 = omitted; HugeParam for a value written     *)
(* with seven digits or more, whatever its size); w = the measured width of *)
(* the printed cluster, a logged fact that may exceed 2 (VTRef GlyphWidths). *)
(* o = [r, c, lc, pen, top, bot, alt, sp, sa, h, ws, rows] where pen =      *)
(* <<fg,bg,ul,us,at>>, sp/sa = <<r,c,fg,bg,ul,us,at>> (saved cursor of the  *)
(* normal / alternate screen), h = number of grid rows, ws = the distinct   *)
(* row lengths, rows = <<<<y, cells>>, ...>> the rows that differ from the  *)
(* previous observation, a cell being <<g,w,fg,bg,ul,us,at>>.               *)
(*                                                                          *)
(* What is compared.  The observed grid is read the way it is displayed:    *)
(* left to right, a cell of width 2 covering the next one.  Cells are       *)
(* compared by what they show: the underline colour of a cell that is not   *)
(* underlined and the foreground of a space that is neither underlined,     *)
(* reversed nor struck out are invisible and ignored.  Oracle cells that    *)
(* are Unknown (terminal-specific) match anything and are then learnt from  *)
(* the observation, so that later operations must move them consistently.   *)
(* While a wrap is pending, class "C" operations are unconstrained: the     *)
(* observed grid, cursor and flag are adopted (they must be well-formed and *)
(* nothing else may change).                                                *)
EXTENDS VTRef, TLC, Json, IOUtils

Trace == ndJsonDeserialize(IOEnv.TRACE)

VARIABLES l, s, sh, failed            \* sh = the observed grid as displayed
vars == <<l, s, sh, failed>>

PenOf(t, i) == [fg |-> t[i], bg |-> t[i + 1], ul |-> t[i + 2], us |-> t[i + 3], at |-> t[i + 4]]
SavedOf(t)  == [r |-> t[1] + 1, c |-> t[2] + 1, pen |-> PenOf(t, 3)]

(* one raw row read the way it is displayed *)
RECURSIVE Walk(_, _, _, _)
Walk(raw, C, x, acc) ==
  IF x > C THEN acc
  ELSE LET cl == raw[x]
           w  == IF cl[2] = 2 THEN 2 ELSE 1
           gl == [k |-> "g", g |-> cl[1], w |-> w, st |-> PenOf(cl, 3)]
       IN IF w = 2 /\ x < C THEN Walk(raw, C, x + 2, acc \o <<gl, [k |-> "c"]>>)
          ELSE Walk(raw, C, x + 1, Append(acc, gl))
ShownBlank(R, C) == [y \in 1..R |-> [x \in 1..C |-> [k |-> "g", g |-> 0, w |-> 1, st |-> DefaultPen]]]

Changed(d) == {d[i][1] : i \in 1..Len(d)}
ApplyDelta(g, d, C) ==
  [y \in 1..Len(g) |-> IF \E i \in 1..Len(d) : d[i][1] = y
                       THEN Walk(d[CHOOSE i \in 1..Len(d) : d[i][1] = y][2], C, 1, <<>>) ELSE g[y]]
WidthsOK(d, C) == \A i \in 1..Len(d) : \A x \in 1..C : d[i][2][x][2] \in {0, 1, 2}

NormSt(g, st) ==
  LET a == IF st.us = 0 THEN [st EXCEPT !.ul = 0] ELSE st IN
  IF g = Space /\ a.us = 0 /\ ~Has(a.at, Reverse) /\ ~Has(a.at, Strike) THEN [a EXCEPT !.fg = 0] ELSE a

CellOK(ref, c) ==
  CASE ref.k = "x" -> TRUE
    [] ref.k = "c" -> c.k = "c"
    [] ref.k = "g" -> /\ c.k = "g" /\ c.g = ref.g /\ c.w = ref.w
                      /\ (ref.st = c.st \/ NormSt(ref.g, ref.st) = NormSt(c.g, c.st))

(* rows that neither the oracle nor the emulator changed still agree *)
GridOK(ref, g, chg) ==
  \A y \in 1..s.rows : (y \notin chg /\ ref[y] = s.grid[y]) \/ \A x \in 1..s.cols : CellOK(ref[y][x], g[y][x])

BadCells(ref, g, R, C) == {p \in (1..R) \X (1..C) : ~CellOK(ref[p[1]][p[2]], g[p[1]][p[2]])}
FirstOf(b) == CHOOSE p \in b : \A q \in b : p[1] < q[1] \/ (p[1] = q[1] /\ p[2] <= q[2])

(* The observation as an oracle-shaped record. *)
ObsOf(e, g) ==
  [r |-> e.o.r + 1, c |-> e.o.c + 1, pw |-> e.o.lc, pen |-> PenOf(e.o.pen, 1),
   top |-> e.o.top + 1, bot |-> e.o.bot + 1, alt |-> e.o.alt,
   saved |-> <<SavedOf(e.o.sp), SavedOf(e.o.sa)>>, grid |-> g]

DimsOK(e) == e.o.h = s.rows /\ e.o.ws = <<s.cols>>

(* First component in which observation O differs from outcome o ("" = none) *)
Diff(o, O, chg) ==
  IF ~GridOK(o.s.grid, O.grid, chg) THEN "grid"
  ELSE IF O.r # o.s.r THEN "row"
  ELSE IF O.c \notin o.cs THEN "col"
  ELSE IF ~o.pwf /\ O.pw # o.s.pw THEN "pw"
  ELSE IF O.pw /\ O.c # s.cols THEN "pw"
  ELSE IF O.pen # o.s.pen THEN "pen"
  ELSE IF O.top # o.s.top \/ O.bot # o.s.bot THEN "margins"
  ELSE IF O.alt # o.s.alt THEN "screen"
  ELSE IF O.saved # o.s.saved THEN "saved"
  ELSE ""

Learn(ref, g) ==
  [y \in 1..s.rows |->
     IF \A x \in 1..s.cols : ref[y][x].k # "x" THEN ref[y]
     ELSE [x \in 1..s.cols |->
             IF ref[y][x].k = "x" /\ g[y][x].k = "g" /\ g[y][x].w = 1
             THEN Glyph(g[y][x].g, 1, g[y][x].st, 0) ELSE ref[y][x]]]

Settle(o, O) == [o.s EXCEPT !.c = O.c, !.pw = (IF o.pwf THEN O.pw ELSE o.s.pw), !.grid = Learn(o.s.grid, O.grid)]

(* adoption of an unconstrained step *)
Import(g) ==
  [y \in 1..s.rows |-> Heal([x \in 1..s.cols |->
     LET cl == g[y][x] IN
     IF cl.k = "g" THEN Glyph(cl.g, cl.w, cl.st, IF cl.w = 2 THEN s.ser + y * s.cols + x ELSE 0)
     ELSE Cont(s.ser + y * s.cols + x - 1)], s.cols)]
AdoptDiff(O) ==
  IF O.r \notin 1..s.rows THEN "row"
  ELSE IF O.c \notin 1..s.cols THEN "col"
  ELSE IF O.pw /\ O.c # s.cols THEN "pw"
  ELSE IF O.pen # s.pen THEN "pen"
  ELSE IF O.top # s.top \/ O.bot # s.bot THEN "margins"
  ELSE IF O.alt # s.alt THEN "screen"
  ELSE IF O.saved # s.saved THEN "saved"
  ELSE ""
Adopt(O) == [s EXCEPT !.grid = Import(O.grid), !.r = O.r, !.c = O.c, !.pw = O.pw,
                      !.ser = @ + (s.rows + 1) * s.cols + 1]

Cls(e) == IF "cls" \in DOMAIN e THEN e.cls ELSE ""
Reject(e, why, det) ==
  PrintT("REJECT " \o ToJson([scn |-> e.scn, line |-> l, why |-> why, op |-> e.op, cls |-> Cls(e), det |-> det]))

Init == l = 1 /\ s = InitVT(1, 1) /\ sh = ShownBlank(1, 1) /\ failed = FALSE

StepOp(e) ==
  IF ~DimsOK(e) THEN
     /\ Reject(e, "dims", <<e.o.h, e.o.ws>>) /\ failed' = TRUE /\ UNCHANGED <<s, sh>>
  ELSE IF ~WidthsOK(e.o.rows, s.cols) THEN
     /\ Reject(e, "width", <<>>) /\ failed' = TRUE /\ UNCHANGED <<s, sh>>
  ELSE
  /\ sh' = ApplyDelta(sh, e.o.rows, s.cols)
  /\ LET O   == ObsOf(e, sh')
         chg == Changed(e.o.rows)
     IN
     IF s.pw /\ Kind(e.op) = "C" THEN
        LET d == AdoptDiff(O) IN
        IF d = "" THEN s' = Adopt(O) /\ UNCHANGED failed
        ELSE /\ Reject(e, "pending-wrap:" \o d, <<>>) /\ failed' = TRUE /\ UNCHANGED s
     ELSE
        LET cands == Outcomes(s, e)
            good  == {o \in cands : Diff(o, O, chg) = ""}
        IN IF good # {} THEN
              /\ s' = Settle(CHOOSE o \in good : TRUE, O) /\ UNCHANGED failed
           ELSE
              LET o == CHOOSE o \in cands : \A o2 \in cands : Cardinality(BadCells(o.s.grid, O.grid, s.rows, s.cols))
                                                              <= Cardinality(BadCells(o2.s.grid, O.grid, s.rows, s.cols))
                  d == Diff(o, O, chg)
                  b == BadCells(o.s.grid, O.grid, s.rows, s.cols)
                  want == [r |-> o.s.r, c |-> o.s.c, pw |-> o.s.pw, pen |-> o.s.pen, top |-> o.s.top,
                           bot |-> o.s.bot, alt |-> o.s.alt, saved |-> o.s.saved]
                  got  == [r |-> O.r, c |-> O.c, pw |-> O.pw, pen |-> O.pen, top |-> O.top,
                           bot |-> O.bot, alt |-> O.alt, saved |-> O.saved]
                  f(x) == CASE d = "row" -> <<x.r>> [] d = "col" -> <<x.c>> [] d = "pw" -> <<x.c, x.pw>>
                            [] d = "pen" -> <<x.pen>> [] d = "margins" -> <<x.top, x.bot>>
                            [] d = "screen" -> <<x.alt>> [] OTHER -> <<x.saved>>
                  det == IF d = "grid" THEN LET p == FirstOf(b) IN
                                            [cell |-> p, want |-> o.s.grid[p[1]][p[2]], got |-> O.grid[p[1]][p[2]], n |-> Cardinality(b),
                                             cur |-> <<s.r, s.c, s.pw>>, mar |-> <<s.top, s.bot>>]
                         ELSE [want |-> f(want), got |-> f(got), cur |-> <<s.r, s.c, s.pw>>, mar |-> <<s.top, s.bot>>]
              IN /\ Reject(e, d, det) /\ failed' = TRUE /\ UNCHANGED s

Next ==
  /\ l <= Len(Trace)
  /\ l' = l + 1
  /\ LET e == Trace[l] IN
     IF e.ev = "reset" THEN
        /\ s' = InitVT(e.rows, e.cols) /\ sh' = ShownBlank(e.rows, e.cols) /\ failed' = FALSE
     ELSE IF failed THEN UNCHANGED <<s, sh, failed>>
     ELSE IF e.ev = "panic" THEN
        /\ Reject(e, "panic", <<>>) /\ failed' = TRUE /\ UNCHANGED <<s, sh>>
     ELSE StepOp(e)

Spec == Init /\ [][Next]_vars

Consumed == TLCGet("stats").diameter - 1 = Len(Trace)
=============================================================================
