CONSTANTS
  MaxLen = 3
  Cap = 2
  AllowClose = TRUE
  EmitUnlocked = FALSE
  StallFire = FALSE
  FixedTimer = TRUE
  Split = TRUE
  PeekStop = TRUE
  WireGaps = FALSE
  CutStop = FALSE
SPECIFICATION Spec
INVARIANT CloseStops
CHECK_DEADLOCK TRUE
