CONSTANTS
  MaxLen = 3
  Cap = 2
  AllowClose = TRUE
  StallFire = FALSE
  FixedTimer = FALSE
SPECIFICATION Spec
INVARIANT NoPanic
CHECK_DEADLOCK TRUE
