CONSTANTS
  MaxLen = 3
  Cap = 2
  AllowClose = TRUE
  FixedTimer = FALSE
SPECIFICATION Spec
INVARIANT NoPanic
CHECK_DEADLOCK TRUE
