CONSTANTS
  MaxLen = 4
  Cap = 2
  AllowClose = TRUE
  StallFire = TRUE
  FixedTimer = TRUE
SPECIFICATION GSpec
INVARIANT EmitSched
CHECK_DEADLOCK FALSE
