CONSTANTS
  MaxLen = 3
  Cap = 2
  AllowClose = TRUE
  StallFire = FALSE
  FixedTimer = FALSE
SPECIFICATION Spec
INVARIANTS NoPanic NoStateClobber ExactlyOneEOFLast TimingExact
CHECK_DEADLOCK TRUE
