CONSTANTS
  MaxLen = 3
  Cap = 2
  AllowClose = TRUE
  EmitUnlocked = FALSE
  StallFire = TRUE
  FixedTimer = TRUE
  Split = TRUE
  PeekStop = TRUE
  WireGaps = FALSE
  CutStop = TRUE
SPECIFICATION Spec
\* TimingExact presupposes a run loop that is never descheduled for longer than the ESC delay
INVARIANTS NoPanic NoStateClobber ExactlyOneEOFLast CloseStops
CHECK_DEADLOCK TRUE
