CONSTANT MaxLen = 5
SPECIFICATION Spec
INVARIANTS TypeOK CanResets GroundQuiet
PROPERTIES AppendOnly CsiCarriesOnlyItsOwn
CHECK_DEADLOCK FALSE
