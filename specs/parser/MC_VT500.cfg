CONSTANT MaxLen = 4
SPECIFICATION Spec
INVARIANTS TypeOK CanResets GroundQuiet
PROPERTIES AppendOnly CsiCarriesOnlyItsOwn StSuppressedOnlyAtStringEnd
CHECK_DEADLOCK FALSE
