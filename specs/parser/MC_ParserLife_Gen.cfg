CONSTANTS
  MaxLen = 4
  Cap = 2
  AllowClose = TRUE
  FixedTimer = FALSE
SPECIFICATION GSpec
INVARIANT EmitSched
CHECK_DEADLOCK FALSE
