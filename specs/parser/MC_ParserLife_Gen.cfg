CONSTANTS
  MaxLen = 4
  Cap = 2
  AllowClose = TRUE
  EmitUnlocked = FALSE
  StallFire = FALSE
  FixedTimer = FALSE
  Split = FALSE
  PeekStop = FALSE
  WireGaps = FALSE
  CutStop = FALSE
SPECIFICATION GSpec
INVARIANT EmitSched
CHECK_DEADLOCK FALSE
