-------------------------- MODULE ParserLifeInput --------------------------
(* Oracle side of C08's input: scalars, the Gap pseudo-symbol of VT500       *)
(* ("silence longer than the Escape-key delay" between two scalars) and      *)
(* GapInside: such a silence that began when some but not all bytes of a     *)
(* scalar had arrived.  The property: "an ESC promptly followed by further   *)
(* bytes is never reported as Escape".  Whatever was received before a       *)
(* GapInside has been followed by a byte without silence, so there is no     *)
(* lone ESC for that silence to turn into a key press: it changes nothing    *)
(* and the scalar it interrupted counts as one symbol.  Wire(in) is the      *)
(* input as VT500 prescribes for it.                                         *)
EXTENDS VT500
GapInside == -4
Wire(in) == SelectSeq(in, LAMBDA x : x # GapInside)
=============================================================================
