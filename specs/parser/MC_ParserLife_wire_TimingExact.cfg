CONSTANTS
  MaxLen = 3
  Cap = 1
  AllowClose = FALSE
  EmitUnlocked = FALSE
  StallFire = FALSE
  FixedTimer = TRUE
  Split = FALSE
  PeekStop = TRUE
  WireGaps = TRUE
  CutStop = TRUE
SPECIFICATION Spec
INVARIANT TimingExact
CHECK_DEADLOCK TRUE
