CONSTANTS
  MaxLen = 3
  Cap = 2
  AllowClose = TRUE
  StallFire = TRUE
  FixedTimer = TRUE
SPECIFICATION GSpec
INVARIANT GoalLateAfterEOF
CHECK_DEADLOCK FALSE
