------------------------- MODULE ParserLife_Trace -------------------------
(* Verdict layer for C08.  One "run" event per executed scenario (plain or  *)
(* gate-scheduled from a ParserLife behaviour).  The monitors mention no    *)
(* implementation detail:                                                   *)
(*   panic      no goroutine of the parser panicked (process survived);     *)
(*   hang       the channel was closed within the watchdog bound;           *)
(*   end-marker exactly one end-of-input marker, as the last item, then     *)
(*              closure;                                                    *)
(*   retention  deep copies taken on delivery equal the retained originals  *)
(*              at the end (consumer never handed anything back);           *)
(*   timing     the delivered items are what the VT500 oracle prescribes    *)
(*              for the input with the Gap pseudo-symbol at every realised  *)
(*              long gap: a lone ESC + silence = exactly one Escape and     *)
(*              parsing resumes from ground; ESC + prompt bytes = never     *)
(*              Escape.  Not applied when Close was requested early.        *)
(*              The logged input marks a silence that fell between the      *)
(*              bytes of one scalar as GapInside: bytes had followed        *)
(*              promptly, it decides nothing (ParserLifeInput).             *)
(*   close      Close requested while the parser waits for input, then the  *)
(*              reader returning: that stops it.  stopRets = calls of the   *)
(*              reader that returned after Close until the channel was      *)
(*              closed (-1 = not measured): one is enough, whatever that    *)
(*              return delivered ("for all read chunkings").                *)
(* A scenario whose schedule the code could not follow (drift) is skipped   *)
(* and counted; it is a model-conformance matter, not a verdict.            *)
EXTENDS ParserLifeInput, TLC, Json, IOUtils

Trace == ndJsonDeserialize(IOEnv.TRACE)
VARIABLES l
Init == l = 1

EofCount(items) == LET F[k \in 0..Len(items)] == IF k = 0 THEN 0 ELSE F[k-1] + (IF items[k].t = "eof" THEN 1 ELSE 0)
                   IN F[Len(items)]

Accepts(e) == \E p \in RunSet({Init0}, Wire(e.in)) : Match(Explode(e.items, <<>>), p.out)
(* the delivered items are those of the oracle once the spurious ESC \ after an empty OSC (the   *)
(* recorded C02 finding, pinned by the repository's own test) is tolerated at its markers          *)
AcceptsK(e) == \E p \in RunSet({Init0}, Wire(e.in)) : MatchK(Explode(e.items, <<>>), p.out)

Why(e) ==
  IF e.drift # "" THEN "drift"
  ELSE IF e.panic # "" THEN "panic"
  ELSE IF e.hang # "" THEN "hang"
  ELSE IF ~e.closed \/ EofCount(e.items) # 1 THEN "end-marker"
  ELSE IF ~e.kept THEN "retention"
  ELSE IF e.stopRets > 1 THEN "close-not-stopping"
  ELSE IF ~e.early /\ ~e.ambig /\ Constrained({Init0}, Wire(e.in)) /\ ~Accepts(e) THEN "timing"
  ELSE "ok"

Next ==
  /\ l <= Len(Trace)
  /\ l' = l + 1
  /\ LET e == Trace[l] IN
     IF e.ev = "run" THEN
        LET w == Why(e) IN
        IF w = "ok" THEN TRUE
        ELSE IF w = "drift" THEN PrintT("DRIFT " \o ToJson([scn |-> e.scn, what |-> e.drift]))
        ELSE PrintT("REJECT " \o ToJson([scn |-> e.scn, line |-> l, why |-> w, detail |-> e.panic \o e.hang, rets |-> e.stopRets,
                      known |-> IF w = "timing" /\ AcceptsK(e) THEN "spurious-ESC-backslash:after-empty-osc" ELSE "",
                      at |-> IF w = "timing" THEN Diverge(Explode(e.items, <<>>), Run(Init0, Wire(e.in)).out, "") ELSE <<>>]))
     ELSE TRUE

Spec == Init /\ [][Next]_<<l>>
Consumed == TLCGet("stats").diameter - 1 = Len(Trace)
=============================================================================
