------------------------------- MODULE VT500 -------------------------------
(* Oracle for C02: Paul Flo Williams' DEC-compatible parser                  *)
(* (https://vt100.net/emu/dec_ansi_parser), transcribed from the published   *)
(* state table, plus the library's documented extensions, each a named       *)
(* definition:                                                               *)
(*   Ext_Colon      3A is a parameter character (sub-parameters)             *)
(*   Ext_SS3        ESC O introduces a single-character SS3 sequence         *)
(*   Ext_Apc        APC strings carry a payload which is delivered           *)
(*   Ext_BelOsc     BEL terminates an OSC string                             *)
(*   Ext_SuppressST the ESC \ that ends a control string is not delivered    *)
(*   Ext_AltBs      ESC 7F is dispatched (Alt+Backspace)                     *)
(* and the deliberate deviations:                                            *)
(*   Dev_NoC1       input is UTF-8: there are no 8-bit C1 controls           *)
(*   Dev_NonAscii   a scalar >= 80 inside an escape/control sequence cancels *)
(*                  it; whether that scalar is then printed is not           *)
(*                  constrained ("maybe" item).  In the header of a device   *)
(*                  control string it may instead be ignored, be taken as    *)
(*                  the final character, or make the string an ignored one   *)
(*                  (FeedSet follows every one of these consistently)        *)
(* Input symbols are Unicode scalar values (a raw invalid byte b is the      *)
(* symbol b with the raw flag, which the parser cannot distinguish).         *)
(* The parser is a functional core: Feed(p, x) is the transition function.   *)
EXTENDS Integers, Sequences

In(x, lo, hi) == x >= lo /\ x <= hi
IsC0Exec(x) == In(x, 0, 23) \/ x = 25 \/ In(x, 28, 31)     \* 00-17, 19, 1C-1F

Item(t)        == [t |-> t]
PrintI(v)      == [t |-> "print", v |-> v]
OptI(alts)     == [t |-> "opt", alts |-> alts]     \* zero or one item, any of alts: unconstrained
MaybeI(v)      == OptI(<<PrintI(v)>>)
C0I(v)         == [t |-> "c0", v |-> v]
EscI(i, f)     == [t |-> "esc", i |-> i, f |-> f]
CsiI(i, ps, f) == [t |-> "csi", i |-> i, p |-> ps, f |-> f]
Ss3I(v)        == [t |-> "ss3", v |-> v]
OscI(d)        == [t |-> "osc", d |-> d]
DcsI(i, ps, f, d) == [t |-> "dcs", i |-> i, p |-> ps, f |-> f, d |-> d]
ApcI(d)        == [t |-> "apc", d |-> d]

Init0 == [st |-> "ground", inter |-> <<>>, pbuf |-> <<>>, osc |-> <<>>,
          dcs |-> [i |-> <<>>, p |-> <<>>, f |-> 0, d |-> <<>>], apc |-> <<>>,
          sup |-> "no", lone |-> FALSE, ctx |-> "", out |-> <<>>]

Emit(p, it) == [p EXCEPT !.out = Append(@, it)]

(* ---- parameter strings -------------------------------------------------- *)
(* pbuf is the raw sequence of parameter characters (digits, ';', ':').      *)
(* Split at ';' into parameters, each split at ':' into sub-parameters; an   *)
(* empty value is 0.                                                         *)
(* A value is its sequence of decimal digits without leading zeros (<<0>> for *)
(* zero or an empty value): TLC integers have 32 bits, digit sequences are     *)
(* exact whatever the size.  Values of 19 digits and more (beyond a 64-bit     *)
(* integer) are outside the prescribed range: Huge, which matches anything.    *)
Huge == <<-2>>
RECURSIVE Strip0(_)
Strip0(s) == IF s # <<>> /\ Head(s) = 48 THEN Strip0(Tail(s)) ELSE s
NumOf(s, acc) == LET d == Strip0(s) IN
                 IF d = <<>> THEN <<0>>
                 ELSE IF Len(d) > 18 THEN Huge
                 ELSE [i \in 1..Len(d) |-> d[i] - 48]

RECURSIVE SplitAt(_, _, _, _)
SplitAt(s, sep, cur, acc) ==
  IF s = <<>> THEN Append(acc, cur)
  ELSE IF Head(s) = sep THEN SplitAt(Tail(s), sep, <<>>, Append(acc, cur))
  ELSE SplitAt(Tail(s), sep, Append(cur, Head(s)), acc)

CsiParams(pbuf) ==
  IF pbuf = <<>> THEN <<>>
  ELSE LET ps == SplitAt(pbuf, 59, <<>>, <<>>) IN
       [k \in 1..Len(ps) |-> LET subs == SplitAt(ps[k], 58, <<>>, <<>>) IN
                             [j \in 1..Len(subs) |-> NumOf(subs[j], 0)]]
DcsParams(pbuf) ==
  IF pbuf = <<>> THEN <<>>
  ELSE LET ps == SplitAt(pbuf, 59, <<>>, <<>>) IN [k \in 1..Len(ps) |-> NumOf(ps[k], 0)]

(* ---- actions of the state table ------------------------------------------ *)
Clear(p)      == [p EXCEPT !.inter = <<>>, !.pbuf = <<>>]
Collect(p, x) == [p EXCEPT !.inter = Append(@, x)]
Param(p, x)   == [p EXCEPT !.pbuf = Append(@, x)]
EscDispatch(p, x) == Emit(p, EscI(p.inter, x))
CsiDispatch(p, x) == Emit(p, CsiI(p.inter, CsiParams(p.pbuf), x))
Hook(p, x)    == [p EXCEPT !.dcs = [i |-> p.inter, p |-> DcsParams(p.pbuf), f |-> x, d |-> <<>>]]
Put(p, x)     == [p EXCEPT !.dcs.d = Append(@, x)]
Unhook(p)     == Emit(p, DcsI(p.dcs.i, p.dcs.p, p.dcs.f, p.dcs.d))
OscPut(p, x)  == [p EXCEPT !.osc = Append(@, x)]
OscEnd(p)     == [Emit(p, OscI(p.osc)) EXCEPT !.osc = <<>>]
ApcPut(p, x)  == [p EXCEPT !.apc = Append(@, x)]
ApcEnd(p)     == [Emit(p, ApcI(p.apc)) EXCEPT !.apc = <<>>]

StringStates == {"osc", "dcsPass", "dcsIgnore", "sosPm", "apc"}
DcsHeadStates == {"dcsEntry", "dcsParam", "dcsInter"}

(* Exit action of the state being left. *)
Exit(p) == CASE p.st = "osc"     -> OscEnd(p)
             [] p.st = "dcsPass" -> Unhook(p)
             [] p.st = "apc"     -> ApcEnd(p)          \* Ext_Apc
             [] OTHER            -> p

To(p, st) == [p EXCEPT !.st = st]
(* Enter a string state: the ST that will end it is to be suppressed. *)
ToStr(p, st) == [p EXCEPT !.st = st, !.sup = "yes"]

(* ---- per-state transition functions -------------------------------------- *)
Ground(p, x) == IF IsC0Exec(x) THEN Emit(p, C0I(x)) ELSE Emit(p, PrintI(x))

(* A non-ASCII scalar where the table has no entry: the sequence is          *)
(* cancelled; the scalar itself is a "maybe" print (Dev_NonAscii).           *)
Cancel(p, x) == To(Emit(p, MaybeI(x)), "ground")

(* Ext_SuppressST, "suppression of the ST that ends a string": a control     *)
(* string is ended by the ESC that arrives while it is being received; when  *)
(* the very next character is "\" the two are the string's terminator and    *)
(* are not delivered.  sup is meaningful in the escape state only and says   *)
(* whether the ESC that led there ended a string ("yes"), cut a device       *)
(* control string short in its header, where no string had begun yet         *)
(* ("either": both readings are accepted), or neither ("no").  Every other   *)
(* ESC \ - after a string that was ended by BEL, CAN, SUB, after a cancelled *)
(* sequence, after a second ESC - is a complete escape sequence of its own   *)
(* and is delivered.                                                         *)
(* ctx is diagnosis only: the situation the next ESC \ finds itself in, put  *)
(* into the prescription as a marker (matches nothing) before that ESC \.    *)
Escape(p0, x) ==
  LET p == [p0 EXCEPT !.sup = "no", !.ctx = ""] IN   \* whatever else happens, the suppression window closes
  IF IsC0Exec(x) THEN                         \* C0 executes, still in escape; whether a following
     [Emit(p0, C0I(x)) EXCEPT !.sup = IF p0.sup = "no" THEN "no" ELSE "either"]   \* "\" is still "the ST" is not prescribed
  ELSE IF In(x, 32, 47) THEN To(Collect(p, x), "escInter")
  ELSE IF x = 79 THEN To(p, "ss3")                          \* Ext_SS3
  ELSE IF x = 80 THEN To(Clear(p), "dcsEntry")
  ELSE IF x = 88 \/ x = 94 THEN ToStr(p, "sosPm")
  ELSE IF x = 95 THEN ToStr(p, "apc")                       \* Ext_Apc
  ELSE IF x = 91 THEN To(Clear(p), "csiEntry")
  ELSE IF x = 93 THEN ToStr(p, "osc")
  ELSE IF x = 92 THEN
       IF p0.sup = "yes" THEN To(p, "ground")                \* Ext_SuppressST
       ELSE IF p0.sup = "either" THEN To(Emit(p, OptI(<<EscI(p.inter, x)>>)), "ground")
       ELSE LET q == IF p0.ctx = "" THEN p ELSE Emit(p, [t |-> "mark", tag |-> p0.ctx])
            IN To(EscDispatch(q, x), "ground")
  ELSE IF In(x, 48, 126) \/ x = 127 THEN To(EscDispatch(p, x), "ground")   \* 7F: Ext_AltBs
  ELSE Cancel(p, x)

EscInter(p, x) ==
  CASE IsC0Exec(x)    -> Emit(p, C0I(x))
    [] In(x, 32, 47)  -> Collect(p, x)
    [] x = 127        -> p
    [] In(x, 48, 126) -> To(EscDispatch(p, x), "ground")
    [] OTHER          -> Cancel(p, x)

Ss3(p, x) ==
  CASE IsC0Exec(x) -> Emit(p, C0I(x))
    [] x = 127     -> p
    [] x < 128     -> To(Emit(p, Ss3I(x)), "ground")
    [] OTHER       -> To(Emit(p, OptI(<<Ss3I(x), PrintI(x)>>)), "ground")   \* single shift of a non-ASCII scalar: not prescribed

IsParamChar(x) == In(x, 48, 57) \/ x = 59 \/ x = 58      \* Ext_Colon adds 3A

CsiEntry(p, x) ==
  CASE IsC0Exec(x)    -> Emit(p, C0I(x))
    [] x = 127        -> p
    [] IsParamChar(x) -> To(Param(p, x), "csiParam")
    [] In(x, 60, 63)  -> To(Collect(p, x), "csiParam")
    [] In(x, 32, 47)  -> To(Collect(p, x), "csiInter")
    [] In(x, 64, 126) -> To(CsiDispatch(p, x), "ground")
    [] OTHER          -> Cancel(p, x)

CsiParam(p, x) ==
  CASE IsC0Exec(x)    -> Emit(p, C0I(x))
    [] x = 127        -> p
    [] IsParamChar(x) -> Param(p, x)
    [] In(x, 60, 63)  -> To(p, "csiIgnore")
    [] In(x, 32, 47)  -> To(Collect(p, x), "csiInter")
    [] In(x, 64, 126) -> To(CsiDispatch(p, x), "ground")
    [] OTHER          -> Cancel(p, x)

CsiInter(p, x) ==
  CASE IsC0Exec(x)    -> Emit(p, C0I(x))
    [] x = 127        -> p
    [] In(x, 32, 47)  -> Collect(p, x)
    [] In(x, 48, 63)  -> To(p, "csiIgnore")
    [] In(x, 64, 126) -> To(CsiDispatch(p, x), "ground")
    [] OTHER          -> Cancel(p, x)

CsiIgnore(p, x) ==
  IF IsC0Exec(x) THEN Emit(p, C0I(x))
  ELSE IF In(x, 64, 126) THEN To(p, "ground")
  ELSE IF x < 128 THEN p
  ELSE Cancel(p, x)

(* A non-ASCII scalar in the header of a device control string: no standard  *)
(* has an entry.  The function follows "the sequence is cancelled"; FeedSet  *)
(* adds the other consistent readings.  Whichever is taken, it is taken for  *)
(* good: once cancelled no string is pending and a later ESC \ is a sequence *)
(* of its own.                                                               *)
CancelDcs(p, x) == [Cancel(p, x) EXCEPT !.ctx = "after-abandoned-dcs-header"]
DcsHeadAlts(p, x) == {CancelDcs(p, x),                       \* cancelled
                      p,                                      \* ignored, still in the header
                      ToStr(p, "dcsIgnore"),                  \* the string is malformed: ignored up to its end
                      ToStr(Hook(p, x), "dcsPass")}           \* taken as the final character

DcsEntry(p, x) ==
  CASE IsC0Exec(x) \/ x = 127 -> p
    [] In(x, 32, 47)  -> To(Collect(p, x), "dcsInter")
    [] x = 58         -> ToStr(p, "dcsIgnore")
    [] In(x, 48, 57) \/ x = 59 -> To(Param(p, x), "dcsParam")
    [] In(x, 60, 63)  -> To(Collect(p, x), "dcsParam")
    [] In(x, 64, 126) -> ToStr(Hook(p, x), "dcsPass")
    [] OTHER          -> CancelDcs(p, x)

DcsParam(p, x) ==
  CASE IsC0Exec(x) \/ x = 127 -> p
    [] In(x, 48, 57) \/ x = 59 -> Param(p, x)
    [] x = 58 \/ In(x, 60, 63) -> ToStr(p, "dcsIgnore")
    [] In(x, 32, 47)  -> To(Collect(p, x), "dcsInter")
    [] In(x, 64, 126) -> ToStr(Hook(p, x), "dcsPass")
    [] OTHER          -> CancelDcs(p, x)

DcsInter(p, x) ==
  CASE IsC0Exec(x) \/ x = 127 -> p
    [] In(x, 32, 47)  -> Collect(p, x)
    [] In(x, 48, 63)  -> ToStr(p, "dcsIgnore")
    [] In(x, 64, 126) -> ToStr(Hook(p, x), "dcsPass")
    [] OTHER          -> CancelDcs(p, x)

DcsPass(p, x) == IF x = 127 THEN p ELSE Put(p, x)       \* C0, 20-7E and UTF-8 data are passed through
DcsIgnore(p, x) == p
SosPm(p, x) == p
Apc(p, x) == IF IsC0Exec(x) THEN p ELSE ApcPut(p, x)
Osc(p, x) ==
  IF x = 7 THEN To(OscEnd(p), "ground")               \* Ext_BelOsc
  ELSE IF IsC0Exec(x) THEN p
  ELSE OscPut(p, x)

(* "anywhere" transitions, then the current state's function.                *)
(* ("unconstrained" is no longer entered: a non-ASCII scalar in a DCS header *)
(* is followed relationally, see DcsHeadAlts.)                               *)
(* Gap: the pseudo-symbol "silence longer than the Escape-key delay".  Only  *)
(* a lone ESC (nothing received since it) is affected: it is reported as the *)
(* Escape key and parsing resumes from ground (C08).                         *)
Gap == -3

Feed0(p, x) ==
  IF x = 24 \/ x = 26 THEN [To(Emit(Exit(p), C0I(x)), "ground") EXCEPT !.sup = "no", !.ctx = ""]
  ELSE IF x = 27 THEN
     LET q0 == Exit(p)
         \* diagnostic marker (matches nothing): the ESC that ends an OSC whose payload is empty
         q  == IF p.st = "osc" /\ p.osc = <<>> THEN Emit(q0, [t |-> "mark", tag |-> "after-empty-osc"]) ELSE q0
     IN
     [Clear(q) EXCEPT !.st = "escape",
                      !.sup = IF p.st \in StringStates THEN "yes"
                              ELSE IF p.st \in DcsHeadStates \cup {"unconstrained"} THEN "either"
                              ELSE "no",        \* in particular ESC ESC \ after a string: the first ESC ended the
                                                \* string and was itself cancelled, the second begins a sequence of its own
                      !.ctx = IF p.st = "escape" /\ p.sup # "no" THEN "esc-esc-after-string" ELSE p.ctx]
  ELSE CASE p.st = "ground"    -> Ground(p, x)
         [] p.st = "escape"    -> Escape(p, x)
         [] p.st = "escInter"  -> EscInter(p, x)
         [] p.st = "ss3"       -> Ss3(p, x)
         [] p.st = "csiEntry"  -> CsiEntry(p, x)
         [] p.st = "csiParam"  -> CsiParam(p, x)
         [] p.st = "csiInter"  -> CsiInter(p, x)
         [] p.st = "csiIgnore" -> CsiIgnore(p, x)
         [] p.st = "dcsEntry"  -> DcsEntry(p, x)
         [] p.st = "dcsParam"  -> DcsParam(p, x)
         [] p.st = "dcsInter"  -> DcsInter(p, x)
         [] p.st = "dcsPass"   -> DcsPass(p, x)
         [] p.st = "dcsIgnore" -> DcsIgnore(p, x)
         [] p.st = "sosPm"     -> SosPm(p, x)
         [] p.st = "apc"       -> Apc(p, x)
         [] p.st = "osc"       -> Osc(p, x)
         [] p.st = "unconstrained" -> p

Feed(p, x) ==
  IF x = Gap THEN (IF p.st = "escape" /\ p.lone
                   THEN [Emit(p, C0I(27)) EXCEPT !.st = "ground", !.sup = "no", !.lone = FALSE]
                   ELSE p)
  ELSE [Feed0(p, x) EXCEPT !.lone = (x = 27)]

(* End of input: a pending string is unterminated; whether its handler is    *)
(* "finished neatly" is not prescribed, so its item is optional.             *)
AtEof(p) ==
  LET q == Exit([p EXCEPT !.out = <<>>]) IN
  [p EXCEPT !.out = p.out \o [k \in 1..Len(q.out) |-> OptI(<<q.out[k]>>)] \o <<Item("eof")>>,
            !.st = "done"]

(* The prescription is a relation: where the standards leave several         *)
(* behaviours open that lead to different parser states, all are followed.   *)
(* The places: a non-ASCII scalar while a malformed control sequence is      *)
(* being ignored may be ignored like the rest or may cancel the sequence; a  *)
(* non-ASCII scalar in the header of a device control string (DcsHeadAlts).  *)
FeedSet(p, x) == IF p.st = "csiIgnore" /\ x >= 128 THEN {p, Cancel(p, x)}
                 ELSE IF p.st \in DcsHeadStates /\ x >= 128 THEN {[q EXCEPT !.lone = FALSE] : q \in DcsHeadAlts(p, x)}
                 ELSE {Feed(p, x)}

RECURSIVE RunSet(_, _)
RunSet(S, xs) == IF xs = <<>> THEN {AtEof(p) : p \in S}
                 ELSE RunSet(UNION {FeedSet(p, Head(xs)) : p \in S}, Tail(xs))

RECURSIVE Run(_, _)
Run(p, xs) == IF xs = <<>> THEN AtEof(p) ELSE Run(Feed(p, Head(xs)), Tail(xs))

(* ---- comparing delivered items with the prescription ---------------------- *)
(* Delivered Print items carry a sequence of scalars (one cluster or a piece *)
(* of one); they are exploded to one print per scalar before matching.       *)
RECURSIVE Explode(_, _)
Explode(items, acc) ==
  IF items = <<>> THEN acc
  ELSE LET it == Head(items) IN
       Explode(Tail(items),
               IF it.t = "print" THEN acc \o [k \in 1..Len(it.s) |-> PrintI(it.s[k])] ELSE Append(acc, it))

(* The first 16 parameters are prescribed; more than 16 may be dropped.      *)
ValEq(got, want) == want = Huge \/ got = want
SubsEq(got, want) == Len(got) = Len(want) /\ \A j \in 1..Len(want) : ValEq(got[j], want[j])
CsiEq(got, want) ==
  /\ got.t = "csi" /\ got.i = want.i /\ got.f = want.f
  /\ IF Len(want.p) <= 16 THEN Len(got.p) = Len(want.p) /\ \A k \in 1..Len(want.p) : SubsEq(got.p[k], want.p[k])
     ELSE /\ Len(got.p) >= 16 /\ Len(got.p) <= Len(want.p)
          /\ \A k \in 1..Len(got.p) : SubsEq(got.p[k], want.p[k])

HasHuge(ps) == \E k \in 1..Len(ps) : ps[k] = Huge
(* A device control string carries every one of its parameters: as many as   *)
(* were sent, each with its exact value.  A value outside the prescribed     *)
(* range (Huge) leaves THAT value open and nothing else: the parameters      *)
(* beside it are as exact as in any other sequence.                          *)
DcsParamsEq(got, want) == Len(got) = Len(want) /\ \A k \in 1..Len(want) : ValEq(got[k], want[k])
DcsEq(got, want) ==
  /\ got.t = "dcs" /\ got.i = want.i /\ got.f = want.f /\ got.d = want.d
  /\ DcsParamsEq(got.p, want.p)

(* Error values.  The parser may report, beside the sequences, a character   *)
(* for which the state table has no entry (Dev_NonAscii).  The table has an  *)
(* entry for every character 00-7F in every state: an input made of those    *)
(* only is well-formed or handled by the table's own ignore states, and is   *)
(* delivered as its sequences and nothing else.                              *)
TableCoversAll(xs) == \A k \in 1..Len(xs) : xs[k] = Gap \/ In(xs[k], 0, 127)

ItemEq(got, want) == IF want.t = "csi" THEN CsiEq(got, want)
                     ELSE IF want.t = "dcs" THEN DcsEq(got, want)
                     ELSE got = want

AnyEq(got, alts) == \E k \in 1..Len(alts) : ItemEq(got, alts[k])

RECURSIVE Match(_, _)
Match(got, want) ==
  IF want = <<>> THEN got = <<>>
  ELSE LET w == Head(want) IN
       IF w.t = "mark" THEN Match(got, Tail(want))
       ELSE IF w.t = "opt" THEN
            \/ (got # <<>> /\ AnyEq(Head(got), w.alts) /\ Match(Tail(got), Tail(want)))
            \/ Match(got, Tail(want))
       ELSE got # <<>> /\ ItemEq(Head(got), w) /\ Match(Tail(got), Tail(want))

(* Diagnosis of the recorded finding "the ESC \ that ends an OSC with an empty payload is  *)
(* delivered as well": Match, except that one ESC \ item is tolerated at each marker.  A   *)
(* rejected run that MatchK accepts differs from the prescription by nothing else.         *)
RECURSIVE MatchK(_, _)
MatchK(got, want) ==
  IF want = <<>> THEN got = <<>>
  ELSE LET w == Head(want) IN
       IF w.t = "mark" THEN
            \/ (w.tag = "after-empty-osc" /\ got # <<>> /\ Head(got) = EscI(<<>>, 92) /\ MatchK(Tail(got), Tail(want)))
            \/ MatchK(got, Tail(want))
       ELSE IF w.t = "opt" THEN
            \/ (got # <<>> /\ AnyEq(Head(got), w.alts) /\ MatchK(Tail(got), Tail(want)))
            \/ MatchK(got, Tail(want))
       ELSE got # <<>> /\ ItemEq(Head(got), w) /\ MatchK(Tail(got), Tail(want))

(* First point of divergence (greedy), for the rejection report:            *)
(* <<prescribed item or "end", delivered item or "end", marker just passed>>. *)
RECURSIVE Diverge(_, _, _)
Diverge(got, want, mark) ==
  IF want = <<>> THEN (IF got = <<>> THEN <<"none", "none", mark>> ELSE <<"end", Head(got), mark>>)
  ELSE LET w == Head(want) IN
       IF w.t = "mark" THEN Diverge(got, Tail(want), w.tag)
       ELSE IF w.t = "opt" THEN
          IF got # <<>> /\ AnyEq(Head(got), w.alts) THEN Diverge(Tail(got), Tail(want), "") ELSE Diverge(got, Tail(want), mark)
       ELSE IF got = <<>> THEN <<w, "end", mark>>
       ELSE IF ItemEq(Head(got), w) THEN Diverge(Tail(got), Tail(want), "")
       ELSE <<w, Head(got), mark>>

(* How many delivered items the greedy comparison gets through before it     *)
(* diverges.  Where the prescription is a relation the rejection report      *)
(* follows the alternative the delivery agrees with longest (BestOut).       *)
RECURSIVE Depth(_, _, _)
Depth(got, want, n) ==
  IF want = <<>> \/ got = <<>> THEN n
  ELSE LET w == Head(want) IN
       IF w.t = "mark" THEN Depth(got, Tail(want), n)
       ELSE IF w.t = "opt" THEN
          IF AnyEq(Head(got), w.alts) THEN Depth(Tail(got), Tail(want), n + 1) ELSE Depth(got, Tail(want), n)
       ELSE IF ItemEq(Head(got), w) THEN Depth(Tail(got), Tail(want), n + 1)
       ELSE n
BestOut(got, xs) ==
  LET S == {p.out : p \in RunSet({Init0}, xs)} IN
  CHOOSE o \in S : \A o2 \in S : Depth(got, o2, 0) <= Depth(got, o, 0)

(* Kept for the trace specifications that call it: "unconstrained" is no     *)
(* longer entered, so every input is constrained.                            *)
RECURSIVE Constrained(_, _)
Constrained(S, xs) == IF xs = <<>> THEN TRUE
                      ELSE LET T == UNION {FeedSet(p, Head(xs)) : p \in S} IN
                           (\A q \in T : q.st # "unconstrained") /\ Constrained(T, Tail(xs))
=============================================================================
