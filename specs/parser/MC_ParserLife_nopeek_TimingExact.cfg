CONSTANTS
  MaxLen = 3
  Cap = 2
  AllowClose = FALSE
  EmitUnlocked = FALSE
  StallFire = FALSE
  FixedTimer = TRUE
  Split = TRUE
  PeekStop = FALSE
  WireGaps = FALSE
  CutStop = FALSE
SPECIFICATION Spec
INVARIANT TimingExact
CHECK_DEADLOCK TRUE
