---------------------------- MODULE ParserLife ----------------------------
(* Implementation-shaped model of the parser's concurrency (C08):          *)
(*   Run    - the run loop: check close; read a symbol (stopping the ESC    *)
(*            timer); under the mutex apply the transition, arm the timer   *)
(*            on ESC and send what is dispatched; at end of input stop the  *)
(*            timer, send the end marker, close the channel;                *)
(*   Timer  - the ESC time-out callback, three separate steps as in the     *)
(*            code: send the Escape key; take the mutex; set the state to   *)
(*            ground;                                                       *)
(*   Cons   - the consumer, receiving at any speed;                         *)
(*   Source - delivers the input; every symbol is preceded by a short or a  *)
(*            long gap; a long gap means the armed timer has expired;       *)
(*   Closer - may request Close at any moment.                              *)
(* The output channel has Go semantics: capacity Cap, FIFO queue of blocked *)
(* senders, a sender blocked on (or sending to) a closed channel panics.    *)
(* The oracle the model is compared with is VT500 with the Gap pseudo-      *)
(* symbol: for an input with gaps it prescribes the delivered items.        *)
(* One process per ESC occurrence models the timers (the callback of an     *)
(* earlier ESC may still be running when a later ESC arms a new timer).     *)
(* The input is a sequence of BYTES.  With Split the two-byte scalar U+00E9 *)
(* (bytes C3 A9) may occur, each byte with its own arrival gap: the run     *)
(* loop reads whole scalars, so after the lead byte alone it waits for the  *)
(* trail byte.  PeekStop tells when the ESC timer is stopped: FALSE (as     *)
(* found) once the whole scalar has been read, TRUE (repaired) as soon as   *)
(* one byte is there.  WireGaps lets silence on the wire elapse while the   *)
(* run loop is held up by the consumer (blocked in a send) with unread      *)
(* input: the shape of the recorded finding "ESC timer counts from when the *)
(* ESC is handled, not from when it arrived".                               *)
(* returned: the reader has returned since Close was requested; CloseStops:  *)
(* from then on the run loop does not wait in a further read.  CutStop tells *)
(* what a run loop does that finds only part of a scalar: FALSE (as found)   *)
(* it waits for the rest whatever happens, TRUE (repaired) it does not wait  *)
(* once Close has been requested: the lead byte is a symbol of its own.      *)
EXTENDS ParserLifeInput, TLC

CONSTANTS MaxLen,        \* input length bound
          Cap,           \* channel capacity (2 in the code)
          AllowClose,    \* TRUE: the Closer may act
          EmitUnlocked,  \* TRUE (negative control): the repaired callback releases the mutex while it sends
          StallFire,     \* TRUE: the run loop may be descheduled at the top of its loop for longer than the
                         \* ESC delay, so the timer of a pending ESC can fire there too (not only during silence)
          FixedTimer,    \* TRUE: model of the repaired callback (whole callback under the mutex, owner check)
          Split,         \* TRUE: the input may contain the two-byte scalar (lead byte, trail byte)
          PeekStop,      \* TRUE: the ESC timer is stopped as soon as one byte is available (repaired readRune)
          WireGaps,      \* TRUE: a long gap may elapse on the wire while the run loop is blocked in a send
          CutStop        \* TRUE: no waiting for the rest of a scalar once Close has been requested (repaired readRune)

Lead == 195              \* C3 A9 = U+00E9
Trail == 169
Scalar2 == 233
Syms == IF Split THEN {27, 91, 65, Lead, Trail} ELSE {27, 91, 65}     \* ESC, "[", "A" (and the two bytes)
Gaps == {"short", "long"}

VARIABLES inp,      \* the input: sequence of [c, gap]; chosen in Init
          eofGap,   \* gap before end of input
          avail,    \* symbols made available by the Source so far (Len(inp)+1 = EOF delivered)
          rd,       \* symbols consumed by the run loop
          rpc,      \* run loop program counter
          sym,      \* symbol being processed by the run loop
          st,       \* parser state function: "ground" | "escape" | "csi"  (abstraction of stateFn)
          owner,    \* index of the ESC whose escape state is current (0 = none)
          mu,       \* 0 free, -1 run loop, k > 0 timer k
          tm,       \* tm[k] for k in 1..MaxLen: timer armed by the ESC at input index k
          last,     \* index of the timer p.escTimeout points to (0 = nil)
          buf, sendq, closed, panic,
          got,      \* items received by the consumer
          closeReq,
          returned, \* Close has been requested and the reader has returned since
          clobber,  \* set when a callback resets a state it does not own
          pend,     \* repaired code: the last character handled was an ESC not yet reported (escPending)
          expired,  \* repaired code: the timer had run out when the last character was read (escExpired)
          finished  \* repaired code: the run loop is done with the input

vars == <<inp, eofGap, avail, rd, rpc, sym, st, owner, mu, tm, last, buf, sendq, closed, panic, got, closeReq, returned, clobber, pend, expired, finished>>

(* well-formed UTF-8: a lead byte is followed by its trail byte, a trail byte follows a lead byte *)
WellFormed(s) ==
  \A i \in 1..Len(s) :
     /\ ((s[i].c = Lead) => (i < Len(s) /\ s[i + 1].c = Trail))
     /\ ((s[i].c = Trail) => (i > 1 /\ s[i - 1].c = Lead))
Inputs == {s \in UNION {[1..n -> [c : Syms, gap : Gaps]] : n \in 0..MaxLen} : WellFormed(s)}

Init ==
  /\ inp \in Inputs /\ eofGap \in Gaps
  /\ avail = 0 /\ rd = 0 /\ rpc = "top" /\ sym = 0
  /\ st = "ground" /\ owner = 0 /\ mu = 0
  /\ tm = [k \in 1..MaxLen |-> "idle"] /\ last = 0
  /\ buf = <<>> /\ sendq = <<>> /\ closed = FALSE /\ panic = FALSE
  /\ got = <<>> /\ closeReq = FALSE /\ returned = FALSE /\ clobber = FALSE
  /\ pend = FALSE /\ expired = FALSE /\ finished = FALSE

EOFSYM == -1
N == Len(inp)

(* ---- channel ------------------------------------------------------------ *)
(* who: -1 run loop, k timer.  Returns TRUE in `done` when the send finished *)
(* immediately; otherwise the sender is queued.                              *)
SendNow(it) == Len(buf) < Cap /\ sendq = <<>>
DoSend(who, it) ==
  IF closed THEN panic' = TRUE /\ UNCHANGED <<buf, sendq>>
  ELSE IF SendNow(it) THEN buf' = Append(buf, it) /\ UNCHANGED <<sendq, panic>>
  ELSE sendq' = Append(sendq, [who |-> who, it |-> it]) /\ UNCHANGED <<buf, panic>>
Blocked(who) == \E i \in 1..Len(sendq) : sendq[i].who = who

(* ---- Source --------------------------------------------------------------- *)
NextGap == IF avail < N THEN inp[avail + 1].gap ELSE eofGap
(* The run loop reads whole scalars: Need(i) input positions starting at i   *)
(* (position N+1 is the end of input).  It waits while the next scalar is    *)
(* not completely there; "fetch" = waiting for the rest after PeekStop's     *)
(* look at the first byte.                                                   *)
Need(i) == IF i <= N /\ inp[i].c = Lead THEN 2 ELSE 1
CanRead == rd + Need(rd + 1) <= avail
(* Waiting: the run loop is blocked in its read (the look at the first byte  *)
(* of PeekStop is a prompt step, not a wait).                                *)
Waiting == /\ ~CanRead
           /\ \/ rpc = "fetch"
              \/ rpc = "read" /\ (rd = avail \/ ~PeekStop)
(* A timer that is armed while the run loop waits for input expires during a *)
(* long gap: the Source may only end a long gap once it has fired.           *)
TimerPending == Waiting /\ last > 0 /\ tm[last] = "armed"
Deliver ==
  /\ avail <= N
  /\ WireGaps \/ ~CanRead              \* one scalar in flight at a time (reads are prompt)
  /\ NextGap = "long" => ~TimerPending
  \* a long gap: the parser has caught up and is waiting, or (WireGaps) it is held up by the consumer
  /\ NextGap = "long" => (Waiting \/ (WireGaps /\ Blocked(-1)))
  /\ avail' = avail + 1
  \* a delivery is a return of the reader when silence preceded it (or nothing at all): what follows a short gap came
  \* with the same return
  /\ returned' = (returned \/ (closeReq /\ (avail = 0 \/ NextGap = "long")))
  /\ UNCHANGED <<inp, eofGap, rd, rpc, sym, st, owner, mu, tm, last, buf, sendq, closed, panic, got, closeReq, clobber, pend, expired, finished>>

(* ---- run loop ------------------------------------------------------------- *)
RTop ==
  /\ rpc = "top"
  /\ rpc' = IF closeReq THEN "exit" ELSE "read"
  /\ UNCHANGED <<inp, eofGap, avail, rd, sym, st, owner, mu, tm, last, buf, sendq, closed, panic, got, closeReq, returned, clobber, pend, expired, finished>>

StopLast(t) == IF last > 0 /\ t[last] = "armed" THEN [t EXCEPT ![last] = "stopped"] ELSE t

(* Repaired readRune only: one byte of the next scalar is there, not all of  *)
(* it.  The timer is stopped now; the run loop goes on waiting for the rest. *)
RPeek ==
  /\ PeekStop /\ rpc = "read" /\ rd < avail /\ ~CanRead
  /\ expired' = (last > 0 /\ tm[last] # "armed")
  /\ tm' = StopLast(tm)
  /\ IF CutStop /\ closeReq
     THEN rd' = rd + 1 /\ sym' = Lead /\ rpc' = "lock"     \* no waiting once Close has been requested: the byte as it is
     ELSE rpc' = "fetch" /\ UNCHANGED <<rd, sym>>
  /\ UNCHANGED <<inp, eofGap, avail, st, owner, mu, last, buf, sendq, closed, panic, got, closeReq, returned, clobber, pend, finished>>

RRead ==
  /\ rpc \in {"read", "fetch"} /\ CanRead
  /\ rd' = rd + Need(rd + 1)
  /\ sym' = IF rd + 1 > N THEN EOFSYM ELSE IF inp[rd + 1].c = Lead THEN Scalar2 ELSE inp[rd + 1].c
  /\ IF rpc = "fetch" THEN UNCHANGED <<expired, tm>>   \* the timer was dealt with when the first byte arrived
     ELSE /\ expired' = (last > 0 /\ tm[last] # "armed")      \* Stop() reports whether the timer was still pending
          /\ tm' = StopLast(tm)                 \* readRune: escTimeout.Stop()
  /\ rpc' = "lock"
  /\ UNCHANGED <<inp, eofGap, avail, st, owner, mu, last, buf, sendq, closed, panic, got, closeReq, returned, clobber, pend, finished>>

(* Item dispatched by the transition, or "none". *)
Dispatch(s, c) ==
  CASE s = "ground" /\ c # 27 -> PrintI(c)
    [] s = "escape" /\ c = 65 -> EscI(<<>>, 65)
    [] s = "escape" /\ c = Scalar2 -> PrintI(c)      \* a non-ASCII scalar ends the sequence and is printed
    [] s = "csi"    /\ c \notin {27, Scalar2} -> CsiI(<<>>, <<>>, c)    \* (inside a control sequence it is dropped)
    [] OTHER -> [t |-> "none"]
NextSt(s, c) ==
  CASE c = 27 -> "escape"
    [] s = "escape" /\ c = 91 -> "csi"
    [] OTHER -> "ground"

(* Repaired code only: the timer of the pending ESC ran out before this      *)
(* character was read but its callback has not run: the run loop reports the *)
(* key press itself, then handles the character from ground.                 *)
RHand ==
  /\ FixedTimer /\ rpc = "lock" /\ mu = 0 /\ pend /\ expired
  /\ mu' = -1 /\ rpc' = "hand" /\ pend' = FALSE
  /\ st' = "ground" /\ owner' = 0
  /\ DoSend(-1, C0I(27))
  /\ UNCHANGED <<inp, eofGap, avail, rd, sym, tm, last, closed, got, closeReq, returned, clobber, expired, finished>>

(* Apply the transition for sym (mutex held or taken here). *)
RLock ==
  /\ \/ (rpc = "lock" /\ mu = 0 /\ ~(FixedTimer /\ pend /\ expired))
     \/ (rpc = "hand" /\ ~Blocked(-1) /\ ~panic)
  /\ IF sym = EOFSYM THEN
        /\ rpc' = "exit" /\ mu' = 0 /\ pend' = FALSE
        /\ UNCHANGED <<st, owner, tm, last, buf, sendq, panic>>
     ELSE
        /\ st' = NextSt(st, sym)
        /\ owner' = IF sym = 27 THEN rd ELSE IF NextSt(st, sym) = "ground" THEN 0 ELSE owner
        /\ pend' = (sym = 27)
        /\ IF sym = 27 THEN tm' = [tm EXCEPT ![rd] = "armed"] /\ last' = rd
           ELSE UNCHANGED <<tm, last>>
        /\ LET it == Dispatch(st, sym) IN
           IF it.t = "none" THEN rpc' = "top" /\ mu' = 0 /\ UNCHANGED <<buf, sendq, panic>>
           ELSE /\ mu' = -1 /\ rpc' = "sent"          \* emit while holding the mutex
                /\ DoSend(-1, it)
  /\ UNCHANGED <<inp, eofGap, avail, rd, sym, closed, got, closeReq, returned, clobber, expired, finished>>

RSent ==                                   \* the send completed: unlock
  /\ rpc = "sent" /\ ~Blocked(-1) /\ ~panic
  /\ mu' = 0 /\ rpc' = "top"
  /\ UNCHANGED <<inp, eofGap, avail, rd, sym, st, owner, tm, last, buf, sendq, closed, panic, got, closeReq, returned, clobber, pend, expired, finished>>

RExit ==                                   \* after the loop: stop the timer, send the end marker
  /\ rpc = "exit" /\ (FixedTimer => mu = 0)  \* the repaired code marks the end under the mutex
  /\ tm' = StopLast(tm)
  /\ finished' = TRUE
  /\ rpc' = "eofsent"
  /\ DoSend(-1, Item("eof"))
  /\ UNCHANGED <<inp, eofGap, avail, rd, sym, st, owner, mu, last, closed, got, closeReq, returned, clobber, pend, expired>>

RClose ==
  /\ rpc = "eofsent" /\ ~Blocked(-1) /\ ~panic
  /\ closed' = TRUE
  /\ panic' = (sendq # <<>>)               \* senders blocked on a channel being closed panic
  /\ rpc' = "done"
  /\ UNCHANGED <<inp, eofGap, avail, rd, sym, st, owner, mu, tm, last, buf, sendq, got, closeReq, returned, clobber, pend, expired, finished>>

(* ---- timer callback (as in the code) --------------------------------------- *)
TFire(k) ==
  /\ tm[k] = "armed" /\ k = last
  /\ \/ Waiting /\ NextGap = "long"                     \* silence: the delay elapses
     \/ StallFire /\ rpc = "top"                          \* ... or the run loop stalls before its next iteration
  /\ tm' = [tm EXCEPT ![k] = "fired"]
  /\ UNCHANGED <<inp, eofGap, avail, rd, rpc, sym, st, owner, mu, last, buf, sendq, closed, panic, got, closeReq, returned, clobber, pend, expired, finished>>

TSend(k) ==
  /\ ~FixedTimer /\ tm[k] = "fired"
  /\ tm' = [tm EXCEPT ![k] = "sending"]
  /\ DoSend(k, C0I(27))
  /\ UNCHANGED <<inp, eofGap, avail, rd, rpc, sym, st, owner, mu, last, closed, got, closeReq, returned, clobber, pend, expired, finished>>

TLock(k) ==
  /\ ~FixedTimer /\ tm[k] = "sending" /\ ~Blocked(k) /\ ~panic /\ mu = 0
  /\ mu' = k /\ tm' = [tm EXCEPT ![k] = "locked"]
  /\ UNCHANGED <<inp, eofGap, avail, rd, rpc, sym, st, owner, last, buf, sendq, closed, panic, got, closeReq, returned, clobber, pend, expired, finished>>

TSet(k) ==
  /\ ~FixedTimer /\ tm[k] = "locked"
  /\ clobber' = (clobber \/ ~(st = "escape" /\ owner = k))
  /\ st' = "ground" /\ owner' = 0 /\ mu' = 0
  /\ tm' = [tm EXCEPT ![k] = "done"]
  /\ UNCHANGED <<inp, eofGap, avail, rd, rpc, sym, last, buf, sendq, closed, panic, got, closeReq, returned, pend, expired, finished>>

(* ---- repaired callback: everything under the mutex, only for its own ESC --- *)
FLock(k) ==
  /\ FixedTimer /\ tm[k] = "fired" /\ mu = 0
  /\ IF pend /\ last = k /\ ~finished
     THEN /\ mu' = (IF EmitUnlocked THEN 0 ELSE k) /\ pend' = FALSE /\ tm' = [tm EXCEPT ![k] = "sending"] /\ DoSend(k, C0I(27))
     ELSE /\ tm' = [tm EXCEPT ![k] = "done"] /\ UNCHANGED <<mu, pend, buf, sendq, panic>>
  /\ UNCHANGED <<inp, eofGap, avail, rd, rpc, sym, st, owner, last, closed, got, closeReq, returned, clobber, expired, finished>>
FSet(k) ==
  /\ FixedTimer /\ tm[k] = "sending" /\ ~Blocked(k) /\ ~panic
  /\ EmitUnlocked => mu = 0             \* it takes the mutex again before resetting the state
  /\ clobber' = (clobber \/ ~(st = "escape" /\ owner = k))
  /\ st' = "ground" /\ owner' = 0 /\ mu' = 0 /\ tm' = [tm EXCEPT ![k] = "done"]
  /\ UNCHANGED <<inp, eofGap, avail, rd, rpc, sym, last, buf, sendq, closed, panic, got, closeReq, returned, pend, expired, finished>>

(* ---- consumer, closer ------------------------------------------------------ *)
RecvStep ==
  /\ buf # <<>>
  /\ got' = Append(got, Head(buf))
  /\ IF sendq # <<>> THEN buf' = Append(Tail(buf), Head(sendq).it) /\ sendq' = Tail(sendq)
     ELSE buf' = Tail(buf) /\ UNCHANGED sendq
  /\ UNCHANGED <<inp, eofGap, avail, rd, rpc, sym, st, owner, mu, tm, last, closed, panic, closeReq, returned, clobber, pend, expired, finished>>

DoClose ==
  /\ AllowClose /\ ~closeReq /\ closeReq' = TRUE /\ returned' = FALSE
  /\ UNCHANGED <<inp, eofGap, avail, rd, rpc, sym, st, owner, mu, tm, last, buf, sendq, closed, panic, got, clobber, pend, expired, finished>>

Finished == rpc = "done" /\ buf = <<>> /\ \A k \in 1..MaxLen : tm[k] \in {"idle", "stopped", "done"}
Stutter == (Finished \/ panic) /\ UNCHANGED vars

Next == \/ Deliver \/ RTop \/ RPeek \/ RRead \/ RHand \/ RLock \/ RSent \/ RExit \/ RClose
        \/ \E k \in 1..MaxLen : TFire(k) \/ TSend(k) \/ TLock(k) \/ TSet(k) \/ FLock(k) \/ FSet(k)
        \/ RecvStep \/ DoClose \/ Stutter

Spec == Init /\ [][Next]_vars

(* ---- properties -------------------------------------------------------------- *)
NoPanic == ~panic                              \* no send on (or blocked on) a closed channel
NoStateClobber == ~clobber                     \* a callback only resets the escape state of its own ESC
All == got \o buf \o [i \in 1..Len(sendq) |-> sendq[i].it]
ExactlyOneEOFLast == closed /\ ~panic => (Len(All) > 0 /\ All[Len(All)].t = "eof" /\ \A i \in 1..(Len(All) - 1) : All[i].t # "eof")

(* "Close followed by the reader returning stops it": the run loop does not  *)
(* wait in a further read (one that only a later return can end) once Close  *)
(* has been requested and the reader has returned.                           *)
CloseStops == ~(returned /\ Waiting /\ NextGap = "long")

(* What the oracle prescribes for this input with its gaps (no Close).      *)
(* The oracle's symbols are scalars: the lead byte contributes the gap       *)
(* before it, the trail byte the scalar, preceded by GapInside when the      *)
(* silence fell between the two bytes.                                       *)
RECURSIVE WithGaps(_, _)
WithGaps(i, acc) ==
  IF i > N THEN (IF eofGap = "long" THEN Append(acc, Gap) ELSE acc)
  ELSE LET g == IF inp[i].gap = "long" THEN <<IF inp[i].c = Trail THEN GapInside ELSE Gap>> ELSE <<>>
           x == IF inp[i].c = Lead THEN <<>> ELSE IF inp[i].c = Trail THEN <<Scalar2>> ELSE <<inp[i].c>>
       IN WithGaps(i + 1, acc \o g \o x)
Expected == Run(Init0, Wire(WithGaps(1, <<>>))).out
(* When everything has been delivered and nobody closed early, the consumer *)
(* has received exactly the prescription (timing clauses of C08).           *)
TimingExact == (Finished /\ ~closeReq /\ ~panic) => Match(got, Expected)
=============================================================================
