CONSTANTS
  MaxLen = 3
  Cap = 2
  AllowClose = TRUE
  EmitUnlocked = FALSE
  StallFire = TRUE
  FixedTimer = TRUE
SPECIFICATION GSpec
INVARIANT GoalLateAfterClose
CHECK_DEADLOCK FALSE
