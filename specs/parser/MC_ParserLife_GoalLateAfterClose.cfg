CONSTANTS
  MaxLen = 3
  Cap = 2
  AllowClose = TRUE
  StallFire = TRUE
  FixedTimer = TRUE
SPECIFICATION GSpec
INVARIANT GoalLateAfterClose
CHECK_DEADLOCK FALSE
