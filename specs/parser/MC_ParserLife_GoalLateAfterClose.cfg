CONSTANTS
  MaxLen = 3
  Cap = 2
  AllowClose = TRUE
  EmitUnlocked = FALSE
  StallFire = TRUE
  FixedTimer = TRUE
  Split = FALSE
  PeekStop = TRUE
  WireGaps = FALSE
  CutStop = TRUE
SPECIFICATION GSpec
INVARIANT GoalLateAfterClose
CHECK_DEADLOCK FALSE
