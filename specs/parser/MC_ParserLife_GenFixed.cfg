CONSTANTS
  MaxLen = 4
  Cap = 2
  AllowClose = TRUE
  EmitUnlocked = FALSE
  StallFire = FALSE
  FixedTimer = TRUE
  Split = TRUE
  PeekStop = TRUE
  WireGaps = FALSE
  CutStop = TRUE
SPECIFICATION GSpec
INVARIANT EmitSched
CHECK_DEADLOCK FALSE
