CONSTANTS
  MaxLen = 3
  Cap = 2
  AllowClose = TRUE
  EmitUnlocked = FALSE
  StallFire = FALSE
  FixedTimer = TRUE
  Split = TRUE
  PeekStop = TRUE
  WireGaps = FALSE
  CutStop = TRUE
SPECIFICATION Spec
INVARIANTS NoPanic NoStateClobber ExactlyOneEOFLast TimingExact CloseStops
CHECK_DEADLOCK TRUE
