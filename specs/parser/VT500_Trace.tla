---------------------------- MODULE VT500_Trace ----------------------------
(* Trace validation for C02: one "run" event per scenario carries the input *)
(* (Unicode scalars, raw invalid bytes as their value) and the items the    *)
(* real parser delivered.  The oracle's prescription Run(Init0, in).out     *)
(* must match the delivered items (Match), every Print's width must equal   *)
(* the logged uniseg width of its grapheme, and for pure-text inputs the    *)
(* Print boundaries must be the grapheme-cluster boundaries (logged fact    *)
(* cb), except that a cluster may be split at a read boundary (rb).         *)
(* errs is the number of error values that arrived among the items: none is *)
(* allowed when every input character has a table entry (TableCoversAll).   *)
EXTENDS VT500, TLC, Json, IOUtils

Trace == ndJsonDeserialize(IOEnv.TRACE)

VARIABLES l
vars == <<l>>

Init == l = 1

WidthsOK(items) == \A k \in 1..Len(items) : items[k].t = "print" => items[k].w = items[k].uw

(* Boundaries after scalar index i (0 < i < n) between delivered prints. *)
RECURSIVE Ends(_, _, _)
Ends(items, pos, acc) ==
  IF items = <<>> THEN acc
  ELSE LET it == Head(items) IN
       IF it.t = "print" THEN Ends(Tail(items), pos + Len(it.s), acc \cup {pos + Len(it.s)})
       ELSE Ends(Tail(items), pos, acc)

ToSet(s) == {s[k] : k \in 1..Len(s)}
(* A boundary inside a cluster is allowed at a read boundary, and after one  *)
(* (once a cluster has been cut by a read, its remainder is segmented anew). *)
Anomalies(e) ==
  LET b  == Ends(e.items, 0, {}) \ {Len(e.in)}
      cb == ToSet(e.cb)
      rb == ToSet(e.rb)
      Start(x) == LET lower == {c \in cb : c < x} \cup {0} IN CHOOSE m \in lower : \A c \in lower : c <= m
  IN (cb \ b) \cup {x \in b \ cb : ~\E r \in rb : Start(x) < r /\ r <= x}

ClusterWhy(e) ==
  IF ~e.text \/ Anomalies(e) = {} THEN "ok"
  ELSE LET a     == Anomalies(e)
           first == CHOOSE m \in a : \A x \in a : m <= x
           b     == Ends(e.items, 0, {})
           cuts  == {r \in (ToSet(e.rb) \cap b) \ ToSet(e.cb) : r < first}
       IN IF cuts # {} THEN "cluster-resync-after-read-cut" ELSE "cluster"

Accepts(e) == \E p \in RunSet({Init0}, e.in) : Match(Explode(e.items, <<>>), p.out)
AcceptsK(e) == \E p \in RunSet({Init0}, e.in) : MatchK(Explode(e.items, <<>>), p.out)

Why(e) ==
  IF e.panic THEN "panic"
  ELSE IF ~e.closed THEN "no-eof-or-not-closed"
  ELSE IF ~Accepts(e) THEN "items"
  ELSE IF e.errs > 0 /\ TableCoversAll(e.in) THEN "error-value-for-table-covered-input"
  ELSE IF ~WidthsOK(e.items) THEN "width"
  ELSE ClusterWhy(e)

Next ==
  /\ l <= Len(Trace)
  /\ l' = l + 1
  /\ LET e == Trace[l] IN
     IF e.ev = "run" /\ Constrained({Init0}, e.in) THEN
        LET w == Why(e) IN
        IF w = "ok" THEN TRUE
        ELSE PrintT("REJECT " \o ToJson([scn |-> e.scn, line |-> l, why |-> w,
                                         known |-> IF w = "items" /\ AcceptsK(e) THEN "spurious-ESC-backslash:after-empty-osc" ELSE "",
                                         at |-> Diverge(Explode(e.items, <<>>), BestOut(Explode(e.items, <<>>), e.in), "")]))
     ELSE TRUE

Spec == Init /\ [][Next]_vars
Consumed == TLCGet("stats").diameter - 1 = Len(Trace)
=============================================================================
