CONSTANTS
  MaxLen = 3
  Cap = 2
  AllowClose = FALSE
  EmitUnlocked = TRUE
  StallFire = FALSE
  FixedTimer = TRUE
  Split = FALSE
  PeekStop = TRUE
  WireGaps = FALSE
  CutStop = TRUE
SPECIFICATION Spec
INVARIANTS NoPanic NoStateClobber ExactlyOneEOFLast TimingExact
CHECK_DEADLOCK TRUE
