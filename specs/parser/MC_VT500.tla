----------------------------- MODULE MC_VT500 -----------------------------
(* Exhaustive exploration of the VT500 oracle over one representative per   *)
(* byte class, all input strings up to MaxLen.  Sanity theorems: output is  *)
(* append-only; CAN/SUB always return to ground; in ground no string is     *)
(* pending; a control sequence that is dispatched carries exactly the       *)
(* intermediates and parameter characters received since its introducer     *)
(* (declarative characterisation, independent of the state table); an       *)
(* ESC \ is withheld exactly when its ESC ended a string state, is optional  *)
(* only when its ESC cut a DCS header short, and is delivered otherwise      *)
(* (StSuppressedOnlyAtStringEnd: no suppression outlives the character after *)
(* the ESC that ended the string).  The relational transitions (FeedSet) are *)
(* all explored.                                                             *)
EXTENDS VT500, TLC
CONSTANT MaxLen

Reps == {10, 7, 24, 27, 35, 49, 59, 58, 63, 65, 79, 80, 88, 91, 92, 93, 95, 109, 127, 233, 19990}

VARIABLES p, hist, prev      \* prev: the state the last symbol was received in
vars == <<p, hist, prev>>

Init == p = Init0 /\ hist = <<>> /\ prev = "ground"
Next == Len(hist) < MaxLen /\ \E x \in Reps : p' \in FeedSet(p, x) /\ hist' = Append(hist, x) /\ prev' = p.st
Spec == Init /\ [][Next]_vars

IsPrefixOf(a, b) == Len(a) <= Len(b) /\ \A k \in 1..Len(a) : a[k] = b[k]
AppendOnly == [][IsPrefixOf(p.out, p'.out)]_vars

CanResets == (hist # <<>> /\ hist[Len(hist)] = 24) => (p.st = "ground" /\ p.sup = "no")
GroundQuiet == p.st = "ground" => (p.osc = <<>> /\ p.apc = <<>>)

LastEsc(h) == IF \E k \in 1..Len(h) : h[k] = 27
              THEN CHOOSE k \in 1..Len(h) : h[k] = 27 /\ \A m \in (k+1)..Len(h) : h[m] # 27
              ELSE 0
Filter(s, T(_)) == LET F[k \in 0..Len(s)] == IF k = 0 THEN <<>> ELSE IF T(s[k]) THEN Append(F[k-1], s[k]) ELSE F[k-1]
                   IN F[Len(s)]
IsInter(x) == In(x, 32, 47) \/ In(x, 60, 63)
IsPar(x) == In(x, 48, 59)
Visible(x) == ~IsC0Exec(x) /\ x # 127
CsiCarriesOnlyItsOwn ==
  [][LET n == Len(p'.out)
         h == hist'
         e == LastEsc(hist')
     IN (n = Len(p.out) + 1 /\ p'.out[n].t = "csi") =>
        /\ e > 0
        /\ LET tl == Filter(SubSeq(h, e + 1, Len(h)), Visible) IN
           /\ Len(tl) >= 2 /\ tl[1] = 91
           /\ LET body == SubSeq(tl, 2, Len(tl) - 1) IN
              /\ p'.out[n].i = Filter(body, IsInter)
              /\ p'.out[n].p = CsiParams(Filter(body, IsPar))
              /\ p'.out[n].f = tl[Len(tl)]]_vars

StSuppressedOnlyAtStringEnd ==
  [][(Len(hist) >= 1 /\ hist[Len(hist)] = 27 /\ hist'[Len(hist')] = 92) =>
       LET n == Len(p'.out) IN
       IF prev \in StringStates THEN p'.out = p.out
       ELSE IF prev \in DcsHeadStates THEN TRUE
       ELSE n > Len(p.out) /\ p'.out[n] = EscI(<<>>, 92)]_vars

(* Sanity of the comparison of device control strings (constant level): a    *)
(* value beyond the prescribed range leaves that one value open, the values  *)
(* beside it and the number of parameters stay exact.                        *)
Nines20 == [k \in 1..20 |-> 57]
HugeHdr == <<49, 59>> \o Nines20 \o <<59, 51>>                 \* 1;99999999999999999999;3
WantDcs == DcsI(<<>>, DcsParams(HugeHdr), 113, <<35>>)
GotDcs(ps) == DcsI(<<>>, ps, 113, <<35>>)
ASSUME DcsParams(HugeHdr) = <<(<<1>>), Huge, (<<3>>)>>
ASSUME DcsEq(GotDcs(<<(<<1>>), Huge, (<<3>>)>>), WantDcs)            \* saturated (logged as Huge): accepted
ASSUME DcsEq(GotDcs(<<(<<1>>), (<<7>>), (<<3>>)>>), WantDcs)         \* the out-of-range value itself is open
ASSUME ~DcsEq(GotDcs(<<>>), WantDcs)                               \* all parameters lost
ASSUME ~DcsEq(GotDcs(<<(<<1>>), Huge>>), WantDcs)                   \* one parameter lost
ASSUME ~DcsEq(GotDcs(<<(<<1>>), Huge, (<<4>>)>>), WantDcs)          \* a neighbour altered
ASSUME ~DcsEq(GotDcs(<<(<<1>>), Huge, (<<3>>)>>), DcsI(<<>>, DcsParams(<<49, 59, 50, 59, 51>>), 113, <<35>>))
ASSUME TableCoversAll(<<27, 80, 49, 113, 27, 92, Gap>>) /\ ~TableCoversAll(<<27, 80, 233>>) /\ ~TableCoversAll(<<255>>)

States == {"ground", "escape", "escInter", "ss3", "csiEntry", "csiParam", "csiInter", "csiIgnore", "dcsEntry",
           "dcsParam", "dcsInter", "dcsPass", "dcsIgnore", "sosPm", "apc", "osc", "unconstrained"}
TypeOK == p.st \in States /\ p.sup \in {"no", "yes", "either"} /\ p.st # "unconstrained"
          /\ p.ctx \in {"", "after-abandoned-dcs-header", "esc-esc-after-string"}
=============================================================================
