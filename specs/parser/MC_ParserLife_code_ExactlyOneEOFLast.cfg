CONSTANTS
  MaxLen = 3
  Cap = 2
  AllowClose = TRUE
  EmitUnlocked = FALSE
  StallFire = FALSE
  FixedTimer = FALSE
SPECIFICATION Spec
INVARIANT ExactlyOneEOFLast
CHECK_DEADLOCK TRUE
