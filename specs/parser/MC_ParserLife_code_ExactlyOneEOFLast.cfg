CONSTANTS
  MaxLen = 3
  Cap = 2
  AllowClose = TRUE
  FixedTimer = FALSE
SPECIFICATION Spec
INVARIANT ExactlyOneEOFLast
CHECK_DEADLOCK TRUE
