CONSTANTS
  MaxLen = 3
  Cap = 2
  AllowClose = TRUE
  EmitUnlocked = FALSE
  StallFire = FALSE
  FixedTimer = FALSE
  Split = FALSE
  PeekStop = FALSE
  WireGaps = FALSE
  CutStop = FALSE
SPECIFICATION Spec
INVARIANT ExactlyOneEOFLast
CHECK_DEADLOCK TRUE
