CONSTANTS
  MaxLen = 3
  Cap = 2
  AllowClose = TRUE
  StallFire = FALSE
  FixedTimer = FALSE
SPECIFICATION Spec
INVARIANT ExactlyOneEOFLast
CHECK_DEADLOCK TRUE
