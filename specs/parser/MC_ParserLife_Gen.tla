-------------------------- MODULE MC_ParserLife_Gen --------------------------
(* Behaviour generation: ParserLife with a history variable holding the      *)
(* names of the actions taken; every completed random walk (tlc -simulate)   *)
(* prints its input and schedule as JSON for replay on the real parser.      *)
EXTENDS ParserLife, Json
VARIABLE hist
gvars == <<vars, hist>>

GInit == Init /\ hist = <<>>
Step(A, name) == A /\ hist' = Append(hist, name)
GNext ==
  \/ Step(Deliver, "Deliver") \/ Step(RTop, "RTop") \/ Step(RPeek, "RPeek") \/ Step(RRead, "RRead") \/ Step(RHand, "RHand") \/ Step(RLock, "RLock")
  \/ Step(RSent, "RSent") \/ Step(RExit, "RExit") \/ Step(RClose, "RClose")
  \/ \E k \in 1..MaxLen :
       \/ Step(TFire(k), "TFire:" \o ToString(k)) \/ Step(TSend(k), "TSend:" \o ToString(k))
       \/ Step(TLock(k), "TLock:" \o ToString(k)) \/ Step(TSet(k), "TSet:" \o ToString(k))
       \/ Step(FLock(k), "FLock:" \o ToString(k)) \/ Step(FSet(k), "FSet:" \o ToString(k))
  \/ Step(RecvStep, "RecvStep") \/ Step(DoClose, "DoClose")
GSpec == GInit /\ [][GNext]_gvars

(* Goal-directed generation (checked as invariants whose violation TLC reports with a shortest   *)
(* behaviour): a timer callback that is still parked when the run loop has sent the end marker   *)
(* and closed the channel - after Close (GoalLateAfterClose) or after end of input               *)
(* (GoalLateAfterEOF).  The behaviour plus the callback's remaining steps is replayed on the     *)
(* real parser: a callback that still emits there panics or delivers after the end marker.       *)
Parked == \E k \in 1..MaxLen : tm[k] = "fired"
GoalLateAfterClose == ~(closed /\ closeReq /\ Parked)
GoalLateAfterEOF == ~(closed /\ ~closeReq /\ Parked)
(* The run loop reads a printable character after the timer of the pending ESC has run out but   *)
(* before its callback has taken the mutex (RHand): it reports the key press itself and must      *)
(* handle the character from the ground state.  The shortest behaviour reaching that hand-over,   *)
(* followed by the character's handling and then the parked callback's steps, is replayed.        *)
(* The character comes after a long gap, so that the Escape key is due whatever the schedule (a   *)
(* timer that fires during a stall before a promptly following character is judged leniently).     *)
GoalExpiredByte == ~(rpc = "hand" /\ sym \in {91, 65} /\ rd \in DOMAIN inp /\ inp[rd].gap = "long")

EmitSched == (Finished \/ panic) =>
          PrintT("SCHED " \o ToJson([inp |-> inp, eofGap |-> eofGap, acts |-> hist, panic |-> panic, clobber |-> clobber]))
=============================================================================
