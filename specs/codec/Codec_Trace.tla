---------------------------- MODULE Codec_Trace ----------------------------
(* Trace validation for C18.  One scenario = one run of one producer        *)
(* (EncodeCells, StyledString.Encode, the renderer) on a cell sequence:     *)
(*   reset                       scenario start                             *)
(*   sgr seqs / g id / gs ids    the producer's output, lexed independently *)
(*                               (seqs: the parameter lists of consecutive  *)
(*                               SGR control sequences)                     *)
(*   osc8 ln                     a hyperlink control string in the output   *)
(*                               (ln = 0: empty URI)                        *)
(*   end  prod rt in dec pan     the cells given to the producer; what each *)
(*                               consumer (ParseStyledString,               *)
(*                               NewStyledString, emulator pen) read from   *)
(*                               the same string; panics observed           *)
(*        stall                  n > 0: ParseStyledString read the string   *)
(*                               while the goroutine it parses in was held  *)
(*                               up after the n-th ESC.  What a string      *)
(*                               means is a function of the string (Codec): *)
(*                               the field is documentation, the demand on  *)
(*                               dec is the same under every schedule       *)
(* or one run of the three consumers on an arbitrary parameter list:        *)
(*   fuzz ps pan                 must not panic                             *)
EXTENDS Codec, TLC, Json, IOUtils

Trace == ndJsonDeserialize(IOEnv.TRACE)

VARIABLES l, s, failed
vars == <<l, s, failed>>

Consumers == <<"parse", "nss", "emu">>

Reject(e, why, who, fld, at) ==
  /\ failed' = TRUE
  /\ PrintT("REJECT " \o ToJson([scn |-> e.scn, line |-> l, why |-> why, who |-> who, fld |-> fld, at |-> at]))

EndCheck(e) ==
  LET bad == {k \in 1..3 : Judged(s, e.prod, Consumers[k]) /\ ~Agrees(s, e.dec[Consumers[k]])} IN
  IF e.pan # "" THEN Reject(e, "panic", e.pan, <<>>, 0)
  ELSE IF ~Understood(s) THEN Reject(e, "illformed", e.prod, <<>>, 0)
  ELSE IF e.rt /\ ~RoundTrip(s, e.in)
       THEN Reject(e, "roundtrip", e.prod, DiffFields(s.cells, e.in), FirstDiff(s.cells, e.in))
  ELSE IF ~EndsReset(s) THEN Reject(e, "noreset", e.prod, IF PenReset(s) THEN <<"link">> ELSE <<>>, 0)
  ELSE IF bad # {}           \* one line per disagreeing consumer
       THEN /\ failed' = TRUE
            /\ \A k \in bad :
                 PrintT("REJECT " \o ToJson([scn |-> e.scn, line |-> l, why |-> "consumer", who |-> Consumers[k],
                                             fld |-> DiffFields(e.dec[Consumers[k]], s.cells),
                                             at |-> FirstDiff(e.dec[Consumers[k]], s.cells)]))
  ELSE UNCHANGED failed

Init == l = 1 /\ s = InitI /\ failed = FALSE

Next ==
  /\ l <= Len(Trace)
  /\ l' = l + 1
  /\ LET e == Trace[l] IN
     IF e.ev = "reset" THEN s' = InitI /\ failed' = FALSE
     ELSE IF failed THEN UNCHANGED <<s, failed>>
     ELSE IF e.ev = "sgr" THEN s' = StepSGRs(s, e.seqs, 1) /\ UNCHANGED failed
     ELSE IF e.ev = "g" THEN s' = StepG(s, e.g) /\ UNCHANGED failed
     ELSE IF e.ev = "gs" THEN s' = StepGs(s, e.gs) /\ UNCHANGED failed
     ELSE IF e.ev = "osc8" THEN s' = StepLink(s, e.ln) /\ UNCHANGED failed
     ELSE IF e.ev = "end" THEN UNCHANGED s /\ EndCheck(e)
     ELSE IF e.ev = "fuzz" THEN
        /\ s' = StepSGR(InitI, e.ps)     \* the oracle itself is total: evaluating it never fails
        /\ IF e.pan # "" THEN Reject(e, "panic", e.pan, <<>>, 0) ELSE UNCHANGED failed
     ELSE /\ UNCHANGED s
          /\ Reject(e, "unknown-event", e.ev, <<>>, 0)

Spec == Init /\ [][Next]_vars

Consumed == TLCGet("stats").diameter - 1 = Len(Trace)
=============================================================================
