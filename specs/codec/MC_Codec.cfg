CONSTANT Families <- QuickFamilies
SPECIFICATION Spec
INVARIANTS DeltaOK DeltaWF CloseOK Quiet LinkOK LinkCloseOK
CHECK_DEADLOCK FALSE
