------------------------------- MODULE Codec -------------------------------
(* Oracle for C18: what a string of SGR control sequences and graphemes     *)
(* means.  A token stream is interpreted left to right with SGR!Apply (the  *)
(* pen oracle of specs/term/SGR.tla, written from ECMA-48 / T.416 / xterm / *)
(* kitty): every grapheme is a cell carrying the pen in force when it is    *)
(* reached.  No implementation identifiers.                                 *)
(* Hyperlinks (the OSC 8 convention, "Hyperlinks in terminal emulators"):   *)
(* the control string OSC 8 ; params ; URI ST makes the following text a    *)
(* link to URI until the next such string; an empty URI ends the link;      *)
(* SGR does not touch it.  The stream carries them as `osc8 ln` (ln = 0:    *)
(* empty URI, otherwise an id of params and URI).                           *)
(*                                                                          *)
(* A cell is the tuple <<g, fg, bg, ul, us, at>> (grapheme id, colours in   *)
(* SGR's integer encoding, underline style, attribute mask).  The link a    *)
(* cell is under is not part of the cell: the property names graphemes,     *)
(* colours, attributes and underline, so a codec may keep or drop links.    *)
EXTENDS SGR

CellOf(g, pen) == <<g, pen.fg, pen.bg, pen.ul, pen.us, pen.at>>
FieldName == <<"g", "fg", "bg", "ul", "us", "at">>

(* Interpretation state: the pen, the cells seen so far, and whether every  *)
(* SGR sequence so far had a meaning fixed by the standard.                 *)
(* link: the hyperlink in force (0 none); linked: a hyperlink control       *)
(* string occurred.                                                         *)
InitI == [pen |-> DefaultPen, cells |-> <<>>, wf |-> TRUE, link |-> 0, linked |-> FALSE]
StepLink(s, ln) == [s EXCEPT !.link = ln, !.linked = TRUE]
StepSGR(s, ps) == [s EXCEPT !.pen = Apply(s.pen, ps), !.wf = s.wf /\ WellFormed(ps)]
RECURSIVE StepSGRs(_, _, _)         \* several control sequences written back to back
StepSGRs(s, seqs, i) == IF i > Len(seqs) THEN s ELSE StepSGRs(StepSGR(s, seqs[i]), seqs, i + 1)
StepG(s, g)    == [s EXCEPT !.cells = Append(s.cells, CellOf(g, s.pen))]
(* A run of graphemes: every one takes the pen in force. *)
StepGs(s, gs)  == [s EXCEPT !.cells = s.cells \o [i \in 1..Len(gs) |-> CellOf(gs[i], s.pen)]]

(* First position where two cell sequences differ (0 = equal) and the      *)
(* names of the differing fields there.                                     *)
MinLen(a, b) == IF Len(a) < Len(b) THEN Len(a) ELSE Len(b)
FirstDiff(a, b) ==
  LET d == {i \in 1..MinLen(a, b) : a[i] # b[i]} IN
  IF d # {} THEN CHOOSE i \in d : \A j \in d : i <= j
  ELSE IF Len(a) # Len(b) THEN MinLen(a, b) + 1 ELSE 0
DiffFields(a, b) ==
  LET i == FirstDiff(a, b) IN
  IF i = 0 THEN <<>>
  ELSE IF i > MinLen(a, b) THEN <<"len">>
  ELSE LET fs == {k \in 1..6 : a[i][k] # b[i][k]}
           first == CHOOSE k \in fs : \A j \in fs : k <= j
       IN <<FieldName[first]>>

(* The demands of the property on one producer run.                         *)
(*   s    interpretation of the producer's output                           *)
(*   in   the cells handed to the producer                                  *)
(*   rt   TRUE when the producer is lossless for these cells (round trip    *)
(*        demanded); FALSE for the renderer under a capability fallback     *)
Understood(s) == s.wf                    \* only forms whose meaning is fixed
(* Styles reset at the end: text written after the string is plain text --  *)
(* default pen and not part of a hyperlink.                                 *)
PenReset(s)   == s.pen = DefaultPen
LinkClosed(s) == s.link = 0
EndsReset(s)  == PenReset(s) /\ LinkClosed(s)
RoundTrip(s, in) == s.cells = in
(* A consumer's reading `got` of the same string agrees with the oracle.    *)
Agrees(s, got) == got = s.cells
(* Whose reading is demanded.  Strings of SGR sequences and graphemes: every *)
(* consumer's.  Strings that also contain hyperlink control strings (not SGR *)
(* sequences): the round trip of the producer's own parser only.             *)
Paired(prod) == CASE prod = "cells" -> {"parse"} [] prod = "ss" -> {"nss"} [] OTHER -> {}
Judged(s, prod, who) == ~s.linked \/ who \in Paired(prod)

PenOK(p) == /\ p.at \in 0..127 /\ p.us \in 0..5
            /\ \A c \in {p.fg, p.bg, p.ul} : c = 0 \/ c \in 1..256 \/ c \in RGBBase..(RGBBase + 16777215)
=============================================================================
