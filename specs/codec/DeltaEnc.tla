------------------------------ MODULE DeltaEnc ------------------------------
(* IMPLEMENTATION-SHAPED (not an oracle, produces no verdicts): a           *)
(* transcription of the incremental ("delta") SGR encoder that the library  *)
(* contains three times (cell encoder, styled-string encoder, renderer):    *)
(* given the style of the previous cell and of the next one it emits one    *)
(* SGR control sequence per changed channel, then the attribute bits turned *)
(* on, then those turned off -- where turning bold or dim off uses the      *)
(* shared reset 22 and re-asserts the other one if it must stay on.         *)
(* Each emitted control sequence is a parameter list in SGR.tla's shape.    *)
EXTENDS SGR

(* legacy = TRUE: 38/48 indexed and direct colours are spelt with semicolons *)
(* (the library's quirk for terminals without colon support).               *)

One(n) == <<<<n>>>>                      \* CSI n m

ColourSeq(c, base, ext, alwaysExt, colon) ==
  IF c = 0 THEN One(base + 9)
  ELSE IF c < RGBBase THEN
     LET n == c - 1 IN
     IF ~alwaysExt /\ n < 8 THEN One(base + n)
     ELSE IF ~alwaysExt /\ n < 16 THEN One(base + 60 + n - 8)
     ELSE IF colon THEN <<<<ext, 5, n>>>> ELSE <<<<ext>>, <<5>>, <<n>>>>
  ELSE LET v == c - RGBBase
           r == v \div 65536  g == (v \div 256) % 256  b == v % 256
       IN IF colon THEN <<<<ext, 2, r, g, b>>>> ELSE <<<<ext>>, <<2>>, <<r>>, <<g>>, <<b>>>>

Bits == <<Bold, Dim, Italic, Blink, Reverse, Invisible, Strike>>
SetCode == <<1, 2, 3, 5, 7, 8, 9>>
ClrCode == <<22, 22, 23, 25, 27, 28, 29>>

RECURSIVE OnSeqs(_, _, _)
OnSeqs(prev, next, k) ==
  IF k > 7 THEN <<>>
  ELSE (IF Has(next, Bits[k]) /\ ~Has(prev, Bits[k]) THEN <<One(SetCode[k])>> ELSE <<>>)
       \o OnSeqs(prev, next, k + 1)

RECURSIVE OffSeqs(_, _, _)
OffSeqs(prev, next, k) ==
  IF k > 7 THEN <<>>
  ELSE (IF Has(prev, Bits[k]) /\ ~Has(next, Bits[k])
        THEN <<One(ClrCode[k])>>
             \o (IF k = 1 /\ Has(next, Dim) THEN <<One(2)>> ELSE <<>>)
             \o (IF k = 2 /\ Has(next, Bold) THEN <<One(1)>> ELSE <<>>)
        ELSE <<>>)
       \o OffSeqs(prev, next, k + 1)

(* The control sequences emitted between a cell styled prev and one styled  *)
(* next (pens in SGR.tla's record shape).                                   *)
Delta(prev, next, legacy) ==
     (IF prev.fg # next.fg THEN <<ColourSeq(next.fg, 30, 38, FALSE, ~legacy)>> ELSE <<>>)
  \o (IF prev.bg # next.bg THEN <<ColourSeq(next.bg, 40, 48, FALSE, ~legacy)>> ELSE <<>>)
  \o (IF prev.ul # next.ul THEN <<ColourSeq(next.ul, 50, 58, TRUE, TRUE)>> ELSE <<>>)
  \o (IF prev.at # next.at THEN OnSeqs(prev.at, next.at, 1) \o OffSeqs(prev.at, next.at, 1) ELSE <<>>)
  \o (IF prev.us # next.us THEN <<<<<<4, next.us>>>>>> ELSE <<>>)

(* Closing sequence: CSI m unless the last style is the default one.        *)
Closing(last) == IF last = DefaultPen THEN <<>> ELSE <<<<>>>>

(* Hyperlinks (0 = none, n = a URI): a hyperlink control string is written  *)
(* where the link differs from the previous cell's, and the string closes   *)
(* a link left open by its last cell (transcribed with the proposed repair  *)
(* notes/proposed-fixes/c18-2; without it LinkClosing is <<>>).             *)
LinkDelta(prevL, nextL) == IF prevL # nextL THEN <<nextL>> ELSE <<>>
LinkClosing(lastL) == IF lastL # 0 THEN <<0>> ELSE <<>>
(* What a sequence of hyperlink control strings leaves in force.            *)
LinkAfter(l, seq) == IF Len(seq) = 0 THEN l ELSE seq[Len(seq)]

RECURSIVE ApplyAll(_, _, _)
ApplyAll(pen, seqs, i) == IF i > Len(seqs) THEN pen ELSE ApplyAll(Apply(pen, seqs[i]), seqs, i + 1)
=============================================================================
