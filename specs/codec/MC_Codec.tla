------------------------------ MODULE MC_Codec ------------------------------
(* Exhaustive bounded model for C18.                                        *)
(* (1) The delta encoder (DeltaEnc, implementation-shaped) composed with    *)
(*     the SGR oracle: for EVERY ordered pair of styles from each bounded   *)
(*     style family, interpreting Delta(prev, next) from pen prev yields    *)
(*     next, every emitted sequence is well-formed, nothing is emitted for  *)
(*     an unchanged style, and the closing sequence yields the default pen. *)
(* (2) Oracle sanity theorems (ASSUME): totality on arbitrary parameter     *)
(*     lists incl. truncated extended colours, equivalence of colon and     *)
(*     semicolon forms, the shared reset of bold and dim.                   *)
EXTENDS DeltaEnc, TLC, FiniteSets

CONSTANT Families      \* set of [legacy, at, fg, bg, ul, us, ln]: style families whose pairs are explored

AllAttrs == 0..127
Classes1 == {0, 4, 13, 201, 16843009}         \* default, 0-7, 8-15, 16-255, direct: one of each class
Classes2 == {0, 1, 16, 17, 33554431}          \* ... class boundaries
Classes3 == {0, 8, 9, 256, 16777216}

Fam(lg, at, fg, bg, ul, us) == [legacy |-> lg, at |-> at, fg |-> fg, bg |-> bg, ul |-> ul, us |-> us, ln |-> {0}]
(* hyperlink pairs (none, two URIs) beside style changes *)
LinkFam == [Fam(FALSE, {0, 1, 3}, {0, 4, 16843009}, {0}, {0}, {0, 3}) EXCEPT !.ln = {0, 1, 2}]
QuickFamilies == {
  Fam(FALSE, AllAttrs, {0}, {0}, {0}, {0, 3}),              \* all 128 x 128 attribute masks (x underline on/off)
  Fam(FALSE, {0}, Classes1, Classes2, Classes3, {0, 3}),    \* all colour-class pairs per channel
  Fam(TRUE, {0, 1, 2, 3}, Classes1, Classes2, {0, 256}, {0}), LinkFam }
DeepFamilies == {
  Fam(FALSE, AllAttrs, {0, 10}, {0}, {0, 16777216}, {0, 3}),
  Fam(FALSE, {0}, Classes1, Classes2, Classes3, 0..5),
  Fam(TRUE, {0, 1, 2, 3}, Classes1, Classes2, {0, 256, 16777216}, {0}), LinkFam }

StylesOf(f) == [fg : f.fg, bg : f.bg, ul : f.ul, us : f.us, at : f.at]

VARIABLES fam, prev, next, prevL, nextL, paired
vars == <<fam, prev, next, prevL, nextL, paired>>

(* Two steps so that TLC's workers share the pairs: an initial state per    *)
(* previous style, one successor per next style.                            *)
Init == fam \in Families /\ prev \in StylesOf(fam) /\ next = prev /\ prevL \in fam.ln /\ nextL = prevL /\ paired = FALSE
Next == ~paired /\ paired' = TRUE /\ UNCHANGED <<fam, prev, prevL>> /\ next' \in StylesOf(fam) /\ nextL' \in fam.ln
Spec == Init /\ [][Next]_vars

D == Delta(prev, next, fam.legacy)
DeltaOK == ApplyAll(prev, D, 1) = next
DeltaWF == \A i \in 1..Len(D) : WellFormed(D[i])
CloseOK == ApplyAll(next, Closing(next), 1) = DefaultPen
Quiet == prev = next => D = <<>>
LinkOK == LinkAfter(prevL, LinkDelta(prevL, nextL)) = nextL /\ (prevL = nextL => LinkDelta(prevL, nextL) = <<>>)
LinkCloseOK == LinkAfter(nextL, LinkClosing(nextL)) = 0

PenOK(p) == /\ p.at \in 0..127 /\ p.us \in 0..5
            /\ \A c \in {p.fg, p.bg, p.ul} : c = 0 \/ c \in 1..256 \/ c \in RGBBase..(RGBBase + 16777215)

(* ---- oracle sanity ---------------------------------------------------- *)
Vals == {-1, 0, 1, 2, 4, 5, 22, 38, 48, 58, 59, 97, 255, 256}
Subs == {<<v>> : v \in Vals} \cup {<<a, b>> : a \in {4, 38, 58}, b \in {-1, 0, 2, 5, 6}}
          \cup {<<a, 5, n>> : a \in {38, 48, 58}, n \in {-1, 7, 255, 256}}
          \cup {<<a, 2, r, 0, 255>> : a \in {38, 58}, r \in {-1, 0, 256}}
          \cup {<<a, 2, -1, r, 0, 255>> : a \in {48, 58}, r \in {0, 256}}
          \cup {<<38, 2, 1, 2>>, <<38, 2, 1, 2, 3, 4, 5>>, <<38, 5>>, <<1, 1>>, <<4, 3, 1>>}
SomePens == {DefaultPen, [fg |-> 4, bg |-> RGB(1, 2, 3), ul |-> 256, us |-> 3, at |-> 127]}

ASSUME Total ==        \* never an error, always a pen: all lists of <= 2 parameters, a sample of 3
  /\ \A p \in SomePens : \A a \in Subs : PenOK(Apply(p, <<a>>))
  /\ \A p \in SomePens : \A a \in Subs : \A b \in Subs : PenOK(Apply(p, <<a, b>>))
  /\ \A a \in Subs : \A c \in Subs : PenOK(Apply(DefaultPen, <<<<38>>, a, c>>))
ASSUME EmptyIsReset == \A p \in SomePens : Apply(p, <<>>) = DefaultPen /\ Apply(p, <<<<-1>>>>) = DefaultPen
ASSUME ColonEqualsLegacy ==
  \A c \in {38, 48, 58} : \A n \in {0, 7, 8, 15, 16, 255} : \A p \in SomePens :
     /\ Apply(p, <<<<c, 5, n>>>>) = Apply(p, <<<<c>>, <<5>>, <<n>>>>)
     /\ Apply(p, <<<<c, 2, n, 0, 255>>>>) = Apply(p, <<<<c>>, <<2>>, <<n>>, <<0>>, <<255>>>>)
     /\ Apply(p, <<<<c, 2, n, 0, 255>>>>) = Apply(p, <<<<c, 2, -1, n, 0, 255>>>>)
ASSUME Truncated ==    \* truncated extended colours are not well-formed, and harmless
  \A c \in {38, 48, 58} : \A p \in SomePens :
     /\ ~WellFormed(<<<<c>>>>) /\ ~WellFormed(<<<<c>>, <<5>>>>) /\ ~WellFormed(<<<<c>>, <<2>>, <<1>>, <<2>>>>)
     /\ ~WellFormed(<<<<c, 5>>>>) /\ ~WellFormed(<<<<c, 2, 1, 2>>>>) /\ ~WellFormed(<<<<c, 5, 256>>>>)
     /\ Apply(p, <<<<c>>>>) = p /\ Apply(p, <<<<c, 5>>>>) = p
ASSUME SharedReset ==
  \A m \in 0..127 : Apply([DefaultPen EXCEPT !.at = m], <<<<22>>>>).at = Clr(Clr(m, Bold), Dim)
ASSUME BrightAndBasic ==
  \A n \in 0..7 : /\ Apply(DefaultPen, <<<<30 + n>>>>).fg = Idx(n) /\ Apply(DefaultPen, <<<<90 + n>>>>).fg = Idx(n + 8)
                  /\ Apply(DefaultPen, <<<<40 + n>>>>).bg = Idx(n) /\ Apply(DefaultPen, <<<<100 + n>>>>).bg = Idx(n + 8)
                  /\ Apply(DefaultPen, <<<<38, 5, n>>>>).fg = Idx(n)
=============================================================================
