CONSTANT Families <- DeepFamilies
SPECIFICATION Spec
INVARIANTS DeltaOK DeltaWF CloseOK Quiet LinkOK LinkCloseOK
CHECK_DEADLOCK FALSE
