CONSTANT Families <- DeepFamilies
SPECIFICATION Spec
INVARIANTS DeltaOK DeltaWF CloseOK Quiet
CHECK_DEADLOCK FALSE
