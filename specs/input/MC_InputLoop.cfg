CONSTANTS
  MaxReports = 4
  Blocking = FALSE
  DropStale = TRUE
SPECIFICATION Spec
INVARIANTS NoWedge NoPhantom
CHECK_DEADLOCK TRUE
