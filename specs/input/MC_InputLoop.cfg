CONSTANTS
  MaxReports = 4
  Blocking = FALSE
SPECIFICATION Spec
INVARIANT NoWedge
CHECK_DEADLOCK TRUE
