------------------------------ MODULE Startup ------------------------------
(* Implementation-shaped model of the start-up phase (C03): the terminal's   *)
(* replies to the start-up queries and what the user types meanwhile come in *)
(* one stream; the input loop posts an event for each into the bounded event *)
(* queue; the constructor takes events off the queue until the primary       *)
(* device attributes reply ("da1", the last reply) and consumes the          *)
(* capability events ("cap"); the application reads the queue only after the *)
(* constructor has returned.  The oracle part is the two invariants at the   *)
(* end: every key press of the stream has been delivered to the application  *)
(* exactly once (Complete), in stream order (Ordered) - what the property    *)
(* states for all arrival timings relative to outstanding queries.           *)
(*   Mode = "drop"  as found: an event the constructor has no use for is     *)
(*                  thrown away;                                             *)
(*   Mode = "feed"  it is kept and a helper posts the kept events when the   *)
(*                  constructor leaves its loop (the constructor itself must *)
(*                  not wait: nobody reads the queue before it returns);     *)
(*   Mode = "hold"  as "feed", and the input loop, once it has posted the    *)
(*                  da1 event, posts nothing more until the helper is done.  *)
(* Timeout = TRUE adds the constructor's deadline (it may leave its loop at  *)
(* any time, da1 or not): order is then not guaranteed, completeness is.     *)
EXTENDS Integers, Sequences, TLC

CONSTANTS Mode, Timeout, MaxBefore, MaxAfter, MaxQ

VARIABLES stream,  \* the wire: "cap" | "key" | "da1"; a key's identity is its index
          qsize,   \* capacity of the event queue
          pos,     \* items the input loop has taken
          lpc,     \* input loop: "idle" | "post" (has an event in hand: pend)
          pend,    \* index of the item whose event is in hand
          queue,   \* indices of the items whose events are queued
          npc,     \* constructor: "collect" | "finish" | "returned"
          held,    \* key events the constructor has kept
          fed,     \* how many of them the helper has posted
          armed,   \* the input loop has posted the da1 event
          open,    \* the helper is done
          got      \* keys the application has received

vars == <<stream, qsize, pos, lpc, pend, queue, npc, held, fed, armed, open, got>>

Seqs(S, n) == UNION {[1..k -> S] : k \in 0..n}

Init == /\ stream \in {b \o <<"da1">> \o a : b \in Seqs({"cap", "key"}, MaxBefore), a \in Seqs({"key"}, MaxAfter)}
        /\ qsize \in 1..MaxQ
        /\ pos = 0 /\ lpc = "idle" /\ pend = 0 /\ queue = <<>> /\ npc = "collect"
        /\ held = <<>> /\ fed = 0 /\ armed = FALSE /\ open = FALSE /\ got = <<>>

LoopTake == /\ lpc = "idle" /\ pos < Len(stream)
            /\ pos' = pos + 1 /\ pend' = pos + 1 /\ lpc' = "post"
            /\ UNCHANGED <<stream, qsize, queue, npc, held, fed, armed, open, got>>

Gated == Mode = "hold" /\ armed /\ ~open

LoopPost == /\ lpc = "post" /\ ~Gated /\ Len(queue) < qsize
            /\ queue' = Append(queue, pend) /\ lpc' = "idle"
            /\ armed' = (armed \/ stream[pend] = "da1")
            /\ UNCHANGED <<stream, qsize, pos, pend, npc, held, fed, open, got>>

NewTake == /\ npc = "collect" /\ queue # <<>>
           /\ LET i == Head(queue) IN
              /\ queue' = Tail(queue)
              /\ npc' = IF stream[i] = "da1" THEN "finish" ELSE npc
              /\ held' = IF stream[i] = "key" /\ Mode # "drop" THEN Append(held, i) ELSE held
           /\ UNCHANGED <<stream, qsize, pos, lpc, pend, fed, armed, open, got>>

NewDeadline == /\ Timeout /\ npc = "collect" /\ npc' = "finish"
               /\ UNCHANGED <<stream, qsize, pos, lpc, pend, queue, held, fed, armed, open, got>>

(* The helper: started when the constructor leaves its loop. *)
Feed == /\ npc # "collect" /\ fed < Len(held) /\ Len(queue) < qsize
        /\ queue' = Append(queue, held[fed + 1]) /\ fed' = fed + 1
        /\ UNCHANGED <<stream, qsize, pos, lpc, pend, npc, held, armed, open, got>>
FeedDone == /\ npc # "collect" /\ fed = Len(held) /\ ~open /\ open' = TRUE
            /\ UNCHANGED <<stream, qsize, pos, lpc, pend, queue, npc, held, fed, armed, got>>

(* The constructor returns without waiting for anybody. *)
NewReturn == /\ npc = "finish" /\ npc' = "returned"
             /\ UNCHANGED <<stream, qsize, pos, lpc, pend, queue, held, fed, armed, open, got>>

AppTake == /\ npc = "returned" /\ queue # <<>>
           /\ queue' = Tail(queue)
           /\ got' = IF stream[Head(queue)] = "key" THEN Append(got, Head(queue)) ELSE got
           /\ UNCHANGED <<stream, qsize, pos, lpc, pend, npc, held, fed, armed, open>>

Quiet == pos = Len(stream) /\ lpc = "idle" /\ queue = <<>> /\ npc = "returned" /\ fed = Len(held) /\ open
Done == Quiet /\ UNCHANGED vars

Next == LoopTake \/ LoopPost \/ NewTake \/ NewDeadline \/ Feed \/ FeedDone \/ NewReturn \/ AppTake \/ Done
Spec == Init /\ [][Next]_vars

Keys == {i \in 1..Len(stream) : stream[i] = "key"}
(* nothing is delivered twice, ever; at the end nothing is missing *)
Complete == /\ \A i, j \in 1..Len(got) : i # j => got[i] # got[j]
            /\ Quiet => {got[i] : i \in 1..Len(got)} = Keys
Ordered == \A i, j \in 1..Len(got) : i < j => got[i] < got[j]
(* the constructor never waits for the application: whenever it has left its *)
(* loop it can return (NewReturn has no other guard); a stuck state is       *)
(* reported by TLC's deadlock check (the input loop waiting behind a full    *)
(* queue is not stuck: the application takes events once it has the handle)  *)
=============================================================================
