--------------------------- MODULE Reports_Trace ---------------------------
(* Trace validation for C03.  One "run" event per scenario:                  *)
(*   reports  the abstract reports injected after start-up (in order);       *)
(*   events   the application-visible events read from Events() up to the    *)
(*            in-band sentinel key (internal event types filtered out);      *)
(*   panic / stalled  the input goroutine died / the sentinel never came;    *)
(*   loose    the stream contains bytes with no prescribed meaning: only     *)
(*            survival is judged;                                            *)
(*   answers  results of query calls: each must be a value the terminal      *)
(*            reported for that query kind (its reply to this query, or one  *)
(*            it volunteered earlier), and a call may not block.             *)
(* The events are judged by ReportsKeys!Judge (optional events of ambiguous  *)
(* reports, key modifiers where the report prescribes them, diagnosis of the *)
(* recorded "Alt moves to the next key" finding: class).                     *)
EXTENDS ReportsKeys, TLC, Json, IOUtils
Trace == ndJsonDeserialize(IOEnv.TRACE)
VARIABLES l
Init == l = 1

BadAnswers(e) == {k \in 1..Len(e.answers) : \A j \in 1..Len(e.answers[k].wants) : e.answers[k].got # e.answers[k].wants[j]}

Why(e) ==
  IF e.panic # "" THEN "panic"
  ELSE IF e.stalled THEN "input-loop-wedged"
  ELSE IF BadAnswers(e) # {} THEN "query-answer"
  ELSE IF ~e.loose /\ ~Judge(e.events, e.reports).ok THEN "events"
  ELSE "ok"

Next ==
  /\ l <= Len(Trace) /\ l' = l + 1
  /\ LET e == Trace[l] IN
     IF e.ev = "run" /\ Why(e) # "ok" THEN
        LET w == Why(e)
            j == IF w = "events" THEN Judge(e.events, e.reports) ELSE [ok |-> TRUE, class |-> "", at |-> 0, want |-> End]
            i == j.at
        IN PrintT("REJECT " \o ToJson([scn |-> e.scn, line |-> l, why |-> w, detail |-> e.panic,
              at |-> i, class |-> j.class,
              want |-> j.want,
              got |-> IF i > 0 /\ i <= Len(e.events) THEN e.events[i] ELSE [t |-> "end"],
              answer |-> IF w = "query-answer" THEN e.answers[CHOOSE k \in BadAnswers(e) : TRUE] ELSE [q |-> ""]]))
     ELSE TRUE
Spec == Init /\ [][Next]_<<l>>
Consumed == TLCGet("stats").diameter - 1 = Len(Trace)
=============================================================================
