--------------------------- MODULE Reports_Trace ---------------------------
(* Trace validation for C03.  One "run" event per scenario:                  *)
(*   reports  the abstract reports injected after start-up (in order);       *)
(*   events   the application-visible events read from Events() up to the    *)
(*            in-band sentinel key (internal event types filtered out);      *)
(*   panic / stalled  the input goroutine died / the sentinel never came;    *)
(*   loose    the stream contains bytes with no prescribed meaning: only     *)
(*            survival is judged;                                            *)
(*   answers  results of query calls: each must be a value the terminal      *)
(*            reported for that query kind (its reply to this query, or one  *)
(*            it volunteered earlier), and a call may not block.             *)
EXTENDS Reports, TLC, Json, IOUtils
Trace == ndJsonDeserialize(IOEnv.TRACE)
VARIABLES l
Init == l = 1

BadAnswers(e) == {k \in 1..Len(e.answers) : \A j \in 1..Len(e.answers[k].wants) : e.answers[k].got # e.answers[k].wants[j]}

Why(e) ==
  IF e.panic # "" THEN "panic"
  ELSE IF e.stalled THEN "input-loop-wedged"
  ELSE IF BadAnswers(e) # {} THEN "query-answer"
  ELSE IF ~e.loose /\ FirstDiff(e.events, Expected(e.reports, FALSE, <<>>), 1) # 0 THEN "events"
  ELSE "ok"

Next ==
  /\ l <= Len(Trace) /\ l' = l + 1
  /\ LET e == Trace[l] IN
     IF e.ev = "run" /\ Why(e) # "ok" THEN
        LET w == Why(e)
            want == Expected(e.reports, FALSE, <<>>)
            i == IF w = "events" THEN FirstDiff(e.events, want, 1) ELSE 0
        IN PrintT("REJECT " \o ToJson([scn |-> e.scn, line |-> l, why |-> w, detail |-> e.panic,
              at |-> i,
              want |-> IF i > 0 /\ i <= Len(want) THEN want[i] ELSE [t |-> "end"],
              got |-> IF i > 0 /\ i <= Len(e.events) THEN e.events[i] ELSE [t |-> "end"],
              answer |-> IF w = "query-answer" THEN e.answers[CHOOSE k \in BadAnswers(e) : TRUE] ELSE [q |-> ""]]))
     ELSE TRUE
Spec == Init /\ [][Next]_<<l>>
Consumed == TLCGet("stats").diameter - 1 = Len(Trace)
=============================================================================
