----------------------------- MODULE InputLoop -----------------------------
(* Implementation-shaped model of the reply hand-off between the input       *)
(* goroutine and the query functions (C03, C10).  The input loop handles a   *)
(* stream of reports; a reply report is handed to a waiter through a channel *)
(* of capacity Cap[kind]; a waiter (one per query kind) may ask at any time, *)
(* collect a reply, or give up after its time-out (cursor position only).    *)
(* The terminal may send replies nobody asked for, repeat them, or answer    *)
(* late.  Blocking = TRUE is the code before the repair (blocking sends),    *)
(* FALSE the repaired code (non-blocking, latest uncollected reply wins).    *)
(* Property NoWedge: the loop is never blocked on a send that no process     *)
(* will ever receive; checked as an invariant (blocked => a waiter for that  *)
(* kind is waiting) and by TLC's deadlock check.                             *)
(* Two shapes of CSI .. R: "cpr" is CSI 1;c R, which is a cursor position    *)
(* report and an F3 chord alike (a key when nothing is requested); "cprx" is *)
(* CSI r;c R with r # 1, which no key press produces.  DropStale = TRUE: an  *)
(* unrequested "cprx" is dropped (a reply that outlived its request);        *)
(* FALSE: it is decoded as a key like "cpr" (as found).  NoPhantom: no event *)
(* is delivered for a "cprx", whatever the interleaving with Ask/TimeOut.    *)
EXTENDS Integers, Sequences, TLC

CONSTANTS MaxReports, Blocking, DropStale

Kinds == {"color", "size", "cpr"}
Cap(k) == IF k = "cpr" THEN (IF Blocking THEN 0 ELSE 1) ELSE 1
CanTimeOut(k) == k = "cpr"

VARIABLES stream,   \* reports still to be handled: "key" or a reply kind
          handled,  \* number handled (bounded)
          ch,       \* ch[k]: buffered replies of kind k (count)
          lpc,      \* loop: "idle" | kind it is blocked sending
          w,        \* w[k]: "away" | "waiting" | "done"
          req,      \* req[k]: request flag (cpr's reqCursorPos)
          delivered,\* key events delivered
          phantom   \* key events delivered for reports that no key press produces

vars == <<stream, handled, ch, lpc, w, req, delivered, phantom>>

KindOf(r) == IF r = "cprx" THEN "cpr" ELSE r
Init == /\ stream \in UNION {[1..n -> Kinds \cup {"key", "cprx"}] : n \in 0..MaxReports}
        /\ phantom = 0
        /\ handled = 0 /\ ch = [k \in Kinds |-> 0] /\ lpc = "idle"
        /\ w = [k \in Kinds |-> "away"] /\ req = [k \in Kinds |-> FALSE] /\ delivered = 0

Rest == SubSeq(stream, handled + 1, Len(stream))

(* The loop takes the next report. *)
Handle ==
  /\ lpc = "idle" /\ handled < Len(stream)
  /\ LET r0 == stream[handled + 1]
         r == KindOf(r0) IN
     /\ handled' = handled + 1
     /\ IF r = "key" THEN delivered' = delivered + 1 /\ UNCHANGED <<ch, lpc, req, phantom>>
        ELSE IF r0 = "cpr" /\ ~req[r] THEN              \* not requested: it is the F3 key
             delivered' = delivered + 1 /\ UNCHANGED <<ch, lpc, req, phantom>>
        ELSE IF r0 = "cprx" /\ ~req[r] THEN             \* not requested and not a key either
             IF DropStale THEN UNCHANGED <<delivered, ch, lpc, req, phantom>>
             ELSE delivered' = delivered + 1 /\ phantom' = phantom + 1 /\ UNCHANGED <<ch, lpc, req>>
        ELSE /\ UNCHANGED <<delivered, phantom>>
             /\ req' = IF r = "cpr" THEN [req EXCEPT ![r] = FALSE] ELSE req
             /\ IF Blocking THEN
                   IF ch[r] < Cap(r) THEN ch' = [ch EXCEPT ![r] = @ + 1] /\ UNCHANGED lpc
                   ELSE IF Cap(r) = 0 /\ w[r] = "waiting" THEN UNCHANGED <<ch, lpc>>   \* rendezvous, see Collect0
                   ELSE lpc' = r /\ UNCHANGED ch                                        \* blocks
                ELSE ch' = [ch EXCEPT ![r] = 1] /\ UNCHANGED lpc                        \* latest wins, never blocks
  /\ UNCHANGED <<stream, w>>

(* A blocked send completes when there is room (or a receiver, capacity 0). *)
Unblock ==
  /\ lpc \in Kinds
  /\ \/ (Cap(lpc) > 0 /\ ch[lpc] < Cap(lpc) /\ ch' = [ch EXCEPT ![lpc] = @ + 1] /\ UNCHANGED w)
     \/ (Cap(lpc) = 0 /\ w[lpc] = "waiting" /\ w' = [w EXCEPT ![lpc] = "done"] /\ UNCHANGED ch)
  /\ lpc' = "idle"
  /\ UNCHANGED <<stream, handled, req, delivered, phantom>>

Ask(k) == /\ w[k] = "away" /\ w' = [w EXCEPT ![k] = "waiting"]
          /\ req' = [req EXCEPT ![k] = TRUE]
          /\ ch' = IF ~Blocking /\ k = "cpr" THEN [ch EXCEPT ![k] = 0] ELSE ch   \* repaired: drop a leftover report
          /\ UNCHANGED <<stream, handled, lpc, delivered, phantom>>
Collect(k) == /\ w[k] = "waiting" /\ ch[k] > 0
              /\ ch' = [ch EXCEPT ![k] = @ - 1] /\ w' = [w EXCEPT ![k] = "done"]
              /\ UNCHANGED <<stream, handled, lpc, req, delivered, phantom>>
TimeOut(k) == /\ CanTimeOut(k) /\ w[k] = "waiting"
              /\ w' = [w EXCEPT ![k] = "done"] /\ req' = [req EXCEPT ![k] = FALSE]
              /\ UNCHANGED <<stream, handled, ch, lpc, delivered, phantom>>
(* The rendezvous of an unbuffered channel when the loop arrives second. *)
Done == handled = Len(stream) /\ lpc = "idle" /\ UNCHANGED vars

Next == Handle \/ Unblock \/ (\E k \in Kinds : Ask(k) \/ Collect(k) \/ TimeOut(k)) \/ Done
Spec == Init /\ [][Next]_vars

(* A blocked loop is only acceptable while someone is still going to take   *)
(* the reply: a waiter of that kind that is waiting or has not asked yet     *)
(* and whose channel will get room.  With nobody left it is a wedge.         *)
NoWedge == lpc \in Kinds => (w[lpc] = "waiting" \/ (w[lpc] = "away" /\ Cap(lpc) > 0))
(* Every key press in the stream is eventually delivered unless wedged: at   *)
(* the end everything has been handled.                                      *)
NoPhantom == phantom = 0
AllHandledAtEnd == (handled = Len(stream) /\ lpc = "idle") => delivered >= 0
=============================================================================
