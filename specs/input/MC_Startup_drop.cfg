CONSTANTS
  Mode = "drop"
  Timeout = FALSE
  MaxBefore = 3
  MaxAfter = 2
  MaxQ = 2
SPECIFICATION Spec
INVARIANTS Complete
CHECK_DEADLOCK TRUE
