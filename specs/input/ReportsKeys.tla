---------------------------- MODULE ReportsKeys ----------------------------
(* Oracle for C03, second part: key reports judged beyond "one key event",   *)
(* reports the protocol leaves ambiguous, and the diagnosis of a recorded    *)
(* finding.  From xterm ctlseqs / the kitty keyboard protocol's legacy       *)
(* table:                                                                    *)
(*  * a single printable ASCII byte is that character pressed with no        *)
(*    modifier; ESC followed at once by the bytes of a key is that key with  *)
(*    Alt (metaSendsEscape): ESC CR = Alt+Enter, ESC HT = Alt+Tab, ESC ESC =  *)
(*    Alt+Escape, ESC + UTF-8 character = Alt+character;                     *)
(*  * F3 is CSI R or CSI 1 ; m R; a cursor position report is CSI r ; c R.   *)
(*    With r # 1 the report can not be a key press: it is a reply whenever   *)
(*    it arrives.  CSI 1 ; c R is both (optional event, either reading).     *)
(* A key report carries, besides its code (-1 = any):                        *)
(*   mods  expected Shift/Alt/Ctrl(+others) mask, -1 = not judged here (key  *)
(*         decoding proper is C09's oracle);                                 *)
(*   cls   class of its encoding ("" ordinary; "c0" one control byte;        *)
(*         "escc0" ESC + control byte; others name generator families);      *)
(*   opt   the bytes may as well be a reply: zero or one event.              *)
(* Separate module because Reports is also extended by specs/emu/Forward.    *)
EXTENDS Reports

KeyEvent(r, p, carry) == [t |-> "key", code |-> r.code, paste |-> p, mods |-> r.mods,
                          cls |-> r.cls, opt |-> r.opt, carry |-> carry]

MeaningK(r, p, carry) == IF r.k = "key" THEN <<KeyEvent(r, p, carry)>> ELSE Meaning(r, p)

(* Recorded finding (C09/C13: "ESC + control byte is decoded without Alt"):  *)
(* its other face is that the Alt reappears on the next key that is not a    *)
(* single control byte.  carry = such an ESC + control byte report precedes  *)
(* with nothing but single control bytes in between.  Used ONLY by the       *)
(* diagnosis below, never to accept.                                         *)
CarryAfter(r, carry) == IF r.k = "key" /\ r.cls = "escc0" THEN TRUE
                        ELSE IF r.k = "key" /\ r.cls = "c0" THEN carry
                        ELSE FALSE

RECURSIVE ExpectedK(_, _, _, _)
ExpectedK(rs, p, carry, acc) ==
  IF rs = <<>> THEN acc
  ELSE ExpectedK(Tail(rs), PasteAfter(Head(rs), p), CarryAfter(Head(rs), carry),
                 acc \o MeaningK(Head(rs), p, carry))

IsOpt(w) == w.t = "key" /\ w.opt

EvEqK(got, want) ==
  IF want.t = "key"
  THEN /\ got.t = "key" /\ got.paste = want.paste
       /\ (want.code = -1 \/ got.code = want.code)
       /\ (want.mods = -1 \/ got.mods = want.mods)
  ELSE got = want

(* The recorded finding's signature at one event: the right key, plus an Alt *)
(* it was not pressed with, right after an ESC + control byte.               *)
AltCarried(got, want) ==
  /\ want.t = "key" /\ want.carry /\ got.t = "key" /\ got.paste = want.paste
  /\ (want.code = -1 \/ got.code = want.code)
  /\ want.mods # -1 /\ ~Bit(want.mods, 2) /\ got.mods = want.mods + 2

End == [t |-> "end"]
NoDiff == [at |-> 0, want |-> End]

(* First divergence: at = index into the delivered events (0 = none), want = *)
(* the expected event there.  An optional expected event is matched or       *)
(* skipped.  tol = tolerate AltCarried (diagnosis).                          *)
RECURSIVE DiffK(_, _, _, _)
DiffK(got, want, i, tol) ==
  IF want = <<>> THEN (IF got = <<>> THEN NoDiff ELSE [at |-> i, want |-> End])
  ELSE LET w == Head(want)
           hit == got # <<>> /\ (EvEqK(Head(got), w) \/ (tol /\ AltCarried(Head(got), w)))
       IN IF IsOpt(w) THEN
             IF hit /\ DiffK(Tail(got), Tail(want), i + 1, tol).at = 0 THEN NoDiff
             ELSE DiffK(got, Tail(want), i, tol)
          ELSE IF hit THEN DiffK(Tail(got), Tail(want), i + 1, tol)
          ELSE [at |-> i, want |-> w]

(* Verdict on the delivered events of a report stream:                       *)
(*   ok      they are the expected ones;                                     *)
(*   class   "" or what the divergence is about: "alt-carried-after-esc-c0"  *)
(*           when the run differs from the expectation by nothing but the    *)
(*           recorded finding; else the class of the expected key report at  *)
(*           the first divergence that is not the recorded finding.          *)
Judge(events, reports) ==
  LET want   == ExpectedK(reports, FALSE, FALSE, <<>>)
      strict == DiffK(events, want, 1, FALSE)
      tol    == DiffK(events, want, 1, TRUE)
  IN IF strict.at = 0 THEN [ok |-> TRUE, class |-> "", at |-> 0, want |-> End]
     ELSE IF tol.at = 0 THEN [ok |-> FALSE, class |-> "alt-carried-after-esc-c0", at |-> strict.at, want |-> strict.want]
     ELSE [ok |-> FALSE, class |-> IF tol.want.t = "key" THEN tol.want.cls ELSE "", at |-> tol.at, want |-> tol.want]
=============================================================================
