SPECIFICATION Spec
INVARIANTS Lossless PasteMarks
CHECK_DEADLOCK FALSE
