SPECIFICATION Spec
INVARIANTS Lossless PasteMarks KeysJudged
CHECK_DEADLOCK FALSE
