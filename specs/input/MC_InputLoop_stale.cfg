CONSTANTS
  MaxReports = 3
  Blocking = FALSE
  DropStale = FALSE
SPECIFICATION Spec
INVARIANT NoPhantom
CHECK_DEADLOCK TRUE
