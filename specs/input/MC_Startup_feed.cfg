CONSTANTS
  Mode = "feed"
  Timeout = FALSE
  MaxBefore = 3
  MaxAfter = 2
  MaxQ = 2
SPECIFICATION Spec
INVARIANTS Complete Ordered
CHECK_DEADLOCK TRUE
