------------------------------ MODULE Reports ------------------------------
(* Oracle for C03: what each well-formed terminal report means to the        *)
(* application, from xterm ctlseqs (SGR mouse 1006: button bits, +4 shift,   *)
(* +8 meta, +16 control, +32 motion, +64 wheel, +128 extra buttons; 1-based  *)
(* coordinates; final M press / m release), focus reports (CSI I / CSI O)    *)
(* and bracketed paste (CSI 200~ / 201~: everything between is pasted text). *)
(* Replies to the library's own queries mean nothing to the application.     *)
(* Key decoding proper is C09's oracle; here a key report means "one key     *)
(* event" (with its key code where the encoding is a plain ASCII character)  *)
(* marked as pasted inside paste brackets.                                   *)
EXTENDS Integers, Sequences

Bit(n, b) == (n \div b) % 2 = 1

MouseButton(pb) == (pb % 4) + (IF Bit(pb, 64) THEN 64 ELSE 0) + (IF Bit(pb, 128) THEN 128 ELSE 0)
MouseType(pb, final) == IF Bit(pb, 32) THEN "motion" ELSE IF final = "M" THEN "press" ELSE "release"
MouseMods(pb) == (IF Bit(pb, 4) THEN 1 ELSE 0) + (IF Bit(pb, 8) THEN 2 ELSE 0) + (IF Bit(pb, 16) THEN 4 ELSE 0)
MouseEvent(r) == [t |-> "mouse", button |-> MouseButton(r.pb), type |-> MouseType(r.pb, r.final),
                  mods |-> MouseMods(r.pb), col |-> r.x - 1, row |-> r.y - 1]

(* Expected events of one report when the paste flag is p. *)
Meaning(r, p) ==
  CASE r.k = "key"        -> <<[t |-> "key", code |-> r.code, paste |-> p]>>
    [] r.k = "mouse"      -> <<MouseEvent(r)>>
    [] r.k = "focusin"    -> <<[t |-> "focusin"]>>
    [] r.k = "focusout"   -> <<[t |-> "focusout"]>>
    [] r.k = "pastestart" -> <<[t |-> "pastestart"]>>
    [] r.k = "pasteend"   -> <<[t |-> "pasteend"]>>
    [] OTHER              -> <<>>                       \* replies, garbage with no user meaning

PasteAfter(r, p) == IF r.k = "pastestart" THEN TRUE ELSE IF r.k = "pasteend" THEN FALSE ELSE p

RECURSIVE Expected(_, _, _)
Expected(rs, p, acc) ==
  IF rs = <<>> THEN acc
  ELSE Expected(Tail(rs), PasteAfter(Head(rs), p), acc \o Meaning(Head(rs), p))

(* An observed event equals an expected one; code -1 = any key code. *)
EvEq(got, want) ==
  IF want.t = "key" THEN got.t = "key" /\ got.paste = want.paste /\ (want.code = -1 \/ got.code = want.code)
  ELSE got = want

RECURSIVE FirstDiff(_, _, _)
FirstDiff(got, want, i) ==
  IF got = <<>> /\ want = <<>> THEN 0
  ELSE IF got = <<>> \/ want = <<>> THEN i
  ELSE IF EvEq(Head(got), Head(want)) THEN FirstDiff(Tail(got), Tail(want), i + 1)
  ELSE i
=============================================================================
