CONSTANTS
  MaxReports = 4
  Blocking = TRUE
SPECIFICATION Spec
INVARIANT NoWedge
CHECK_DEADLOCK TRUE
