CONSTANTS
  MaxReports = 4
  Blocking = TRUE
  DropStale = FALSE
SPECIFICATION Spec
INVARIANT NoWedge
CHECK_DEADLOCK TRUE
