----------------------------- MODULE MC_Reports -----------------------------
(* Sanity theorems of the Reports oracle over all SGR mouse reports with     *)
(* every button byte 0..255: the decoded button, type and modifiers          *)
(* re-encode to the same byte (the decoding loses nothing), and paste        *)
(* bracketing marks exactly the keys between the brackets.                   *)
EXTENDS ReportsKeys, TLC
VARIABLES pb, final
Init == pb \in 0..255 /\ final \in {"M", "m"}
Next == UNCHANGED <<pb, final>>
Spec == Init /\ [][Next]_<<pb, final>>
Reencode(b, typ, mods) ==
  (b % 4) + (IF b >= 128 THEN 128 ELSE 0) + (IF (b % 128) >= 64 THEN 64 ELSE 0)
  + (IF typ = "motion" THEN 32 ELSE 0)
  + (IF Bit(mods, 1) THEN 4 ELSE 0) + (IF Bit(mods, 2) THEN 8 ELSE 0) + (IF Bit(mods, 4) THEN 16 ELSE 0)
Lossless == LET e == MouseEvent([pb |-> pb, x |-> 1, y |-> 1, final |-> final])
            IN Reencode(e.button, e.type, e.mods) = pb
PasteMarks ==
  LET k(c) == [k |-> "key", code |-> c]
      rs == <<k(1), [k |-> "pastestart"], k(2), k(3), [k |-> "pasteend"], k(4)>>
      ex == Expected(rs, FALSE, <<>>)
  IN /\ Len(ex) = 6 /\ ~ex[1].paste /\ ex[3].paste /\ ex[4].paste /\ ~ex[6].paste
(* ReportsKeys: an ambiguous report is accepted under both readings and     *)
(* under no third one; a reply that surfaces as a key is rejected; the       *)
(* recorded "Alt moves to the next key" finding is diagnosed only when the   *)
(* run differs by nothing else, and later keys are still judged.             *)
KeysJudged ==
  LET K(c, m, cls, opt) == [k |-> "key", code |-> c, mods |-> m, cls |-> cls, opt |-> opt]
      G(c, m) == [t |-> "key", code |-> c, paste |-> FALSE, mods |-> m]
      rs  == <<K(97, 0, "", FALSE), K(-1, -1, "escc0", FALSE), K(-1, -1, "c0", FALSE), K(98, 0, "", FALSE), K(99, 0, "", FALSE)>>
      amb == <<K(97, 0, "", FALSE), K(-103, -1, "f3?", TRUE), [k |-> "reply"], K(98, 0, "", FALSE)>>
  IN /\ Judge(<<G(97, 0), G(13, 0), G(13, 0), G(98, 0), G(99, 0)>>, rs).ok
     /\ Judge(<<G(97, 0), G(13, 0), G(13, 0), G(98, 2), G(99, 0)>>, rs).class = "alt-carried-after-esc-c0"
     /\ LET j == Judge(<<G(97, 0), G(13, 0), G(13, 0), G(98, 2), G(99, 2)>>, rs) IN ~j.ok /\ j.class = "" /\ j.at = 5
     /\ LET j == Judge(<<G(97, 0), G(13, 0), G(13, 0), G(98, 2)>>, rs) IN ~j.ok /\ j.class = "" /\ j.at = 5
     /\ LET j == Judge(<<G(97, 0), G(13, 0), G(13, 0), G(99, 0)>>, rs) IN ~j.ok /\ j.class = "" /\ j.at = 4
     /\ LET j == Judge(<<G(97, 0)>>, rs) IN ~j.ok /\ j.class = "escc0" /\ j.at = 2
     /\ ~Judge(<<G(97, 2), G(13, 0), G(13, 0), G(98, 0), G(99, 0)>>, rs).ok
     /\ Judge(<<G(97, 0), G(-103, 1), G(98, 0)>>, amb).ok
     /\ Judge(<<G(97, 0), G(98, 0)>>, amb).ok
     /\ ~Judge(<<G(97, 0), G(5, 6), G(98, 0)>>, amb).ok
     /\ ~Judge(<<G(97, 0), G(-103, 1), G(-103, 1), G(98, 0)>>, amb).ok
     /\ ~Judge(<<G(97, 0), G(98, 0), G(5, 6)>>, amb).ok
=============================================================================
