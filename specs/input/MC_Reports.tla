----------------------------- MODULE MC_Reports -----------------------------
(* Sanity theorems of the Reports oracle over all SGR mouse reports with     *)
(* every button byte 0..255: the decoded button, type and modifiers          *)
(* re-encode to the same byte (the decoding loses nothing), and paste        *)
(* bracketing marks exactly the keys between the brackets.                   *)
EXTENDS Reports, TLC
VARIABLES pb, final
Init == pb \in 0..255 /\ final \in {"M", "m"}
Next == UNCHANGED <<pb, final>>
Spec == Init /\ [][Next]_<<pb, final>>
Reencode(b, typ, mods) ==
  (b % 4) + (IF b >= 128 THEN 128 ELSE 0) + (IF (b % 128) >= 64 THEN 64 ELSE 0)
  + (IF typ = "motion" THEN 32 ELSE 0)
  + (IF Bit(mods, 1) THEN 4 ELSE 0) + (IF Bit(mods, 2) THEN 8 ELSE 0) + (IF Bit(mods, 4) THEN 16 ELSE 0)
Lossless == LET e == MouseEvent([pb |-> pb, x |-> 1, y |-> 1, final |-> final])
            IN Reencode(e.button, e.type, e.mods) = pb
PasteMarks ==
  LET k(c) == [k |-> "key", code |-> c]
      rs == <<k(1), [k |-> "pastestart"], k(2), k(3), [k |-> "pasteend"], k(4)>>
      ex == Expected(rs, FALSE, <<>>)
  IN /\ Len(ex) = 6 /\ ~ex[1].paste /\ ex[3].paste /\ ex[4].paste /\ ~ex[6].paste
=============================================================================
