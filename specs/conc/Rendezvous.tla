----------------------------- MODULE Rendezvous -----------------------------
(* The hand-off of a clipboard reply (OSC 52) from the input goroutine to the *)
(* goroutine inside ClipboardPop (C10: "queries with replies arriving early,  *)
(* late or never", "Close and Suspend return under every interleaving with    *)
(* incoming input").  Unlike the other queries (Query.tla: a one-place slot)  *)
(* this one is a rendezvous: the input goroutine OFFERS the decoded content   *)
(* on an unbuffered channel, and the caller waits for it or for the deadline  *)
(* of its own context.  A reply can therefore arrive with nobody waiting:     *)
(* after the caller has given up (the terminal asked its user first), or      *)
(* unsolicited.  Close tells the input goroutine to stop, waits until it has  *)
(* (it stops between two reads, never inside a hand-off) and only then closes *)
(* the quit channel.                                                          *)
(* Switches:                                                                  *)
(*   OfferGivesUp  the offer ends after a short time-out (the library)        *)
(*   QuitReleases  the offer ends when the quit channel is closed (what a     *)
(*                 blocking post does; of no use here, see CloseEnd)          *)
(* Properties: CloseReturns, InputGoesOn (liveness), TypeOK.                  *)
EXTENDS Naturals
CONSTANTS Callers, OfferGivesUp, QuitReleases, MaxUnsolicited
VARIABLES pc,        \* per caller: "idle" | "wait" | "done"
          asked,     \* requests the terminal has not answered yet
          inbound,   \* replies on their way to the application
          unsol,     \* unsolicited replies sent so far
          reader,    \* the input goroutine: "free" | "offering" | "stopped"
          closing, closed
vars == <<pc, asked, inbound, unsol, reader, closing, closed>>

TypeOK == /\ pc \in [Callers -> {"idle", "wait", "done"}] /\ asked \in Nat /\ inbound \in Nat /\ unsol \in 0..MaxUnsolicited
          /\ reader \in {"free", "offering", "stopped"} /\ closing \in BOOLEAN /\ closed \in BOOLEAN

Init == /\ pc = [c \in Callers |-> "idle"] /\ asked = 0 /\ inbound = 0 /\ unsol = 0
        /\ reader = "free" /\ closing = FALSE /\ closed = FALSE

Ask(c) == /\ pc[c] = "idle" /\ ~closing /\ pc' = [pc EXCEPT ![c] = "wait"] /\ asked' = asked + 1
          /\ UNCHANGED <<inbound, unsol, reader, closing, closed>>
(* the terminal: answers whenever it likes, and may send a reply nobody asked for *)
Reply == /\ asked > 0 /\ asked' = asked - 1 /\ inbound' = inbound + 1
         /\ UNCHANGED <<pc, unsol, reader, closing, closed>>
Unsolicited == /\ unsol < MaxUnsolicited /\ unsol' = unsol + 1 /\ inbound' = inbound + 1
               /\ UNCHANGED <<pc, asked, reader, closing, closed>>
(* the input goroutine *)
Read == /\ reader = "free" /\ inbound > 0 /\ inbound' = inbound - 1 /\ reader' = "offering"
        /\ UNCHANGED <<pc, asked, unsol, closing, closed>>
Handoff(c) == /\ reader = "offering" /\ pc[c] = "wait" /\ pc' = [pc EXCEPT ![c] = "done"] /\ reader' = "free"
              /\ UNCHANGED <<asked, inbound, unsol, closing, closed>>
OfferEnds == /\ reader = "offering"
             /\ \/ OfferGivesUp
                \/ QuitReleases /\ closed
             /\ reader' = "free" /\ UNCHANGED <<pc, asked, inbound, unsol, closing, closed>>
ReaderStops == /\ closing /\ reader = "free" /\ reader' = "stopped"
               /\ UNCHANGED <<pc, asked, inbound, unsol, closing, closed>>
(* the caller's own deadline *)
Expire(c) == /\ pc[c] = "wait" /\ pc' = [pc EXCEPT ![c] = "done"]
             /\ UNCHANGED <<asked, inbound, unsol, reader, closing, closed>>
(* the application *)
CloseBegin == /\ ~closing /\ closing' = TRUE /\ UNCHANGED <<pc, asked, inbound, unsol, reader, closed>>
CloseEnd == /\ closing /\ ~closed /\ reader = "stopped" /\ closed' = TRUE   \* quit is closed only now
            /\ UNCHANGED <<pc, asked, inbound, unsol, reader, closing>>
Finished == closed /\ UNCHANGED vars

Next == \/ \E c \in Callers : Ask(c) \/ Handoff(c) \/ Expire(c)
        \/ Reply \/ Unsolicited \/ Read \/ OfferEnds \/ ReaderStops \/ CloseBegin \/ CloseEnd \/ Finished
Spec == Init /\ [][Next]_vars
FairSpec == /\ Spec /\ \A c \in Callers : WF_vars(Handoff(c)) /\ WF_vars(Expire(c))
            /\ WF_vars(Read) /\ WF_vars(OfferEnds) /\ WF_vars(ReaderStops) /\ WF_vars(CloseEnd)

CloseReturns == closing ~> closed
InputGoesOn == (reader = "offering") ~> (reader # "offering")
NoCallerStuck == \A c \in Callers : (pc[c] = "wait") ~> (pc[c] = "done")
=============================================================================
