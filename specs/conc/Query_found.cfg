CONSTANTS
  Callers = {"a", "b"}
  Serialised = FALSE
  Timeout = FALSE
  ReleaseOnClose = FALSE
  MayIgnore = FALSE
  MayClose = FALSE
SPECIFICATION FairSpec
CHECK_DEADLOCK TRUE
