------------------------------ MODULE Shutdown ------------------------------
(* Implementation-shaped model of the library's goroutines around shutdown   *)
(* (C10): the application's main goroutine (reads events, then calls Close   *)
(* or Suspend), the input goroutine (takes sequences from the parser, posts  *)
(* events with a blocking send, or handles a termination signal by calling   *)
(* Close itself), the parser's run loop (reads bytes, sends sequences on a   *)
(* channel of capacity 2, on Close: after the next byte sends the end marker *)
(* and closes the channel), and poster goroutines (non-blocking PostEvent    *)
(* that drops when full, blocking PostEventBlocking).                        *)
(* Two switches describe the repairs: Drain (Suspend drains the parser       *)
(* channel itself instead of only waiting) and QuitEscape (a blocking post   *)
(* gives up when the quit channel is closed).  With both FALSE the model is  *)
(* the code as found.                                                        *)
(* Properties: shutdown always completes (no deadlock before "closed"),      *)
(* afterwards no library goroutine is left, events of one poster keep their  *)
(* order, and a blocking post is never dropped while Vaxis is open.          *)
EXTENDS Integers, Sequences, FiniteSets, TLC

CONSTANTS QCap,        \* event queue capacity (Options.EventQueueSize)
          NIn,         \* number of input sequences the terminal sends
          NPost,       \* events each poster posts
          Posters,     \* set of poster ids
          BlockingPosters, \* subset using PostEventBlocking
          Drain, QuitEscape,
          SignalPath,  \* TRUE: shutdown is triggered by a signal handled in the input goroutine
          CloseFirst   \* TRUE (the code): Suspend asks the parser to stop, then writes the query whose reply wakes it

PCap == 2              \* parser channel capacity

VARIABLES queue,       \* event queue: sequence of <<src, n>>
          qsend,       \* blocked senders on the queue: sequence of [who, ev]
          pch, psend,  \* parser channel + its blocked sender (the run loop) as a sequence
          pclosed,     \* parser channel closed
          inLeft,      \* input sequences not yet read by the parser
          closeReq,    \* parser.Close() called
          nread,       \* sequences read by the parser so far
          woke,        \* Suspend has written the wake-up query (its reply is part of inLeft)
          rl,          \* run loop pc: "read" | "send" | "sendeof" | "done"
          rlItem,
          ig,          \* input goroutine pc: "select" | "post" | "closing" | "done"
          igItem,
          mn,          \* main pc: "run" | "suspend1" | "drain" | "wait" | "closed"
          appReads,    \* the application is still reading events
          quit,        \* quit channel closed
          sig,         \* a termination signal is pending
          posted,      \* posted[p]: events p has posted (or tried to)
          dropped,     \* set of events dropped by non-blocking posts
          got,         \* events the application received, in order
          lost         \* blocking posts abandoned while Vaxis was open

vars == <<queue, qsend, pch, psend, pclosed, inLeft, closeReq, nread, woke, rl, rlItem, ig, igItem, mn, appReads, quit, sig, posted, dropped, got, lost>>

Init ==
  /\ queue = <<>> /\ qsend = <<>> /\ pch = <<>> /\ psend = <<>> /\ pclosed = FALSE
  /\ inLeft = NIn /\ closeReq = FALSE /\ nread = 0 /\ woke = FALSE
  /\ rl = "read" /\ rlItem = 0 /\ ig = "select" /\ igItem = <<>> /\ mn = "run" /\ appReads = TRUE
  /\ quit = FALSE /\ sig = FALSE
  /\ posted = [p \in Posters |-> 0] /\ dropped = {} /\ got = <<>> /\ lost = {}

(* ---- event queue ---------------------------------------------------------- *)
QHasRoom == Len(queue) < QCap /\ qsend = <<>>
BlockedOnQ(who) == \E i \in 1..Len(qsend) : qsend[i].who = who

(* ---- parser run loop -------------------------------------------------------- *)
RlRead ==                              \* read one sequence worth of input; the loop top then looks at the close request
  /\ rl = "read" /\ inLeft > 0
  /\ inLeft' = inLeft - 1 /\ nread' = nread + 1
  /\ IF closeReq THEN rl' = "sendeof" /\ UNCHANGED rlItem
     ELSE rl' = "send" /\ rlItem' = nread + 1
  /\ UNCHANGED <<queue, qsend, pch, psend, pclosed, closeReq, woke, ig, igItem, mn, appReads, quit, sig, posted, dropped, got, lost>>
RlSend ==
  /\ rl \in {"send", "sendeof"} /\ psend = <<>>
  /\ LET it == IF rl = "send" THEN <<"in", rlItem>> ELSE <<"eof", 0>> IN
     IF Len(pch) < PCap THEN pch' = Append(pch, it) /\ UNCHANGED psend
     ELSE psend' = <<it>> /\ UNCHANGED pch
  /\ rl' = IF rl = "send" THEN "sent" ELSE "eofsent"
  /\ UNCHANGED <<queue, qsend, pclosed, inLeft, closeReq, nread, woke, rlItem, ig, igItem, mn, appReads, quit, sig, posted, dropped, got, lost>>
RlAfter ==
  /\ rl \in {"sent", "eofsent"} /\ psend = <<>>
  /\ IF rl = "sent" THEN rl' = "read" /\ UNCHANGED pclosed
     ELSE rl' = "done" /\ pclosed' = TRUE
  /\ UNCHANGED <<queue, qsend, pch, psend, inLeft, closeReq, nread, woke, rlItem, ig, igItem, mn, appReads, quit, sig, posted, dropped, got, lost>>

(* receive from the parser channel (by the input goroutine or by Suspend's drain) *)
PTake == IF psend # <<>> THEN pch' = Append(Tail(pch), psend[1]) /\ psend' = <<>>
         ELSE pch' = Tail(pch) /\ UNCHANGED psend

(* ---- input goroutine ---------------------------------------------------------- *)
IgTake ==
  /\ ig = "select" /\ pch # <<>>
  /\ PTake
  /\ IF Head(pch)[1] = "eof" THEN ig' = "done" /\ UNCHANGED igItem
     ELSE ig' = "post" /\ igItem' = <<"input", Head(pch)[2]>>
  /\ UNCHANGED <<queue, qsend, pclosed, inLeft, closeReq, nread, woke, rl, rlItem, mn, appReads, quit, sig, posted, dropped, got, lost>>
IgClosedCh ==                      \* the channel is closed and empty
  /\ ig = "select" /\ pch = <<>> /\ pclosed
  /\ ig' = IF Drain THEN "done" ELSE "select"      \* as found: a nil sequence is handled and the loop spins
  /\ UNCHANGED <<queue, qsend, pch, psend, pclosed, inLeft, closeReq, nread, woke, rl, rlItem, igItem, mn, appReads, quit, sig, posted, dropped, got, lost>>
IgPost ==                          \* PostEventBlocking
  /\ ig = "post"
  /\ IF QHasRoom THEN queue' = Append(queue, igItem) /\ UNCHANGED qsend
     ELSE qsend' = Append(qsend, [who |-> "ig", ev |-> igItem]) /\ UNCHANGED queue
  /\ ig' = "posted"
  /\ UNCHANGED <<pch, psend, pclosed, inLeft, closeReq, nread, woke, rl, rlItem, igItem, mn, appReads, quit, sig, posted, dropped, got, lost>>
IgPosted ==
  /\ ig = "posted" /\ ~BlockedOnQ("ig")
  /\ ig' = "select"
  /\ UNCHANGED <<queue, qsend, pch, psend, pclosed, inLeft, closeReq, nread, woke, rl, rlItem, igItem, mn, appReads, quit, sig, posted, dropped, got, lost>>
IgSignal ==                        \* case <-chSigKill: vx.Close(); return  (Close runs here, see Main* with who = "ig")
  /\ SignalPath /\ ig = "select" /\ sig /\ mn = "run"
  /\ sig' = FALSE /\ ig' = "closing" /\ mn' = "suspend1" /\ appReads' = FALSE
  /\ UNCHANGED <<queue, qsend, pch, psend, pclosed, inLeft, closeReq, nread, woke, rl, rlItem, igItem, quit, posted, dropped, got, lost>>

(* ---- main: the application reads events, then shuts down ----------------------- *)
AppRead ==
  /\ appReads /\ queue # <<>>
  /\ got' = Append(got, Head(queue))
  /\ IF qsend # <<>> THEN queue' = Append(Tail(queue), Head(qsend).ev) /\ qsend' = Tail(qsend)
     ELSE queue' = Tail(queue) /\ UNCHANGED qsend
  /\ UNCHANGED <<pch, psend, pclosed, inLeft, closeReq, nread, woke, rl, rlItem, ig, igItem, mn, appReads, quit, sig, posted, dropped, lost>>
StartClose ==                      \* the application decides to close (from its own goroutine)
  /\ ~SignalPath /\ mn = "run"
  /\ mn' = "suspend1" /\ appReads' = FALSE
  /\ UNCHANGED <<queue, qsend, pch, psend, pclosed, inLeft, closeReq, nread, woke, rl, rlItem, ig, igItem, quit, sig, posted, dropped, got, lost>>
RaiseSignal ==
  /\ SignalPath /\ mn = "run" /\ ~sig /\ sig' = TRUE
  /\ UNCHANGED <<queue, qsend, pch, psend, pclosed, inLeft, closeReq, nread, woke, rl, rlItem, ig, igItem, mn, appReads, quit, posted, dropped, got, lost>>
Suspend1 ==                        \* first of: parser.Close() / write the DA1 query (the terminal answers: one more sequence)
  /\ mn = "suspend1"
  /\ IF CloseFirst THEN closeReq' = TRUE /\ UNCHANGED <<inLeft, woke>>
     ELSE inLeft' = inLeft + 1 /\ woke' = TRUE /\ UNCHANGED closeReq
  /\ mn' = "suspend2"
  /\ UNCHANGED <<queue, qsend, pch, psend, pclosed, nread, rl, rlItem, ig, igItem, appReads, quit, sig, posted, dropped, got, lost>>
Suspend2 ==                        \* the other one
  /\ mn = "suspend2"
  /\ IF CloseFirst THEN inLeft' = inLeft + 1 /\ woke' = TRUE /\ UNCHANGED closeReq
     ELSE closeReq' = TRUE /\ UNCHANGED <<inLeft, woke>>
  /\ mn' = IF Drain THEN "drain" ELSE "wait"
  /\ UNCHANGED <<queue, qsend, pch, psend, pclosed, nread, rl, rlItem, ig, igItem, appReads, quit, sig, posted, dropped, got, lost>>
DrainStep ==                       \* for range parser.Next() {}
  /\ mn = "drain" /\ pch # <<>>
  /\ PTake
  /\ UNCHANGED <<queue, qsend, pclosed, inLeft, closeReq, nread, woke, rl, rlItem, ig, igItem, mn, appReads, quit, sig, posted, dropped, got, lost>>
DrainEnd ==
  /\ mn = "drain" /\ pch = <<>> /\ pclosed /\ mn' = "wait"
  /\ UNCHANGED <<queue, qsend, pch, psend, pclosed, inLeft, closeReq, nread, woke, rl, rlItem, ig, igItem, appReads, quit, sig, posted, dropped, got, lost>>
WaitClose ==                       \* <-parser.closed; restore the terminal; close(chQuit)
  /\ mn = "wait" /\ rl = "done"
  /\ mn' = "closed" /\ quit' = TRUE
  /\ ig' = IF ig = "closing" THEN "done" ELSE ig
  /\ UNCHANGED <<queue, qsend, pch, psend, pclosed, inLeft, closeReq, nread, woke, rl, rlItem, igItem, appReads, sig, posted, dropped, got, lost>>

(* a blocking post gives up when the quit channel is closed *)
QuitRelease ==
  /\ QuitEscape /\ quit /\ qsend # <<>>
  /\ qsend' = Tail(qsend)
  /\ UNCHANGED <<queue, pch, psend, pclosed, inLeft, closeReq, nread, woke, rl, rlItem, ig, igItem, mn, appReads, quit, sig, posted, dropped, got, lost>>

(* ---- posters ---------------------------------------------------------------------- *)
Post(p) ==
  /\ posted[p] < NPost /\ ~BlockedOnQ(p) /\ mn # "closed"
  /\ LET ev == <<p, posted[p] + 1>> IN
     IF QHasRoom THEN queue' = Append(queue, ev) /\ UNCHANGED <<qsend, dropped>>
     ELSE IF p \in BlockingPosters THEN qsend' = Append(qsend, [who |-> p, ev |-> ev]) /\ UNCHANGED <<queue, dropped>>
     ELSE dropped' = dropped \cup {ev} /\ UNCHANGED <<queue, qsend>>
  /\ posted' = [posted EXCEPT ![p] = @ + 1]
  /\ UNCHANGED <<pch, psend, pclosed, inLeft, closeReq, nread, woke, rl, rlItem, ig, igItem, mn, appReads, quit, sig, got, lost>>

Finished == mn = "closed" /\ UNCHANGED vars
Next == RlRead \/ RlSend \/ RlAfter \/ IgTake \/ IgClosedCh \/ IgPost \/ IgPosted \/ IgSignal
        \/ AppRead \/ StartClose \/ RaiseSignal \/ Suspend1 \/ Suspend2 \/ DrainStep \/ DrainEnd \/ WaitClose \/ QuitRelease
        \/ (\E p \in Posters : Post(p)) \/ Finished
Spec == Init /\ [][Next]_vars
FairSpec == Spec /\ WF_vars(Next)

(* ---- properties ------------------------------------------------------------------------ *)
(* Shutdown completes: once started it reaches "closed" (checked as absence of deadlock   *)
(* plus the liveness property under weak fairness).                                        *)
ShutdownCompletes == (mn = "suspend1") ~> (mn = "closed")
(* No library goroutine outlives Close: when everything has quiesced after Close, the     *)
(* input goroutine and the run loop are done and nobody is blocked on the queue.           *)
Quiescent == mn = "closed" /\ ~ENABLED (RlRead \/ RlSend \/ RlAfter \/ IgTake \/ IgClosedCh \/ IgPost \/ IgPosted \/ QuitRelease)
NoGoroutineLeft == Quiescent => (ig = "done" /\ rl = "done" /\ ~BlockedOnQ("ig"))
(* Events of one source arrive in posting order. *)
FromSrc(s, src) == SelectSeq(s, LAMBDA e : e[1] = src)
Ordered(s) == \A i \in 1..Len(s) : \A j \in (i + 1)..Len(s) : s[i][2] < s[j][2]
PerPosterFIFO == \A p \in Posters \cup {"input"} : Ordered(FromSrc(got, p))
(* A blocking post is never dropped while Vaxis is open. *)
BlockingNeverDropped == \A e \in dropped : e[1] \notin BlockingPosters
=============================================================================
