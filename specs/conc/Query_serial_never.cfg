CONSTANTS
  Callers = {"a", "b"}
  Serialised = TRUE
  Timeout = FALSE
  ReleaseOnClose = FALSE
  MayIgnore = TRUE
  MayClose = TRUE
SPECIFICATION FairSpec
CHECK_DEADLOCK TRUE
