CONSTANTS
  ClearFirst = FALSE
  MaxSize = 3
SPECIFICATION Spec
INVARIANT NoLostResize
CHECK_DEADLOCK FALSE
