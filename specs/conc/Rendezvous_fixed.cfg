CONSTANTS
  Callers = {"a", "b"}
  OfferGivesUp = TRUE
  QuitReleases = FALSE
  MaxUnsolicited = 2
SPECIFICATION FairSpec
INVARIANT TypeOK
PROPERTY CloseReturns InputGoesOn NoCallerStuck
CHECK_DEADLOCK TRUE
