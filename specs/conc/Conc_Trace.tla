----------------------------- MODULE Conc_Trace -----------------------------
(* Verdict layer for C10 over executions of the real library built with the  *)
(* race detector.  One "run" event per scenario carries only observations    *)
(* that mention no implementation detail:                                    *)
(*   race      first data-race report of the Go race detector ("" = none);   *)
(*   returned  Close / Suspend / Resume calls all returned within the bound; *)
(*   leaked    goroutines started by the library still alive after Close;    *)
(*   stuck     application goroutines still blocked inside a library call    *)
(*             after Close;                                                  *)
(*   orders    per poster, the sequence numbers of its events in the order   *)
(*             the application received them;                                *)
(*   bsent/bgot per blocking poster: events posted while Vaxis was open and  *)
(*             events received.                                              *)
EXTENDS Integers, Sequences, TLC, Json, IOUtils
Trace == ndJsonDeserialize(IOEnv.TRACE)
VARIABLES l
Init == l = 1

Increasing(s) == \A i \in 1..(Len(s) - 1) : s[i] < s[i + 1]

Why(e) ==
  IF e.panic # "" THEN "panic"
  ELSE IF e.race # "" THEN "data-race"
  ELSE IF ~e.returned THEN "shutdown-hang"
  ELSE IF e.leaked # <<>> THEN "goroutine-leak"
  ELSE IF e.stuck # <<>> THEN "caller-stuck"
  ELSE IF \E k \in 1..Len(e.orders) : ~Increasing(e.orders[k]) THEN "poster-order"
  ELSE IF \E k \in 1..Len(e.bsent) : e.bgot[k] < e.bsent[k] THEN "blocking-post-dropped"
  \* resize hand-off (ResizeFlag!NoLostResize): once things are quiet the library works with the terminal's size
  ELSE IF e.rwant # <<>> /\ e.rgot # e.rwant THEN "resize-request-lost"
  ELSE "ok"

Next ==
  /\ l <= Len(Trace) /\ l' = l + 1
  /\ LET e == Trace[l] IN
     IF e.ev = "run" /\ Why(e) # "ok" THEN
        PrintT("REJECT " \o ToJson([scn |-> e.scn, line |-> l, why |-> Why(e),
                                    detail |-> e.panic \o e.race \o e.what, leaked |-> e.leaked, stuck |-> e.stuck]))
     ELSE TRUE
Spec == Init /\ [][Next]_<<l>>
Consumed == TLCGet("stats").diameter - 1 = Len(Trace)
=============================================================================
