----------------------------- MODULE Conc_Trace -----------------------------
(* Verdict layer for C10 over executions of the real library built with the  *)
(* race detector.  One "run" event per scenario carries only observations    *)
(* that mention no implementation detail:                                    *)
(*   race      first data-race report of the Go race detector ("" = none);   *)
(*   returned  Close / Suspend / Resume calls all returned within the bound; *)
(*   leaked    goroutines started by the library still alive after Close;    *)
(*   sleaked   goroutines started by the library still alive one second after*)
(*             a Suspend had returned ("no goroutine started by the library  *)
(*             outlives them"; scenarios with a spinner widget do not log    *)
(*             this);                                                        *)
(*   stuck     application goroutines still blocked inside a library call    *)
(*             after Close;                                                  *)
(*   orders    per poster, the sequence numbers of its events in the order   *)
(*             the application received them;                                *)
(*   bsent/bgot per blocking poster: events posted while Vaxis was open and  *)
(*             events received;                                              *)
(*   queries   per goroutine that issued terminal queries: kind, when the    *)
(*             terminal's replies arrived (reply: "ontime" within the write  *)
(*             of the query, "late" some milliseconds after it, "held" while *)
(*             the application was shutting its input down in the Suspend of *)
(*             the end phase, "held-resume" after the Resume that followed,  *)
(*             "never"; "expired" after the caller, a clipboard request with *)
(*             a deadline of its own, had given up), whether all its calls   *)
(*             had returned before the                                       *)
(*             application closed Vaxis (before) and shortly after Close had *)
(*             returned (after); end = how the application ended the session.*)
(* A query call has to come back ("without ... deadlock", "replies arriving  *)
(* early, late or never", "Close/Suspend/Resume at arbitrary moments"):      *)
(* when the terminal answered and Vaxis kept running afterwards (Due) while  *)
(* it runs, and in every case once Vaxis has been closed.  What the call     *)
(* returns is not judged here.                                               *)
EXTENDS Integers, Sequences, TLC, Json, IOUtils
Trace == ndJsonDeserialize(IOEnv.TRACE)
VARIABLES l
Init == l = 1

Increasing(s) == \A i \in 1..(Len(s) - 1) : s[i] < s[i + 1]

\* the terminal answered this caller's queries and the application kept Vaxis running after that
Due(q, e) == \/ q.reply \in {"ontime", "late", "held-resume", "expired"}
             \/ q.reply = "held" /\ e.end = "suspend-resume-close"
Deadlocked(e) == {i \in 1..Len(e.queries) : Due(e.queries[i], e) /\ ~e.queries[i].before}
StuckAfterClose(e) == {i \in 1..Len(e.queries) : ~e.queries[i].after}
QWho(e, I) == {e.queries[i].kind \o "/" \o e.queries[i].reply : i \in I}

Why(e) ==
  IF e.panic # "" THEN "panic"
  ELSE IF e.race # "" THEN "data-race"
  ELSE IF ~e.returned THEN "shutdown-hang"
  ELSE IF e.leaked # <<>> THEN "goroutine-leak"
  ELSE IF e.sleaked # <<>> THEN "goroutine-outlives-suspend"
  ELSE IF e.stuck # <<>> THEN "caller-stuck"
  ELSE IF Deadlocked(e) # {} THEN "query-deadlock"
  ELSE IF StuckAfterClose(e) # {} THEN "query-stuck-after-close"
  ELSE IF \E k \in 1..Len(e.orders) : ~Increasing(e.orders[k]) THEN "poster-order"
  ELSE IF \E k \in 1..Len(e.bsent) : e.bgot[k] < e.bsent[k] THEN "blocking-post-dropped"
  \* resize hand-off (ResizeFlag!NoLostResize): once things are quiet the library works with the terminal's size
  ELSE IF e.rwant # <<>> /\ e.rgot # e.rwant THEN "resize-request-lost"
  ELSE "ok"

Next ==
  /\ l <= Len(Trace) /\ l' = l + 1
  /\ LET e == Trace[l] IN
     IF e.ev = "run" /\ Why(e) # "ok" THEN
        PrintT("REJECT " \o ToJson([scn |-> e.scn, line |-> l, why |-> Why(e),
                                    detail |-> e.panic \o e.race \o e.what, leaked |-> e.leaked, sleaked |-> e.sleaked, stuck |-> e.stuck,
                                    who |-> IF Why(e) = "query-deadlock" THEN QWho(e, Deadlocked(e))
                                            ELSE IF Why(e) = "query-stuck-after-close" THEN QWho(e, StuckAfterClose(e)) ELSE {}]))
     ELSE TRUE
Spec == Init /\ [][Next]_<<l>>
Consumed == TLCGet("stats").diameter - 1 = Len(Trace)
=============================================================================
