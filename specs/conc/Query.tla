------------------------------- MODULE Query -------------------------------
(* The hand-off of a terminal's reply to the goroutine that asked (C10:       *)
(* "any number of goroutines may ... issue terminal queries ... without ...   *)
(* deadlock", "queries with replies arriving early, late or never", "Close    *)
(* ... at arbitrary moments").                                                *)
(* Every caller writes one query and then waits for the reply.  The terminal  *)
(* answers the queries in the order it got them (or, when MayIgnore, not at   *)
(* all); the input goroutine offers each reply it reads to ONE slot shared by *)
(* all callers, replacing a reply nobody has collected yet; a waiting caller  *)
(* takes what is in the slot.  After Close no input is read any more.         *)
(* Switches (all FALSE = the hand-off as found):                              *)
(*   Serialised      callers take a lock around write + wait and empty the    *)
(*                   slot before they write (one query in flight at a time)   *)
(*   Timeout         the wait can give up                                     *)
(*   ReleaseOnClose  the wait ends when Close has run                         *)
(* Properties: no deadlock before every caller has returned (checked as TLC   *)
(* deadlock: Finished is the only stuttering allowed), AllReturn (liveness),  *)
(* and OwnAnswer (a caller that got a reply got the reply to ITS query).      *)
EXTENDS Naturals, Sequences, FiniteSets
CONSTANTS Callers, Serialised, Timeout, ReleaseOnClose,
          MayIgnore,   \* the terminal may leave a query unanswered ("never")
          MayClose     \* Close may run at any moment
VARIABLES pc,        \* per caller: "idle" | "write" | "wait" | "done"
          lock,      \* holder of the query lock, or "free"
          asked,     \* queries on their way to the terminal (caller ids, in write order)
          inbound,   \* replies on their way to the application (caller id of the query each answers)
          slot,      \* the shared reply slot: <<>> or <<id>>
          got,       \* per caller: id of the reply it returned with, "none" (gave up) or "-" (not yet)
          closed
vars == <<pc, lock, asked, inbound, slot, got, closed>>

Init == /\ pc = [c \in Callers |-> "idle"] /\ lock = "free" /\ asked = <<>> /\ inbound = <<>>
        /\ slot = <<>> /\ got = [c \in Callers |-> "-"] /\ closed = FALSE

Begin(c) == /\ pc[c] = "idle"
            /\ Serialised => lock = "free"
            /\ IF Serialised /\ ReleaseOnClose /\ closed                \* closed already: return at once
                 THEN /\ pc' = [pc EXCEPT ![c] = "done"] /\ got' = [got EXCEPT ![c] = "none"]
                      /\ UNCHANGED lock
                 ELSE /\ pc' = [pc EXCEPT ![c] = "write"] /\ UNCHANGED got
                      /\ lock' = IF Serialised THEN c ELSE lock
            /\ UNCHANGED <<asked, inbound, slot, closed>>
Write(c) == /\ pc[c] = "write" /\ pc' = [pc EXCEPT ![c] = "wait"]
            /\ asked' = Append(asked, c)
            /\ slot' = IF Serialised THEN <<>> ELSE slot            \* a left-over reply is dropped first
            /\ UNCHANGED <<lock, inbound, got, closed>>
Return(c, v) == /\ pc' = [pc EXCEPT ![c] = "done"] /\ got' = [got EXCEPT ![c] = v]
                /\ lock' = IF lock = c THEN "free" ELSE lock
Take(c) == /\ pc[c] = "wait" /\ slot # <<>> /\ Return(c, slot[1]) /\ slot' = <<>>
           /\ UNCHANGED <<asked, inbound, closed>>
GiveUp(c) == /\ pc[c] = "wait"
             /\ \/ Timeout
                \/ ReleaseOnClose /\ closed
             /\ Return(c, "none") /\ UNCHANGED <<asked, inbound, slot, closed>>

(* the terminal *)
Answer == /\ asked # <<>> /\ asked' = Tail(asked) /\ inbound' = Append(inbound, Head(asked))
          /\ UNCHANGED <<pc, lock, slot, got, closed>>
Ignore == /\ MayIgnore /\ asked # <<>> /\ asked' = Tail(asked)
          /\ UNCHANGED <<pc, lock, inbound, slot, got, closed>>
(* the input goroutine: a reply nobody has collected is replaced by the newer one *)
Offer == /\ ~closed /\ inbound # <<>> /\ inbound' = Tail(inbound) /\ slot' = <<Head(inbound)>>
         /\ UNCHANGED <<pc, lock, asked, got, closed>>
Close == /\ MayClose /\ ~closed /\ closed' = TRUE /\ UNCHANGED <<pc, lock, asked, inbound, slot, got>>

Finished == /\ \A c \in Callers : pc[c] = "done" /\ UNCHANGED vars

Next == \/ \E c \in Callers : Begin(c) \/ Write(c) \/ Take(c) \/ GiveUp(c)
        \/ Answer \/ Ignore \/ Offer \/ Close \/ Finished
Spec == Init /\ [][Next]_vars
FairSpec == Spec /\ WF_vars(Next)
           /\ \A c \in Callers : WF_vars(Begin(c)) /\ WF_vars(Write(c)) /\ WF_vars(Take(c)) /\ WF_vars(GiveUp(c))
           /\ WF_vars(Answer \/ Ignore) /\ WF_vars(Offer)

AllReturn == <>(\A c \in Callers : pc[c] = "done")
OwnAnswer == \A c \in Callers : got[c] \in {"-", "none", c}
=============================================================================
