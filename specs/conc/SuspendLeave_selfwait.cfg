CONSTANTS
  NIn = 3
  Release = TRUE
  LeaveFirst = FALSE
  SignalPath = TRUE
SPECIFICATION FairSpec
INVARIANTS NoneOutlivesSuspend OneInputGoroutine
PROPERTY SuspendReturns
CHECK_DEADLOCK TRUE
