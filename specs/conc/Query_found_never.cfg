CONSTANTS
  Callers = {"a"}
  Serialised = FALSE
  Timeout = FALSE
  ReleaseOnClose = FALSE
  MayIgnore = TRUE
  MayClose = TRUE
SPECIFICATION FairSpec
CHECK_DEADLOCK TRUE
