CONSTANTS
  ClearFirst = TRUE
  MaxSize = 4
SPECIFICATION Spec
INVARIANT NoLostResize
CHECK_DEADLOCK FALSE
