----------------------------- MODULE ResizeFlag -----------------------------
(* The resize hand-off between whoever learns of a new terminal size (signal *)
(* handler, in-band size report, Vaxis.Resize) and the main goroutine's      *)
(* Render: the requester stores the new size and raises a flag; Render, if   *)
(* the flag is up, reads the size, adopts it and lowers the flag.            *)
(*   ClearFirst = FALSE  as found: the flag is lowered when Render returns   *)
(*                       (a deferred store), i.e. AFTER the size was read    *)
(*   ClearFirst = TRUE   repaired: the flag is lowered before the size is    *)
(*                       read                                                *)
(* Property (C10: "request resizes ... without ... lost events"): whenever   *)
(* nothing is in progress and the flag is down, the library has adopted the  *)
(* size last requested (NoLostResize).                                       *)
EXTENDS Naturals
CONSTANTS ClearFirst, MaxSize
VARIABLES term,     \* the terminal's size (what a reader of the size obtains)
          flag,     \* resize requested
          adopted,  \* the size the library works with
          pc, seen  \* Render: where it is, and the size it read
vars == <<term, flag, adopted, pc, seen>>

Init == term = 1 /\ flag = FALSE /\ adopted = 1 /\ pc = "idle" /\ seen = 0

(* the terminal changes size: the requester publishes it and raises the flag *)
Request == /\ term < MaxSize /\ term' = term + 1 /\ flag' = TRUE
           /\ UNCHANGED <<adopted, pc, seen>>

RenderStart == /\ pc = "idle"
               /\ IF flag THEN pc' = (IF ClearFirst THEN "clear" ELSE "read") ELSE pc' = "idle"
               /\ UNCHANGED <<term, flag, adopted, seen>>
ClearEarly == /\ pc = "clear" /\ flag' = FALSE /\ pc' = "read" /\ UNCHANGED <<term, adopted, seen>>
Read == /\ pc = "read" /\ seen' = term /\ pc' = "adopt" /\ UNCHANGED <<term, flag, adopted>>
Adopt == /\ pc = "adopt" /\ adopted' = seen
         /\ pc' = (IF ClearFirst THEN "idle" ELSE "exit")
         /\ UNCHANGED <<term, flag, seen>>
ClearLate == /\ pc = "exit" /\ flag' = FALSE /\ pc' = "idle" /\ UNCHANGED <<term, adopted, seen>>

Next == Request \/ RenderStart \/ ClearEarly \/ Read \/ Adopt \/ ClearLate
Spec == Init /\ [][Next]_vars

NoLostResize == (pc = "idle" /\ ~flag) => adopted = term
=============================================================================
