CONSTANTS
  NIn = 3
  Release = TRUE
  LeaveFirst = TRUE
  SignalPath = FALSE
SPECIFICATION FairSpec
INVARIANTS NoneOutlivesSuspend OneInputGoroutine
PROPERTY SuspendReturns
CHECK_DEADLOCK TRUE
