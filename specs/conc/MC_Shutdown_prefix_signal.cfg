CONSTANTS
  QCap = 1
  NIn = 3
  NPost = 2
  Posters = {"p1", "p2"}
  BlockingPosters = {"p2"}
  Drain = FALSE
  QuitEscape = FALSE
  CloseFirst = TRUE
  SignalPath = TRUE
SPECIFICATION FairSpec
INVARIANTS NoGoroutineLeft PerPosterFIFO BlockingNeverDropped
PROPERTY ShutdownCompletes
CHECK_DEADLOCK TRUE
