CONSTANTS
  Callers = {"a", "b"}
  OfferGivesUp = FALSE
  QuitReleases = TRUE
  MaxUnsolicited = 2
SPECIFICATION FairSpec
INVARIANT TypeOK
PROPERTY CloseReturns
CHECK_DEADLOCK FALSE
