CONSTANTS
  NIn = 3
  Release = FALSE
  LeaveFirst = FALSE
  SignalPath = FALSE
SPECIFICATION FairSpec
INVARIANTS NoneOutlivesSuspend OneInputGoroutine
PROPERTY SuspendReturns
CHECK_DEADLOCK TRUE
