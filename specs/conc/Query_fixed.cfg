CONSTANTS
  Callers = {"a", "b", "c"}
  Serialised = TRUE
  Timeout = TRUE
  ReleaseOnClose = TRUE
  MayIgnore = TRUE
  MayClose = TRUE
SPECIFICATION FairSpec
PROPERTY AllReturn
CHECK_DEADLOCK TRUE
