---------------------------- MODULE SuspendLeave ----------------------------
(* Implementation-shaped model (C10) of Suspend beside an input goroutine    *)
(* that is posting to a full event queue which nobody reads (the application *)
(* is busy, or it is the goroutine that suspends).  Goroutines: the parser's *)
(* run loop (sends sequences on a channel of capacity 2; asked to stop, it   *)
(* sends nothing more after the next byte and closes the channel), the input *)
(* goroutine (takes a sequence, posts it with a blocking send, takes the     *)
(* next; ends when the channel is closed; on a termination signal it shuts   *)
(* down itself), and the goroutine that calls Suspend (asks the parser to    *)
(* stop, provokes a reply, drains the channel, waits for the run loop) and   *)
(* then Resume (starts the next input goroutine).                            *)
(* Switches: Release (Suspend closes a stop channel on which the input       *)
(* goroutine's post also waits, then waits until that goroutine has left),   *)
(* LeaveFirst (the input goroutine announces that it has left before it      *)
(* shuts down itself).  Both FALSE: the code as found.                       *)
(* Property text: "Close and Suspend return under every interleaving with    *)
(* incoming input ..., and no goroutine started by the library outlives      *)
(* them."                                                                    *)
EXTENDS Integers, Sequences, TLC

CONSTANTS NIn,         \* sequences the terminal sends before the shutdown
          Release, LeaveFirst,
          SignalPath   \* TRUE: the shutdown is triggered by a signal handled in the input goroutine

PCap == 2

VARIABLES pch, pclosed, \* parser channel, closed
          inLeft, closeReq,
          rl,          \* run loop: "read" | "send" | "done"
          ig,          \* input goroutine: "select" | "post" | "closing" (runs the shutdown itself) | "left"
          left,        \* the input goroutine has announced that it handles no more input (done channel closed)
          stop,        \* stop channel closed
          mn,          \* the shutdown: "run" | "ask" | "wake" | "drain" | "wait" | "release" | "join" | "suspended" | "resumed"
          ig2          \* the input goroutine Resume started: "none" | "running"
vars == <<pch, pclosed, inLeft, closeReq, rl, ig, left, stop, mn, ig2>>

Init == /\ pch = <<>> /\ pclosed = FALSE /\ inLeft = NIn /\ closeReq = FALSE /\ rl = "read"
        /\ ig = "select" /\ left = FALSE /\ stop = FALSE /\ mn = "run" /\ ig2 = "none"

(* ---- run loop ---- *)
RlRead == /\ rl = "read" /\ inLeft > 0 /\ inLeft' = inLeft - 1
          /\ IF closeReq THEN rl' = "done" /\ pclosed' = TRUE ELSE rl' = "send" /\ UNCHANGED pclosed
          /\ UNCHANGED <<pch, closeReq, ig, left, stop, mn, ig2>>
RlSend == /\ rl = "send" /\ Len(pch) < PCap /\ pch' = Append(pch, "seq") /\ rl' = "read"
          /\ UNCHANGED <<pclosed, inLeft, closeReq, ig, left, stop, mn, ig2>>

(* ---- input goroutine (the event queue is full and nobody reads it: a post blocks) ---- *)
IgTake == /\ ig = "select" /\ pch # <<>> /\ pch' = Tail(pch) /\ ig' = "post"
          /\ UNCHANGED <<pclosed, inLeft, closeReq, rl, left, stop, mn, ig2>>
IgEnd == /\ ig = "select" /\ pch = <<>> /\ pclosed /\ ig' = "left" /\ left' = TRUE
         /\ UNCHANGED <<pch, pclosed, inLeft, closeReq, rl, stop, mn, ig2>>
IgPosted == /\ ig = "post" /\ mn = "run" /\ ig' = "select"         \* the application took an event before it got busy
            /\ UNCHANGED <<pch, pclosed, inLeft, closeReq, rl, left, stop, mn, ig2>>
IgReleased == /\ ig = "post" /\ Release /\ stop /\ ig' = "select"   \* the post gives up: the event is discarded
              /\ UNCHANGED <<pch, pclosed, inLeft, closeReq, rl, left, stop, mn, ig2>>
IgSignal == /\ SignalPath /\ ig = "select" /\ mn = "run"
            /\ ig' = "closing" /\ mn' = "ask" /\ left' = (LeaveFirst \/ left)
            /\ UNCHANGED <<pch, pclosed, inLeft, closeReq, rl, stop, ig2>>

(* ---- Suspend (in the application's goroutine, or in the input goroutine on the signal path) ---- *)
Start == /\ ~SignalPath /\ mn = "run" /\ mn' = "ask"
         /\ UNCHANGED <<pch, pclosed, inLeft, closeReq, rl, ig, left, stop, ig2>>
Ask == /\ mn = "ask" /\ closeReq' = TRUE /\ mn' = "wake"
       /\ UNCHANGED <<pch, pclosed, inLeft, rl, ig, left, stop, ig2>>
Wake == /\ mn = "wake" /\ inLeft' = inLeft + 1 /\ mn' = "drain"
        /\ UNCHANGED <<pch, pclosed, closeReq, rl, ig, left, stop, ig2>>
DrainStep == /\ mn = "drain" /\ pch # <<>> /\ pch' = Tail(pch)
             /\ UNCHANGED <<pclosed, inLeft, closeReq, rl, ig, left, stop, mn, ig2>>
DrainEnd == /\ mn = "drain" /\ pch = <<>> /\ pclosed /\ mn' = "wait"
            /\ UNCHANGED <<pch, pclosed, inLeft, closeReq, rl, ig, left, stop, ig2>>
WaitClose == /\ mn = "wait" /\ rl = "done" /\ mn' = IF Release THEN "release" ELSE "suspended"
             /\ UNCHANGED <<pch, pclosed, inLeft, closeReq, rl, ig, left, stop, ig2>>
ReleaseStep == /\ mn = "release" /\ stop' = TRUE /\ mn' = "join"
               /\ UNCHANGED <<pch, pclosed, inLeft, closeReq, rl, ig, left, ig2>>
Join == /\ mn = "join" /\ left /\ mn' = "suspended"
        /\ UNCHANGED <<pch, pclosed, inLeft, closeReq, rl, ig, left, stop, ig2>>
Returned == /\ mn = "suspended" /\ ig = "closing" /\ ig' = "left" /\ left' = TRUE   \* signal path: the goroutine returns
            /\ UNCHANGED <<pch, pclosed, inLeft, closeReq, rl, stop, mn, ig2>>
Resume == /\ ~SignalPath /\ mn = "suspended" /\ mn' = "resumed" /\ ig2' = "running"
          /\ UNCHANGED <<pch, pclosed, inLeft, closeReq, rl, ig, left, stop>>

Finished == /\ \/ mn = "resumed"
               \/ SignalPath /\ mn = "suspended" /\ ig = "left"
            /\ UNCHANGED vars
Next == RlRead \/ RlSend \/ IgTake \/ IgEnd \/ IgPosted \/ IgReleased \/ IgSignal \/ Start \/ Ask \/ Wake \/ DrainStep \/ DrainEnd
        \/ WaitClose \/ ReleaseStep \/ Join \/ Returned \/ Resume \/ Finished
Spec == Init /\ [][Next]_vars
FairSpec == Spec /\ WF_vars(Next)

(* Suspend returns (together with the absence of deadlock). *)
SuspendReturns == (mn = "ask") ~> (mn \in {"suspended", "resumed"})
(* No goroutine started by the library outlives Suspend: when it has returned to the application the  *)
(* input goroutine has left (on the signal path the goroutine that runs the shutdown is the input      *)
(* goroutine: it has only to return).                                                                  *)
NoneOutlivesSuspend == (mn \in {"suspended", "resumed"}) => (rl = "done" /\ (ig = "left" \/ (SignalPath /\ ig = "closing")))
(* ... and so there is one input goroutine at a time. *)
OneInputGoroutine == ig2 = "running" => ig = "left"
=============================================================================
