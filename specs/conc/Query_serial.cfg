CONSTANTS
  Callers = {"a", "b", "c"}
  Serialised = TRUE
  Timeout = FALSE
  ReleaseOnClose = FALSE
  MayIgnore = FALSE
  MayClose = FALSE
SPECIFICATION FairSpec
INVARIANT OwnAnswer
PROPERTY AllReturn
CHECK_DEADLOCK TRUE
