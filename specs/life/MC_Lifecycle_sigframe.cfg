CONSTANTS
  MaxSteps = 5
  KeepPreset = TRUE
  FrameExcl = FALSE
  SerialSuspend = TRUE
  QuirksFirst = TRUE
  Quirks = {"none"}
  Opts = {TRUE, FALSE}
SPECIFICATION Spec
INVARIANTS RestoredWhenDown ResumeReestablishes FullScreenWhileRunning
CHECK_DEADLOCK FALSE
