-------------------------- MODULE MC_CapsHandshake --------------------------
(* Implementation-shaped model (no verdicts come from it) of the start-up    *)
(* handshake of C07 between three parties: the terminal's replies on the     *)
(* wire, the single input loop that parses them and posts one event per      *)
(* reply to the application's BOUNDED event queue (capacity q, a public      *)
(* option), and the start-up code that reads the queue until the DA1 reply   *)
(* and records what was established. One reply is special: the cursor        *)
(* position report that answers the explicit-width probe is not an event,    *)
(* it is handed over on a one-place channel to whoever asked for it.         *)
(*                                                                           *)
(* The question: is what the start-up code establishes exactly what the      *)
(* replies said (Caps!Established of the advertised set), for EVERY queue    *)
(* capacity and every number of replies ahead of and behind the report?      *)
(*                                                                           *)
(*   Drain = FALSE  the shape as found: the start-up code waits for the      *)
(*                  report BEFORE it starts reading the queue (and gives up  *)
(*                  when nothing can arrive any more: the wall-clock         *)
(*                  time-out). Refuted as soon as more than q replies are    *)
(*                  ahead of the report: the input loop blocks on the full   *)
(*                  queue, the wait ends unanswered, the late report is      *)
(*                  decoded as a key press and dropped.                      *)
(*   Drain = TRUE   the repaired shape: the report is awaited by the reply   *)
(*                  loop itself, next to the queue.                          *)
(*   Lossy          the replies that are posted WITHOUT blocking (dropped    *)
(*                  when the queue is full at that moment). As found: the    *)
(*                  last capability reply (OSC 176); repaired: none.         *)
EXTENDS Integers, Sequences, FiniteSets

CONSTANTS MaxQ, MaxBefore, MaxAfter, Drain, LossyLast

VARIABLES q,      \* capacity of the event queue
          ncap,   \* number of capability replies (1..ncap), the last one is the non-blocking one when LossyLast
          wire,   \* replies not parsed yet: n > 0 capability reply n, 0 the cursor report, -1 the DA1 reply
          queue,  \* the event queue
          req,    \* a cursor report is expected (else "CSI r;c R" is a key press)
          chan,   \* the one-place channel holds a report
          main,   \* "probe" (waiting for the report before the loop), "loop", "done"
          est,    \* capability replies established
          xw      \* explicit width established
vars == <<q, ncap, wire, queue, req, chan, main, est, xw>>

Caps(a, b) == [i \in 1..(b - a + 1) |-> a + i - 1]

Init ==
  /\ q \in 1..MaxQ
  /\ \E nb \in 0..MaxBefore, na \in 0..MaxAfter :
       /\ ncap = nb + na
       /\ wire = Caps(1, nb) \o <<0>> \o Caps(nb + 1, nb + na) \o <<-1>>
  /\ queue = <<>> /\ req = TRUE /\ chan = FALSE
  /\ main = IF Drain THEN "loop" ELSE "probe"
  /\ est = {} /\ xw = FALSE

Full == Len(queue) >= q

(* The input loop handles the next reply. *)
Parse ==
  /\ wire # <<>>
  /\ LET h == Head(wire) IN
     \/ /\ h = 0 /\ req                       \* the report somebody asked for: never blocks
        /\ chan' = TRUE /\ req' = FALSE /\ wire' = Tail(wire)
        /\ UNCHANGED <<queue>>
     \/ /\ (h # 0 \/ ~req) /\ ~Full           \* an event (a report nobody waits for is a key press)
        /\ queue' = Append(queue, h) /\ wire' = Tail(wire)
        /\ UNCHANGED <<req, chan>>
     \/ /\ LossyLast /\ h = ncap /\ h > 0 /\ Full   \* posted without blocking: lost
        /\ wire' = Tail(wire)
        /\ UNCHANGED <<queue, req, chan>>
  /\ UNCHANGED <<q, ncap, main, est, xw>>

InputStuck == wire # <<>> /\ ~(Head(wire) = 0 /\ req) /\ Full /\ ~(LossyLast /\ Head(wire) = ncap)

(* The as-found wait: answered, or over when nothing can arrive any more.    *)
ProbeWait ==
  /\ main = "probe"
  /\ \/ chan /\ chan' = FALSE /\ xw' = TRUE /\ main' = "loop" /\ UNCHANGED req
     \/ ~chan /\ InputStuck /\ req' = FALSE /\ main' = "loop" /\ UNCHANGED <<chan, xw>>
  /\ UNCHANGED <<q, ncap, wire, queue, est>>

(* The reply loop; with Drain it also takes the report. The report precedes  *)
(* the DA1 reply, so it is looked for once more when that reply ends the loop.*)
Loop ==
  /\ main = "loop"
  /\ \/ /\ Drain /\ chan /\ chan' = FALSE /\ xw' = TRUE
        /\ UNCHANGED <<queue, main, est, req>>
     \/ /\ queue # <<>>
        /\ queue' = Tail(queue)
        /\ LET e == Head(queue) IN
           /\ est' = IF e > 0 THEN est \cup {e} ELSE est
           /\ main' = IF e = -1 THEN "done" ELSE "loop"
           /\ IF e = -1 /\ Drain /\ chan THEN chan' = FALSE /\ xw' = TRUE ELSE UNCHANGED <<chan, xw>>
           /\ req' = IF e = -1 THEN FALSE ELSE req
  /\ UNCHANGED <<q, ncap, wire>>

Next == Parse \/ ProbeWait \/ Loop \/ (main = "done" /\ UNCHANGED vars)
Spec == Init /\ [][Next]_vars

(* Every reply the terminal gave is established when start-up is over.       *)
Exact == main = "done" => est = 1..ncap /\ xw
(* The handshake never wedges: start-up always gets to its end.              *)
NoWedge == main # "done" => ENABLED (Parse \/ ProbeWait \/ Loop)
TypeOK == Len(queue) <= q /\ est \subseteq 1..ncap
=============================================================================
