------------------------------- MODULE Modes -------------------------------
(* Oracle for C04 (and the vocabulary half of C07): the terminal's table of *)
(* modes and settings an application can change, and the effect of each     *)
(* mode-changing command, from xterm ctlseqs (DECSET/DECRST, DECKPAM/       *)
(* DECKPNM, DECSCUSR, OSC 22, OSC 8), the kitty keyboard protocol           *)
(* (progressive enhancement stack: CSI > f u push, CSI < n u pop) and the   *)
(* OSC 176 application-id convention.  A terminal ignores private modes it  *)
(* does not implement (sup = the set it implements).                        *)
EXTENDS Integers, Sequences
S == INSTANCE SGR
DefaultPen == S!DefaultPen
Apply0(pen, ps) == S!Apply(pen, ps)

(* Private modes every xterm-compatible terminal implements. *)
Baseline == {1, 25, 1002, 1003, 1004, 1006, 1049, 2004}
(* Private modes that exist only where advertised. *)
Gated == {2026, 2027, 2031, 2048, 8452}

InitTable(kstack, shape, appid, set0) ==
  [alt |-> FALSE, vis |-> TRUE, shape |-> shape, keypad |-> FALSE,
   set |-> set0,                 \* DEC private modes currently set (25 and 1049 are tracked by vis/alt)
   kitty |-> kstack,             \* keyboard-mode stack of the main screen
   kittyAlt |-> <<>>,            \* ... of the alternate screen ("the main and alternate screens must maintain
                                 \* their own, independent, keyboard mode stacks", kitty keyboard protocol)
   pointer |-> "text", pen |-> DefaultPen, link |-> 0, appid |-> appid,
   savedOnAlt |-> FALSE]

SetMode(m, n, v, sup) ==
  IF n \notin Baseline \cup sup THEN m                   \* not implemented: ignored
  ELSE IF n = 25 THEN [m EXCEPT !.vis = v]
  ELSE IF n = 1049 THEN [m EXCEPT !.alt = v]
  ELSE [m EXCEPT !.set = IF v THEN @ \cup {n} ELSE @ \ {n}]

Pop(s, n) == IF n >= Len(s) THEN <<>> ELSE SubSeq(s, 1, Len(s) - n)

(* One command of the trace vocabulary (see harness/termcmd). kk = terminal *)
(* implements the kitty keyboard protocol; a176 = implements OSC 176.       *)
Apply(m, e, sup, kk, a176) ==
  CASE e.ev = "set"     -> SetMode(m, e.m, e.v, sup)
    [] e.ev = "keypad"  -> [m EXCEPT !.keypad = e.v]
    [] e.ev = "kpush"   -> IF ~kk THEN m ELSE IF m.alt THEN [m EXCEPT !.kittyAlt = Append(@, e.n)] ELSE [m EXCEPT !.kitty = Append(@, e.n)]
    [] e.ev = "kpop"    -> IF ~kk THEN m ELSE IF m.alt THEN [m EXCEPT !.kittyAlt = Pop(@, e.n)] ELSE [m EXCEPT !.kitty = Pop(@, e.n)]
    [] e.ev = "curs"    -> [m EXCEPT !.shape = e.n]
    [] e.ev = "pointer" -> [m EXCEPT !.pointer = e.s]
    [] e.ev = "sgr"     -> [m EXCEPT !.pen = Apply0(@, e.ps)]
    [] e.ev = "osc8"    -> [m EXCEPT !.link = e.ln]
    [] e.ev = "appid"   -> IF a176 THEN [m EXCEPT !.appid = e.id] ELSE m
    [] OTHER            -> m

(* Everything back at its prior value, cursor visible, primary screen. *)
Restored(m, m0) == m = m0 /\ m.vis /\ ~m.alt

(* Which field differs, for the rejection report. *)
Diff(m, m0) ==
  {f \in {"alt", "vis", "shape", "keypad", "set", "kitty", "kittyAlt", "pointer", "pen", "link", "appid"} : m[f] # m0[f]}
=============================================================================
