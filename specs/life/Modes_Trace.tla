---------------------------- MODULE Modes_Trace ----------------------------
(* Trace validation for C04.  The commands lexed from everything a real     *)
(* Vaxis session wrote are applied to the terminal's mode table (Modes);    *)
(* marks say where Suspend, Resume and Close returned, where a kill signal  *)
(* or an injected panic hit, and whether the process died.  Verdicts:       *)
(*   at "suspended" / "closed" / "died": the table is back at its initial   *)
(*        value (Restored);                                                 *)
(*   at "resumed": the modes are exactly those start-up had established     *)
(*        (snapshot taken at "ready");                                      *)
(*   "hang:*": Suspend/Close/the signal path did not return: rejection.     *)
EXTENDS Modes, TLC, Json, IOUtils

Trace == ndJsonDeserialize(IOEnv.TRACE)

VARIABLES l, m, m0, ready, sup, kk, a176, failed
vars == <<l, m, m0, ready, sup, kk, a176, failed>>

ToSet(s) == {s[k] : k \in 1..Len(s)}
T0 == InitTable(<<>>, 0, 0, {})

Init == l = 1 /\ m = T0 /\ m0 = T0 /\ ready = T0 /\ sup = {} /\ kk = FALSE /\ a176 = FALSE /\ failed = FALSE

(* The modes Resume must re-establish: everything start-up switched. *)
ModeView(t) == [alt |-> t.alt, vis |-> t.vis, keypad |-> t.keypad, set |-> t.set, kitty |-> t.kitty, kittyAlt |-> t.kittyAlt]

Reject(e, why, detail) ==
  /\ failed' = TRUE
  /\ PrintT("REJECT " \o ToJson([scn |-> e.scn, line |-> l, why |-> why, at |-> e.what, detail |-> detail]))

Next ==
  /\ l <= Len(Trace)
  /\ l' = l + 1
  /\ LET e == Trace[l] IN
     IF e.ev = "reset" THEN
        LET t == InitTable(e.kstack, e.shape, e.appid, ToSet(e.preset)) IN
        /\ m' = t /\ m0' = t /\ ready' = t
        /\ sup' = ToSet(e.sup) /\ kk' = e.kk /\ a176' = e.a176 /\ failed' = FALSE
     ELSE IF failed THEN UNCHANGED <<m, m0, ready, sup, kk, a176, failed>>
     ELSE IF e.ev = "mark" THEN
        /\ UNCHANGED <<m, m0, sup, kk, a176>>
        /\ ready' = IF e.what = "ready" THEN m ELSE ready
        /\ IF e.what \in {"suspended", "closed", "died"} THEN
              IF Restored(m, m0) THEN UNCHANGED failed ELSE Reject(e, "not-restored", Diff(m, m0))
           ELSE IF e.what = "resumed" THEN
              IF ModeView(m) = ModeView(ready) THEN UNCHANGED failed ELSE Reject(e, "resume-differs", Diff(m, ready))
           ELSE IF e.what \in {"hang:Suspend", "hang:Close", "hang:Resume", "hang:kill", "hang:panic"} THEN
              Reject(e, "hang", Diff(m, m0))
           ELSE UNCHANGED failed
     ELSE
        /\ m' = Apply(m, e, sup, kk, a176)
        /\ UNCHANGED <<m0, ready, sup, kk, a176, failed>>

Spec == Init /\ [][Next]_vars
Consumed == TLCGet("stats").diameter - 1 = Len(Trace)
=============================================================================
