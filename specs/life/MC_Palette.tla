----------------------------- MODULE MC_Palette -----------------------------
(* Sanity theorem for the Palette oracle: the separable minimum (per-channel *)
(* nearest cube level, best grey) equals the brute-force minimum over all    *)
(* 240 entries, on a grid of colours that contains every level boundary.     *)
EXTENDS Palette, TLC
CONSTANT Grid
VARIABLE c
Init == c \in Grid \X Grid \X Grid
Next == UNCHANGED c
Spec == Init /\ [][Next]_c
SeparableIsBrute == MinDist(c) = BruteMin(c)
NearestNonEmpty == Nearest(c) # {}
=============================================================================
