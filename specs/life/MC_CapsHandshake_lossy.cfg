CONSTANTS MaxQ = 12 MaxBefore = 10 MaxAfter = 7 Drain = TRUE LossyLast = TRUE
SPECIFICATION Spec
INVARIANTS TypeOK Exact NoWedge
CHECK_DEADLOCK FALSE
