----------------------------- MODULE Lifecycle -----------------------------
(* Implementation-shaped model of the library's lifecycle: which mode-      *)
(* changing commands New, a frame, Suspend, Resume and Close write for a    *)
(* given capability set and options (transcribed from New/sendQueries/      *)
(* enableModes/disableModes/enterAltScreen/exitAltScreen/Suspend/Resume/    *)
(* Close), applied to the Modes oracle's table.  TLC explores every         *)
(* capability subset x option x start table x session of up to MaxSteps     *)
(* lifecycle steps with shutdown at every point, checking that the table is *)
(* restored whenever the session is suspended or closed and that Resume     *)
(* re-establishes what start-up established.  Shutdown by a signal or by a  *)
(* panic in the input goroutine runs the same Close and is covered by it.   *)
EXTENDS Modes, FiniteSets, TLC

CONSTANTS MaxSteps, KeepPreset   \* KeepPreset: the repaired code leaves pre-set 2027/2031 alone

CapNames == {"sync", "ucore", "ctheme", "ibr", "kitty", "sixel", "osc176", "xw"}
VARIABLES caps,      \* advertised = detected capabilities
          noMouse, noKitty,
          preset,    \* gated modes already set at start
          m, m0, ready, phase, n, shapeUser
vars == <<caps, noMouse, noKitty, preset, m, m0, ready, phase, n, shapeUser>>

Sup == (IF "sync" \in caps THEN {2026} ELSE {}) \cup (IF "ucore" \in caps THEN {2027} ELSE {})
       \cup (IF "ctheme" \in caps THEN {2031} ELSE {}) \cup (IF "ibr" \in caps THEN {2048} ELSE {})
       \cup (IF "sixel" \in caps THEN {8452} ELSE {})
KK == "kitty" \in caps
A176 == "osc176" \in caps
UseKitty == KK /\ ~noKitty

Set(k, v) == [ev |-> "set", m |-> k, v |-> v]
RECURSIVE Run(_, _)
Run(t, cmds) == IF cmds = <<>> THEN t ELSE Run(Apply(t, Head(cmds), Sup, KK, A176), Tail(cmds))

Opt(c, s) == IF c THEN s ELSE <<>>

EnterAlt == <<Set(1049, TRUE), Set(25, FALSE)>>
ExitAlt  == <<Set(25, TRUE), Set(1049, FALSE)>>
EnableModes ==
     Opt(UseKitty, <<[ev |-> "kpush", n |-> 1]>>)
  \o Opt("sixel" \in caps, <<Set(8452, TRUE)>>)
  \o Opt("ucore" \in caps /\ "xw" \notin caps, <<Set(2027, TRUE)>>)
  \o Opt("ctheme" \in caps, <<Set(2031, TRUE)>>)
  \o Opt("ibr" \in caps, <<Set(2048, TRUE)>>)
  \o <<Set(2004, TRUE), Set(1, TRUE), [ev |-> "keypad", v |-> TRUE]>>
  \o Opt(~noMouse, <<Set(1002, TRUE), Set(1003, TRUE), Set(1004, TRUE), Set(1006, TRUE)>>)
Keep(k) == KeepPreset /\ k \in preset
DisableModes ==
     <<[ev |-> "sgr", ps |-> <<>>], Set(2004, FALSE)>>
  \o Opt(UseKitty, <<[ev |-> "kpop", n |-> 1]>>)
  \o <<Set(1, FALSE), [ev |-> "keypad", v |-> FALSE]>>
  \o Opt(~noMouse, <<Set(1002, FALSE), Set(1003, FALSE), Set(1004, FALSE), Set(1006, FALSE)>>)
  \o Opt("sixel" \in caps, <<Set(8452, FALSE)>>)
  \o Opt("ucore" \in caps /\ "xw" \notin caps /\ ~Keep(2027), <<Set(2027, FALSE)>>)
  \o Opt("ctheme" \in caps /\ ~Keep(2031), <<Set(2031, FALSE)>>)
  \o Opt(A176, <<[ev |-> "appid", id |-> m0.appid]>>)
  \o Opt("ibr" \in caps, <<Set(2048, FALSE)>>)
  \o <<[ev |-> "pointer", s |-> "text"]>>
StartUp == EnterAlt \o <<Set(2048, TRUE)>> \o ExitAlt \o EnterAlt \o EnableModes
SuspendCmds == DisableModes \o ExitAlt \o <<[ev |-> "curs", n |-> shapeUser], Set(25, TRUE)>>
FrameCmds(shape, ptr) ==
     Opt("sync" \in caps, <<Set(2026, TRUE)>>)
  \o <<[ev |-> "pointer", s |-> ptr], [ev |-> "sgr", ps |-> <<<<1>>, <<33>>>>], [ev |-> "osc8", ln |-> 1],
       [ev |-> "osc8", ln |-> 0], [ev |-> "curs", n |-> shape], Set(25, TRUE), [ev |-> "sgr", ps |-> <<>>]>>
  \o Opt("sync" \in caps, <<Set(2026, FALSE)>>)

ModeView(t) == [alt |-> t.alt, vis |-> t.vis, keypad |-> t.keypad, set |-> t.set, kitty |-> t.kitty, kittyAlt |-> t.kittyAlt]

Init ==
  /\ caps \in SUBSET CapNames /\ noMouse \in BOOLEAN /\ noKitty \in BOOLEAN
  /\ preset \in {{}, {2027, 2031}}
  /\ \E ks \in {<<>>, <<3, 1>>}, sh \in {0, 5} :
       /\ m0 = InitTable(ks, sh, 7, preset \cap Sup)
       /\ shapeUser = sh
  /\ m = Run(m0, StartUp) /\ ready = Run(m0, StartUp)
  /\ phase = "running" /\ n = 0

Frame == /\ phase = "running" /\ n < MaxSteps /\ n' = n + 1
         /\ \E sh \in {1, 6}, p \in {"pointer"} : m' = Run(m, FrameCmds(sh, p))
         /\ UNCHANGED <<caps, noMouse, noKitty, preset, m0, ready, phase, shapeUser>>
Suspend == /\ phase = "running" /\ n < MaxSteps /\ n' = n + 1
           /\ m' = Run(m, SuspendCmds) /\ phase' = "suspended"
           /\ UNCHANGED <<caps, noMouse, noKitty, preset, m0, ready, shapeUser>>
Resume == /\ phase = "suspended" /\ n < MaxSteps /\ n' = n + 1
          /\ m' = Run(m, EnterAlt \o EnableModes) /\ phase' = "resumed"
          /\ UNCHANGED <<caps, noMouse, noKitty, preset, m0, ready, shapeUser>>
Continue == /\ phase = "resumed" /\ phase' = "running"
            /\ UNCHANGED <<caps, noMouse, noKitty, preset, m, m0, ready, n, shapeUser>>
Close == /\ phase \in {"running", "resumed"}
         /\ m' = Run(m, SuspendCmds) /\ phase' = "closed"
         /\ UNCHANGED <<caps, noMouse, noKitty, preset, m0, ready, n, shapeUser>>
Close2 == /\ phase = "closed" /\ UNCHANGED vars          \* a second Close writes nothing

Next == Frame \/ Suspend \/ Resume \/ Continue \/ Close \/ Close2
Spec == Init /\ [][Next]_vars

RestoredWhenDown == phase \in {"suspended", "closed"} => Restored(m, m0)
ResumeReestablishes == phase = "resumed" => ModeView(m) = ModeView(ready)
FullScreenWhileRunning == phase = "running" => (m.alt /\ 2004 \in m.set)
=============================================================================
