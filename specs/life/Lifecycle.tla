----------------------------- MODULE Lifecycle -----------------------------
(* Implementation-shaped model of the library's lifecycle: which mode-      *)
(* changing commands New, a frame, Suspend, Resume and Close write for a    *)
(* given capability set and options (transcribed from New/sendQueries/      *)
(* applyQuirks/enableModes/disableModes/enterAltScreen/exitAltScreen/       *)
(* Suspend/Resume/Close), applied to the Modes oracle's table.  TLC         *)
(* explores every capability subset x option x environment option x start   *)
(* table x session of up to MaxSteps lifecycle steps with shutdown at every *)
(* point, checking that the table is restored whenever the session is       *)
(* suspended or closed and that Resume re-establishes what start-up         *)
(* established.                                                             *)
(*                                                                          *)
(* Shutdown by a signal or by a panic in the input goroutine runs the same  *)
(* Close, but on ANOTHER goroutine than the application's: it can fall      *)
(* inside a frame (the frame's first half is written: a hyperlink is open,  *)
(* the pen is set, synchronized output is on) and inside a Suspend (marked  *)
(* suspended, waiting for the terminal's reply, nothing restored yet).      *)
(* SigClose is that Close.  The constants select the shape:                 *)
(*   FrameExcl     a frame and the shutdown exclude one another (TRUE) /    *)
(*                 the shutdown writes between the halves of a frame, what  *)
(*                 the frame writes after the console is closed is lost;    *)
(*   SerialSuspend a Close that finds a Suspend under way waits for it      *)
(*                 (TRUE) / takes "marked suspended" for "restored" and     *)
(*                 closes the console;                                      *)
(*   QuirksFirst   the environment options edit the capabilities before     *)
(*                 start-up enables the modes (TRUE) / after it: Suspend,   *)
(*                 Resume and Close then act on other capabilities than     *)
(*                 start-up did;                                            *)
(*   KeepPreset    modes already set at start are left alone on exit.       *)
EXTENDS Modes, FiniteSets, TLC

CONSTANTS MaxSteps, KeepPreset, FrameExcl, SerialSuspend, QuirksFirst,
          Quirks,      \* environment options explored: subset of {"none", "wcwidth", "nozwj", "unicode"}
          Opts         \* values of the two Disable* options explored: subset of BOOLEAN

CapNames == {"sync", "ucore", "ctheme", "ibr", "kitty", "sixel", "osc176", "xw"}
VARIABLES caps,      \* advertised = detected capabilities
          noMouse, noKitty,
          quirk,     \* environment option in force
          preset,    \* gated modes already set at start
          m, m0, ready, phase, n, shapeUser
vars == <<caps, noMouse, noKitty, quirk, preset, m, m0, ready, phase, n, shapeUser>>
cfgvars == <<caps, noMouse, noKitty, quirk, preset, m0, ready, shapeUser>>

(* What the TERMINAL implements follows from what it advertises. *)
Sup == (IF "sync" \in caps THEN {2026} ELSE {}) \cup (IF "ucore" \in caps THEN {2027} ELSE {})
       \cup (IF "ctheme" \in caps THEN {2031} ELSE {}) \cup (IF "ibr" \in caps THEN {2048} ELSE {})
       \cup (IF "sixel" \in caps THEN {8452} ELSE {})
KK == "kitty" \in caps
A176 == "osc176" \in caps

(* The capabilities the LIBRARY works with once the environment options are applied. *)
Eff == CASE quirk = "wcwidth" -> caps \ {"ucore", "xw"}
         [] quirk = "nozwj"   -> caps \ {"xw"}
         [] quirk = "unicode" -> caps \cup {"ucore"}
         [] OTHER             -> caps
StartCaps == IF QuirksFirst THEN Eff ELSE caps

Set(k, v) == [ev |-> "set", m |-> k, v |-> v]
RECURSIVE Run(_, _)
Run(t, cmds) == IF cmds = <<>> THEN t ELSE Run(Apply(t, Head(cmds), Sup, KK, A176), Tail(cmds))

Opt(c, s) == IF c THEN s ELSE <<>>

EnterAlt == <<Set(1049, TRUE), Set(25, FALSE)>>
ExitAlt  == <<Set(25, TRUE), Set(1049, FALSE)>>
EnableModes(c) ==
     Opt("kitty" \in c /\ ~noKitty, <<[ev |-> "kpush", n |-> 1]>>)
  \o Opt("sixel" \in c, <<Set(8452, TRUE)>>)
  \o Opt("ucore" \in c /\ "xw" \notin c, <<Set(2027, TRUE)>>)
  \o Opt("ctheme" \in c, <<Set(2031, TRUE)>>)
  \o Opt("ibr" \in c, <<Set(2048, TRUE)>>)
  \o <<Set(2004, TRUE), Set(1, TRUE), [ev |-> "keypad", v |-> TRUE]>>
  \o Opt(~noMouse, <<Set(1002, TRUE), Set(1003, TRUE), Set(1004, TRUE), Set(1006, TRUE)>>)
Keep(k) == KeepPreset /\ k \in preset
DisableModes(c) ==
     <<[ev |-> "sgr", ps |-> <<>>], Set(2004, FALSE)>>
  \o Opt("kitty" \in c /\ ~noKitty, <<[ev |-> "kpop", n |-> 1]>>)
  \o <<Set(1, FALSE), [ev |-> "keypad", v |-> FALSE]>>
  \o Opt(~noMouse, <<Set(1002, FALSE), Set(1003, FALSE), Set(1004, FALSE), Set(1006, FALSE)>>)
  \o Opt("sixel" \in c, <<Set(8452, FALSE)>>)
  \o Opt("ucore" \in c /\ "xw" \notin c /\ ~Keep(2027), <<Set(2027, FALSE)>>)
  \o Opt("ctheme" \in c /\ ~Keep(2031), <<Set(2031, FALSE)>>)
  \o Opt(A176, <<[ev |-> "appid", id |-> m0.appid]>>)
  \o Opt("ibr" \in c, <<Set(2048, FALSE)>>)
  \o <<[ev |-> "pointer", s |-> "text"]>>
StartUp == EnterAlt \o <<Set(2048, TRUE)>> \o ExitAlt \o EnterAlt \o EnableModes(StartCaps)
SuspendCmds == DisableModes(Eff) \o ExitAlt \o <<[ev |-> "curs", n |-> shapeUser], Set(25, TRUE)>>
(* A frame, in the two halves a shutdown on another goroutine can fall between. *)
FrameHead(ptr) ==
     Opt("sync" \in caps, <<Set(2026, TRUE)>>)
  \o <<[ev |-> "pointer", s |-> ptr], [ev |-> "sgr", ps |-> <<<<1>>, <<33>>>>], [ev |-> "osc8", ln |-> 1]>>
FrameTail(shape) ==
     <<[ev |-> "osc8", ln |-> 0], [ev |-> "curs", n |-> shape], Set(25, TRUE), [ev |-> "sgr", ps |-> <<>>]>>
  \o Opt("sync" \in caps, <<Set(2026, FALSE)>>)

ModeView(t) == [alt |-> t.alt, vis |-> t.vis, keypad |-> t.keypad, set |-> t.set, kitty |-> t.kitty, kittyAlt |-> t.kittyAlt]

Init ==
  /\ caps \in SUBSET CapNames /\ noMouse \in Opts /\ noKitty \in Opts
  /\ quirk \in Quirks
  /\ preset \in {{}, {2027, 2031}}
  /\ \E ks \in {<<>>, <<3, 1>>}, sh \in {0, 5} :
       /\ m0 = InitTable(ks, sh, 7, preset \cap Sup)
       /\ shapeUser = sh
  /\ m = Run(m0, StartUp) /\ ready = Run(m0, StartUp)
  /\ phase = "running" /\ n = 0

FrameBegin == /\ phase = "running" /\ n < MaxSteps /\ n' = n + 1
              /\ m' = Run(m, FrameHead("pointer")) /\ phase' = "drawing"
              /\ UNCHANGED cfgvars
FrameEnd == /\ phase = "drawing" /\ phase' = "running"
            /\ \E sh \in {1, 6} : m' = Run(m, FrameTail(sh))
            /\ UNCHANGED <<n>> /\ UNCHANGED cfgvars
(* Suspend: mark, (terminal round trip), restore. *)
SuspendBegin == /\ phase = "running" /\ n < MaxSteps /\ n' = n + 1
                /\ phase' = "suspending"
                /\ UNCHANGED <<m>> /\ UNCHANGED cfgvars
SuspendEnd == /\ phase = "suspending"
              /\ m' = Run(m, SuspendCmds) /\ phase' = "suspended"
              /\ UNCHANGED <<n>> /\ UNCHANGED cfgvars
Resume == /\ phase = "suspended" /\ n < MaxSteps /\ n' = n + 1
          /\ m' = Run(m, EnterAlt \o EnableModes(Eff)) /\ phase' = "resumed"
          /\ UNCHANGED cfgvars
Continue == /\ phase = "resumed" /\ phase' = "running"
            /\ UNCHANGED <<m, n>> /\ UNCHANGED cfgvars
(* Close by the application, or by the signal path while the application is between its calls. *)
Close == /\ phase \in {"running", "resumed"}
         /\ m' = Run(m, SuspendCmds) /\ phase' = "closed"
         /\ UNCHANGED <<n>> /\ UNCHANGED cfgvars
CloseSuspended == /\ phase = "suspended" /\ phase' = "closed"       \* nothing of ours is left to undo
                  /\ UNCHANGED <<m, n>> /\ UNCHANGED cfgvars
(* The signal path's Close while the application goroutine is inside a frame or inside Suspend. *)
SigCloseInFrame == /\ phase = "drawing" /\ ~FrameExcl
                   /\ m' = Run(m, SuspendCmds) /\ phase' = "closed" \* the frame's tail goes to a closed console
                   /\ UNCHANGED <<n>> /\ UNCHANGED cfgvars
SigCloseInSuspend == /\ phase = "suspending" /\ ~SerialSuspend
                     /\ phase' = "closed"                           \* "already suspended": nothing written, console closed
                     /\ UNCHANGED <<m, n>> /\ UNCHANGED cfgvars
Close2 == /\ phase = "closed" /\ UNCHANGED vars          \* a second Close writes nothing

Next == FrameBegin \/ FrameEnd \/ SuspendBegin \/ SuspendEnd \/ Resume \/ Continue \/ Close \/ CloseSuspended
        \/ SigCloseInFrame \/ SigCloseInSuspend \/ Close2
Spec == Init /\ [][Next]_vars

RestoredWhenDown == phase \in {"suspended", "closed"} => Restored(m, m0)
ResumeReestablishes == phase = "resumed" => ModeView(m) = ModeView(ready)
FullScreenWhileRunning == phase = "running" => (m.alt /\ 2004 \in m.set)
=============================================================================
