CONSTANTS
  MaxSteps = 5
  KeepPreset = TRUE
SPECIFICATION Spec
INVARIANTS RestoredWhenDown ResumeReestablishes FullScreenWhileRunning
CHECK_DEADLOCK FALSE
