CONSTANT Grid = {0, 1, 47, 48, 94, 95, 96, 114, 115, 116, 135, 154, 155, 156, 175, 195, 215, 234, 235, 236, 254, 255}
SPECIFICATION Spec
INVARIANTS SeparableIsBrute NearestNonEmpty
CHECK_DEADLOCK FALSE
