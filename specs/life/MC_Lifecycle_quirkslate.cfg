CONSTANTS
  MaxSteps = 3
  KeepPreset = TRUE
  FrameExcl = TRUE
  SerialSuspend = TRUE
  QuirksFirst = FALSE
  Quirks = {"wcwidth", "nozwj", "unicode"}
  Opts = {FALSE}
SPECIFICATION Spec
INVARIANTS RestoredWhenDown ResumeReestablishes FullScreenWhileRunning
CHECK_DEADLOCK FALSE
