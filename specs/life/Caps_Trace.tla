----------------------------- MODULE Caps_Trace -----------------------------
(* Trace validation for C07 over whole sessions of a real Vaxis on a         *)
(* terminal advertising the feature set adv:                                 *)
(*   - every command written is baseline vocabulary, a start-up probe, or    *)
(*     gated by a feature in adv (Caps!Allowed);                             *)
(*   - at "ready" the capability accessors equal Caps!Established(adv);      *)
(*   - every frame is displayed correctly by the reference terminal with the *)
(*     fallbacks the missing features require (RefTerm!FrameOK: nearest      *)
(*     palette entry without rgb, single underline without colour without    *)
(*     styledUnderlines, widths as the terminal measures them).              *)
EXTENDS RefTerm, Caps, TLC, Json, IOUtils

Trace == ndJsonDeserialize(IOEnv.TRACE)

VARIABLES l, t, adv, phase, failed
vars == <<l, t, adv, phase, failed>>

SeqToSet(s) == {s[k] : k \in 1..Len(s)}
Init == l = 1 /\ t = InitTerm(1, 1, FALSE) /\ adv = {} /\ phase = "startup" /\ failed = FALSE

Reject(e, why, detail) ==
  /\ failed' = TRUE
  /\ PrintT("REJECT " \o ToJson([scn |-> e.scn, line |-> l, why |-> why, detail |-> detail]))

IsCmd(e) == e.ev \notin {"reset", "frame", "ready", "scramble", "resize", "mark", "other"}

Next ==
  /\ l <= Len(Trace)
  /\ l' = l + 1
  /\ LET e == Trace[l] IN
     IF e.ev = "reset" THEN
        /\ t' = InitTerm(e.rows, e.cols, e.xw) /\ adv' = SeqToSet(e.adv) /\ phase' = "startup" /\ failed' = FALSE
     ELSE IF failed THEN UNCHANGED <<t, adv, phase, failed>>
     ELSE IF e.ev = "ready" THEN
        /\ phase' = "run" /\ UNCHANGED <<t, adv>>
        /\ IF e.can = Established(adv) THEN UNCHANGED failed
           ELSE Reject(e, "accessors", {f \in DOMAIN e.can : e.can[f] # Established(adv)[f]})
     ELSE IF e.ev = "frame" THEN
        /\ UNCHANGED <<t, adv, phase>>
        /\ IF FrameOK(t, e) THEN UNCHANGED failed
           ELSE Reject(e, "frame-" \o FrameWhy(t, e), FirstBad(t, e))
     ELSE IF e.ev = "other" THEN
        /\ UNCHANGED <<t, adv, phase>>
        /\ Reject(e, "unknown-vocabulary", e.what)
     ELSE
        /\ t' = Step(t, e) /\ UNCHANGED <<adv, phase>>
        /\ IF ~IsCmd(e) \/ Allowed(e, phase, adv) THEN UNCHANGED failed
           ELSE Reject(e, "not-advertised", [cmd |-> e.ev, need |-> Need(e) \ adv])

Spec == Init /\ [][Next]_vars
Consumed == TLCGet("stats").diameter - 1 = Len(Trace)
=============================================================================
