----------------------------- MODULE Caps_Trace -----------------------------
(* Trace validation for C07 over whole sessions of a real Vaxis on a         *)
(* terminal advertising the feature set adv:                                 *)
(*   - every command written is baseline vocabulary, a start-up probe, or    *)
(*     gated by a feature in adv (Caps!Allowed);                             *)
(*   - at "ready" the capability accessors equal Caps!Established(adv);      *)
(*   - every frame is displayed correctly by the reference terminal with the *)
(*     fallbacks the missing features require (RefTerm!FrameOK: nearest      *)
(*     palette entry without rgb, single underline without colour without    *)
(*     styledUnderlines, widths as the terminal measures them);              *)
(*   - text the application hands to a widget of the library (pager, text    *)
(*     input) is displayed cluster after cluster from the widget's first     *)
(*     column on, each cluster in as many columns as THIS terminal gives it  *)
(*     ("graphemes are measured with the width method that matches" what the *)
(*     replies established): TextRows below; the same FrameOK then judges.   *)
EXTENDS RefTerm, Caps, TLC, Json, IOUtils

Trace == ndJsonDeserialize(IOEnv.TRACE)

VARIABLES l, t, adv, phase, failed
vars == <<l, t, adv, phase, failed>>

SeqToSet(s) == {s[k] : k \in 1..Len(s)}
Init == l = 1 /\ t = InitTerm(1, 1, FALSE) /\ adv = {} /\ phase = "startup" /\ failed = FALSE

Reject(e, why, detail) ==
  /\ failed' = TRUE
  /\ PrintT("REJECT " \o ToJson([scn |-> e.scn, line |-> l, why |-> why, detail |-> detail]))

----------------------------------------------------------------------------
(* Rows drawn by a text widget.  A frame event may carry texts: a sequence  *)
(* of [r, c, cells, fill, cur]: the widget fills row r with blanks (fill, an *)
(* application cell) and shows the clusters cells (application cells        *)
(* <<g, 0, fg, bg, ul, us, at, ln, tw>>: width left to the library, tw = the *)
(* logged number of columns this terminal gives the cluster) one after the  *)
(* other from column c on; cur > 0: its cursor, of that DECSCUSR shape, is   *)
(* requested in the column behind the last cluster.  Where a cluster starts *)
(* is the sum of what the terminal gives the clusters before it: whichever  *)
(* method the library measures with has to arrive at the same columns.      *)
(* Each blank and each cluster is one write (RefTerm!WantAt).               *)
HasTexts(e) == "texts" \in DOMAIN e
TextStamp == 1000000
ClusterCols(a) == Max(1, AW(a))
RECURSIVE PlaceText(_, _, _, _, _)
PlaceText(row, n, x, cells, st) ==
  IF cells = <<>> \/ x > n THEN row
  ELSE LET a == Head(cells)
           w == ClusterCols(a)
       IN PlaceText([y \in 1..n |-> IF y >= x /\ y < x + w THEN a \o <<x, st>> ELSE row[y]],
                    n, x + w, Tail(cells), st + 1)
RECURSIVE TextEnd(_, _)
TextEnd(x, cells) == IF cells = <<>> THEN x ELSE TextEnd(x + ClusterCols(Head(cells)), Tail(cells))
TextRow(tx, n) == PlaceText([y \in 1..n |-> tx.fill \o <<y, TextStamp>>], n, tx.c, tx.cells, TextStamp + 1)

(* The frame event with the widget rows laid out and the widget's cursor. *)
TextRows(e) ==
  IF ~HasTexts(e) THEN e
  ELSE LET n == Len(e.app[1])
           On(y) == {k \in 1..Len(e.texts) : e.texts[k].r = y}
           Curs == {k \in 1..Len(e.texts) : e.texts[k].cur > 0}
       IN [e EXCEPT !.app = [y \in 1..Len(e.app) |-> IF On(y) = {} THEN e.app[y]
                                                      ELSE TextRow(e.texts[CHOOSE k \in On(y) : TRUE], n)],
                    !.cur = IF Curs = {} THEN e.cur
                            ELSE LET tx == e.texts[CHOOSE k \in Curs : TRUE]
                                 IN <<1, tx.r, TextEnd(tx.c, tx.cells), tx.cur>>]

IsCmd(e) == e.ev \notin {"reset", "frame", "ready", "scramble", "resize", "mark", "other"}

Next ==
  /\ l <= Len(Trace)
  /\ l' = l + 1
  /\ LET e == Trace[l] IN
     IF e.ev = "reset" THEN
        /\ t' = InitTerm(e.rows, e.cols, e.xw) /\ adv' = SeqToSet(e.adv) /\ phase' = "startup" /\ failed' = FALSE
     ELSE IF failed THEN UNCHANGED <<t, adv, phase, failed>>
     ELSE IF e.ev = "ready" THEN
        /\ phase' = "run" /\ UNCHANGED <<t, adv>>
        /\ IF e.can = Established(adv) THEN UNCHANGED failed
           ELSE Reject(e, "accessors", {f \in DOMAIN e.can : e.can[f] # Established(adv)[f]})
     ELSE IF e.ev = "frame" THEN
        /\ UNCHANGED <<t, adv, phase>>
        /\ LET f == TextRows(e) IN
           IF FrameOK(t, f) THEN UNCHANGED failed
           ELSE Reject(e, "frame-" \o (IF HasTexts(e) THEN "text-" ELSE "") \o FrameWhy(t, f), FirstBad(t, f))
     ELSE IF e.ev = "other" THEN
        /\ UNCHANGED <<t, adv, phase>>
        /\ Reject(e, "unknown-vocabulary", e.what)
     ELSE
        /\ t' = Step(t, e) /\ UNCHANGED <<adv, phase>>
        /\ IF ~IsCmd(e) \/ Allowed(e, phase, adv) THEN UNCHANGED failed
           ELSE Reject(e, "not-advertised", [cmd |-> e.ev, need |-> Need(e) \ adv])

Spec == Init /\ [][Next]_vars
Consumed == TLCGet("stats").diameter - 1 = Len(Trace)
=============================================================================
