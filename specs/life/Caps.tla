-------------------------------- MODULE Caps --------------------------------
(* Oracle for C07: which parts of the output vocabulary are baseline xterm   *)
(* and which exist only on terminals that advertise a feature, and what the  *)
(* application-visible capability accessors must report.                     *)
(* Features (as advertised in the replies to the start-up queries):          *)
(*   sync (DECRPM 2026), unicodeCore (DECRPM 2027), colorTheme (DECRPM 2031),*)
(*   inBandResize (report after DECSET 2048), kittyKeyboard (CSI ? u reply), *)
(*   kittyGraphics (APC G reply), sixel (4 in DA1 or XTSMGRAPHICS reply),    *)
(*   sizeReports (CSI 14/18 t replies), rgb (XTGETTCAP RGB),                 *)
(*   styledUnderlines (XTGETTCAP Smulx or the VTE tertiary-DA signature),    *)
(*   osc4, osc10, osc11, osc176 (replies), explicitWidth (OSC 66 moves the   *)
(*   cursor).                                                                *)
(* What a reply advertises is its meaning, not its spelling or its timing:   *)
(* hexadecimal strings (XTGETTCAP names and values, the tertiary-DA unit id) *)
(* advertise the same in either letter case, and the set advertised is the   *)
(* same whatever the size of the application's event queue. A terminal name  *)
(* given in the XTVERSION reply is a reply too: the scenario lists in adv    *)
(* the feature a documented name stands for ("tmux 3.4": unicodeCore).       *)
(* The property says "used ONLY when advertised": nothing here demands that  *)
(* an advertised mode is set, or set at a particular moment.                 *)
EXTENDS Integers, Sequences, FiniteSets

Features == {"sync", "unicodeCore", "colorTheme", "inBandResize", "kittyKeyboard", "kittyGraphics", "sixel",
             "sizeReports", "rgb", "styledUnderlines", "osc4", "osc10", "osc11", "osc176", "explicitWidth"}

(* The accessors the application can call, as a record of booleans. *)
Established(S) ==
  [rgb |-> "rgb" \in S, kittyGraphics |-> "kittyGraphics" \in S, sixel |-> "sixel" \in S,
   color |-> "osc4" \in S, fg |-> "osc10" \in S, bg |-> "osc11" \in S,
   graphics |-> ("sixel" \in S \/ "kittyGraphics" \in S), appid |-> "osc176" \in S,
   unicodeCore |-> "unicodeCore" \in S, explicitWidth |-> "explicitWidth" \in S]

BaselineModes == {1, 25, 1002, 1003, 1004, 1006, 1049, 2004}
ModeFeature(n) == CASE n = 2026 -> "sync" [] n = 2027 -> "unicodeCore" [] n = 2031 -> "colorTheme"
                    [] n = 2048 -> "inBandResize" [] n = 8452 -> "sixel" [] OTHER -> "unknown"

(* Features an SGR parameter list needs. *)
IsRGBForm(ps, i) ==
  LET p == ps[i] IN
  \/ (Len(p) >= 5 /\ p[2] = 2)
  \/ (Len(p) = 1 /\ i + 1 <= Len(ps) /\ Len(ps[i+1]) = 1 /\ ps[i+1][1] = 2)
SgrNeed(ps) ==
  UNION {  (IF ps[i][1] \in {38, 48, 58} /\ IsRGBForm(ps, i) THEN {"rgb"} ELSE {})
      \cup (IF ps[i][1] \in {58, 59} THEN {"styledUnderlines"} ELSE {})
      \cup (IF ps[i][1] = 4 /\ Len(ps[i]) > 1 THEN {"styledUnderlines"} ELSE {})
         : i \in 1..Len(ps) }

(* Features a command needs; {"unknown"} for vocabulary outside both the     *)
(* baseline and every gated feature.                                         *)
Need(e) ==
  CASE e.ev \in {"print", "cup", "cr", "ed2", "curs", "keypad", "osc8", "pointer", "nop", "side"} -> {}
    [] e.ev = "sgr"    -> SgrNeed(e.ps)
    [] e.ev = "set"    -> IF e.m \in BaselineModes THEN {} ELSE {ModeFeature(e.m)}
    [] e.ev = "xprint" -> {"explicitWidth"}
    [] e.ev \in {"kpush", "kpop"} -> {"kittyKeyboard"}
    [] e.ev = "appid"  -> {"osc176"}
    [] e.ev = "gfx"    -> IF e.proto = "kitty" THEN {"kittyGraphics"} ELSE {"sixel"}
    [] e.ev = "query"  -> CASE e.q = "da1" -> {}                       \* every terminal answers DA1
                            [] e.q = "cpr" -> {}                       \* and DSR 6
                            [] e.q = "dsr" /\ e.n = 996 -> {"colorTheme"}
                            [] e.q = "winsize" -> {"sizeReports"}
                            [] e.q = "osc4" -> {"osc4"} [] e.q = "osc10" -> {"osc10"} [] e.q = "osc11" -> {"osc11"}
                            [] e.q = "osc52" -> {}                     \* clipboard request: an explicit application call
                            [] OTHER -> {"startup-only"}
    [] OTHER -> {"unknown"}

(* During the start-up handshake anything that is a query, or a harmless     *)
(* probe every terminal either answers or ignores, may be written.           *)
IsProbe(e) == e.ev = "query" \/ (e.ev = "set" /\ e.m = 2048 /\ e.v) \/ e.ev = "xprint"

Allowed(e, phase, S) == (phase = "startup" /\ IsProbe(e)) \/ Need(e) \subseteq S
=============================================================================
