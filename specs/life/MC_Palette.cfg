CONSTANT Grid = {0, 1, 47, 48, 95, 155, 235, 255}
SPECIFICATION Spec
INVARIANTS SeparableIsBrute NearestNonEmpty
CHECK_DEADLOCK FALSE
