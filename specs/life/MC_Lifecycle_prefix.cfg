CONSTANTS
  MaxSteps = 5
  KeepPreset = FALSE
SPECIFICATION Spec
INVARIANTS RestoredWhenDown ResumeReestablishes FullScreenWhileRunning
CHECK_DEADLOCK FALSE
