--------------------------- MODULE Palette_Trace ---------------------------
(* Trace validation of the RGB -> 256-colour fallback against the Palette    *)
(* oracle.  One "row" event carries the results for the 256 colours          *)
(* (r, g, b) with b = b0, b0+step, ... : idx[k] must be a nearest palette    *)
(* entry of <<r, g, bs[k]>>.                                                 *)
EXTENDS Palette, Sequences, TLC, Json, IOUtils
Trace == ndJsonDeserialize(IOEnv.TRACE)
VARIABLES l
Init == l = 1
Bad(e) == {k \in 1..Len(e.idx) : ~IsNearest(<<e.r, e.g, e.bs[k]>>, e.idx[k])}
Next ==
  /\ l <= Len(Trace) /\ l' = l + 1
  /\ LET e == Trace[l] IN
     IF e.ev = "row" /\ Bad(e) # {} THEN
        LET k == CHOOSE k \in Bad(e) : \A j \in Bad(e) : k <= j IN
        PrintT("REJECT " \o ToJson([scn |-> e.scn, line |-> l, why |-> "not-nearest", rgb |-> <<e.r, e.g, e.bs[k]>>,
                                    got |-> e.idx[k], nearest |-> Nearest(<<e.r, e.g, e.bs[k]>>)]))
     ELSE TRUE
Spec == Init /\ [][Next]_<<l>>
Consumed == TLCGet("stats").diameter - 1 = Len(Trace)
=============================================================================
