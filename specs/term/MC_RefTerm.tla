---------------------------- MODULE MC_RefTerm ----------------------------
(* Exhaustive sanity model of the RefTerm oracle itself: every command      *)
(* sequence up to MaxSteps over a small alphabet on a small screen.  The    *)
(* invariants are the structural facts the frame check relies on (a wide    *)
(* glyph is always intact or entirely unknown; the cursor stays on screen). *)
EXTENDS RefTerm, TLC
CONSTANTS Rows, Cols, MaxSteps

VARIABLES t, n
vars == <<t, n>>

Cmds ==
  {[ev |-> "print", g |-> g, w |-> w] : g \in {1}, w \in {0, 1, 2}}
  \cup {[ev |-> "cup", r |-> r, c |-> c] : r \in 1..Rows, c \in 1..Cols}
  \cup {[ev |-> "sgr", ps |-> ps] : ps \in {<<>>, <<<<1>>>>, <<<<38, 5, 9>>>>, <<<<4, 3>>>>}}
  \cup {[ev |-> "osc8", ln |-> x] : x \in {0, 1}}
  \cup {[ev |-> "set", m |-> m, v |-> v] : m \in {25, 2026}, v \in BOOLEAN}
  \cup {[ev |-> "ed2"], [ev |-> "scramble"], [ev |-> "cr"]}
  \cup {[ev |-> "foreign", vis |-> v, shape |-> 3, r |-> Rows + 2, c |-> 0] : v \in BOOLEAN}     \* a cursor left anywhere

Init == t = ED2(InitTerm(Rows, Cols, FALSE)) /\ n = 0
Next == n < MaxSteps /\ n' = n + 1 /\ \E c \in Cmds : t' = Step(t, c)
Spec == Init /\ [][Next]_vars

CursorIn == t.r \in 1..t.rows /\ t.c \in 1..t.cols
Shape == DOMAIN t.grid = 1..t.rows /\ \A y \in 1..t.rows : DOMAIN t.grid[y] = 1..t.cols
WideIntact ==
  \A y \in 1..t.rows : \A x \in 1..t.cols :
    LET cell == t.grid[y][x] IN
    /\ cell.k = "g" => /\ x + cell.w - 1 <= t.cols
                       /\ \A i \in 1..(cell.w - 1) : t.grid[y][x + i].k = "c"
    /\ cell.k = "c" => \E h \in 1..(x - 1) : /\ t.grid[y][h].k = "g"
                                            /\ h + t.grid[y][h].w - 1 >= x
                                            /\ \A m \in (h + 1)..x : t.grid[y][m].k = "c"
PendingWrapAtEdge == t.pw => t.c = t.cols
View == t
=============================================================================
