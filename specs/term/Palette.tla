----------------------------- MODULE Palette -----------------------------
(* Oracle for the 256-colour fallback: the xterm 256-colour palette         *)
(* (entries 16..231 the 6x6x6 cube with levels 0,95,135,175,215,255;        *)
(* 232..255 the grey ramp 8+10k) and the weighted squared distance          *)
(* (.3,.59,.11) in exact integer arithmetic (scaled by 10^4).               *)
EXTENDS Integers, FiniteSets

Level(k) == IF k = 0 THEN 0 ELSE 55 + 40 * k
PalRGB(i) ==              \* <<r,g,b>> of palette entry i, 16 <= i <= 255
  IF i < 232 THEN LET j == i - 16 IN <<Level(j \div 36), Level((j \div 6) % 6), Level(j % 6)>>
  ELSE LET v == 8 + 10 * (i - 232) IN <<v, v, v>>

Sq(x) == x * x
Dist(c, p) == 900 * Sq(c[1] - p[1]) + 3481 * Sq(c[2] - p[2]) + 121 * Sq(c[3] - p[3])

Min2(a, b) == IF a < b THEN a ELSE b
(* Distance from channel value v to the nearest cube level. *)
ChanMin(v) == Min2(Sq(v), Min2(Sq(v - 95), Min2(Sq(v - 135), Min2(Sq(v - 175), Min2(Sq(v - 215), Sq(v - 255))))))
CubeMin(c) == 900 * ChanMin(c[1]) + 3481 * ChanMin(c[2]) + 121 * ChanMin(c[3])
SetMin(S) == CHOOSE d \in S : \A e \in S : d <= e
GreyMin(c) == SetMin({Dist(c, PalRGB(i)) : i \in 232..255})
MinDist(c) == Min2(CubeMin(c), GreyMin(c))

(* i is an acceptable fallback for direct colour c = <<r,g,b>>. *)
IsNearest(c, i) == i \in 16..255 /\ Dist(c, PalRGB(i)) = MinDist(c)
Nearest(c) == {i \in 16..255 : Dist(c, PalRGB(i)) = MinDist(c)}

(* Sanity theorem checked by TLC on a sample: the separable minimum equals  *)
(* the brute-force minimum.                                                 *)
BruteMin(c) == SetMin({Dist(c, PalRGB(i)) : i \in 16..255})
=============================================================================
