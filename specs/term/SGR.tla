------------------------------- MODULE SGR -------------------------------
(* Oracle: what an SGR (Select Graphic Rendition) parameter list does to a  *)
(* pen.  Written from ECMA-48 8.3.117, ITU T.416 13.1.8 (colon forms of     *)
(* 38/48), xterm ctlseqs "Character Attributes (SGR)" and the kitty         *)
(* underline extension (4:n, 58, 59).  No implementation identifiers.       *)
(*                                                                          *)
(* Colour encoding (integers):  0 = default;  1..256 = palette index + 1;   *)
(* RGBBase + r*65536 + g*256 + b = direct colour.                           *)
(* Attribute mask (integer, bit values): bold 1, dim 2, italic 4, blink 8,  *)
(* reverse 16, invisible 32, strikethrough 64.                              *)
(* Underline style: 0 off, 1 single, 2 double, 3 curly, 4 dotted, 5 dashed. *)
(* A parameter list is a sequence of parameters; a parameter is a non-empty *)
(* sequence of sub-parameters; an omitted value is -1.                      *)
EXTENDS Integers, Sequences

RGBBase == 16777216
Idx(n) == n + 1
RGB(r, g, b) == RGBBase + r * 65536 + g * 256 + b

DefaultPen == [fg |-> 0, bg |-> 0, ul |-> 0, us |-> 0, at |-> 0]

Bold == 1  Dim == 2  Italic == 4  Blink == 8  Reverse == 16  Invisible == 32  Strike == 64

Has(m, b) == (m \div b) % 2 = 1
Set(m, b) == IF Has(m, b) THEN m ELSE m + b
Clr(m, b) == IF Has(m, b) THEN m - b ELSE m

V(x) == IF x < 0 THEN 0 ELSE x        \* omitted value means 0
Byte(x) == x >= 0 /\ x <= 255

(* Extended colour starting at parameter i (whose first value is 38, 48 or  *)
(* 58).  Returns [ok, col, n]: ok = well-formed; col = the colour; n = how  *)
(* many parameters the form occupies.                                       *)
ExtColour(ps, i) ==
  LET p == ps[i] IN
  IF Len(p) > 1 THEN        \* colon form, self-contained
     IF Len(p) = 3 /\ p[2] = 5 /\ Byte(p[3]) THEN [ok |-> TRUE, col |-> Idx(p[3]), n |-> 1]
     ELSE IF Len(p) = 5 /\ p[2] = 2 /\ Byte(p[3]) /\ Byte(p[4]) /\ Byte(p[5])
          THEN [ok |-> TRUE, col |-> RGB(p[3], p[4], p[5]), n |-> 1]
     ELSE IF Len(p) = 6 /\ p[2] = 2 /\ Byte(p[4]) /\ Byte(p[5]) /\ Byte(p[6])
          THEN [ok |-> TRUE, col |-> RGB(p[4], p[5], p[6]), n |-> 1]   \* p[3] = colour-space id, ignored
     ELSE [ok |-> FALSE, col |-> 0, n |-> 1]
  ELSE                      \* legacy semicolon form
     IF i + 2 <= Len(ps) /\ Len(ps[i+1]) = 1 /\ ps[i+1][1] = 5
        /\ Len(ps[i+2]) = 1 /\ Byte(ps[i+2][1])
     THEN [ok |-> TRUE, col |-> Idx(ps[i+2][1]), n |-> 3]
     ELSE IF i + 4 <= Len(ps) /\ Len(ps[i+1]) = 1 /\ ps[i+1][1] = 2
        /\ \A k \in 2..4 : Len(ps[i+k]) = 1 /\ Byte(ps[i+k][1])
     THEN [ok |-> TRUE, col |-> RGB(ps[i+2][1], ps[i+3][1], ps[i+4][1]), n |-> 5]
     ELSE [ok |-> FALSE, col |-> 0, n |-> 1]

(* One non-extended parameter. *)
Simple(pen, p) ==
  LET c == V(p[1]) IN
  CASE c = 0  -> DefaultPen
    [] c = 1  -> [pen EXCEPT !.at = Set(@, Bold)]
    [] c = 2  -> [pen EXCEPT !.at = Set(@, Dim)]
    [] c = 3  -> [pen EXCEPT !.at = Set(@, Italic)]
    [] c = 4  -> IF Len(p) = 1 THEN [pen EXCEPT !.us = 1]
                 ELSE IF Len(p) = 2 /\ V(p[2]) \in 0..5 THEN [pen EXCEPT !.us = V(p[2])]
                 ELSE pen
    [] c = 5  -> [pen EXCEPT !.at = Set(@, Blink)]
    [] c = 7  -> [pen EXCEPT !.at = Set(@, Reverse)]
    [] c = 8  -> [pen EXCEPT !.at = Set(@, Invisible)]
    [] c = 9  -> [pen EXCEPT !.at = Set(@, Strike)]
    [] c = 22 -> [pen EXCEPT !.at = Clr(Clr(@, Bold), Dim)]
    [] c = 23 -> [pen EXCEPT !.at = Clr(@, Italic)]
    [] c = 24 -> [pen EXCEPT !.us = 0]
    [] c = 25 -> [pen EXCEPT !.at = Clr(@, Blink)]
    [] c = 27 -> [pen EXCEPT !.at = Clr(@, Reverse)]
    [] c = 28 -> [pen EXCEPT !.at = Clr(@, Invisible)]
    [] c = 29 -> [pen EXCEPT !.at = Clr(@, Strike)]
    [] c \in 30..37   -> [pen EXCEPT !.fg = Idx(c - 30)]
    [] c = 39         -> [pen EXCEPT !.fg = 0]
    [] c \in 40..47   -> [pen EXCEPT !.bg = Idx(c - 40)]
    [] c = 49         -> [pen EXCEPT !.bg = 0]
    [] c = 59         -> [pen EXCEPT !.ul = 0]
    [] c \in 90..97   -> [pen EXCEPT !.fg = Idx(c - 90 + 8)]
    [] c \in 100..107 -> [pen EXCEPT !.bg = Idx(c - 100 + 8)]
    [] OTHER -> pen            \* unknown: no effect

IsExt(p) == V(p[1]) \in {38, 48, 58}

RECURSIVE ApplyFrom(_, _, _)
ApplyFrom(pen, ps, i) ==
  IF i > Len(ps) THEN pen
  ELSE IF IsExt(ps[i]) THEN
     LET e == ExtColour(ps, i)
         c == ps[i][1]
     IN IF ~e.ok THEN pen      \* malformed: stop; result unconstrained (see WellFormed)
        ELSE ApplyFrom(CASE c = 38 -> [pen EXCEPT !.fg = e.col]
                         [] c = 48 -> [pen EXCEPT !.bg = e.col]
                         [] c = 58 -> [pen EXCEPT !.ul = e.col], ps, i + e.n)
  ELSE ApplyFrom(Simple(pen, ps[i]), ps, i + 1)

Apply(pen, ps) == IF Len(ps) = 0 THEN DefaultPen ELSE ApplyFrom(pen, ps, 1)

(* Codes whose meaning this oracle fixes.  A list is well-formed when every *)
(* parameter is a known code in a well-formed shape; only then is the       *)
(* result of Apply prescriptive.                                            *)
Known == {0,1,2,3,4,5,7,8,9,22,23,24,25,27,28,29,39,49,59}
           \cup (30..37) \cup (40..47) \cup (90..97) \cup (100..107)

RECURSIVE WFFrom(_, _)
WFFrom(ps, i) ==
  IF i > Len(ps) THEN TRUE
  ELSE IF IsExt(ps[i]) THEN
     LET e == ExtColour(ps, i) IN e.ok /\ WFFrom(ps, i + e.n)
  ELSE /\ V(ps[i][1]) \in Known
       /\ (Len(ps[i]) = 1 \/ (V(ps[i][1]) = 4 /\ Len(ps[i]) = 2 /\ V(ps[i][2]) \in 0..5))
       /\ WFFrom(ps, i + 1)
WellFormed(ps) == WFFrom(ps, 1)
=============================================================================
