--------------------------- MODULE RefTerm_Trace ---------------------------
(* Trace validation for C01 (and the display half of C07): the abstract     *)
(* commands lexed from the bytes a real Vaxis wrote are stepped through the *)
(* RefTerm oracle; at every "frame" event the oracle's screen must equal    *)
(* what the application set (FrameOK).  Many scenarios per file, separated  *)
(* by "reset".  A scenario whose frame check fails is reported with         *)
(* REJECT and skipped to its end so the remaining scenarios are still       *)
(* checked.                                                                 *)
EXTENDS RefTerm, TLC, Json, IOUtils

Trace == ndJsonDeserialize(IOEnv.TRACE)

VARIABLES l, t, failed,
          fo        \* has something else written to the terminal since the last frame ("foreign")?
vars == <<l, t, failed, fo>>

Init == l = 1 /\ t = InitTerm(1, 1, FALSE) /\ failed = FALSE /\ fo = FALSE

Next ==
  /\ l <= Len(Trace)
  /\ l' = l + 1
  /\ fo' = (Trace[l].ev = "foreign" \/ (fo /\ Trace[l].ev \notin {"frame", "reset"}))
  /\ LET e == Trace[l] IN
     IF e.ev = "reset" THEN
        /\ t' = InitTerm(e.rows, e.cols, e.xw)
        /\ failed' = FALSE
     ELSE IF failed THEN UNCHANGED <<t, failed>>
     ELSE IF e.ev = "frame" THEN
        /\ UNCHANGED t
        /\ IF FrameOK(t, e) THEN UNCHANGED failed
           ELSE /\ failed' = TRUE
                /\ PrintT("REJECT " \o ToJson([scn |-> e.scn, line |-> l, why |-> FrameWhy(t, e), bad |-> FirstBad(t, e),
                                                      cur |-> CursorWhy(t, e.cur) \o (IF fo THEN ":after-foreign-output" ELSE "")]))
     ELSE
        /\ t' = Step(t, e)
        /\ UNCHANGED failed

Spec == Init /\ [][Next]_vars

Consumed == TLCGet("stats").diameter - 1 = Len(Trace)
=============================================================================
