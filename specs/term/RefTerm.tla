------------------------------ MODULE RefTerm ------------------------------
(* Oracle: the display semantics of a standards-conforming terminal for the *)
(* vocabulary a full-screen application emits (ECMA-48 CUP/SGR/ED, DEC      *)
(* private modes 25/2026, DECSCUSR, OSC 8 hyperlinks, kitty OSC 66 explicit *)
(* width), written from ECMA-48, xterm ctlseqs and the kitty text-sizing    *)
(* protocol.  It is a functional core: a terminal state is a record and     *)
(* every command is a pure operator on it, so the same definitions are used *)
(* by the exhaustive models (MC_Render) and by trace validation of real     *)
(* executions (RefTerm_Trace, RoundTrip_Trace, Clip_Trace).                 *)
(*                                                                          *)
(* Conservative rule for wide glyphs: overwriting one half of a width-2     *)
(* glyph turns the other half into an unknown cell ("x"), which equals      *)
(* nothing an application can intend.  "Whatever the terminal displayed     *)
(* before" is modelled by Scramble, which makes every cell unknown.         *)
EXTENDS Integers, Sequences, SGR, Palette

Space == 0        \* grapheme id 0 is U+0020 by convention of the trace format

G(g, w, st, ln) == [k |-> "g", g |-> g, w |-> w, st |-> st, ln |-> ln]
Cont    == [k |-> "c"]
Unknown == [k |-> "x"]
Blank(bg) == G(Space, 1, [DefaultPen EXCEPT !.bg = bg], 0)

BlankRow(n, bg) == [x \in 1..n |-> Blank(bg)]
NewGrid(rs, cs, cell) == [y \in 1..rs |-> [x \in 1..cs |-> cell]]

InitTerm(rs, cs, xw) ==
  [rows |-> rs, cols |-> cs, grid |-> NewGrid(rs, cs, Unknown),
   r |-> 1, c |-> 1, pw |-> FALSE, pen |-> DefaultPen, link |-> 0,
   vis |-> TRUE, shape |-> 0, sync |-> FALSE, xw |-> xw, unk |-> 0]

Min(a, b) == IF a < b THEN a ELSE b
Max(a, b) == IF a > b THEN a ELSE b
Clamp(v, lo, hi) == Max(lo, Min(v, hi))

(* Write a glyph of width w at (r,c) of row-function row; damage rule.      *)
PutRow(row, n, c, g, w, st, ln) ==
  LET last == c + w - 1
      \* a continuation cell at c means the head at c-1 loses its right half
      hurtL == IF c > 1 /\ row[c].k = "c" THEN {c - 1} ELSE {}
      \* a wide head at 'last' that we do not fully cover loses its left half
      hurtR == IF last < n /\ row[last + 1].k = "c" THEN {last + 1} ELSE {}
  IN [x \in 1..n |->
        IF x = c THEN G(g, w, st, ln)
        ELSE IF x > c /\ x <= last THEN Cont
        ELSE IF x \in hurtL \cup hurtR THEN Unknown
        ELSE row[x]]

ScrollUp(t) == [t EXCEPT !.grid = [y \in 1..t.rows |-> IF y < t.rows THEN t.grid[y + 1]
                                                         ELSE BlankRow(t.cols, t.pen.bg)]]

(* Resolve a pending wrap before printing (autowrap on, DECAWM default). *)
Unwrap(t) == IF ~t.pw THEN t
             ELSE IF t.r < t.rows THEN [t EXCEPT !.r = t.r + 1, !.c = 1, !.pw = FALSE]
             ELSE [ScrollUp(t) EXCEPT !.c = 1, !.pw = FALSE]

(* Print one grapheme cluster occupying w cells (w as the terminal measures *)
(* it).  w = 0 (a lone combining mark) modifies the previous cell: unknown. *)
HeadOf(row, x) == CHOOSE h \in 1..x : row[h].k # "c" /\ \A m \in (h + 1)..x : row[m].k = "c"
(* Make the whole glyph that occupies column x unknown. *)
PoisonAt(row, n, x) ==
  IF row[1].k = "c" THEN [i \in 1..n |-> Unknown]     \* malformed row: give up on it
  ELSE LET h == HeadOf(row, x)
           w == IF row[h].k = "g" THEN row[h].w ELSE 1
       IN [i \in 1..n |-> IF i >= h /\ i < h + w THEN Unknown ELSE row[i]]

PrintG(t0, g, w) ==
  IF w = 0 THEN       \* combines with the glyph before the cursor (the last one when a wrap is pending)
     LET x == IF t0.pw THEN t0.c ELSE t0.c - 1 IN
     IF x < 1 THEN t0 ELSE [t0 EXCEPT !.grid[t0.r] = PoisonAt(t0.grid[t0.r], t0.cols, x)]
  ELSE
  LET t == Unwrap(t0) IN
  IF w > t.cols THEN [t EXCEPT !.unk = @ + 1]
  ELSE
     LET u == IF t.c + w - 1 > t.cols      \* does not fit: wrap first
              THEN (IF t.r < t.rows THEN [t EXCEPT !.r = t.r + 1, !.c = 1]
                    ELSE [ScrollUp(t) EXCEPT !.c = 1])
              ELSE t
         nc == u.c + w
     IN [u EXCEPT !.grid[u.r] = PutRow(u.grid[u.r], u.cols, u.c, g, w, u.pen, u.link),
                  !.c  = IF nc > u.cols THEN u.cols ELSE nc,
                  !.pw = nc > u.cols]

CUP(t, r, c) == [t EXCEPT !.r = Clamp(r, 1, t.rows), !.c = Clamp(c, 1, t.cols), !.pw = FALSE]

ED2(t) == [t EXCEPT !.grid = NewGrid(t.rows, t.cols, Blank(t.pen.bg))]

Scramble(t) == [t EXCEPT !.grid = NewGrid(t.rows, t.cols, Unknown)]

(* Something other than the application wrote to the terminal: nothing is   *)
(* known of the cells, and the cursor is wherever, however and in whatever  *)
(* shape that output left it (vis, shape, r, c are logged).                 *)
Foreign(t, e) == [Scramble(t) EXCEPT !.vis = e.vis, !.shape = e.shape, !.pw = FALSE,
                                     !.r = Clamp(e.r, 1, t.rows), !.c = Clamp(e.c, 1, t.cols)]

Resize(t, rs, cs) == [t EXCEPT !.rows = rs, !.cols = cs, !.grid = NewGrid(rs, cs, Unknown),
                               !.r = Clamp(t.r, 1, rs), !.c = Clamp(t.c, 1, cs), !.pw = FALSE]

SetMode(t, m, v) ==
  CASE m = 25   -> [t EXCEPT !.vis = v]
    [] m = 2026 -> [t EXCEPT !.sync = v]
    [] m = 1049 -> IF v THEN ED2(t) ELSE Scramble(t)   \* alt screen is cleared on entry
    [] OTHER    -> t                                     \* input/reporting modes: no display effect

(* One command of the trace vocabulary. *)
Step(t, e) ==
  CASE e.ev = "print"  -> PrintG(t, e.g, e.w)
    [] e.ev = "xprint" -> IF t.xw THEN PrintG(t, e.g, e.w) ELSE t   \* OSC 66: ignored when unsupported
    [] e.ev = "cup"    -> CUP(t, e.r, e.c)
    [] e.ev = "sgr"    -> [t EXCEPT !.pen = Apply(t.pen, e.ps)]
    [] e.ev = "osc8"   -> [t EXCEPT !.link = e.ln]
    [] e.ev = "set"    -> SetMode(t, e.m, e.v)
    [] e.ev = "curs"   -> [t EXCEPT !.shape = e.n]
    [] e.ev = "ed2"    -> ED2(t)
    [] e.ev = "cr"     -> [t EXCEPT !.c = 1, !.pw = FALSE]
    [] e.ev = "nop"    -> t
    [] e.ev \in {"keypad", "kpush", "kpop", "pointer", "appid", "query", "side", "ready"} -> t   \* no display effect (see specs/life)
    [] e.ev = "gfx"    -> [t EXCEPT !.unk = @ + 1]          \* graphics: display effect not modelled here (C20)
    [] e.ev = "scramble" -> Scramble(t)
    [] e.ev = "foreign" -> Foreign(t, e)
    [] e.ev = "resize" -> Resize(t, e.rows, e.cols)
    [] OTHER           -> [t EXCEPT !.unk = @ + 1]

----------------------------------------------------------------------------
(* What the application intends.  An application cell is the tuple          *)
(* <<g, w, fg, bg, ul, us, at, ln, tw>>: grapheme id, the width it gave (0 = *)
(* "measure for me"), style, hyperlink id and, as a logged fact, tw = the   *)
(* number of cells this terminal gives that grapheme.                       *)
AW(a) == IF a[2] > 0 THEN a[2] ELSE a[9]          \* effective width
APen(a) == [fg |-> a[3], bg |-> a[4], ul |-> a[5], us |-> a[6], at |-> a[7]]

(* Greedy left-to-right layout of one application row.  For a cell whose    *)
(* width the application left to the library, any width is acceptable       *)
(* provided it is the width the terminal actually gave that grapheme (the   *)
(* displayed head cell at that position); what matters is that library and  *)
(* terminal agree, which the rest of the row then shows.  When the          *)
(* displayed cell is not that grapheme the logged terminal width is used    *)
(* (the comparison fails at that cell anyway).                              *)
WidthAt(a, shown) == IF a[2] > 0 THEN a[2]
                     ELSE IF shown.k = "g" /\ shown.g = a[1] /\ shown.w > 0 THEN shown.w
                     ELSE a[9]

RECURSIVE LayRow(_, _, _, _, _)
LayRow(arow, srow, n, x, acc) ==
  IF x > n THEN acc
  ELSE LET a == arow[x]
           w == WidthAt(a, srow[x])
       IN IF a[9] = 0 /\ a[2] = 0
          THEN LayRow(arow, srow, n, x + 1, Append(acc, G(Space, 1, APen(a), a[8])))
          ELSE LET w2 == Min(w, n - x + 1)
                   conts == [i \in 1..(w2 - 1) |-> Cont]
               IN LayRow(arow, srow, n, x + w2, Append(acc, G(a[1], w, APen(a), a[8])) \o conts)

(* The same with the order of the writes taken into account.  The tuple     *)
(* carries two more facts, <<..., hd, st>>: every write (SetCell; Fill and  *)
(* Print are sequences of them) covers the columns from hd on that its cell *)
(* is wide (one column for an empty or zero-width cell), and leaves its     *)
(* cell, hd and its number st (growing with every write; 0 = never written) *)
(* in each of them.  What the application last set in a column is then the  *)
(* cell of the last write that covered it:                                  *)
(*  - a write that still has all its columns is shown as its cell: the      *)
(*    glyph in the first column, the rest of a wide glyph after it;         *)
(*  - a write that lost a column to a later one cannot be shown in the      *)
(*    columns it has left (a terminal shows a wide glyph in all its columns *)
(*    or not at all) and nothing says what else they show: "b", any narrow  *)
(*    cell that the terminal was told to show there, no part of any wide    *)
(*    glyph and nothing left to the terminal (see CellOK).                  *)
(* An empty cell is a cell like any other ("rendered as an empty space"):   *)
(* written over a column of a wide glyph it takes that column.              *)
Lost == [k |-> "b"]
Cover(a, n) == LET w == AW(a) IN Min(IF w < 1 THEN 1 ELSE w, n - a[10] + 1)
WholeAt(arow, n, x) ==
  LET a == arow[x] IN
  /\ a[10] \in 1..x
  /\ \A y \in a[10]..(a[10] + Cover(a, n) - 1) : arow[y][10] = a[10] /\ arow[y][11] = a[11]
WantAt(arow, srow, n, x) ==
  LET a == arow[x] IN
  IF ~WholeAt(arow, n, x) THEN Lost
  ELSE IF x # a[10] THEN Cont
  ELSE IF a[9] = 0 /\ a[2] = 0 THEN G(Space, 1, APen(a), a[8])
  ELSE G(a[1], WidthAt(a, srow[x]), APen(a), a[8])

Ordered(arow) == Len(arow[1]) >= 11

Intended(app, grid, rs, cs) ==
  [y \in 1..rs |-> IF Ordered(app[y]) THEN [x \in 1..cs |-> WantAt(app[y], grid[y], cs, x)]
                   ELSE LayRow(app[y], grid[y], cs, 1, <<>>)]

(* Capability-dependent fallbacks (C07): without RGB a direct colour may be *)
(* shown as any nearest palette entry; without styled underlines the style  *)
(* collapses to single and the colour is dropped.                           *)
IsRGB(c) == c >= RGBBase
Chan(c) == LET v == c - RGBBase IN <<v \div 65536, (v \div 256) % 256, v % 256>>
ColourOK(shown, want, rgbcap) ==
  IF IsRGB(want) /\ ~rgbcap THEN shown \in 17..256 /\ IsNearest(Chan(want), shown - 1)
  ELSE shown = want

CellOK(shown, want, rgbcap, sucap) ==
  IF want.k = "b" THEN shown.k = "g" /\ shown.w = 1 ELSE
  /\ shown.k = want.k
  /\ shown.k = "g" =>
       /\ shown.g = want.g /\ shown.w = want.w /\ shown.ln = want.ln
       /\ shown.st.at = want.st.at
       /\ ColourOK(shown.st.fg, want.st.fg, rgbcap)
       /\ ColourOK(shown.st.bg, want.st.bg, rgbcap)
       /\ IF sucap THEN /\ shown.st.us = want.st.us
                        /\ ColourOK(shown.st.ul, want.st.ul, rgbcap)
          ELSE /\ shown.st.us = (IF want.st.us = 0 THEN 0 ELSE 1)
               /\ shown.st.ul = 0

ScreenOK(t, app, rgbcap, sucap) ==
  LET want == Intended(app, t.grid, t.rows, t.cols) IN
  \A y \in 1..t.rows : \A x \in 1..t.cols : CellOK(t.grid[y][x], want[y][x], rgbcap, sucap)

(* cur = <<visible, row, col, shape>> as last requested (1-based). *)
CursorOK(t, cur) == IF cur[1] = 0 THEN ~t.vis
                    ELSE t.vis /\ t.r = cur[2] /\ t.c = cur[3] /\ ~t.pw /\ t.shape = cur[4]

(* Which part of the cursor request is not met, for the rejection signature. *)
CursorWhy(t, cur) ==
  IF cur[1] = 0 THEN (IF t.vis THEN "shown-though-hidden" ELSE "")
  ELSE IF ~t.vis THEN "hidden-though-shown"
  ELSE IF t.r # cur[2] \/ t.c # cur[3] \/ t.pw THEN "position"
  ELSE IF t.shape # cur[4] THEN "shape" ELSE ""

FlushClean(t) == t.pen = DefaultPen /\ t.link = 0 /\ ~t.sync

FrameOK(t, e) == /\ FlushClean(t)
                 /\ CursorOK(t, e.cur)
                 /\ ScreenOK(t, e.app, e.rgb, e.su)

(* Names of the clauses of CellOK that fail, for the rejection signature. *)
BadFields(shown, want, rgbcap, sucap) ==
  IF want.k = "b" THEN {"glyph-that-lost-a-column"}
  ELSE IF shown.k # want.k THEN {"kind:" \o shown.k \o "/" \o want.k}
  ELSE IF shown.k # "g" THEN {}
  ELSE (IF shown.g # want.g THEN {"grapheme"} ELSE {})
       \cup (IF shown.w # want.w THEN {"width"} ELSE {})
       \cup (IF shown.ln # want.ln THEN {"link"} ELSE {})
       \cup (IF shown.st.at # want.st.at THEN {"attr"} ELSE {})
       \cup (IF ~ColourOK(shown.st.fg, want.st.fg, rgbcap) THEN {"fg"} ELSE {})
       \cup (IF ~ColourOK(shown.st.bg, want.st.bg, rgbcap) THEN {"bg"} ELSE {})
       \cup (IF sucap THEN (IF shown.st.us # want.st.us THEN {"ulstyle"} ELSE {})
                            \cup (IF ~ColourOK(shown.st.ul, want.st.ul, rgbcap) THEN {"ulcolor"} ELSE {})
             ELSE (IF shown.st.us # (IF want.st.us = 0 THEN 0 ELSE 1) THEN {"ulstyle"} ELSE {})
                  \cup (IF shown.st.ul # 0 THEN {"ulcolor"} ELSE {}))

BadCells(t, e) ==
  LET want == Intended(e.app, t.grid, t.rows, t.cols) IN
  {<<y, x>> \in (1..t.rows) \X (1..t.cols) : ~CellOK(t.grid[y][x], want[y][x], e.rgb, e.su)}
FirstBad(t, e) ==
  LET want == Intended(e.app, t.grid, t.rows, t.cols)
      b == BadCells(t, e)
  IN IF b = {} THEN <<>>
     ELSE LET p == CHOOSE p \in b : \A q \in b : p[1] < q[1] \/ (p[1] = q[1] /\ p[2] <= q[2])
          IN <<p, t.grid[p[1]][p[2]], want[p[1]][p[2]],
               BadFields(t.grid[p[1]][p[2]], want[p[1]][p[2]], e.rgb, e.su)>>

(* First failing clause, for the rejection report. *)
FrameWhy(t, e) ==
  IF t.pen # DefaultPen THEN "pen-not-reset"
  ELSE IF t.link # 0 THEN "hyperlink-open"
  ELSE IF t.sync THEN "sync-unbalanced"
  ELSE IF ~CursorOK(t, e.cur) THEN "cursor"
  ELSE "cells"
=============================================================================
