CONSTANTS
  Rows = 2
  Cols = 3
  MaxSteps = 4
SPECIFICATION Spec
INVARIANTS CursorIn Shape WideIntact PendingWrapAtEdge
CHECK_DEADLOCK FALSE
