CONSTANTS
  N = 3
  Sync = FALSE
  XW = FALSE
  HiddenAsZero = FALSE
  ForgetLink = TRUE
  ShowHidden = FALSE
  MaxFrames = 2
SPECIFICATION MSpec
INVARIANT FrameAlwaysOK
CHECK_DEADLOCK FALSE
