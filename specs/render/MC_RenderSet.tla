---------------------------- MODULE MC_RenderSet ----------------------------
(* Render || RefTerm where the application builds its screen the way a real  *)
(* one does: by single cell writes into a buffer that persists from frame to *)
(* frame, in any order, a frame (rendered or refreshed, the terminal         *)
(* scrambled before a refresh) after any number of them.  The application's  *)
(* record is the ordered one of RefTerm (<<..., hd, st>>: every write leaves *)
(* its cell, its first column and its number in the columns it covers), so   *)
(* the frame check demands that the cell written last is shown in each       *)
(* column and that a wide glyph which lost a column to a later write is      *)
(* shown in none (RefTerm!WantAt).                                           *)
(*                                                                           *)
(* Store transcribes the screen buffer's store:                              *)
(*   ClaimOnSet = TRUE   a stored cell takes its columns: every wide glyph   *)
(*                       that has a column there turns into narrow blanks of *)
(*                       its style, whatever was stored in the further       *)
(*                       columns of a wide cell is dropped;                  *)
(*   ClaimOnSet = FALSE  as found on the pinned tree: the cell is stored and *)
(*                       nothing else changes, so a cell stored under a wide *)
(*                       glyph that stays is skipped by the renderer for     *)
(*                       ever (negative control).                            *)
EXTENDS Render
CONSTANTS MaxSteps, ClaimOnSet
VARIABLES scr,        \* the library's buffer of the next screen
          rec,        \* the application's record: [cell, hd, st] per column
          stamp, ok
svars == <<vars, scr, rec, stamp, ok>>

ZeroB == [g |-> 0, w |-> 0, at |-> 1, fg |-> 0, ln |-> 0, z |-> TRUE]      \* an empty cell in a style of its own
Writes == {Zero, ZeroB, Mk(1, 0, 0, 0, 0), Mk(3, 0, 3, 4, 0), Mk(5, 0, 0, 0, 0), Mk(6, 2, 2, 4, 0)}
Cols(c) == IF EffW(c) < 1 THEN 1 ELSE EffW(c)

(* the blank each cell of a wide glyph becomes when the glyph loses one of   *)
(* them (glyph 8: a narrow one), in the style of the glyph                   *)
Blanked(c) == [c EXCEPT !.g = 8, !.w = 1, !.z = FALSE]
Vacate(buf, i) ==
  IF EffW(buf[i]) <= 1 THEN buf
  ELSE [x \in 1..N |-> IF x >= i /\ x < i + EffW(buf[i]) THEN Blanked(buf[i]) ELSE buf[x]]

(* the scan to the left of column c for a wide glyph reaching c: only empty  *)
(* cells lie under a wide glyph                                              *)
RECURSIVE WideStart(_, _, _)
WideStart(buf, c, i) ==
  IF i < 1 THEN c
  ELSE IF i + EffW(buf[i]) > c THEN i
  ELSE IF ~buf[i].z THEN c
  ELSE WideStart(buf, c, i - 1)

RECURSIVE VacateFrom(_, _, _)
VacateFrom(buf, i, end) == IF i >= end THEN buf ELSE VacateFrom(Vacate(buf, i), i + 1, end)

Store(buf, c, cell) ==
  IF ~ClaimOnSet THEN [buf EXCEPT ![c] = cell]
  ELSE LET end == c + Cols(cell)
           b1  == VacateFrom(buf, WideStart(buf, c, c - 1), end)
       IN [x \in 1..N |-> IF x = c THEN cell
                          ELSE IF x > c /\ x < end THEN Zero
                          ELSE b1[x]]

Record(r, c, cell, st) ==
  [x \in 1..N |-> IF x >= c /\ x < c + Cols(cell) THEN [cell |-> cell, hd |-> c, st |-> st] ELSE r[x]]

AppRec(r) == [x \in 1..N |->
  LET s == r[x].cell IN
  <<IF s.z THEN 0 ELSE s.g, s.w, s.fg, 0, 0, 0, s.at, s.ln, TW(s.g), r[x].hd, r[x].st>>]

SInit == /\ Init /\ ok = TRUE /\ stamp = 0
         /\ scr = [x \in 1..N |-> Zero]
         /\ rec = [x \in 1..N |-> [cell |-> Zero, hd |-> x, st |-> 0]]

Write(c, cell) ==
  /\ c + Cols(cell) - 1 <= N            \* a glyph reaching past the edge is outside the domain
  /\ scr' = Store(scr, c, cell)
  /\ rec' = Record(rec, c, cell, stamp + 1)
  /\ stamp' = stamp + 1 /\ steps' = steps + 1
  /\ UNCHANGED <<last, curLast, refresh, term, ok>>

Hid == [vis |-> FALSE, col |-> 1, shape |-> 2]
DoFrame(full) ==
  LET t0 == IF full /\ steps > 0 THEN Scramble(term) ELSE term
      f  == Frame(scr, Hid, full \/ refresh)
      t1 == RunCmds(t0, f.cmds)
      e  == [app |-> <<AppRec(rec)>>, cur |-> <<0, 0, 0, 0>>, rgb |-> TRUE, su |-> TRUE]
  IN /\ term' = t1 /\ last' = f.last /\ curLast' = Hid /\ refresh' = FALSE /\ steps' = steps + 1
     /\ ok' = FrameOK(t1, e)
     /\ UNCHANGED <<scr, rec, stamp>>

SNext == /\ steps < MaxSteps
         /\ \/ \E c \in 1..N, cell \in Writes : Write(c, cell)
            \/ \E full \in BOOLEAN : DoFrame(full)
SSpec == SInit /\ [][SNext]_svars
FrameAlwaysOK == ok
=============================================================================
