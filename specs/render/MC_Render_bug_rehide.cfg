CONSTANTS
  N = 3
  Sync = FALSE
  XW = FALSE
  HiddenAsZero = FALSE
  ForgetLink = FALSE
  ShowHidden = FALSE
  Rehide = FALSE
  MaxFrames = 2
SPECIFICATION MSpec
INVARIANT FrameAlwaysOK
CHECK_DEADLOCK FALSE
