------------------------------ MODULE MC_Render ------------------------------
(* Render || RefTerm: every history of MaxFrames frames, each an arbitrary   *)
(* next screen and cursor request, rendered or refreshed (a refresh after    *)
(* the terminal's content has been scrambled and its cursor left shown or    *)
(* hidden by something else); after every frame the                          *)
(* reference terminal must show the application's screen (RefTerm!FrameOK).  *)
EXTENDS Render
CONSTANT MaxFrames
VARIABLES ok        \* result of the frame check of the frame just rendered
mvars == <<vars, ok>>

MInit == Init /\ ok = TRUE
DoFrame(nxt, cn, full, fv) ==
  LET t0 == IF full /\ steps > 0 THEN [Scramble(term) EXCEPT !.vis = fv] ELSE term      \* a refresh works whatever was displayed
      f  == LET saved == term IN Frame(nxt, cn, full \/ refresh)
      t1 == RunCmds(t0, f.cmds)
      e  == [app |-> <<AppRow(nxt)>>, cur |-> IF cn.vis THEN <<1, 1, cn.col, cn.shape>> ELSE <<0, 0, 0, 0>>, rgb |-> TRUE, su |-> TRUE]
  IN /\ term' = t1 /\ last' = f.last /\ curLast' = cn /\ refresh' = FALSE /\ steps' = steps + 1
     /\ ok' = FrameOK(t1, e)
MNext == steps < MaxFrames /\ \E nxt \in Screens, cn \in Cursors, full \in BOOLEAN :
           \E fv \in (IF full THEN BOOLEAN ELSE {FALSE}) : DoFrame(nxt, cn, full, fv)
MSpec == MInit /\ [][MNext]_mvars
FrameAlwaysOK == ok
View == <<last, curLast, refresh, term, ok>>
=============================================================================
