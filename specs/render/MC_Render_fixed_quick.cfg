CONSTANTS
  N = 2
  Sync = FALSE
  XW = FALSE
  HiddenAsZero = FALSE
  ForgetLink = FALSE
  ShowHidden = FALSE
  Rehide = TRUE
  MaxFrames = 3
SPECIFICATION MSpec
INVARIANT FrameAlwaysOK
CHECK_DEADLOCK FALSE
