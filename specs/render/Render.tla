------------------------------- MODULE Render -------------------------------
(* Implementation-shaped model of the diffing renderer (C01): Vaxis.render   *)
(* and writer.Flush transcribed for one-row screens, emitting the abstract   *)
(* commands the RefTerm oracle consumes.  State: the remembered last frame   *)
(* (with the marker for cells hidden under a wide glyph), the cursor as last *)
(* shown, the refresh flag.  The application's next screen is arbitrary.     *)
(* Switches name the defects found on the pinned tree so that TLC shows each *)
(* one as a counterexample when switched back on:                            *)
(*   HiddenAsZero   cells hidden under a wide glyph remembered as Cell{}     *)
(*   ForgetLink     an open hyperlink closed for a cursor move is believed   *)
(*                  to be still open                                         *)
(*   ShowHidden     the cursor-only flush ignores "hidden"                   *)
(*   ~Rehide        a full repaint does not hide again a cursor that was     *)
(*                  hidden before and stays hidden                           *)
EXTENDS RefTerm, TLC

CONSTANTS N,                 \* columns (one row)
          Sync, XW,          \* capabilities: synchronized output, explicit width
          HiddenAsZero, ForgetLink, ShowHidden, Rehide

(* ---- application cells -------------------------------------------------- *)
(* [g, w, at, fg, ln]: grapheme id, explicit width (0 = measure), attribute  *)
(* mask (bold 1, dim 2), foreground (0 default, 4 = palette 3), link id.     *)
Zero == [g |-> 0, w |-> 0, at |-> 0, fg |-> 0, ln |-> 0, z |-> TRUE]    \* Cell{}: never written
Mk(g, w, at, fg, ln) == [g |-> g, w |-> w, at |-> at, fg |-> fg, ln |-> ln, z |-> FALSE]
Alphabet == {Zero, Mk(1, 0, 0, 0, 0), Mk(2, 1, 1, 0, 1), Mk(3, 0, 3, 4, 0), Mk(4, 0, 2, 0, 1), Mk(5, 0, 0, 0, 0), Mk(6, 2, 0, 4, 0), Mk(7, 0, 0, 0, 0)}
(* terminal/library width of each grapheme (5 and 6 are wide, 7 is zero-width) *)
TW(g) == CASE g = 0 -> 0 [] g \in {5, 6} -> 2 [] g = 7 -> 0 [] OTHER -> 1
Hidden == [g |-> -1, w |-> 0, at |-> 0, fg |-> 0, ln |-> 0, z |-> FALSE]   \* never equals an application cell
HiddenMark == IF HiddenAsZero THEN Zero ELSE Hidden

EffW(c) == IF c.w > 0 THEN c.w ELSE TW(c.g)
Advance(c) == IF EffW(c) > 1 THEN EffW(c) - 1 ELSE 0

(* A screen is in the domain when no glyph extends past the right edge. *)
RECURSIVE FitsFrom(_, _)
FitsFrom(s, x) == IF x > N THEN TRUE
                  ELSE LET w == IF EffW(s[x]) < 1 THEN 1 ELSE EffW(s[x]) IN x + w - 1 <= N /\ FitsFrom(s, x + w)
Screens == {s \in [1..N -> Alphabet] : FitsFrom(s, 1)}

VARIABLES last, curLast, refresh, term, steps
vars == <<last, curLast, refresh, term, steps>>

(* ---- SGR emission (transcribed: fg, then attribute on/off lists) ---------- *)
FgCmd(fg) == IF fg = 0 THEN <<<<39>>>> ELSE <<<<30 + fg - 1>>>>
SgrDiff(cur, nx) ==
  LET fgc == IF cur.fg # nx.fg THEN <<[ev |-> "sgr", ps |-> FgCmd(nx.fg)]>> ELSE <<>>
      on  == [b \in {1, 2} |-> Has(nx.at, b) /\ ~Has(cur.at, b)]
      off == [b \in {1, 2} |-> Has(cur.at, b) /\ ~Has(nx.at, b)]
      c(ps) == [ev |-> "sgr", ps |-> ps]
      onc == (IF on[1] THEN <<c(<<<<1>>>>)>> ELSE <<>>) \o (IF on[2] THEN <<c(<<<<2>>>>)>> ELSE <<>>)
      offb == IF off[1] THEN <<c(<<<<22>>>>)>> \o (IF Has(nx.at, 2) THEN <<c(<<<<2>>>>)>> ELSE <<>>) ELSE <<>>
      offd == IF off[2] THEN <<c(<<<<22>>>>)>> \o (IF Has(nx.at, 1) THEN <<c(<<<<1>>>>)>> ELSE <<>>) ELSE <<>>
  IN fgc \o (IF cur.at # nx.at THEN onc \o offb \o offd ELSE <<>>)

NullAfter(l, col, skip) == [x \in 1..N |-> IF x > col /\ x <= col + skip THEN HiddenMark ELSE l[x]]

(* The render loop over one row.  Returns [cmds, last]. *)
RECURSIVE Row(_, _, _, _, _, _, _)
Row(nxt, col, repos, cur, l, cmds, full) ==
  IF col > N THEN [cmds |-> cmds \o (IF cur.ln # 0 THEN <<[ev |-> "osc8", ln |-> 0]>> ELSE <<>>), last |-> l]
  ELSE LET nx == nxt[col] IN
    IF nx = l[col] /\ ~full THEN
       Row(nxt, col + Advance(nx) + 1, TRUE, cur, NullAfter(l, col, Advance(nx)), cmds, full)
    ELSE
      LET l1   == [l EXCEPT ![col] = nx]
          close == repos /\ cur.ln # 0
          cur1 == IF close /\ ~ForgetLink THEN [cur EXCEPT !.ln = 0] ELSE cur
          mv   == IF repos THEN (IF close THEN <<[ev |-> "osc8", ln |-> 0]>> ELSE <<>>) \o <<[ev |-> "cup", r |-> 1, c |-> col]>> ELSE <<>>
          sg   == SgrDiff(cur1, nx)
          lk   == IF cur1.ln # nx.ln THEN <<[ev |-> "osc8", ln |-> nx.ln]>> ELSE <<>>
          w    == EffW(nx)
          pr   == IF w = 0 THEN <<[ev |-> "print", g |-> 0, w |-> 1]>>          \* rendered as a space (grapheme id 0)
                  ELSE IF w > 1 /\ XW THEN <<[ev |-> "xprint", g |-> nx.g, w |-> w]>>
                  ELSE <<[ev |-> "print", g |-> nx.g, w |-> TW(nx.g)]>>
      IN Row(nxt, col + Advance(nx) + 1, FALSE, [at |-> nx.at, fg |-> nx.fg, ln |-> nx.ln],
             NullAfter(l1, col, Advance(nx)), cmds \o mv \o sg \o lk \o pr, full)

ShowCursor(cn) == <<[ev |-> "curs", n |-> cn.shape], [ev |-> "cup", r |-> 1, c |-> cn.col], [ev |-> "set", m |-> 25, v |-> TRUE]>>

(* render() + Flush() for one frame; cn = cursor as requested. *)
Frame(nxt, cn, full) ==
  LET r    == Row(nxt, 1, TRUE, [at |-> 0, fg |-> 0, ln |-> 0], last, <<>>, full)
      re   == IF full /\ Rehide /\ ~cn.vis /\ ~curLast.vis THEN <<[ev |-> "set", m |-> 25, v |-> FALSE]>> ELSE <<>>
      body == re \o r.cmds \o (IF cn.vis /\ ~curLast.vis THEN ShowCursor(cn) ELSE <<>>)
      pro  == (IF curLast.vis THEN <<[ev |-> "set", m |-> 25, v |-> FALSE]>> ELSE <<>>)
              \o (IF Sync THEN <<[ev |-> "set", m |-> 2026, v |-> TRUE]>> ELSE <<>>)
      epi  == <<[ev |-> "sgr", ps |-> <<>>]>> \o (IF cn.vis /\ curLast.vis THEN ShowCursor(cn) ELSE <<>>)
              \o (IF Sync THEN <<[ev |-> "set", m |-> 2026, v |-> FALSE]>> ELSE <<>>)
      only == IF ~cn.vis /\ curLast.vis THEN <<[ev |-> "set", m |-> 25, v |-> FALSE]>>
              ELSE IF ~cn.vis /\ ~ShowHidden THEN <<>>
              ELSE IF cn.col # curLast.col \/ cn.shape # curLast.shape THEN ShowCursor(cn)
              ELSE <<>>
  IN [cmds |-> IF body = <<>> THEN only ELSE pro \o body \o epi, last |-> r.last]

RECURSIVE RunCmds(_, _)
RunCmds(t, cs) == IF cs = <<>> THEN t ELSE RunCmds(Step(t, Head(cs)), Tail(cs))

(* the application's record in the form RefTerm!Intended expects *)
AppRow(s) == [x \in 1..N |-> <<IF s[x].z THEN 0 ELSE s[x].g, s[x].w, IF s[x].fg = 0 THEN 0 ELSE s[x].fg, 0, 0, 0, s[x].at, s[x].ln, TW(s[x].g)>>]

Cursors == {[vis |-> FALSE, col |-> 1, shape |-> 2], [vis |-> FALSE, col |-> N, shape |-> 4]} \cup {[vis |-> TRUE, col |-> c, shape |-> sh] : c \in {1, N}, sh \in {2, 4}}

Init == /\ last = [x \in 1..N |-> Zero] /\ curLast = [vis |-> FALSE, col |-> 1, shape |-> 0]
        /\ refresh = TRUE                       \* the first frame after start-up is a full one
        /\ term = [ED2(InitTerm(1, N, XW)) EXCEPT !.vis = FALSE]
        /\ steps = 0
=============================================================================
