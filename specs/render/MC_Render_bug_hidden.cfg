CONSTANTS
  N = 3
  Sync = FALSE
  XW = FALSE
  HiddenAsZero = TRUE
  ForgetLink = FALSE
  ShowHidden = FALSE
  Rehide = TRUE
  MaxFrames = 2
SPECIFICATION MSpec
INVARIANT FrameAlwaysOK
CHECK_DEADLOCK FALSE
