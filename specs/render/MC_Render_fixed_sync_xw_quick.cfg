CONSTANTS
  N = 2
  Sync = TRUE
  XW = TRUE
  HiddenAsZero = FALSE
  ForgetLink = FALSE
  ShowHidden = FALSE
  Rehide = TRUE
  MaxFrames = 3
SPECIFICATION MSpec
INVARIANT FrameAlwaysOK
CHECK_DEADLOCK FALSE
