CONSTANTS
  N = 3
  Sync = FALSE
  XW = FALSE
  HiddenAsZero = FALSE
  ForgetLink = FALSE
  ShowHidden = FALSE
  Rehide = TRUE
  ClaimOnSet = TRUE
  MaxSteps = 5
SPECIFICATION SSpec
INVARIANT FrameAlwaysOK
CHECK_DEADLOCK FALSE
