CONSTANTS
  MaxOps = 6
  LstNs = {0, 1, 3}
  LstHs = {0, 1, 2}
  DynHeights <- QuickHeights
  DynGaps = {0, 1}
  DynViews = {1, 2, 3}
  MaxText = 5
  Widths = {1, 2, 3}
SPECIFICATION Spec
INVARIANTS NoCrash LstRange DynRange LstLayout DynLayout PagerPresents PagerClamps OracleRows
PROPERTIES VisibleAfterSelect
CHECK_DEADLOCK FALSE
