----------------------------- MODULE List_Trace -----------------------------
(* Trace validation for C19.  The real widgets are driven directly; what    *)
(* they put on the screen is observed the way a user would see it: the      *)
(* bytes a real Vaxis renders to a fake console, lexed independently and    *)
(* stepped through the RefTerm reference terminal (specs/term).  The        *)
(* builder-driven list is observed through the child surfaces its Draw      *)
(* returns.  Oracles: ListRel (lists), Pager (pager).                       *)
(*                                                                          *)
(*   reset rows cols            scenario start: a fresh rows x cols terminal *)
(*   print/cup/sgr/set/...      terminal commands (RefTerm!Step)            *)
(*   lst-op / lst-draw          widgets/list: after an operation / a draw   *)
(*   dyn-op / dyn-draw          vxfw/list.Dynamic                           *)
(*   pg-init / pg-draw / pg-full  widgets/pager                             *)
(*   sb-draw                    widgets/scrollbar (must not panic)          *)
EXTENDS RefTerm, ListRel, Pager, TLC, Json, IOUtils

Trace == ndJsonDeserialize(IOEnv.TRACE)

VARIABLES l, t, failed, txt, pend,
          sl        \* list bookkeeping of the oracle: why the index may be out of range (ListRel!CauseAfter) and
                    \* the viewport of the unbroken run of draws after a selection change (ListRel!FollowAfterDraw)
vars == <<l, t, failed, txt, pend, sl>>

NoPend == [w |-> 0, h |-> 0, off |-> 0, rows |-> <<>>]
NoSl == [cause |-> "", follow |-> <<>>]

Reject(e, who, why) ==
  /\ failed' = TRUE
  /\ PrintT("REJECT " \o ToJson([scn |-> e.scn, line |-> l, who |-> who, why |-> why, op |-> e.op, pan |-> e.pan]))

(* ---- reading the screen ------------------------------------------------ *)
RECURSIVE Heads(_, _, _)
Heads(row, w, x) ==
  IF x > w THEN <<>>
  ELSE (IF row[x].k = "g" THEN <<<<row[x].g, row[x].w>>>>
        ELSE IF row[x].k = "x" THEN <<<<-1, 1>>>> ELSE <<>>) \o Heads(row, w, x + 1)
RECURSIVE Trim(_)
Trim(s) == IF s = <<>> THEN s
           ELSE IF s[Len(s)] = <<Space, 1>> THEN Trim(SubSeq(s, 1, Len(s) - 1)) ELSE s
(* what row y shows in its first w columns, trailing blanks removed *)
RowText(y, w) == Trim(Heads(t.grid[y], w, 1))

(* ---- widgets/list --------------------------------------------------------- *)
RECURSIVE Prefix(_, _, _, _)      \* the part of an item's text that fits in w columns
Prefix(txtk, w, i, used) ==
  IF i > Len(txtk) \/ used + txtk[i][2] > w THEN <<>>
  ELSE <<txtk[i]>> \o Prefix(txtk, w, i + 1, used + txtk[i][2])

LstRowItem(e, y) ==
  LET rt == RowText(y, e.w)
      ks == {k \in 1..e.n : Prefix(e.items[k], e.w, 1, 0) = rt}
  IN IF rt = <<>> THEN -1 ELSE IF ks = {} THEN -2 ELSE (CHOOSE k \in ks : TRUE) - 1
LstCheck(e) ==
  LET rows  == [y \in 1..e.h |-> LstRowItem(e, y)]
      shown == {y \in 1..e.h : rows[y] >= 0}
      m     == IF shown = {} THEN 0 ELSE CHOOSE y \in shown : \A z \in shown : z <= y
      kids  == [y \in 1..m |-> [i |-> rows[y], row |-> y - 1, h |-> 1]]
  IN
  IF e.pan # "" THEN Reject(e, "lst", "panic")
  ELSE IF ~InRange(e.n, e.idx) THEN Reject(e, "lst", "index-out-of-range")
  ELSE IF \E y \in 1..e.h : rows[y] = -2 THEN Reject(e, "lst", "row-shows-no-item")
  ELSE IF \E y \in 1..m : rows[y] < 0 THEN Reject(e, "lst", "not-contiguous")
  ELSE IF ~LayoutOK(kids, e.n, 0) THEN Reject(e, "lst", LayoutWhy(kids, e.n, 0))
  ELSE IF e.w > 0 /\ MustShow(e.sel, sl.follow, e.w, e.h, e.n) /\ ~Visible(kids, e.idx, e.h)
       THEN Reject(e, "lst", ShowWhy(e.sel))
  ELSE UNCHANGED failed
LstDraw(e) == LstCheck(e) /\ sl' = [cause |-> "", follow |-> IF e.w > 0 THEN FollowAfterDraw(e.sel, sl.follow, e.w, e.h, e.n) ELSE <<>>]

(* the classic list is handed its items: its index is in range after every operation *)
LstOp(e) ==
  /\ sl' = NoSl
  /\ IF e.pan # "" THEN Reject(e, "lst", "panic")
     ELSE IF ~InRange(e.n, e.idx) THEN Reject(e, "lst", "index-out-of-range")
     ELSE UNCHANGED failed
(* ---- vxfw/list.Dynamic ------------------------------------------------------ *)
DynCheck(e) ==
  LET kids == [j \in 1..Len(e.kids) |-> [i |-> e.kids[j][1], row |-> e.kids[j][2], h |-> e.kids[j][3]]] IN
  IF e.pan # "" THEN Reject(e, "dyn", "panic")
  ELSE IF ~InRange(e.n, e.idx)        \* a draw is where the list learns what exists: no tolerance left
       THEN Reject([e EXCEPT !.op = IF sl.cause = "" THEN "draw" ELSE "draw-after-" \o sl.cause], "dyn", "index-out-of-range")
  ELSE IF ~LayoutOK(kids, e.n, e.gap) THEN Reject(e, "dyn", LayoutWhy(kids, e.n, e.gap))
  ELSE IF ~OwnHeight(kids, e.hs) THEN Reject(e, "dyn", "item-height")
  ELSE IF MustShow(e.sel, sl.follow, e.W, e.H, e.n) /\ ~Visible(kids, e.idx, e.H) THEN Reject(e, "dyn", ShowWhy(e.sel))
  ELSE UNCHANGED failed
DynDraw(e) == DynCheck(e) /\ sl' = [cause |-> "", follow |-> FollowAfterDraw(e.sel, sl.follow, e.W, e.H, e.n)]

(* the builder-driven list: see ListRel!OpRangeOK *)
DynOp(e) ==
  /\ sl' = [cause |-> CauseAfter(sl.cause, e.op, e.n, e.idx), follow |-> <<>>]
  /\ IF e.pan # "" THEN Reject(e, "dyn", "panic")
     ELSE IF ~OpRangeOK(sl.cause, e.op, e.n, e.idx) THEN Reject(e, "dyn", "index-out-of-range")
     ELSE UNCHANGED failed

(* ---- widgets/pager ------------------------------------------------------------ *)
(* pg-draw: remember what the window of h rows showed; it is judged at the  *)
(* pg-full that follows, where the whole layout is on screen.               *)
PgRemember(e) == pend' = [w |-> e.w, h |-> e.h, off |-> e.off, rows |-> [y \in 1..e.h |-> RowText(y, e.w)]]
PgFull(e) ==
  LET R    == [y \in 1..e.tall |-> RowText(y, e.w)]
      acc  == {m \in 0..e.tall : /\ \A y \in (m + 1)..e.tall : R[y] = <<>>
                                 /\ Presents(SubSeq(R, 1, m), txt, e.w)}
      used == {y \in 1..e.tall : R[y] # <<>>}
      last == IF used = {} THEN 0 ELSE CHOOSE y \in used : \A z \in used : z <= y
      want == [y \in 1..pend.h |-> IF pend.off + y >= 1 /\ pend.off + y <= e.tall THEN R[pend.off + y] ELSE <<>>]
  IN
  IF e.pan # "" THEN Reject(e, "pg", "panic")
  ELSE IF acc = {} THEN Reject(e, "pg", PresentsWhy(SubSeq(R, 1, last), txt, e.w))
  ELSE IF ~\E m \in acc : Clamped(pend.off, m, pend.h) THEN Reject(e, "pg", "offset-not-clamped")
  ELSE IF pend.rows # want THEN Reject(e, "pg", "window-shows-wrong-rows")
  ELSE UNCHANGED failed

(* ---- the trace ------------------------------------------------------------------ *)
Init == l = 1 /\ t = InitTerm(1, 1, FALSE) /\ failed = FALSE /\ txt = <<>> /\ pend = NoPend /\ sl = NoSl

Next ==
  /\ l <= Len(Trace)
  /\ l' = l + 1
  /\ LET e == Trace[l] IN
     IF e.ev = "reset" THEN
        /\ t' = InitTerm(e.rows, e.cols, FALSE) /\ failed' = FALSE /\ txt' = <<>> /\ pend' = NoPend /\ sl' = NoSl
     ELSE IF failed THEN UNCHANGED <<t, failed, txt, pend, sl>>
     ELSE IF e.ev = "lst-op" THEN LstOp(e) /\ UNCHANGED <<t, txt, pend>>
     ELSE IF e.ev = "dyn-op" THEN DynOp(e) /\ UNCHANGED <<t, txt, pend>>
     ELSE IF e.ev = "lst-draw" THEN LstDraw(e) /\ UNCHANGED <<t, txt, pend>>
     ELSE IF e.ev = "dyn-draw" THEN DynDraw(e) /\ UNCHANGED <<t, txt, pend>>
     ELSE IF e.ev = "pg-init" THEN txt' = e.text /\ UNCHANGED <<t, failed, pend, sl>>
     ELSE IF e.ev = "pg-draw" THEN
        /\ UNCHANGED <<t, txt, sl>>
        /\ IF e.pan # "" THEN Reject(e, "pg", "panic") /\ UNCHANGED pend
           ELSE PgRemember(e) /\ UNCHANGED failed
     ELSE IF e.ev = "pg-full" THEN PgFull(e) /\ UNCHANGED <<t, txt, pend, sl>>
     ELSE IF e.ev = "sb-draw" THEN
        /\ UNCHANGED <<t, txt, pend, sl>>
        /\ IF e.pan # "" THEN Reject(e, "sb", "panic") ELSE UNCHANGED failed
     ELSE t' = Step(t, e) /\ UNCHANGED <<failed, txt, pend, sl>>

Spec == Init /\ [][Next]_vars

Consumed == TLCGet("stats").diameter - 1 = Len(Trace)
=============================================================================
