CONSTANTS
  MaxOps = 8
  LstNs = {0, 1, 2, 4}
  LstHs = {0, 1, 2, 3}
  DynHeights <- DeepHeights
  DynGaps = {0, 1}
  DynViews = {1, 2, 4}
  MaxText = 6
  Widths = {1, 2, 3, 4}
SPECIFICATION Spec
INVARIANTS NoCrash LstRange DynRange LstLayout DynLayout PagerPresents PagerClamps OracleRows
PROPERTIES VisibleAfterSelect
CHECK_DEADLOCK FALSE
