------------------------------ MODULE ListImpl ------------------------------
(* IMPLEMENTATION-SHAPED (no verdicts): transcription of the classic list   *)
(* widget (widgets/list): a selected index and a scroll offset over n       *)
(* one-line items.  A slice expression out of range sets crashed.           *)
EXTENDS Integers, Sequences

LMin(a, b) == IF a < b THEN a ELSE b
LMax(a, b) == IF a > b THEN a ELSE b

LNew(n) == [n |-> n, index |-> 0, offset |-> 0, crashed |-> FALSE, kids |-> <<>>]

LDown(s)        == [s EXCEPT !.index = LMax(0, LMin(s.n - 1, s.index + 1))]
LUp(s)          == [s EXCEPT !.index = LMax(0, s.index - 1)]
LHome(s)        == [s EXCEPT !.index = 0]
LEnd(s)         == [s EXCEPT !.index = LMax(0, s.n - 1)]
LPageDown(s, h) == [s EXCEPT !.index = LMax(0, LMin(s.n - 1, s.index + h))]
LPageUp(s, h)   == [s EXCEPT !.index = LMax(0, s.index - h)]
LSetItems(s, n) == [s EXCEPT !.n = n, !.index = LMax(0, LMin(n - 1, s.index))]

(* Draw into a window of h rows: follow the index with the offset, then     *)
(* print items[offset:] one per row (rows beyond the window are clipped).   *)
LDraw(s, h) ==
  LET off1 == IF s.index >= s.offset + h THEN s.index - h + 1
              ELSE IF s.index < s.offset THEN s.index ELSE s.offset
      off  == IF off1 > s.n THEN s.n ELSE off1
  IN IF off < 0 \/ off > s.n THEN [s EXCEPT !.offset = off, !.crashed = TRUE]
     ELSE [s EXCEPT !.offset = off,
                    !.kids = [r \in 1..LMin(h, s.n - off) |-> [i |-> off + r - 1, row |-> r - 1, h |-> 1]]]
=============================================================================
