------------------------------ MODULE DynList ------------------------------
(* IMPLEMENTATION-SHAPED (no verdicts): transcription of the builder-driven *)
(* list (vxfw/list Dynamic): cursor, top index, line offset into the top    *)
(* item, pending scroll, wants-cursor flag; Draw lays items out downward    *)
(* from the top item, inserts items above it after an upward scroll and     *)
(* re-anchors to show the cursor.  hs[i+1] is the height the builder's item *)
(* i draws at; the builder has no item for i >= Len(hs).  Indexing an empty *)
(* child list sets crashed.  (The cursor gutter is not modelled: it does    *)
(* not move anything.)  Transcribed WITH the two repairs proposed in         *)
(* notes/proposed-fixes/c19-1.diff (Draw selects the last existing item when *)
(* the cursored one does not exist) and c19-2.diff (the top item is the one  *)
(* whose rows or trailing gap cover viewport row 0).                         *)
EXTENDS Integers, Sequences

DNew(hs, gap) == [hs |-> hs, gap |-> gap, cursor |-> 0, top |-> 0, offset |-> 0, pending |-> 0,
                  wants |-> FALSE, crashed |-> FALSE, kids |-> <<>>]
N(s) == Len(s.hs)
Kid(i, row, h) == [i |-> i, row |-> row, h |-> h]

EnsureScroll(s) ==
  LET s1 == [s EXCEPT !.pending = 0] IN
  IF s1.cursor > s1.top THEN [s1 EXCEPT !.wants = TRUE]
  ELSE [s1 EXCEPT !.top = s1.cursor, !.offset = 0]

DNext(s) == IF s.cursor + 1 < N(s) THEN EnsureScroll([s EXCEPT !.cursor = s.cursor + 1]) ELSE s
DPrev(s) == IF s.cursor > 0 /\ s.cursor - 1 < N(s) THEN EnsureScroll([s EXCEPT !.cursor = s.cursor - 1]) ELSE s
DSetCursor(s, c) == EnsureScroll([s EXCEPT !.cursor = c])
DSetPending(s, k) == [s EXCEPT !.pending = k]
DWheelDown(s) == [s EXCEPT !.pending = s.pending + 3]
DWheelUp(s) == IF s.offset > 0 /\ s.top > 0 THEN [s EXCEPT !.pending = s.pending - 3] ELSE s
DReplace(s, hs) == [s EXCEPT !.hs = hs]

(* insertChildren: starting at item top-1, stack items above row ah until   *)
(* row 0 is covered.  Returns [kids, top, ah].                              *)
RECURSIVE InsertUp(_, _, _, _)
InsertUp(s, top, ah, kids) ==
  IF ah <= 0 \/ top >= N(s) THEN [kids |-> kids, top |-> top, ah |-> ah]
  ELSE LET h   == s.hs[top + 1]
           ah1 == ah - (h + s.gap)
           k1  == <<Kid(top, ah1, h)>> \o kids
       IN IF top = 0 \/ ah1 <= 0 THEN [kids |-> k1, top |-> top, ah |-> ah1]
          ELSE InsertUp(s, top - 1, ah1, k1)

RECURSIVE Relay(_, _, _, _)          \* rows re-assigned from 0 downward
Relay(kids, gap, j, row) ==
  IF j > Len(kids) THEN <<>>
  ELSE <<[kids[j] EXCEPT !.row = row]>> \o Relay(kids, gap, j + 1, row + kids[j].h + gap)

(* the downward loop from item i at row ah *)
RECURSIVE Down(_, _, _, _, _)
Down(s, H, i, ah, kids) ==
  IF i >= N(s) THEN kids
  ELSE LET h   == s.hs[i + 1]
           k1  == Append(kids, Kid(i, ah, h))
           ah1 == ah + h + s.gap
       IN IF s.wants /\ i + 1 <= s.cursor THEN Down(s, H, i + 1, ah1, k1)
          ELSE IF ah1 >= H THEN k1
          ELSE Down(s, H, i + 1, ah1, k1)

Shift(kids, adj) == [j \in 1..Len(kids) |-> [kids[j] EXCEPT !.row = kids[j].row + adj]]

(* re-anchor on the cursor, then remember which item covers row 0 *)
Finish(s, H, kids0) ==
  LET idx == s.cursor - s.top
      have == s.wants /\ s.cursor >= s.top /\ idx < Len(kids0)
      ch  == kids0[idx + 1]
      kids1 == IF ~have THEN kids0
               ELSE IF ch.row + ch.h > H THEN Shift(kids0, H - (ch.row + ch.h))
               ELSE IF ch.row < 0 THEN Shift(kids0, -ch.row)
               ELSE kids0
      cover == {j \in 1..Len(kids1) : kids1[j].row <= 0 /\ kids1[j].row + kids1[j].h + s.gap > 0}
      j0 == CHOOSE j \in cover : \A j2 \in cover : j <= j2
  IN [s EXCEPT !.wants = IF have THEN FALSE ELSE s.wants,
               !.kids = kids1,
               !.top = IF cover = {} THEN s.top ELSE s.top + (j0 - 1),
               !.offset = IF cover = {} THEN s.offset ELSE -kids1[j0].row]

DDraw(sIn, H) ==
  LET \* the cursored item may not exist: select the last one that does and bring it into view
      sC  == IF sIn.cursor > 0 /\ sIn.cursor >= N(sIn)
             THEN EnsureScroll([sIn EXCEPT !.cursor = IF N(sIn) > 0 THEN N(sIn) - 1 ELSE 0]) ELSE sIn
      \* the top item may be gone: fall back to the last one that exists
      s0  == IF sC.top > 0 /\ sC.top >= N(sC)
             THEN [sC EXCEPT !.top = IF N(sC) > 0 THEN N(sC) - 1 ELSE 0, !.offset = 0] ELSE sC
      ahA == -(s0.offset + s0.pending)
      s1  == [s0 EXCEPT !.pending = 0]
      atTop == ahA > 0 /\ s1.top = 0
      ahB == IF atTop THEN 0 ELSE ahA
      s2  == IF atTop THEN [s1 EXCEPT !.offset = 0] ELSE s1
      i   == s2.top
  IN
  IF ahB > 0 THEN
     LET ins == InsertUp(s2, s2.top - 1, ahB, <<>>)
         hitTop == ins.top = 0 /\ ins.ah > 0
         kidsUp == IF hitTop THEN Relay(ins.kids, s2.gap, 1, 0) ELSE ins.kids
         s3 == [s2 EXCEPT !.top = ins.top, !.offset = IF hitTop THEN 0 ELSE ins.ah]
     IN IF kidsUp = <<>> THEN [s3 EXCEPT !.crashed = TRUE]
        ELSE LET last == kidsUp[Len(kidsUp)]
             IN Finish(s3, H, Down(s3, H, i, last.row + last.h + s3.gap, kidsUp))
  ELSE Finish(s2, H, Down(s2, H, i, ahB, <<>>))

=============================================================================
